(* FLockSeq.v — C12: FileLock obeys the Lock/RLock contract and leaves no residue on
   failure.  Part 1: consequences of the single-call analyses (FLockAcq.v, FLockRel.v)
   for every reachable state and EVERY fault script.  Part 2: refinement of the
   abstract spec (FLockSpec.v) by sequences of calls.                              *)
From Coq Require Import List Arith NArith Bool Lia ZifyBool ZifyN.
Import ListNotations.
Require Import Aiuti.FLock Aiuti.FLockInv Aiuti.FLockSpec Aiuti.FLockTL Aiuti.FLockFD Aiuti.FLockMutex
               Aiuti.FLockExec Aiuti.FLockAcq Aiuti.FLockRel.
Local Arguments Nat.max : simpl never.
Arguments upd : simpl never.
Arguments enter_tlrel : simpl never.
Arguments enter_cleanup : simpl never.
Arguments after_attempt : simpl never.
Arguments k_unlock : simpl never.
Arguments k_close : simpl never.
Arguments tl_release : simpl never.
Arguments tl_try : simpl never.
Arguments tl_rel_raises : simpl never.
Arguments normalise : simpl never.
Arguments faulty : simpl never.
Arguments enabled : simpl never.
Arguments step : simpl never.
Arguments run_alone : simpl never.

(* ---------- undoing the thread lock restores the object exactly --------------------------- *)

Lemma restore_eq s t o :
  TL s -> tl_try (objs s o) t <> None ->
  tl_release (set_cnt (acq_obj (objs s o) t) (o_cnt (objs s o))) = objs s o.
Proof.
  intros [HL Hf Hw Htl Hc Hu] Htry. unfold tl_try in Htry.
  destruct (objs s o) as [pr re df fd cn ow de] eqn:E. cbn in *.
  destruct ow as [u|].
  - destruct re; cbn in Htry; [|congruence]. destruct (Nat.eqb_spec u t); [subst u|congruence].
    destruct (Hw o t) as (A & _); [rewrite E; reflexivity|]. rewrite E in A. cbn in A.
    unfold tl_release, acq_obj, set_cnt. cbn. destruct de; [lia|]. reflexivity.
  - destruct (Hf o) as (A & B); [rewrite E; reflexivity|]. rewrite E in A, B. cbn in A, B. subst.
    unfold tl_release, acq_obj, set_cnt. cbn. rewrite andb_false_r. reflexivity.
Qed.

Lemma reach_kernel s : FD s ->
  (forall h, holder s = Some h -> h < nextfd s) /\ (forall d q, fdown s d = Some q -> d < nextfd s).
Proof.
  intros F. split; [|apply (fd_open_lt _ F)]. intros h E. pose proof (fd_holder_open _ F _ E) as A.
  destruct (fdown s h) as [q|] eqn:E2; [|congruence]. apply (fd_open_lt _ F _ _ E2).
Qed.

(* ---------- fail_no_residue ------------------------------------------------------------------- *)

Theorem fail_no_residue_lemma :
  forall ocfg tcfg fl evs t o m blk tm poll skip fuel,
    let s0 := run (init_cfg ocfg tcfg fl) evs in
    viol s0 = false ->
    t_pc (thr s0 t) = PIdle -> dead s0 (t_proc (thr s0 t)) = false ->
    o_proc (objs s0 o) = t_proc (thr s0 t) ->
    let s' := fst (do_call fuel s0 t (CAcq o m blk tm poll skip)) in
    let r := snd (do_call fuel s0 t (CAcq o m blk tm poll skip)) in
    r = RFalse \/ r = RTimeout \/ r = ROSErr ->
    (forall o', objs s' o' = objs s0 o') /\
    (forall d, fdown s' d = fdown s0 d) /\ holder s' = holder s0 /\
    (forall t', t' <> t -> thr s' t' = thr s0 t') /\
    t_pc (thr s' t) = PIdle /\ t_cs (thr s' t) = t_cs (thr s0 t) /\ t_res (thr s' t) = r :: t_res (thr s0 t).
Proof.
  intros ocfg tcfg fl evs t o m blk tm poll skip fuel s0 Hv Hpc Hal Hpr s' r Hr.
  assert (HI : Inv s0) by (apply Inv_run; [apply Inv_init|exact Hv]). destruct HI as [HT HF].
  destruct (reach_kernel _ HF) as [Hh Hfo].
  pose proof (do_acquire_outcome s0 t o m blk tm poll skip fuel Hpc Hal Hpr Hh Hfo) as Out. cbv zeta in Out.
  fold s' r in Out.
  assert (Hfd : forall pend h, Frame s0 t o s' pend h -> pend = None -> forall d, fdown s' d = fdown s0 d).
  { intros pend h F -> d. destruct (Nat.lt_ge_cases d (nextfd s0)) as [L|G].
    - apply (f_fd_old _ _ _ _ _ _ F); auto.
    - rewrite (f_fd_new _ _ _ _ _ _ F) by (auto; discriminate).
      destruct (fdown s0 d) as [q|] eqn:E; auto. apply Hfo in E. lia. }
  assert (Hobj : forall pend h, Frame s0 t o s' pend h -> objs s' o = objs s0 o -> forall o', objs s' o' = objs s0 o').
  { intros pend h F E o'. destruct (Nat.eq_dec o' o) as [->|Hn]; auto. apply (f_obj _ _ _ _ _ _ F); auto. }
  destruct Out as [E|[[E _]|Fin]].
  - rewrite E in Hr. destruct Hr as [|[|]]; discriminate.
  - rewrite E in Hr. destruct Hr as [|[|]]; discriminate.
  - destruct Fin as [E|d E|E Ht F Ho Htry Hb Htm|b E Ht F Ho Hfd0 Htry R1 R2 Htm].
    + rewrite E in Hr. destruct Hr as [|[|]]; discriminate.
    + rewrite E in Hr. destruct Hr as [|[|]]; discriminate.
    + repeat split; eauto.
      * apply (f_holder _ _ _ _ _ _ F).
      * apply (f_thr _ _ _ _ _ _ F).
      * now rewrite Ht.
      * now rewrite Ht.
      * now rewrite Ht.
    + assert (Ho' : objs s' o = objs s0 o) by (rewrite Ho; apply restore_eq; auto).
      repeat split; eauto.
      * apply (f_holder _ _ _ _ _ _ F).
      * apply (f_thr _ _ _ _ _ _ F).
      * now rewrite Ht.
      * now rewrite Ht.
      * now rewrite Ht.
Qed.

(* ---------- elapsed time ------------------------------------------------------------------------ *)

Lemma Final_time s0 t o m b' tm' poll s' r : Final s0 t o m b' tm' poll s' r -> time_fin s0 b' tm' poll s'.
Proof. intros [| | |]; auto. Qed.

Theorem nonblocking_immediate_lemma :
  forall ocfg tcfg fl evs t o m blk tm poll skip fuel,
    let s0 := run (init_cfg ocfg tcfg fl) evs in
    viol s0 = false ->
    t_pc (thr s0 t) = PIdle -> dead s0 (t_proc (thr s0 t)) = false ->
    o_proc (objs s0 o) = t_proc (thr s0 t) ->
    let s' := fst (do_call fuel s0 t (CAcq o m blk tm poll skip)) in
    let r := snd (do_call fuel s0 t (CAcq o m blk tm poll skip)) in
    fst (normalise (objs s0 o) blk tm) = false -> r <> ROutOfFuel ->
    now s' = now s0 /\ r <> RWouldBlock.
Proof.
  intros ocfg tcfg fl evs t o m blk tm poll skip fuel s0 Hv Hpc Hal Hpr s' r Hb Hr.
  assert (HI : Inv s0) by (apply Inv_run; [apply Inv_init|exact Hv]). destruct HI as [HT HF].
  destruct (reach_kernel _ HF) as [Hh Hfo].
  pose proof (do_acquire_outcome s0 t o m blk tm poll skip fuel Hpc Hal Hpr Hh Hfo) as Out. cbv zeta in Out.
  fold s' r in Out. destruct Out as [E|[[E B]|Fin]]; [congruence| |].
  - exfalso. destruct B; congruence.
  - destruct (Final_time _ _ _ _ _ _ _ _ _ Fin) as (_ & A & _). split; auto.
    destruct Fin as [E|d E|E|b E]; try congruence. destruct m; cbn in E; congruence. destruct b, m; cbn in E; congruence.
Qed.

Theorem timed_bound_lemma :
  forall ocfg tcfg fl evs t o m blk tm poll skip fuel T,
    let s0 := run (init_cfg ocfg tcfg fl) evs in
    viol s0 = false ->
    t_pc (thr s0 t) = PIdle -> dead s0 (t_proc (thr s0 t)) = false ->
    o_proc (objs s0 o) = t_proc (thr s0 t) ->
    let s' := fst (do_call fuel s0 t (CAcq o m blk tm poll skip)) in
    let r := snd (do_call fuel s0 t (CAcq o m blk tm poll skip)) in
    snd (normalise (objs s0 o) blk tm) = TVal T -> r <> ROutOfFuel ->
    (now s' <= now s0 + T + T + poll)%N /\ r <> RWouldBlock.
Proof.
  intros ocfg tcfg fl evs t o m blk tm poll skip fuel T s0 Hv Hpc Hal Hpr s' r Hb Hr.
  assert (HI : Inv s0) by (apply Inv_run; [apply Inv_init|exact Hv]). destruct HI as [HT HF].
  destruct (reach_kernel _ HF) as [Hh Hfo].
  pose proof (do_acquire_outcome s0 t o m blk tm poll skip fuel Hpc Hal Hpr Hh Hfo) as Out. cbv zeta in Out.
  fold s' r in Out. destruct Out as [E|[[E B]|Fin]]; [congruence| |].
  - exfalso. destruct B as [a _ _ Z _|a d _ _ Z _ _ _]; unfold timed_T in Z; rewrite Hb in Z; discriminate.
  - destruct (Final_time _ _ _ _ _ _ _ _ _ Fin) as (_ & _ & A). split; auto.
    destruct Fin as [E|d E|E|b E]; try congruence. destruct m; cbn in E; congruence. destruct b, m; cbn in E; congruence.
Qed.

(* ---------- release_faults ------------------------------------------------------------------------ *)

Lemma rel_loop_full k : forall ob t, o_own ob = Some t -> 1 <= o_dep ob <= k -> (o_reent ob = false -> o_dep ob = 1) ->
  o_own (rel_loop k ob t) = None /\ o_dep (rel_loop k ob t) = 0 /\
  o_fd (rel_loop k ob t) = o_fd ob /\ o_cnt (rel_loop k ob t) = o_cnt ob /\
  o_proc (rel_loop k ob t) = o_proc ob /\ o_reent (rel_loop k ob t) = o_reent ob /\ o_dflt (rel_loop k ob t) = o_dflt ob.
Proof.
  induction k as [|k IH]; intros ob t Ho Hd Hnr; [lia|]. cbn [rel_loop]. rewrite (raises_own _ _ Ho).
  destruct (tl_release_cases ob) as [(R & D & E)|(C & E)]; rewrite E.
  - destruct (IH (mkobj (o_proc ob) (o_reent ob) (o_dflt ob) (o_fd ob) (o_cnt ob) (o_own ob) (pred (o_dep ob))) t) as (A1 & A2 & A3 & A4 & A5 & A6 & A7);
      cbn; auto; try lia; try (intros Z; congruence). cbn in *. auto 10.
  - destruct k; cbn; auto 10.
Qed.

Theorem release_faults_lemma :
  forall ocfg tcfg fl evs t o d force fuel,
    let s0 := run (init_cfg ocfg tcfg fl) evs in
    viol s0 = false ->
    t_pc (thr s0 t) = PIdle -> dead s0 (t_proc (thr s0 t)) = false ->
    o_fd (objs s0 o) = Some d -> o_own (objs s0 o) = Some t ->
    (o_cnt (objs s0 o) <= 1 \/ force = true) ->
    o_cnt (objs s0 o) + 4 <= fuel ->
    let s' := fst (do_call fuel s0 t (CRel o force)) in
    snd (do_call fuel s0 t (CRel o force)) = RNone /\
    o_fd (objs s' o) = None /\ o_cnt (objs s' o) = 0 /\ fdown s' d = None /\ holder s' <> Some d /\
    t_pc (thr s' t) = PIdle /\
    (forall o', o' <> o -> objs s' o' = objs s0 o') /\ (forall t', t' <> t -> thr s' t' = thr s0 t') /\
    (forall d', d' <> d -> fdown s' d' = fdown s0 d') /\
    (o_dep (objs s0 o) = o_cnt (objs s0 o) -> o_own (objs s' o) = None /\ o_dep (objs s' o) = 0).
Proof.
  intros ocfg tcfg fl evs t o d force fuel s0 Hv Hpc Hal Hfd Hown Hc Hfu s'.
  assert (HI : Inv s0) by (apply Inv_run; [apply Inv_init|exact Hv]). destruct HI as [HT HF].
  destruct (do_release_outcome s0 t o Hal force fuel Hpc Hfu) as (s1 & E & F & P1 & P2 & P3 & Post).
  unfold s'. rewrite E. cbn [fst snd]. unfold rel_post in Post. rewrite Hfd in Post.
  assert (Hfin : Nat.eqb (pred (o_cnt (objs s0 o))) 0 || force = true).
  { destruct Hc as [Hc| ->]; [|apply orb_true_r]. destruct (o_cnt (objs s0 o)) as [|[|n]]; cbn; auto. lia. }
  rewrite Hfin in Post. destruct Post as (Po & Ph & Pf).
  set (k := Nat.max 1 (if force then o_cnt (objs s0 o) else 1)) in *.
  set (ob1 := mkobj (o_proc (objs s0 o)) (o_reent (objs s0 o)) (o_dflt (objs s0 o)) None 0 (o_own (objs s0 o)) (o_dep (objs s0 o))) in *.
  destruct (TL_own _ _ _ HT Hown) as (_ & Hd1 & Hnr & Hcd & _).
  assert (Hgen : o_fd (rel_loop k ob1 t) = None /\ o_cnt (rel_loop k ob1 t) = 0).
  { clear Po. generalize ob1 (eq_refl : o_fd ob1 = None) (eq_refl : o_cnt ob1 = 0). clear ob1. generalize k. clear.
    induction k as [|k IH]; intros ob A B; cbn [rel_loop]; auto. destruct (tl_rel_raises ob t); auto.
    apply IH; destruct (tl_release_cases ob) as [(_ & _ & ->)|(_ & ->)]; auto. }
  split; [reflexivity|]. rewrite Po. destruct Hgen as [G1 G2].
  split; [exact G1|]. split; [exact G2|]. split; [rewrite Pf, Nat.eqb_refl; reflexivity|].
  split.
  { rewrite Ph. unfold unl_holder. destruct (holder s0) as [x|]; [|discriminate].
    destruct (Nat.eqb_spec x d); [discriminate|congruence]. }
  split; [exact P1|]. split; [apply (r_obj _ _ _ _ F)|]. split; [apply (r_thr _ _ _ _ F)|].
  split.
  { intros d' Hn. rewrite Pf. destruct (Nat.eqb_spec d' d); congruence. }
  intros Heq. destruct (rel_loop_full k ob1 t) as (A1 & A2 & _); cbn; auto.
  unfold k. destruct Hc as [Hc| ->]; [destruct force|]; lia.
Qed.
