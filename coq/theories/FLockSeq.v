(* FLockSeq.v — C12: FileLock obeys the Lock/RLock contract and leaves no residue on
   failure.  Part 1: consequences of the single-call analyses (FLockAcq.v, FLockRel.v)
   for every reachable state and EVERY fault script.  Part 2: refinement of the
   abstract spec (FLockSpec.v) by sequences of calls.                              *)
From Coq Require Import List Arith NArith Bool Lia ZifyBool ZifyN.
Import ListNotations.
Require Import Aiuti.FLock Aiuti.FLockInv Aiuti.FLockSpec Aiuti.FLockTL Aiuti.FLockFD Aiuti.FLockMutex
               Aiuti.FLockExec Aiuti.FLockAcq Aiuti.FLockRel.
Local Arguments Nat.max : simpl never.
Arguments upd : simpl never.
Arguments enter_tlrel : simpl never.
Arguments enter_cleanup : simpl never.
Arguments after_attempt : simpl never.
Arguments k_unlock : simpl never.
Arguments k_close : simpl never.
Arguments tl_release : simpl never.
Arguments tl_try : simpl never.
Arguments tl_rel_raises : simpl never.
Arguments normalise : simpl never.
Arguments faulty : simpl never.
Arguments intr : simpl never.
Arguments enabled : simpl never.
Arguments step : simpl never.
Arguments run_alone : simpl never.

(* ---------- undoing the thread lock restores the object exactly --------------------------- *)

Lemma restore_eq s t o :
  TL s -> tl_try (objs s o) t <> None ->
  tl_release (set_cnt (acq_obj (objs s o) t) (o_cnt (objs s o))) = objs s o.
Proof.
  intros [HL Hf Hw Htl Hc Hu] Htry. unfold tl_try in Htry.
  destruct (objs s o) as [pr re df fd cn ow de] eqn:E. cbn in *.
  destruct ow as [u|].
  - destruct re; cbn in Htry; [|congruence]. destruct (Nat.eqb_spec u t); [subst u|congruence].
    destruct (Hw o t) as (A & _); [rewrite E; reflexivity|]. rewrite E in A. cbn in A.
    unfold tl_release, acq_obj, set_cnt. cbn. destruct de; [lia|]. reflexivity.
  - destruct (Hf o) as (A & B); [rewrite E; reflexivity|]. rewrite E in A, B. cbn in A, B. subst.
    unfold tl_release, acq_obj, set_cnt. cbn. rewrite andb_false_r. reflexivity.
Qed.

Lemma reach_kernel s : FD s ->
  (forall h, holder s = Some h -> h < nextfd s) /\ (forall d q, fdown s d = Some q -> d < nextfd s).
Proof.
  intros F. split; [|apply (fd_open_lt _ F)]. intros h E. pose proof (fd_holder_open _ F _ E) as A.
  destruct (fdown s h) as [q|] eqn:E2; [|congruence]. apply (fd_open_lt _ F _ _ E2).
Qed.

(* ---------- fail_no_residue ------------------------------------------------------------------- *)

Theorem fail_no_residue_lemma :
  forall ocfg tcfg fl evs t o m blk tm poll skip fuel,
    let s0 := run (init_cfg ocfg tcfg fl) evs in
    viol s0 = false ->
    t_pc (thr s0 t) = PIdle -> dead s0 (t_proc (thr s0 t)) = false ->
    o_proc (objs s0 o) = t_proc (thr s0 t) ->
    let s' := fst (do_call fuel s0 t (CAcq o m blk tm poll skip)) in
    let r := snd (do_call fuel s0 t (CAcq o m blk tm poll skip)) in
    r = RFalse \/ r = RTimeout \/ r = ROSErr ->
    (forall o', objs s' o' = objs s0 o') /\
    (forall d, fdown s' d = fdown s0 d) /\ holder s' = holder s0 /\
    (forall t', t' <> t -> thr s' t' = thr s0 t') /\
    t_pc (thr s' t) = PIdle /\ t_cs (thr s' t) = t_cs (thr s0 t) /\ t_res (thr s' t) = r :: t_res (thr s0 t).
Proof.
  intros ocfg tcfg fl evs t o m blk tm poll skip fuel s0 Hv Hpc Hal Hpr s' r Hr.
  assert (HI : Inv s0) by (apply Inv_run; [apply Inv_init|exact Hv]). destruct HI as [HT HF].
  destruct (reach_kernel _ HF) as [Hh Hfo].
  pose proof (do_acquire_outcome s0 t o m blk tm poll skip fuel Hpc Hal Hpr Hh Hfo) as Out. cbv zeta in Out.
  fold s' r in Out.
  assert (Hfd : forall pend h, Frame s0 t o s' pend h -> pend = None -> forall d, fdown s' d = fdown s0 d).
  { intros pend h F -> d. destruct (Nat.lt_ge_cases d (nextfd s0)) as [L|G].
    - apply (f_fd_old _ _ _ _ _ _ F); auto.
    - rewrite (f_fd_new _ _ _ _ _ _ F) by (auto; discriminate).
      destruct (fdown s0 d) as [q|] eqn:E; auto. apply Hfo in E. lia. }
  assert (Hobj : forall pend h, Frame s0 t o s' pend h -> objs s' o = objs s0 o -> forall o', objs s' o' = objs s0 o').
  { intros pend h F E o'. destruct (Nat.eq_dec o' o) as [->|Hn]; auto. apply (f_obj _ _ _ _ _ _ F); auto. }
  destruct Out as [E|[[E _]|Fin]].
  - rewrite E in Hr. destruct Hr as [|[|]]; discriminate.
  - rewrite E in Hr. destruct Hr as [|[|]]; discriminate.
  - destruct Fin as [E|d E|E Ht F Ho Htry Hb Htm|b E Ht F Ho Hfd0 Htry R1 R2 Htm].
    + rewrite E in Hr. destruct Hr as [|[|]]; discriminate.
    + rewrite E in Hr. destruct Hr as [|[|]]; discriminate.
    + repeat split; eauto.
      * apply (f_holder _ _ _ _ _ _ F).
      * apply (f_thr _ _ _ _ _ _ F).
      * now rewrite Ht.
      * now rewrite Ht.
      * now rewrite Ht.
    + assert (Ho' : objs s' o = objs s0 o) by (rewrite Ho; apply restore_eq; auto).
      repeat split; eauto.
      * apply (f_holder _ _ _ _ _ _ F).
      * apply (f_thr _ _ _ _ _ _ F).
      * now rewrite Ht.
      * now rewrite Ht.
      * now rewrite Ht.
Qed.

(* ---------- elapsed time ------------------------------------------------------------------------ *)

Lemma Final_time s0 t o m b' tm' poll s' r : Final s0 t o m b' tm' poll s' r -> time_fin s0 b' tm' poll s'.
Proof. intros [| | |]; auto. Qed.

Theorem nonblocking_immediate_lemma :
  forall ocfg tcfg fl evs t o m blk tm poll skip fuel,
    let s0 := run (init_cfg ocfg tcfg fl) evs in
    viol s0 = false ->
    t_pc (thr s0 t) = PIdle -> dead s0 (t_proc (thr s0 t)) = false ->
    o_proc (objs s0 o) = t_proc (thr s0 t) ->
    let s' := fst (do_call fuel s0 t (CAcq o m blk tm poll skip)) in
    let r := snd (do_call fuel s0 t (CAcq o m blk tm poll skip)) in
    fst (normalise (objs s0 o) blk tm) = false -> r <> ROutOfFuel ->
    now s' = now s0 /\ r <> RWouldBlock.
Proof.
  intros ocfg tcfg fl evs t o m blk tm poll skip fuel s0 Hv Hpc Hal Hpr s' r Hb Hr.
  assert (HI : Inv s0) by (apply Inv_run; [apply Inv_init|exact Hv]). destruct HI as [HT HF].
  destruct (reach_kernel _ HF) as [Hh Hfo].
  pose proof (do_acquire_outcome s0 t o m blk tm poll skip fuel Hpc Hal Hpr Hh Hfo) as Out. cbv zeta in Out.
  fold s' r in Out. destruct Out as [E|[[E B]|Fin]]; [congruence| |].
  - exfalso. destruct B; congruence.
  - destruct (Final_time _ _ _ _ _ _ _ _ _ Fin) as (_ & A & _). split; auto.
    destruct Fin as [E|d E|E|b E]; try congruence. destruct m; cbn in E; congruence. destruct b, m; cbn in E; congruence.
Qed.

Theorem timed_bound_lemma :
  forall ocfg tcfg fl evs t o m blk tm poll skip fuel T,
    let s0 := run (init_cfg ocfg tcfg fl) evs in
    viol s0 = false ->
    t_pc (thr s0 t) = PIdle -> dead s0 (t_proc (thr s0 t)) = false ->
    o_proc (objs s0 o) = t_proc (thr s0 t) ->
    let s' := fst (do_call fuel s0 t (CAcq o m blk tm poll skip)) in
    let r := snd (do_call fuel s0 t (CAcq o m blk tm poll skip)) in
    snd (normalise (objs s0 o) blk tm) = TVal T -> r <> ROutOfFuel ->
    (now s' <= now s0 + T + T + poll)%N /\ r <> RWouldBlock.
Proof.
  intros ocfg tcfg fl evs t o m blk tm poll skip fuel T s0 Hv Hpc Hal Hpr s' r Hb Hr.
  assert (HI : Inv s0) by (apply Inv_run; [apply Inv_init|exact Hv]). destruct HI as [HT HF].
  destruct (reach_kernel _ HF) as [Hh Hfo].
  pose proof (do_acquire_outcome s0 t o m blk tm poll skip fuel Hpc Hal Hpr Hh Hfo) as Out. cbv zeta in Out.
  fold s' r in Out. destruct Out as [E|[[E B]|Fin]]; [congruence| |].
  - exfalso. destruct B as [a _ _ Z _|a d _ _ Z _ _ _]; unfold timed_T in Z; rewrite Hb in Z; discriminate.
  - destruct (Final_time _ _ _ _ _ _ _ _ _ Fin) as (_ & _ & A & _). split; auto.
    destruct Fin as [E|d E|E|b E]; try congruence. destruct m; cbn in E; congruence. destruct b, m; cbn in E; congruence.
Qed.

(* the call's thread running alone (one call at a time): at most one of the two stages waits *)
Theorem timed_bound_alone_lemma :
  forall ocfg tcfg fl evs t o m blk tm poll skip fuel T,
    let s0 := run (init_cfg ocfg tcfg fl) evs in
    viol s0 = false ->
    t_pc (thr s0 t) = PIdle -> dead s0 (t_proc (thr s0 t)) = false ->
    o_proc (objs s0 o) = t_proc (thr s0 t) ->
    let s' := fst (do_call fuel s0 t (CAcq o m blk tm poll skip)) in
    let r := snd (do_call fuel s0 t (CAcq o m blk tm poll skip)) in
    snd (normalise (objs s0 o) blk tm) = TVal T -> r <> ROutOfFuel ->
    (now s' <= now s0 + T + poll)%N /\ r <> RWouldBlock.
Proof.
  intros ocfg tcfg fl evs t o m blk tm poll skip fuel T s0 Hv Hpc Hal Hpr s' r Hb Hr.
  assert (HI : Inv s0) by (apply Inv_run; [apply Inv_init|exact Hv]). destruct HI as [HT HF].
  destruct (reach_kernel _ HF) as [Hh Hfo].
  pose proof (do_acquire_outcome s0 t o m blk tm poll skip fuel Hpc Hal Hpr Hh Hfo) as Out. cbv zeta in Out.
  fold s' r in Out. destruct Out as [E|[[E B]|Fin]]; [congruence| |].
  - exfalso. destruct B as [a _ _ Z _|a d _ _ Z _ _ _]; unfold timed_T in Z; rewrite Hb in Z; discriminate.
  - destruct (Final_time _ _ _ _ _ _ _ _ _ Fin) as (_ & _ & _ & A). split; auto.
    destruct Fin as [E|d E|E|b E]; try congruence. destruct m; cbn in E; congruence. destruct b, m; cbn in E; congruence.
Qed.

(* ---------- release_faults ------------------------------------------------------------------------ *)

Lemma rel_loop_full k : forall ob t, o_own ob = Some t -> 1 <= o_dep ob <= k -> (o_reent ob = false -> o_dep ob = 1) ->
  o_own (rel_loop k ob t) = None /\ o_dep (rel_loop k ob t) = 0 /\
  o_fd (rel_loop k ob t) = o_fd ob /\ o_cnt (rel_loop k ob t) = o_cnt ob /\
  o_proc (rel_loop k ob t) = o_proc ob /\ o_reent (rel_loop k ob t) = o_reent ob /\ o_dflt (rel_loop k ob t) = o_dflt ob.
Proof.
  induction k as [|k IH]; intros ob t Ho Hd Hnr; [lia|]. cbn [rel_loop]. rewrite (raises_own _ _ Ho).
  destruct (tl_release_cases ob) as [(R & D & E)|(C & E)]; rewrite E.
  - destruct (IH (mkobj (o_proc ob) (o_reent ob) (o_dflt ob) (o_fd ob) (o_cnt ob) (o_own ob) (pred (o_dep ob))) t) as (A1 & A2 & A3 & A4 & A5 & A6 & A7);
      cbn; auto; try lia; try (intros Z; congruence). cbn in *. auto 10.
  - destruct k; cbn; auto 10.
Qed.

Theorem release_faults_lemma :
  forall ocfg tcfg fl evs t o d force fuel,
    let s0 := run (init_cfg ocfg tcfg fl) evs in
    viol s0 = false ->
    t_pc (thr s0 t) = PIdle -> dead s0 (t_proc (thr s0 t)) = false ->
    o_fd (objs s0 o) = Some d -> o_own (objs s0 o) = Some t ->
    (o_cnt (objs s0 o) <= 1 \/ force = true) ->
    o_cnt (objs s0 o) + 4 <= fuel ->
    let s' := fst (do_call fuel s0 t (CRel o force)) in
    snd (do_call fuel s0 t (CRel o force)) = RNone /\
    o_fd (objs s' o) = None /\ o_cnt (objs s' o) = 0 /\ fdown s' d = None /\ holder s' <> Some d /\
    t_pc (thr s' t) = PIdle /\
    (forall o', o' <> o -> objs s' o' = objs s0 o') /\ (forall t', t' <> t -> thr s' t' = thr s0 t') /\
    (forall d', d' <> d -> fdown s' d' = fdown s0 d') /\
    (o_dep (objs s0 o) = o_cnt (objs s0 o) -> o_own (objs s' o) = None /\ o_dep (objs s' o) = 0).
Proof.
  intros ocfg tcfg fl evs t o d force fuel s0 Hv Hpc Hal Hfd Hown Hc Hfu s'.
  assert (HI : Inv s0) by (apply Inv_run; [apply Inv_init|exact Hv]). destruct HI as [HT HF].
  destruct (do_release_outcome s0 t o Hal force fuel Hpc Hfu) as (s1 & E & F & P1 & P0 & P2 & P3 & Post).
  unfold s'. rewrite E. cbn [fst snd]. unfold rel_post in Post. rewrite Hfd in Post.
  assert (Hfin : Nat.eqb (pred (o_cnt (objs s0 o))) 0 || force = true).
  { destruct Hc as [Hc| ->]; [|apply orb_true_r]. destruct (o_cnt (objs s0 o)) as [|[|n]]; cbn; auto. lia. }
  rewrite Hfin in Post. destruct Post as (Po & Ph & Pf).
  set (k := Nat.max 1 (if force then o_cnt (objs s0 o) else 1)) in *.
  set (ob1 := mkobj (o_proc (objs s0 o)) (o_reent (objs s0 o)) (o_dflt (objs s0 o)) None 0 (o_own (objs s0 o)) (o_dep (objs s0 o))) in *.
  destruct (TL_own _ _ _ HT Hown) as (_ & Hd1 & Hnr & Hcd & _).
  assert (Hgen : o_fd (rel_loop k ob1 t) = None /\ o_cnt (rel_loop k ob1 t) = 0).
  { clear Po. generalize ob1 (eq_refl : o_fd ob1 = None) (eq_refl : o_cnt ob1 = 0). clear ob1. generalize k. clear.
    induction k as [|k IH]; intros ob A B; cbn [rel_loop]; auto. destruct (tl_rel_raises ob t); auto.
    apply IH; destruct (tl_release_cases ob) as [(_ & _ & ->)|(_ & ->)]; auto. }
  split; [reflexivity|]. rewrite Po. destruct Hgen as [G1 G2].
  split; [exact G1|]. split; [exact G2|]. split; [rewrite Pf, Nat.eqb_refl; reflexivity|].
  split.
  { rewrite Ph. unfold unl_holder. destruct (holder s0) as [x|]; [|discriminate].
    destruct (Nat.eqb_spec x d); [discriminate|congruence]. }
  split; [exact P1|]. split; [apply (r_obj _ _ _ _ F)|]. split; [apply (r_thr _ _ _ _ F)|].
  split.
  { intros d' Hn. rewrite Pf. destruct (Nat.eqb_spec d' d); congruence. }
  intros Heq. destruct (rel_loop_full k ob1 t) as (A1 & A2 & _); cbn; auto.
  unfold k. destruct Hc as [Hc| ->]; [destruct force|]; lia.
Qed.

(* ================================================================================================ *)
(* Part 2: sequences of calls refine the abstract Lock/RLock spec (no OSError scripted)              *)
(* ================================================================================================ *)
Require Import Aiuti.FLockTerm.

Definition norm' (dflt : tmo) (blk : bool) (tm : tmo) : bool * tmo := normalise (obj0 0 false dflt) blk tm.

Lemma normalise_norm' ob blk tm : normalise ob blk tm = norm' (o_dflt ob) blk tm.
Proof. unfold norm', normalise. destruct tm; reflexivity. Qed.

Lemma waits_forever_norm dflt blk tm :
  waits_forever dflt blk tm = fst (norm' dflt blk tm) && match snd (norm' dflt blk tm) with TVal _ => false | _ => true end.
Proof. unfold waits_forever, norm', normalise. destruct tm, blk, dflt; reflexivity. Qed.

Lemma restore_obj ob t :
  (o_own ob = None -> o_dep ob = 0) -> (forall u, o_own ob = Some u -> 1 <= o_dep ob) ->
  tl_try ob t <> None -> tl_release (set_cnt (acq_obj ob t) (o_cnt ob)) = ob.
Proof.
  intros Hf Hw Htry. unfold tl_try in Htry. destruct ob as [pr re df fd cn ow de]. cbn in *.
  destruct ow as [u|].
  - destruct re; cbn in Htry; [|congruence]. destruct (Nat.eqb_spec u t); [subst u|congruence].
    specialize (Hw t eq_refl). unfold tl_release, acq_obj, set_cnt. cbn. destruct de; [lia|]. reflexivity.
  - rewrite (Hf eq_refl). unfold tl_release, acq_obj, set_cnt. cbn. rewrite andb_false_r. reflexivity.
Qed.

Section Refine.
Variables (reent : oid -> bool) (dflt : oid -> tmo) (oproc : oid -> pid) (tproc : tid -> pid).

Definition pristine (ob : obj) : Prop := o_fd ob = None /\ o_own ob = None /\ o_cnt ob = 0 /\ o_dep ob = 0.

(* representation invariant + abstraction, for the states between two calls *)
Record Rq (s : state) (st : sstate) : Prop := mkRq {
  q_thr : forall t, t_pc (thr s t) = PIdle /\ t_proc (thr s t) = tproc t;
  q_dead : forall p, dead s p = false;
  q_faults : faults s = [];
  q_cfg : forall o, o_proc (objs s o) = oproc o /\ o_reent (objs s o) = reent o /\ o_dflt (objs s o) = dflt o;
  q_kern : (forall h, holder s = Some h -> h < nextfd s) /\ (forall d q, fdown s d = Some q -> d < nextfd s);
  q_fds : forall d q, fdown s d = Some q -> holder s = Some d;     (* no descriptor is open except the holder's *)
  q_hopen : forall h, holder s = Some h -> fdown s h <> None;
  q_abs : match st with
          | None => holder s = None /\ forall o, pristine (objs s o)
          | Some (o, t, d) =>
              1 <= d /\ (reent o = false -> d = 1) /\
              (exists fd, o_fd (objs s o) = Some fd /\ holder s = Some fd) /\
              o_own (objs s o) = Some t /\ o_cnt (objs s o) = d /\ o_dep (objs s o) = d /\
              forall o', o' <> o -> pristine (objs s o')
          end
}.

Definition depth (st : sstate) : nat := match st with Some (_, _, d) => d | None => 0 end.

Lemma tl_try_pristine ob t : pristine ob -> tl_try ob t <> None.
Proof. intros (_ & A & _). unfold tl_try. rewrite A. discriminate. Qed.

Lemma tl_try_held ob t u : o_own ob = Some u ->
  (tl_try ob t <> None <-> (o_reent ob = true /\ u = t)).
Proof.
  intros A. unfold tl_try. rewrite A. destruct (o_reent ob); cbn; [|split; [congruence|intros [? _]; discriminate]].
  destruct (Nat.eqb_spec u t); split; auto; try congruence; try discriminate. intros [_ ?]. congruence.
Qed.

Lemma spec_no_cases d m blk tm :
  spec_no d m blk tm = if fst (norm' d blk tm) && match snd (norm' d blk tm) with TVal _ => false | _ => true end
                       then RWouldBlock else fail_result m.
Proof. unfold spec_no. now rewrite waits_forever_norm. Qed.

(* Rq after an acquire/release that changed only object o and thread t *)
Lemma Rq_frame s s' st st' t o pend h :
  Rq s st -> Frame s t o s' pend h ->
  t_pc (thr s' t) = PIdle -> t_proc (thr s' t) = tproc t ->
  o_proc (objs s' o) = oproc o /\ o_reent (objs s' o) = reent o /\ o_dflt (objs s' o) = dflt o ->
  (forall hh, h = Some hh -> hh < nextfd s') ->
  (forall d q, fdown s' d = Some q -> h = Some d) ->
  (forall hh, h = Some hh -> fdown s' hh <> None) ->
  match st' with
  | None => h = None /\ forall o', pristine (objs s' o')
  | Some (o1, t1, d1) =>
      1 <= d1 /\ (reent o1 = false -> d1 = 1) /\
      (exists fd, o_fd (objs s' o1) = Some fd /\ h = Some fd) /\
      o_own (objs s' o1) = Some t1 /\ o_cnt (objs s' o1) = d1 /\ o_dep (objs s' o1) = d1 /\
      forall o', o' <> o1 -> pristine (objs s' o')
  end ->
  Rq s' st'.
Proof.
  intros [Qt Qd Qf Qc [Qk1 Qk2] Qfd Qho Qa] F Hpc Hpr Hcfg Hh Hfds Hhop Habs.
  constructor.
  - intros t'. destruct (Nat.eq_dec t' t) as [->|Hn]; [auto|]. rewrite (f_thr _ _ _ _ _ _ F) by auto. apply Qt.
  - intros p. rewrite (f_dead _ _ _ _ _ _ F). apply Qd.
  - rewrite (f_faults _ _ _ _ _ _ F). exact Qf.
  - intros o'. destruct (Nat.eq_dec o' o) as [->|Hn]; [auto|]. rewrite (f_obj _ _ _ _ _ _ F) by auto. apply Qc.
  - split.
    + intros hh E. apply Hh. rewrite <- E. symmetry. apply (f_holder _ _ _ _ _ _ F).
    + intros d q E. destruct (Nat.lt_ge_cases d (nextfd s)) as [L|G].
      * pose proof (f_next _ _ _ _ _ _ F). lia.
      * destruct pend as [dp|].
        -- destruct (Nat.eq_dec d dp) as [->|Hn]; [apply (f_pend _ _ _ _ _ _ F dp eq_refl)|].
           rewrite (f_fd_new _ _ _ _ _ _ F) in E by (auto; congruence). discriminate.
        -- rewrite (f_fd_new _ _ _ _ _ _ F) in E by (auto; discriminate). discriminate.
  - intros d q E. rewrite (f_holder _ _ _ _ _ _ F). eauto.
  - intros hh E. apply Hhop. rewrite <- E. symmetry. apply (f_holder _ _ _ _ _ _ F).
  - rewrite (f_holder _ _ _ _ _ _ F). exact Habs.
Qed.

Lemma frame_fds_none s t o s' h :
  Frame s t o s' None h -> (forall d q, fdown s d = Some q -> holder s = Some d) ->
  forall d q, fdown s' d = Some q -> holder s = Some d.
Proof.
  intros F Q d q E. destruct (Nat.lt_ge_cases d (nextfd s)) as [L|G].
  - rewrite (f_fd_old _ _ _ _ _ _ F) in E by auto. eauto.
  - rewrite (f_fd_new _ _ _ _ _ _ F) in E by (auto; discriminate). discriminate.
Qed.

Lemma frame_hopen_none s t o s' :
  Frame s t o s' None (holder s) -> (forall h, holder s = Some h -> h < nextfd s) ->
  (forall h, holder s = Some h -> fdown s h <> None) ->
  forall hh, holder s = Some hh -> fdown s' hh <> None.
Proof. intros F K Q hh E. rewrite (f_fd_old _ _ _ _ _ _ F) by auto. auto. Qed.

Lemma fail_result_not_true m : fail_result m <> RTrue /\ fail_result m <> RWouldBlock.
Proof. destruct m; split; discriminate. Qed.

Theorem acq_refines s st t o m blk tm poll skip fuel :
  Rq s st -> oproc o = tproc t ->
  let tm' := snd (norm' (dflt o) blk tm) in
  (forall T, tm' = TVal T -> (1 <= poll)%N) -> acq_fuel tm' poll <= fuel ->
  let res := do_call fuel s t (CAcq o m blk tm poll skip) in
  let sp := spec_acquire st t o (reent o) in
  snd res = (if snd sp then RTrue else spec_no (dflt o) m blk tm) /\
  (snd res <> RWouldBlock -> Rq (fst res) (fst sp)).
Proof.
  intros Q Hsame tm' Hp Hfu res sp. pose proof Q as [Qt Qd Qf Qc [Qk1 Qk2] Qfd Qho Qa].
  destruct (Qt t) as [Hpc Hpr]. destruct (Qc o) as (Co1 & Co2 & Co3).
  assert (Hal : dead s (t_proc (thr s t)) = false) by apply Qd.
  assert (Hpro : o_proc (objs s o) = t_proc (thr s t)) by congruence.
  assert (Enorm : normalise (objs s o) blk tm = norm' (dflt o) blk tm) by (rewrite normalise_norm', Co3; reflexivity).
  pose proof (do_acquire_outcome s t o m blk tm poll skip fuel Hpc Hal Hpro Qk1 Qk2) as Out.
  pose proof (do_acquire_terminates s t o m blk tm poll skip fuel Hpc Hal Hpro Qk1 Qk2 Qf) as Term.
  cbv zeta in Out, Term. rewrite Enorm in Out, Term. fold tm' in Out, Term. specialize (Term Hp Hfu).
  fold res in Out, Term. set (b' := fst (norm' (dflt o) blk tm)) in *.
  rewrite spec_no_cases. fold b' tm'.
  (* what the abstract state says about o, t and the kernel *)
  assert (Hst : match st with
                | None => pristine (objs s o) /\ holder s = None /\ sp = (Some (o, t, 1), true)
                | Some (o1, t1, d1) =>
                    holder s <> None /\
                    ((o = o1 /\ o_fd (objs s o) <> None /\ o_own (objs s o) = Some t1 /\ o_cnt (objs s o) = d1 /\ o_dep (objs s o) = d1 /\
                      sp = (if Nat.eqb t t1 && reent o then (Some (o, t, S d1), true) else (st, false)))
                     \/ (o <> o1 /\ pristine (objs s o) /\ sp = (st, false)))
                end).
  { unfold sp, spec_acquire. destruct st as [[[o1 t1] d1]|].
    - destruct Qa as (D1 & D2 & (fd & F1 & F2) & D3 & D4 & D5 & D6). split; [congruence|].
      destruct (Nat.eqb_spec o o1) as [->|Hn]; [left|right].
      + repeat split; auto. congruence.
      + repeat split; auto; apply D6; auto.
    - destruct Qa as [A B]. auto. }
  destruct Out as [E|[[E B]|Fin]]; [congruence| |].
  - (* the call would block *)
    split; [|congruence]. rewrite E.
    destruct B as [a Ht Hb Htm Htry|a d Ht Hb Htm Hfd Htry Hh].
    + assert (Esp : snd sp = false).
      { destruct st as [[[o1 t1] d1]|]; [|exfalso; destruct Hst as (P & _); apply (tl_try_pristine _ t P); auto].
        destruct Hst as (_ & [(-> & _ & Ow & _ & _ & ->)|(_ & P & ->)]); [|exfalso; apply (tl_try_pristine _ t P); auto].
        destruct (Nat.eqb_spec t t1) as [->|Hn]; cbn; auto. destruct (reent o1) eqn:Er; auto.
        exfalso. apply (proj2 (tl_try_held _ t1 t1 Ow)); auto; try (split; auto; congruence). }
      rewrite Esp, Hb. unfold timed_T in Htm. destruct tm'; try discriminate; reflexivity.
    + assert (Esp : snd sp = false).
      { destruct st as [[[o1 t1] d1]|]; [|destruct Hst as (_ & A & _); congruence].
        destruct Hst as (_ & [(-> & A & _)|(_ & _ & ->)]); [congruence|reflexivity]. }
      rewrite Esp, Hb. unfold timed_T in Htm. destruct tm'; try discriminate; reflexivity.
  - destruct Fin as [E Ht F Ho Hfd Htry Htm|d E Ht F Ho Hfd Htry Hh Htm|E Ht F Ho Htry Hb Htm|b E Ht F Ho Hfd Htry R1 R2 Htm].
    + (* reentrant success *)
      destruct st as [[[o1 t1] d1]|]; [|destruct Hst as ((A & _) & _); congruence].
      destruct Hst as (Hh & [(-> & _ & Ow & Cn & Dp & Esp)|(_ & (A & _) & _)]); [|congruence].
      destruct (proj1 (tl_try_held _ t t1 Ow) Htry) as [Re ->]. rewrite Co2 in Re.
      rewrite Esp, Nat.eqb_refl, Re. cbn [andb fst snd]. split; [exact E|]. intros _.
      destruct Qa as (D1 & D2 & (fd & F1 & F2) & D3 & D4 & D5 & D6).
      refine (Rq_frame s (fst res) _ _ _ _ _ _ Q F _ _ _ _ _ _ _).
      * now rewrite Ht.
      * rewrite Ht. cbn. congruence.
      * rewrite Ho. cbn. auto.
      * intros hh Eh. pose proof (f_next _ _ _ _ _ _ F). apply Qk1 in Eh. lia.
      * apply (frame_fds_none _ _ _ _ _ F Qfd).
      * apply (frame_hopen_none _ _ _ _ F Qk1 Qho).
      * rewrite Ho. cbn. rewrite Ow, F1, Cn, Dp. split; [lia|]. split; [intros Z; congruence|].
        split; [exists fd; auto|]. split; [auto|]. split; [auto|]. split; [auto|].
        intros o' Hn. rewrite (f_obj _ _ _ _ _ _ F) by auto. apply D6; auto.
    + (* fresh success *)
      assert (Hnone : holder s = None).
      { destruct Hh as [|Hh]; auto. apply Qk1 in Hh. destruct (f_pend _ _ _ _ _ _ F d eq_refl). lia. }
      destruct st as [[[o1 t1] d1]|]; [destruct Hst as (A & _); congruence|].
      destruct Hst as ((_ & Ow & Cn & Dp) & _ & Esp). rewrite Esp. cbn [fst snd]. split; [exact E|]. intros _.
      destruct Qa as [_ Pr].
      refine (Rq_frame s (fst res) _ _ _ _ _ _ Q F _ _ _ _ _ _ _).
      * now rewrite Ht.
      * rewrite Ht. cbn. congruence.
      * rewrite Ho. cbn. auto.
      * intros hh [= <-]. apply (f_pend _ _ _ _ _ _ F d eq_refl).
      * intros d' q E'. destruct (Nat.lt_ge_cases d' (nextfd s)) as [L|G].
        -- rewrite (f_fd_old _ _ _ _ _ _ F) in E' by auto. apply Qfd in E'. congruence.
        -- destruct (Nat.eq_dec d' d) as [->|Hn]; auto.
           rewrite (f_fd_new _ _ _ _ _ _ F) in E' by (auto; congruence). discriminate.
      * intros hh [= <-]. destruct (f_pend _ _ _ _ _ _ F d eq_refl) as [_ A]. rewrite A. discriminate.
      * rewrite Ho. cbn. rewrite Ow, Cn. split; [lia|]. split; [auto|].
        split; [exists d; auto|]. split; [auto|]. split; [auto|]. split; [auto|].
        intros o' Hn. rewrite (f_obj _ _ _ _ _ _ F) by auto. apply Pr.
    + (* thread lock busy *)
      assert (Esp : sp = (st, false)).
      { destruct st as [[[o1 t1] d1]|]; [|exfalso; destruct Hst as (P & _); apply (tl_try_pristine _ t P); auto].
        destruct Hst as (_ & [(-> & _ & Ow & _ & _ & ->)|(_ & P & ->)]); [|exfalso; apply (tl_try_pristine _ t P); auto].
        destruct (Nat.eqb_spec t t1) as [->|Hn]; cbn; auto. destruct (reent o1) eqn:Er; auto.
        exfalso. apply (proj2 (tl_try_held _ t1 t1 Ow)); auto; try (split; auto; congruence). }
      rewrite Esp. cbn [fst snd]. split.
      * rewrite E. destruct Hb as [->|[T ->]]; [reflexivity|]. now rewrite andb_false_r.
      * intros _. refine (Rq_frame s (fst res) _ _ _ _ _ _ Q F _ _ _ _ _ _ _).
        -- now rewrite Ht.
        -- rewrite Ht. cbn. congruence.
        -- rewrite Ho. auto.
        -- intros hh Eh. pose proof (f_next _ _ _ _ _ _ F). apply Qk1 in Eh. lia.
        -- apply (frame_fds_none _ _ _ _ _ F Qfd).
        -- apply (frame_hopen_none _ _ _ _ F Qk1 Qho).
        -- destruct st as [[[o1 t1] d1]|].
           ++ destruct Qa as (D1 & D2 & (fd & F1 & F2) & D3 & D4 & D5 & D6).
              assert (Hob : forall o', objs (fst res) o' = objs s o').
              { intros o'. destruct (Nat.eq_dec o' o) as [->|Hn]; auto. apply (f_obj _ _ _ _ _ _ F); auto. }
              rewrite !Hob. split; [auto|]. split; [auto|]. split; [exists fd; auto|]. split; [auto|]. split; [auto|]. split; [auto|].
              intros o' Hn. rewrite Hob. auto.
           ++ destruct Qa as [A B]. split; auto. intros o'.
              destruct (Nat.eq_dec o' o) as [->|Hn]; [rewrite Ho|rewrite (f_obj _ _ _ _ _ _ F) by auto]; apply B.
    + (* the OS lock is held through another object *)
      assert (Eb : b = false) by (destruct b; auto; exfalso; apply R1; auto).
      subst b. destruct (R2 eq_refl) as [Hb [Hh|Hh]]; [|congruence].
      assert (Esp : sp = (st, false) /\ pristine (objs s o)).
      { destruct st as [[[o1 t1] d1]|]; [|destruct Hst as (_ & A & _); congruence].
        destruct Hst as (_ & [(-> & A & _)|(_ & P & ->)]); [congruence|auto]. }
      destruct Esp as [Esp Pr]. rewrite Esp. cbn [fst snd]. split.
      * rewrite E. destruct Hb as [->|[T ->]]; [reflexivity|]. now rewrite andb_false_r.
      * intros _.
        assert (Ho' : objs (fst res) o = objs s o).
        { rewrite Ho. apply restore_obj; auto.
          - destruct Pr as (_ & _ & _ & A). auto.
          - destruct Pr as (_ & A & _). intros u Z. congruence. }
        assert (Hob : forall o', objs (fst res) o' = objs s o').
        { intros o'. destruct (Nat.eq_dec o' o) as [->|Hn]; auto. apply (f_obj _ _ _ _ _ _ F); auto. }
        refine (Rq_frame s (fst res) _ _ _ _ _ _ Q F _ _ _ _ _ _ _).
        -- now rewrite Ht.
        -- rewrite Ht. cbn. congruence.
        -- rewrite Ho'. auto.
        -- intros hh Eh. pose proof (f_next _ _ _ _ _ _ F). apply Qk1 in Eh. lia.
        -- apply (frame_fds_none _ _ _ _ _ F Qfd).
        -- apply (frame_hopen_none _ _ _ _ F Qk1 Qho).
        -- destruct st as [[[o1 t1] d1]|].
           ++ destruct Qa as (D1 & D2 & (fd & F1 & F2) & D3 & D4 & D5 & D6).
              rewrite !Hob. split; [auto|]. split; [auto|]. split; [exists fd; auto|]. split; [auto|]. split; [auto|]. split; [auto|].
              intros o' Hn. rewrite Hob. auto.
           ++ destruct Qa as [A B]. split; auto. intros o'. rewrite Hob. apply B.
Qed.

Theorem rel_refines s st t o force fuel :
  Rq s st -> spec_may_release st t o = true -> depth st + 4 <= fuel ->
  let res := do_call fuel s t (CRel o force) in
  snd res = RNone /\ Rq (fst res) (spec_release st o force).
Proof.
  intros Q Hc Hfu res. pose proof Q as [Qt Qd Qf Qc [Qk1 Qk2] Qfd Qho Qa].
  destruct (Qt t) as [Hpc Hpr]. destruct (Qc o) as (Co1 & Co2 & Co3).
  assert (Hal : dead s (t_proc (thr s t)) = false) by apply Qd.
  assert (Hcnt : o_cnt (objs s o) <= depth st).
  { destruct st as [[[o1 t1] d1]|]; cbn.
    - destruct Qa as (D1 & D2 & _ & D3 & D4 & D5 & D6). destruct (Nat.eq_dec o o1) as [->|Hn]; [lia|].
      destruct (D6 o Hn) as (_ & _ & -> & _). lia.
    - destruct Qa as [_ B]. destruct (B o) as (_ & _ & -> & _). lia. }
  destruct (do_release_outcome s t o Hal force fuel Hpc) as (s1 & E & F & P1 & P0 & P2 & P3 & Post); [lia|].
  unfold res. rewrite E. cbn [fst snd]. split; [reflexivity|].
  assert (Hgen : forall st',
     (forall hh, holder s1 = Some hh -> hh < nextfd s1) ->
     (forall d q, fdown s1 d = Some q -> d < nextfd s1) ->
     (forall d q, fdown s1 d = Some q -> holder s1 = Some d) ->
     (forall hh, holder s1 = Some hh -> fdown s1 hh <> None) ->
     o_proc (objs s1 o) = oproc o /\ o_reent (objs s1 o) = reent o /\ o_dflt (objs s1 o) = dflt o ->
     match st' with
     | None => holder s1 = None /\ forall o', pristine (objs s1 o')
     | Some (o1, t1, d1) =>
         1 <= d1 /\ (reent o1 = false -> d1 = 1) /\
         (exists fd, o_fd (objs s1 o1) = Some fd /\ holder s1 = Some fd) /\
         o_own (objs s1 o1) = Some t1 /\ o_cnt (objs s1 o1) = d1 /\ o_dep (objs s1 o1) = d1 /\
         forall o', o' <> o1 -> pristine (objs s1 o')
     end -> Rq s1 st').
  { intros st' K1 K2 K3 K4 Hcfg Habs. constructor; auto.
    - intros t'. destruct (Nat.eq_dec t' t) as [->|Hn]; [split; [auto|congruence]|].
      rewrite (r_thr _ _ _ _ F) by auto. apply Qt.
    - intros p. rewrite (r_dead _ _ _ _ F). apply Qd.
    - rewrite (r_faults _ _ _ _ F). exact Qf.
    - intros o'. destruct (Nat.eq_dec o' o) as [->|Hn]; [auto|]. rewrite (r_obj _ _ _ _ F) by auto. apply Qc. }
  assert (Hob : objs s1 o = objs s o -> forall o', objs s1 o' = objs s o').
  { intros Eo o'. destruct (Nat.eq_dec o' o) as [->|Hn]; auto. apply (r_obj _ _ _ _ F); auto. }
  assert (Hnx : nextfd s1 = nextfd s) by apply (r_nextfd _ _ _ _ F).
  unfold rel_post in Post.
  destruct (o_fd (objs s o)) as [fd|] eqn:Hfd.
  2:{ (* release of an unheld lock: nothing changes *)
      destruct Post as (Po & Ph & Pf). specialize (Hob Po).
      assert (Est : spec_release st o force = st).
      { destruct st as [[[o1 t1] d1]|]; cbn; auto. destruct (Nat.eqb_spec o o1) as [->|]; auto.
        destruct Qa as (_ & _ & (fd & F1 & _) & _). congruence. }
      rewrite Est. apply Hgen.
      - intros hh Z. rewrite Hnx. apply Qk1. congruence.
      - intros d q Z. rewrite Hnx. apply (Qk2 d q). congruence.
      - intros d q Z. rewrite Ph. apply (Qfd d q). congruence.
      - intros hh Z. rewrite Pf. apply Qho. congruence.
      - rewrite Po. auto.
      - rewrite Ph. destruct st as [[[o1 t1] d1]|]; rewrite ?Hob.
        + destruct Qa as (D1 & D2 & D3 & D4 & D5 & D6 & D7). split; [auto|]. split; [auto|]. split; [auto|]. split; [auto|]. split; [auto|]. split; [auto|].
          intros o' Hn. rewrite Hob. apply D7; auto.
        + destruct Qa as [A B]. split; auto. intros o'. rewrite Hob. apply B. }
  (* o is the held object *)
  destruct st as [[[o1 t1] d1]|]; [|destruct Qa as [_ B]; destruct (B o) as (A & _); congruence].
  destruct Qa as (D1 & D2 & (fd' & F1 & F2) & D3 & D4 & D5 & D6).
  assert (o = o1) by (destruct (Nat.eq_dec o o1); auto; destruct (D6 o) as (A & _); auto; congruence). subst o1.
  assert (t1 = t).
  { unfold spec_may_release, held in Hc. rewrite Nat.eqb_refl in Hc. apply Nat.eqb_eq in Hc. auto. }
  subst t1. assert (fd' = fd) by congruence. subst fd'.
  cbn [spec_release]. rewrite Nat.eqb_refl. rewrite D4 in Post.
  assert (Efin : Nat.eqb (pred d1) 0 || force = force || (d1 <=? 1)).
  { destruct force; cbn; [now rewrite orb_true_r|]. rewrite orb_false_r. destruct d1 as [|[|n]]; reflexivity. }
  rewrite Efin in Post. destruct (force || (d1 <=? 1)) eqn:Ef.
  - (* the lock is given up *)
    destruct Post as (Po & Ph & Pf).
    set (k := Nat.max 1 (if force then d1 else 1)) in *.
    set (ob1 := mkobj (o_proc (objs s o)) (o_reent (objs s o)) (o_dflt (objs s o)) None 0 (o_own (objs s o)) (o_dep (objs s o))) in *.
    destruct (rel_loop_full k ob1 t) as (A1 & A2 & A3 & A4 & A5 & A6 & A7); cbn; auto.
    { rewrite D5. unfold k. destruct force; cbn in Ef; try lia; try (apply Nat.leb_le in Ef; lia). }
    { rewrite Co2. intros Z. rewrite D5. auto. }
    apply Hgen.
    + intros hh Z. rewrite Ph, F2 in Z. unfold unl_holder in Z. rewrite Nat.eqb_refl in Z. discriminate.
    + intros d q Z. rewrite Pf in Z. destruct (Nat.eqb d fd); [discriminate|]. rewrite Hnx. apply (Qk2 d q Z).
    + intros d q Z. rewrite Pf in Z. destruct (Nat.eqb_spec d fd); [discriminate|]. apply Qfd in Z. congruence.
    + intros hh Z. rewrite Ph, F2 in Z. unfold unl_holder in Z. rewrite Nat.eqb_refl in Z. discriminate.
    + rewrite Po, A5, A6, A7. cbn. auto.
    + split; [rewrite Ph, F2; unfold unl_holder; now rewrite Nat.eqb_refl|].
      intros o'. destruct (Nat.eq_dec o' o) as [->|Hn].
      * rewrite Po. repeat split; auto. 
      * rewrite (r_obj _ _ _ _ F) by auto. apply D6; auto.
  - (* an inner level *)
    destruct Post as (Po & Ph & Pf). apply orb_false_elim in Ef. destruct Ef as [Ef1 Ef2]. subst force.
    apply Nat.leb_gt in Ef2.
    assert (Re : reent o = true) by (destruct (reent o); auto; specialize (D2 eq_refl); lia).
    assert (Eo : objs s1 o = mkobj (o_proc (objs s o)) (o_reent (objs s o)) (o_dflt (objs s o)) (o_fd (objs s o)) (pred d1) (Some t) (pred d1)).
    { rewrite Po. cbn [rel_loop]. rewrite (raises_own _ t) by (cbn; auto).
      destruct (tl_release_cases (set_cnt (objs s o) (pred d1))) as [(R & D & ->)|(C & _)]; cbn in *.
      - rewrite D3, D5. reflexivity.
      - rewrite Co2, Re, D5 in C. destruct C; [discriminate|lia]. }
    apply Hgen.
    + intros hh Z. rewrite Hnx. apply Qk1. congruence.
    + intros d q Z. rewrite Hnx. apply (Qk2 d q). congruence.
    + intros d q Z. rewrite Ph. apply (Qfd d q). congruence.
    + intros hh Z. rewrite Pf. apply Qho. congruence.
    + rewrite Eo. cbn. auto.
    + rewrite Eo. cbn. split; [lia|]. split; [intros Z; congruence|]. split; [exists fd; split; congruence|].
      split; [auto|]. split; [auto|]. split; [auto|]. intros o' Hn. rewrite (r_obj _ _ _ _ F) by auto. apply D6; auto.
Qed.

(* ---------- sequences ------------------------------------------------------------------------------ *)

Fixpoint run_calls (fuel : nat) (s : state) (ops : list (tid * call)) : list result * state :=
  match ops with
  | [] => ([], s)
  | (t, c) :: rest =>
      let '(s1, r) := do_call fuel s t c in
      match r with
      | RWouldBlock | ROutOfFuel => ([r], s1)
      | _ => let '(rs, s2) := run_calls fuel s1 rest in (r :: rs, s2)
      end
  end.

Fixpoint spec_calls (st : sstate) (ops : list (tid * call)) : list result * sstate :=
  match ops with
  | [] => ([], st)
  | (t, c) :: rest =>
      let '(st1, r) := spec_call reent dflt st t c in
      match r with
      | RWouldBlock => ([r], st)
      | _ => let '(rs, st2) := spec_calls st1 rest in (r :: rs, st2)
      end
  end.

(* the contract along the sequence: a thread releases only a lock it holds or an unheld one *)
Fixpoint ok_calls (st : sstate) (ops : list (tid * call)) : bool :=
  match ops with
  | [] => true
  | (t, c) :: rest =>
      spec_ok_call st t c &&
      let '(st1, r) := spec_call reent dflt st t c in
      match r with RWouldBlock => true | _ => ok_calls st1 rest end
  end.

(* enough fuel, and a timed acquire has a positive poll interval *)
Definition call_fuel_ok (fuel : nat) (c : call) : Prop :=
  match c with
  | CAcq o m blk tm poll _ =>
      let tm' := snd (norm' (dflt o) blk tm) in
      (forall T, tm' = TVal T -> (1 <= poll)%N) /\ acq_fuel tm' poll <= fuel
  | CRel _ _ => True
  end.

Definition no_block (rs : list result) : bool :=
  forallb (fun r => match r with RWouldBlock => false | _ => true end) rs.

Lemma spec_acquire_depth st t o r : depth (fst (spec_acquire st t o r)) <= S (depth st).
Proof.
  unfold spec_acquire. destruct st as [[[o1 t1] d1]|]; cbn; [|lia]. destruct (_ && _); cbn; lia.
Qed.

Lemma spec_release_depth st o f : depth (spec_release st o f) <= depth st.
Proof.
  unfold spec_release. destruct st as [[[o1 t1] d1]|]; cbn; [|lia].
  destruct (Nat.eqb o o1); cbn; [|lia]. destruct (f || (d1 <=? 1)); cbn; lia.
Qed.

(* a thread uses objects of its own process only *)
Definition call_proc_ok (tc : tid * call) : Prop :=
  match snd tc with CAcq o _ _ _ _ _ => oproc o = tproc (fst tc) | CRel _ _ => True end.

Theorem refines_lemma fuel : forall ops s st,
  Rq s st -> ok_calls st ops = true ->
  (forall tc, In tc ops -> call_proc_ok tc) ->
  (forall tc, In tc ops -> call_fuel_ok fuel (snd tc)) ->
  depth st + length ops + 4 <= fuel ->
  fst (run_calls fuel s ops) = fst (spec_calls st ops) /\
  (no_block (fst (spec_calls st ops)) = true -> Rq (snd (run_calls fuel s ops)) (snd (spec_calls st ops))).
Proof.
  induction ops as [|[t c] rest IH]; intros s st Q Hok Hpo Hfu Hd; [cbn; auto|].
  cbn [run_calls spec_calls ok_calls] in *. apply andb_prop in Hok. destruct Hok as [Hc Hok].
  assert (Hfc : call_fuel_ok fuel c) by (apply (Hfu (t, c)); now left).
  assert (Hfr : forall tc, In tc rest -> call_fuel_ok fuel (snd tc)) by (intros; apply Hfu; now right).
  assert (Hpc : call_proc_ok (t, c)) by (apply Hpo; now left).
  assert (Hpr : forall tc, In tc rest -> call_proc_ok tc) by (intros; apply Hpo; now right).
  cbn [length] in Hd.
  destruct c as [o m blk tm poll skip|o force].
  - destruct Hfc as [Hp Hf].
    destruct (acq_refines s st t o m blk tm poll skip fuel Q Hpc Hp Hf) as [Er Eq].
    unfold spec_call in *. 
    destruct (spec_acquire st t o (reent o)) as [st1 b] eqn:Esp. cbn [fst snd] in *.
    destruct (do_call fuel s t (CAcq o m blk tm poll skip)) as [s1 r] eqn:Edo. cbn [fst snd] in *.
    assert (Hd1 : depth st1 <= S (depth st)).
    { pose proof (spec_acquire_depth st t o (reent o)) as Z. now rewrite Esp in Z. }
    subst r. destruct b.
    + assert (Q1 : Rq s1 st1) by (apply Eq; discriminate).
      destruct (IH s1 st1 Q1 Hok Hpr Hfr) as [I1 I2]; [lia|].
      destruct (run_calls fuel s1 rest) as [rs s2]. destruct (spec_calls st1 rest) as [rs' st2]. cbn in *.
      split; [congruence|]. auto.
    + unfold spec_no in *. destruct (waits_forever (dflt o) blk tm).
      * cbn. split; auto. discriminate.
      * assert (Q1 : Rq s1 st1) by (apply Eq; destruct m; discriminate).
        assert (Hok' : ok_calls st1 rest = true) by (destruct m; exact Hok).
        destruct (IH s1 st1 Q1 Hok' Hpr Hfr) as [I1 I2]; [lia|].
        destruct (run_calls fuel s1 rest) as [rs s2]. destruct (spec_calls st1 rest) as [rs' st2].
        destruct m; cbn in *; (split; [congruence|auto]).
  - cbn in Hc. destruct (rel_refines s st t o force fuel Q Hc) as [Er Eq]; [lia|].
    unfold spec_call in *.
    destruct (do_call fuel s t (CRel o force)) as [s1 r] eqn:Edo. cbn [fst snd] in *. subst r.
    pose proof (spec_release_depth st o force) as Hd1.
    destruct (IH s1 (spec_release st o force) Eq Hok Hpr Hfr) as [I1 I2]; [lia|].
    destruct (run_calls fuel s1 rest) as [rs s2]. destruct (spec_calls (spec_release st o force) rest) as [rs' st2]. cbn in *.
    split; [congruence|auto].
Qed.

Lemma Rq_is_locked s st o : Rq s st -> is_locked s o = spec_is_locked st o.
Proof.
  intros [_ _ _ _ _ _ _ Qa]. unfold is_locked, spec_is_locked, held.
  destruct st as [[[o1 t1] d1]|].
  - destruct Qa as (_ & _ & (fd & F1 & _) & _ & _ & _ & D6).
    destruct (Nat.eqb_spec o o1) as [->|Hn]; [now rewrite F1|]. destruct (D6 o Hn) as (-> & _). reflexivity.
  - destruct Qa as [_ B]. destruct (B o) as (-> & _). reflexivity.
Qed.

(* exactly one descriptor is open while the lock is held, none otherwise *)
Lemma filter_seq_single (f : nat -> bool) h n :
  h < n -> f h = true -> (forall d, d <> h -> f d = false) -> length (filter f (seq 0 n)) = 1.
Proof.
  intros Hh Ht Hf.
  assert (G : forall k a, (a <= h < a + k -> length (filter f (seq a k)) = 1) /\
                          (~ (a <= h < a + k) -> length (filter f (seq a k)) = 0)).
  { induction k as [|k IH]; intros a; cbn [seq filter]; [split; [lia|reflexivity]|].
    destruct (IH (S a)) as [I1 I2]. destruct (Nat.eq_dec a h) as [->|Hn].
    - rewrite Ht. cbn [length]. split; [|lia]. intros _. rewrite I2; lia.
    - rewrite (Hf a Hn). split; intros A; [apply I1|apply I2]; lia. }
  apply G. lia.
Qed.

Lemma Rq_nfds s st : Rq s st -> nfds s = match st with Some _ => 1 | None => 0 end.
Proof.
  intros [_ _ _ _ [Qk1 Qk2] Qfd Qho Qa]. unfold nfds.
  destruct st as [[[o1 t1] d1]|].
  - destruct Qa as (_ & _ & (fd & _ & Hh) & _).
    apply (filter_seq_single _ fd); auto.
    + pose proof (Qho _ Hh). destruct (fdown s fd); congruence.
    + intros d Hn. destruct (fdown s d) as [q|] eqn:E; auto. apply Qfd in E. congruence.
  - destruct Qa as [Hh _].
    assert (G : forall l, filter (fun d => match fdown s d with Some _ => true | None => false end) l = []).
    { induction l as [|x r IH]; cbn; auto. destruct (fdown s x) as [q|] eqn:E; auto. apply Qfd in E. congruence. }
    now rewrite G.
Qed.

End Refine.

(* ---------- the initial state of the sequential runs (Case_C12.init_seq) ---------------------------- *)
Require Aiuti.Case_C12.

Lemma nth_fun_obj0 (cfg : list (bool * tmo)) o :
  nth_fun (map (fun c => obj0 0 (fst c) (snd c)) cfg) (obj0 0 false TNeg) o
  = obj0 0 (Case_C12.cfg_reent cfg o) (Case_C12.cfg_dflt cfg o).
Proof.
  unfold Case_C12.cfg_reent, Case_C12.cfg_dflt. revert o. induction cfg as [|x r IH]; intros [|o]; cbn; auto.
Qed.

Lemma nth_fun_thr0 (l : list nat) t : nth_fun (map (fun _ => thr0 0 []) l) (thr0 0 []) t = thr0 0 [].
Proof. revert t. induction l as [|x r IH]; intros [|t]; cbn; auto. Qed.

Lemma Rq_init nT cfg :
  Rq (Case_C12.cfg_reent cfg) (Case_C12.cfg_dflt cfg) (fun _ => 0) (fun _ => 0) (Case_C12.init_seq nT cfg []) None.
Proof.
  unfold Case_C12.init_seq, init. constructor; cbn.
  - intros t. rewrite nth_fun_thr0. auto.
  - auto.
  - auto.
  - intros o. rewrite nth_fun_obj0. auto.
  - split; intros; discriminate.
  - intros; discriminate.
  - intros; discriminate.
  - split; auto. intros o. rewrite nth_fun_obj0. repeat split.
Qed.

(* ---------- the theorems of props/C12.v ---------------------------------------------------------------- *)

Theorem refines_rlock_spec_lemma :
  forall nT cfg ops fuel,
    let reent := Case_C12.cfg_reent cfg in
    let dflt := Case_C12.cfg_dflt cfg in
    ok_calls reent dflt None ops = true ->
    (forall tc, In tc ops -> call_fuel_ok dflt fuel (snd tc)) ->
    length ops + 4 <= fuel ->
    let conc := run_calls fuel (Case_C12.init_seq nT cfg []) ops in
    let spec := spec_calls reent dflt None ops in
    fst conc = fst spec /\
    (no_block (fst spec) = true ->
       Rq reent dflt (fun _ => 0) (fun _ => 0) (snd conc) (snd spec) /\
       (forall o, is_locked (snd conc) o = spec_is_locked (snd spec) o) /\
       nfds (snd conc) = match snd spec with Some _ => 1 | None => 0 end).
Proof.
  intros nT cfg ops fuel reent dflt Hok Hfu Hd conc spec.
  assert (Hpo : forall tc, In tc ops -> call_proc_ok (fun _ => 0) (fun _ => 0) tc) by (intros [t' c'] _; destruct c'; cbn; auto).
  assert (Hd' : depth None + length ops + 4 <= fuel) by (cbn; lia).
  destruct (refines_lemma reent dflt (fun _ => 0) (fun _ => 0) fuel ops _ None (Rq_init nT cfg) Hok Hpo Hfu Hd') as [A B].
  split; auto. intros Nb. specialize (B Nb). split; auto. split.
  - intros o. eapply Rq_is_locked; eauto.
  - eapply Rq_nfds; eauto.
Qed.

(* consequences for a single call in any state between two calls of such a sequence *)

Theorem acquire_true_iff_holds_lemma :
  forall reent dflt oproc tproc s st t o m blk tm poll skip fuel,
    Rq reent dflt oproc tproc s st -> oproc o = tproc t -> call_fuel_ok dflt fuel (CAcq o m blk tm poll skip) ->
    let res := do_call fuel s t (CAcq o m blk tm poll skip) in
    let st' := fst (spec_acquire st t o (reent o)) in
    (snd res = RTrue <-> snd (spec_acquire st t o (reent o)) = true) /\
    (snd res = RTrue -> Rq reent dflt oproc tproc (fst res) st' /\ exists d, held st' o = Some (t, d) /\ is_locked (fst res) o = true) /\
    (snd res = RFalse \/ snd res = RTimeout -> Rq reent dflt oproc tproc (fst res) st /\ st' = st).
Proof.
  intros reent dflt oproc tproc s st t o m blk tm poll skip fuel Q Hsp [Hp Hf] res st'.
  destruct (acq_refines reent dflt oproc tproc s st t o m blk tm poll skip fuel Q Hsp Hp Hf) as [Er Eq]. fold res in Er, Eq.
  assert (Hno : spec_no (dflt o) m blk tm <> RTrue) by (unfold spec_no; destruct (waits_forever _ _ _), m; discriminate).
  split; [|split].
  - rewrite Er. destruct (snd (spec_acquire st t o (reent o))); split; auto; try congruence; try discriminate.
  - intros E. assert (Q' : Rq reent dflt oproc tproc (fst res) st') by (apply Eq; rewrite E; discriminate). split; auto.
    rewrite E in Er. unfold st' in *. unfold spec_acquire in *.
    destruct st as [[[o1 t1] d1]|]; cbn in *.
    + destruct (Nat.eqb o o1 && Nat.eqb t t1 && reent o) eqn:Eb; cbn in *; [|congruence].
      exists (S d1). rewrite Nat.eqb_refl. split; auto. rewrite (Rq_is_locked _ _ _ _ _ _ o Q'). unfold spec_is_locked, held. now rewrite Nat.eqb_refl.
    + exists 1. rewrite Nat.eqb_refl. split; auto. rewrite (Rq_is_locked _ _ _ _ _ _ o Q'). unfold spec_is_locked, held. now rewrite Nat.eqb_refl.
  - intros E. assert (Eb : snd (spec_acquire st t o (reent o)) = false).
    { destruct (snd (spec_acquire st t o (reent o))); auto. rewrite Er in E. destruct E; discriminate. }
    assert (Est : st' = st).
    { unfold st', spec_acquire in *. destruct st as [[[o1 t1] d1]|]; cbn in *; [|discriminate]. destruct (_ && _); cbn in *; [discriminate|auto]. }
    split; auto. rewrite <- Est. apply Eq. destruct E as [-> | ->]; discriminate.
Qed.

Theorem reacquire_after_release_lemma :
  forall reent dflt oproc tproc s o t d force fuel t2 o2 m blk tm poll skip,
    Rq reent dflt oproc tproc s (Some (o, t, d)) -> (force = true \/ d = 1) ->
    d + 4 <= fuel -> oproc o2 = tproc t2 -> call_fuel_ok dflt fuel (CAcq o2 m blk tm poll skip) ->
    let s1 := fst (do_call fuel s t (CRel o force)) in
    Rq reent dflt oproc tproc s1 None /\ (forall o', is_locked s1 o' = false) /\
    snd (do_call fuel s1 t2 (CAcq o2 m blk tm poll skip)) = RTrue.
Proof.
  intros reent dflt oproc tproc s o t d force fuel t2 o2 m blk tm poll skip Q Hf Hd Hsp [Hp Hfu] s1.
  destruct (rel_refines reent dflt oproc tproc s (Some (o, t, d)) t o force fuel Q) as [_ Q1]; [|cbn; lia|].
  { unfold spec_may_release, held. now rewrite !Nat.eqb_refl. }
  fold s1 in Q1. cbn in Q1. rewrite Nat.eqb_refl in Q1.
  assert (E : force || (d <=? 1) = true) by (destruct Hf as [-> | ->]; [reflexivity|apply orb_true_r]).
  rewrite E in Q1. split; auto. split.
  - intros o'. rewrite (Rq_is_locked _ _ _ _ _ _ o' Q1). reflexivity.
  - destruct (acq_refines reent dflt oproc tproc s1 None t2 o2 m blk tm poll skip fuel Q1 Hsp Hp Hfu) as [Er _]. exact Er.
Qed.

Theorem nonreentrant_refuses_lemma :
  forall reent dflt oproc tproc s o t d t2 m blk tm poll skip fuel,
    Rq reent dflt oproc tproc s (Some (o, t, d)) -> reent o = false -> oproc o = tproc t2 ->
    call_fuel_ok dflt fuel (CAcq o m blk tm poll skip) ->
    let res := do_call fuel s t2 (CAcq o m blk tm poll skip) in
    snd res = spec_no (dflt o) m blk tm /\ snd res <> RTrue /\
    (snd res <> RWouldBlock -> Rq reent dflt oproc tproc (fst res) (Some (o, t, d))).
Proof.
  intros reent dflt oproc tproc s o t d t2 m blk tm poll skip fuel Q Hr Hsp [Hp Hfu] res.
  destruct (acq_refines reent dflt oproc tproc s (Some (o, t, d)) t2 o m blk tm poll skip fuel Q Hsp Hp Hfu) as [Er Eq].
  fold res in Er, Eq. cbn in Er, Eq. rewrite Hr, andb_false_r in Er, Eq. cbn in Er, Eq.
  split; auto. split; auto. rewrite Er. unfold spec_no. destruct (waits_forever _ _ _), m; discriminate.
Qed.

Theorem only_outermost_release_frees_lemma :
  forall reent dflt oproc tproc s o t d fuel,
    Rq reent dflt oproc tproc s (Some (o, t, d)) -> 2 <= d -> d + 4 <= fuel ->
    let s1 := fst (do_call fuel s t (CRel o false)) in
    Rq reent dflt oproc tproc s1 (Some (o, t, pred d)) /\ is_locked s1 o = true.
Proof.
  intros reent dflt oproc tproc s o t d fuel Q Hd Hfu s1.
  destruct (rel_refines reent dflt oproc tproc s (Some (o, t, d)) t o false fuel Q) as [_ Q1]; [|cbn; lia|].
  { unfold spec_may_release, held. now rewrite !Nat.eqb_refl. }
  fold s1 in Q1. cbn in Q1. rewrite Nat.eqb_refl in Q1.
  assert (E : (d <=? 1) = false) by (apply Nat.leb_gt; lia). rewrite E in Q1. split; auto.
  rewrite (Rq_is_locked _ _ _ _ _ _ o Q1). unfold spec_is_locked, held. now rewrite Nat.eqb_refl.
Qed.

(* ---------- several processes ----------------------------------------------------------------------- *)
(* objects and threads of ANY processes on the one lock path (init_cfg); a thread uses objects of its
   own process (call_proc_ok); the abstract state is still ONE optional (object, thread, depth): at most
   one object — hence at most one process — holds the path *)

Definition cfgo_proc (ocfg : list (pid * bool * tmo)) (o : oid) : pid :=
  match nth_error ocfg o with Some c => fst (fst c) | None => 0 end.
Definition cfgo_reent (ocfg : list (pid * bool * tmo)) (o : oid) : bool :=
  match nth_error ocfg o with Some c => snd (fst c) | None => false end.
Definition cfgo_dflt (ocfg : list (pid * bool * tmo)) (o : oid) : tmo :=
  match nth_error ocfg o with Some c => snd c | None => TNeg end.
Definition cfgt_proc (tcfg : list (pid * list call)) (t : tid) : pid :=
  match nth_error tcfg t with Some c => fst c | None => 0 end.

Lemma nth_fun_ocfg ocfg o :
  nth_fun (map (fun c : pid * bool * tmo => obj0 (fst (fst c)) (snd (fst c)) (snd c)) ocfg) (obj0 0 false TNeg) o
  = obj0 (cfgo_proc ocfg o) (cfgo_reent ocfg o) (cfgo_dflt ocfg o).
Proof. unfold cfgo_proc, cfgo_reent, cfgo_dflt. revert o. induction ocfg as [|x r IH]; intros [|o]; cbn; auto. Qed.

Lemma nth_fun_tcfg tcfg t :
  exists pr, nth_fun (map (fun c : pid * list call => thr0 (fst c) (snd c)) tcfg) (thr0 0 []) t = thr0 (cfgt_proc tcfg t) pr.
Proof. unfold cfgt_proc. revert t. induction tcfg as [|x r IH]; intros [|t]; cbn; eauto. Qed.

Lemma Rq_init_cfg ocfg tcfg :
  Rq (cfgo_reent ocfg) (cfgo_dflt ocfg) (cfgo_proc ocfg) (cfgt_proc tcfg) (init_cfg ocfg tcfg []) None.
Proof.
  unfold init_cfg, init. constructor; cbn.
  - intros t. destruct (nth_fun_tcfg tcfg t) as [pr ->]. auto.
  - auto.
  - auto.
  - intros o. rewrite nth_fun_ocfg. auto.
  - split; intros; discriminate.
  - intros; discriminate.
  - intros; discriminate.
  - split; auto. intros o. rewrite nth_fun_ocfg. repeat split.
Qed.

Theorem refines_rlock_spec_procs_lemma :
  forall ocfg tcfg ops fuel,
    let reent := cfgo_reent ocfg in
    let dflt := cfgo_dflt ocfg in
    let oproc := cfgo_proc ocfg in
    let tproc := cfgt_proc tcfg in
    ok_calls reent dflt None ops = true ->
    (forall tc, In tc ops -> call_proc_ok oproc tproc tc) ->
    (forall tc, In tc ops -> call_fuel_ok dflt fuel (snd tc)) ->
    length ops + 4 <= fuel ->
    let conc := run_calls fuel (init_cfg ocfg tcfg []) ops in
    let spec := spec_calls reent dflt None ops in
    fst conc = fst spec /\
    (no_block (fst spec) = true ->
       Rq reent dflt oproc tproc (snd conc) (snd spec) /\
       (forall o, is_locked (snd conc) o = spec_is_locked (snd spec) o) /\
       nfds (snd conc) = match snd spec with Some _ => 1 | None => 0 end).
Proof.
  intros ocfg tcfg ops fuel reent dflt oproc tproc Hok Hpo Hfu Hd conc spec.
  assert (Hd' : depth None + length ops + 4 <= fuel) by (cbn; lia).
  destruct (refines_lemma reent dflt oproc tproc fuel ops _ None (Rq_init_cfg ocfg tcfg) Hok Hpo Hfu Hd') as [A B].
  split; auto. intros Nb. specialize (B Nb). split; auto. split.
  - intros o. eapply Rq_is_locked; eauto.
  - eapply Rq_nfds; eauto.
Qed.
