(* FLockRel.v — one release call run to completion by its thread alone, for ALL fault
   scripts: what it leaves behind.                                                *)
From Coq Require Import List Arith NArith Bool Lia ZifyBool ZifyN.
Import ListNotations.
Require Import Aiuti.FLock Aiuti.FLockInv Aiuti.FLockTL Aiuti.FLockFD Aiuti.FLockMutex Aiuti.FLockExec.
Local Arguments Nat.max : simpl never.
Arguments upd : simpl never.
Arguments enter_tlrel : simpl never.
Arguments enter_cleanup : simpl never.
Arguments after_attempt : simpl never.
Arguments k_unlock : simpl never.
Arguments k_close : simpl never.
Arguments tl_release : simpl never.
Arguments tl_try : simpl never.
Arguments tl_rel_raises : simpl never.
Arguments normalise : simpl never.
Arguments faulty : simpl never.
Arguments intr : simpl never.
Arguments enabled : simpl never.
Arguments step : simpl never.
Arguments run_alone : simpl never.

(* `for _ in range(k): tl.release()` inside try/except RuntimeError *)
Fixpoint rel_loop (k : nat) (ob : obj) (t : tid) : obj :=
  match k with
  | 0 => ob
  | S k' => if tl_rel_raises ob t then ob else rel_loop k' (tl_release ob) t
  end.

Ltac ev := cbn; rewrite ?upd_same; cbn.

Section Rel.
Variables (s0 : state) (t : tid) (o : oid).
Let p := t_proc (thr s0 t).
Let res0 := t_res (thr s0 t).
Hypothesis Halive : dead s0 p = false.

(* what a running release of t on o leaves alone *)
Record RFrame (s : state) : Prop := mkRFrame {
  r_thr : forall t', t' <> t -> thr s t' = thr s0 t';
  r_obj : forall o', o' <> o -> objs s o' = objs s0 o';
  r_dead : dead s = dead s0;
  r_faults : faults s = faults s0;
  r_now : now s = now s0;
  r_nextfd : nextfd s = nextfd s0
}.

Lemma RFrame_soft s s' :
  RFrame s ->
  (forall t', t' <> t -> thr s' t' = thr s t') -> (forall o', o' <> o -> objs s' o' = objs s o') ->
  dead s' = dead s -> faults s' = faults s -> now s' = now s -> nextfd s' = nextfd s ->
  RFrame s'.
Proof.
  intros [A B C E F G] T O Hd Hfl Hn Hx. constructor; intros; rewrite ?T, ?O, ?Hd, ?Hfl, ?Hn, ?Hx; auto.
Qed.

(* the thread-lock release loop: j releases still to do on an object in state ob *)
Lemma tlrel_loop j : forall s cs ob,
  thr s t = mkthr p [] (PTLRel o j) res0 cs -> RFrame s -> objs s o = ob -> (1 <= j)%nat ->
  tl_rel_raises ob t = false ->
  forall f, (j <= f)%nat ->
  exists s', run_alone f s t = (s', RNone) /\ RFrame s' /\
    thr s' t = mkthr p [] PIdle (RNone :: res0) cs /\ objs s' o = rel_loop j ob t /\
    holder s' = holder s /\ fdown s' = fdown s.
Proof.
  induction j as [|j IH]; intros s cs ob Ht F Ho Hj Hr f Hf; [lia|].
  destruct f as [|f]; [lia|].
  assert (Hnd : is_dead s t = false) by (unfold is_dead; rewrite Ht; cbn; rewrite (r_dead _ F); exact Halive).
  assert (En : enabled s t = true) by (unfold enabled; rewrite Hnd, Ht; reflexivity).
  assert (Tpc : t_pc (thr s t) = PTLRel o (S j)) by now rewrite Ht.
  rewrite run_alone_step; auto; [|unfold call_done; now rewrite Ht].
  rewrite (step_tlrel _ _ o (S j) En Tpc). cbn [pred]. rewrite enter_tlrel_eq. ev. rewrite Ho.
  cbn [rel_loop]. rewrite Hr.
  destruct j as [|j].
  - cbn [Nat.eqb orb rel_loop]. rewrite run_alone_done; [|unfold call_done; ev; rewrite Ht; reflexivity]. unfold last_result at 1; ev.
    eexists. split; [reflexivity|]. split; [|split; [|split; [|split]]]; auto.
    + apply (RFrame_soft s); auto; intros; ev; rewrite ?upd_other by congruence; auto.
    + ev. rewrite Ht. reflexivity.
    + ev. reflexivity.
  - cbn [Nat.eqb orb]. destruct (tl_rel_raises (tl_release ob) t) eqn:Hr2.
    + rewrite run_alone_done; [|unfold call_done; ev; rewrite Ht; reflexivity]. unfold last_result at 1; ev.
      eexists. split; [reflexivity|]. split; [|split; [|split; [|split]]]; auto.
      * apply (RFrame_soft s); auto; intros; ev; rewrite ?upd_other by congruence; auto.
      * ev. rewrite Ht. reflexivity.
      * ev. cbn [rel_loop]. now rewrite Hr2.
    + destruct (IH (set_pc (set_obj s o (tl_release ob)) t (PTLRel o (S j))) cs (tl_release ob)) with (f := f) as (s' & E & F' & T' & O' & H' & D'); auto.
      * ev. rewrite Ht. reflexivity.
      * apply (RFrame_soft s); auto; intros; ev; rewrite ?upd_other by congruence; auto.
      * ev. reflexivity.
      * lia.
      * lia.
      * exists s'. split; [exact E|]. split; [|split; [|split; [|split]]]; auto.
Qed.

(* enter_tlrel followed by the loop *)
Lemma tlrel_enter k s cs ob :
  thr s t = mkthr p [] (t_pc (thr s t)) res0 cs -> RFrame s -> objs s o = ob ->
  forall f, (k <= f)%nat ->
  exists s', run_alone f (enter_tlrel s t o k) t = (s', RNone) /\ RFrame s' /\
    thr s' t = mkthr p [] PIdle (RNone :: res0) cs /\ objs s' o = rel_loop k ob t /\
    holder s' = holder s /\ fdown s' = fdown s.
Proof.
  intros Ht F Ho f Hf. rewrite enter_tlrel_eq, Ho.
  destruct k as [|k]; [cbn [Nat.eqb orb]|cbn [Nat.eqb orb rel_loop]; destruct (tl_rel_raises ob t) eqn:Hr].
  - rewrite run_alone_done; [|unfold call_done; ev; rewrite Ht; reflexivity]. unfold last_result at 1; ev.
    eexists. split; [reflexivity|]. split; [|split; [|split; [|split]]]; auto.
    + apply (RFrame_soft s); auto; intros; ev; rewrite ?upd_other by congruence; auto.
    + ev. rewrite Ht. reflexivity.
  - rewrite run_alone_done; [|unfold call_done; ev; rewrite Ht; reflexivity]. unfold last_result at 1; ev.
    eexists. split; [reflexivity|]. split; [|split; [|split; [|split]]]; auto.
    + apply (RFrame_soft s); auto; intros; ev; rewrite ?upd_other by congruence; auto.
    + ev. rewrite Ht. reflexivity.
  - destruct (tlrel_loop (S k) (set_pc s t (PTLRel o (S k))) cs ob) with (f := f) as (s' & E & F' & T' & O' & H' & D'); auto.
    + ev. rewrite Ht. reflexivity.
    + apply (RFrame_soft s); auto; intros; ev; rewrite ?upd_other by congruence; auto.
    + lia.
    + exists s'. split; [exact E|]. split; [|split; [|split; [|split]]]; auto.
      cbn [rel_loop] in O'. now rewrite Hr in O'.
Qed.

Let ob0 := objs s0 o.

(* what release() leaves in the object / kernel, by cases of the prologue l.222-229 *)
Definition rel_post (force : bool) (s' : state) : Prop :=
  match o_fd ob0 with
  | None => objs s' o = ob0 /\ holder s' = holder s0 /\ fdown s' = fdown s0
  | Some d =>
      let c' := pred (o_cnt ob0) in
      if Nat.eqb c' 0 || force
      then objs s' o = rel_loop (Nat.max 1 (if force then o_cnt ob0 else 1))
                         (mkobj (o_proc ob0) (o_reent ob0) (o_dflt ob0) None 0 (o_own ob0) (o_dep ob0)) t /\
           holder s' = unl_holder (holder s0) d /\
           (forall d', fdown s' d' = if Nat.eqb d' d then None else fdown s0 d')
      else objs s' o = rel_loop 1 (set_cnt ob0 c') t /\ holder s' = holder s0 /\ fdown s' = fdown s0
  end.

Theorem do_release_outcome force fuel :
  t_pc (thr s0 t) = PIdle -> (o_cnt ob0 + 4 <= fuel)%nat ->
  exists s', do_call fuel s0 t (CRel o force) = (s', RNone) /\ RFrame s' /\
    t_pc (thr s' t) = PIdle /\ t_proc (thr s' t) = p /\ t_prog (thr s' t) = [] /\ t_res (thr s' t) = RNone :: res0 /\ rel_post force s'.
Proof.
  intros Hpc Hfu. unfold do_call, rel_post.
  set (sp := pop_prog s0 t [CRel o force]).
  assert (Hnd : is_dead sp t = false) by (unfold is_dead, sp; ev; exact Halive).
  assert (En : enabled sp t = true) by (unfold enabled; rewrite Hnd; unfold sp; ev; now rewrite Hpc).
  destruct fuel as [|f]; [lia|].
  rewrite run_alone_step; auto; [|unfold call_done, sp; ev; now rewrite Hpc].
  rewrite (step_idle _ _ (CRel o force) []); auto; [|unfold sp; ev; exact Hpc|unfold sp; ev; reflexivity].
  assert (F0 : forall s1, (forall t', t' <> t -> thr s1 t' = thr s0 t') -> (forall o', o' <> o -> objs s1 o' = objs s0 o') ->
            dead s1 = dead s0 -> faults s1 = faults s0 -> now s1 = now s0 -> nextfd s1 = nextfd s0 -> RFrame s1).
  { intros s1 A B C D E G. constructor; auto. }
  unfold begin_call. set (sq := pop_prog sp t []). ev. fold ob0.
  destruct (o_fd ob0) as [d|] eqn:Hfd.
  2:{ (* not held: no-op *)
      destruct (Nat.eqb (o_proc ob0) (t_proc (thr s0 t)));
        (rewrite run_alone_done; [|unfold call_done, sq, sp; ev; reflexivity]); unfold last_result at 1, sq, sp; ev;
        (eexists; split; [reflexivity|]); (split; [|split; [|split; [|split; [|split; [|split]]]]]); ev; auto;
        apply F0; intros; unfold sq, sp; ev; rewrite ?upd_other by congruence; auto. }
  set (c' := pred (o_cnt ob0)).
  set (cs' := if force then remove_all o (t_cs (thr s0 t)) else remove_one o (t_cs (thr s0 t))).
  set (sv := if own_is ob0 t then (if Nat.eqb (o_proc ob0) (t_proc (thr s0 t)) then sq else set_viol sq)
             else set_viol (if Nat.eqb (o_proc ob0) (t_proc (thr s0 t)) then sq else set_viol sq)).
  assert (Esv : objs sv = objs s0 /\ thr sv = thr sq /\ holder sv = holder s0 /\ fdown sv = fdown s0 /\
                nextfd sv = nextfd s0 /\ dead sv = dead s0 /\ faults sv = faults s0 /\ now sv = now s0 /\ nsys sv = nsys s0).
  { unfold sv. destruct (own_is ob0 t), (Nat.eqb (o_proc ob0) (t_proc (thr s0 t))); repeat split. }
  destruct Esv as (V1 & V2 & V3 & V4 & V5 & V6 & V7 & V8 & V9).
  assert (Tsp : thr sq t = mkthr p [] PIdle res0 (t_cs (thr s0 t))) by (unfold sq, sp; ev; rewrite Hpc; reflexivity).
  assert (Tso : forall t', t' <> t -> thr sq t' = thr s0 t') by (intros; unfold sq, sp; ev; now rewrite !upd_other).
  match goal with |- context [set_cs ?X t _] => change X with sv end.
  replace (t_cs (thr sv t)) with (t_cs (thr s0 t)) by (rewrite V2, Tsp; reflexivity). fold cs' c'.
  destruct (Nat.eqb c' 0 || force) eqn:Hfin.
  - (* the OS lock is dropped: unlock, close, then the thread-lock loop *)
    set (k := Nat.max 1 (if force then o_cnt ob0 else 1)).
    set (s1 := set_pc (set_obj (set_cs sv t cs') o (set_fd (set_cnt ob0 c') None)) t (PUnlock o d k)).
    assert (T1 : thr s1 t = mkthr p [] (PUnlock o d k) res0 cs') by (unfold s1; ev; rewrite V2, Tsp; reflexivity).
    assert (T1o : forall t', t' <> t -> thr s1 t' = thr s0 t').
    { intros t' Hn. unfold s1. ev. rewrite !upd_other by auto. rewrite V2. auto. }
    assert (O1 : objs s1 o = set_fd (set_cnt ob0 c') None) by (unfold s1; ev; reflexivity).
    assert (O1o : forall o', o' <> o -> objs s1 o' = objs s0 o').
    { intros o' Hn. unfold s1. ev. rewrite upd_other by auto. now rewrite V1. }
    assert (K1 : holder s1 = holder s0 /\ fdown s1 = fdown s0 /\ nextfd s1 = nextfd s0 /\ dead s1 = dead s0 /\
                 faults s1 = faults s0 /\ now s1 = now s0) by (unfold s1; cbn; auto 10).
    destruct K1 as (K1h & K1f & K1n & K1d & K1fl & K1w).
    clearbody s1.
    assert (Hnd1 : is_dead s1 t = false) by (unfold is_dead; rewrite T1, K1d; exact Halive).
    destruct f as [|f]; [lia|].
    rewrite run_alone_step; [|unfold call_done; now rewrite T1|unfold enabled; rewrite Hnd1, T1; reflexivity].
    rewrite (step_unlock _ _ o d k); [|unfold enabled; rewrite Hnd1, T1; reflexivity|now rewrite T1].
    set (s2 := set_pc (if fst (sys s1 KUnlock) then snd (sys s1 KUnlock) else k_unlock (snd (sys s1 KUnlock)) d) t (PCloseR o d k)).
    change (let '(f0, s3) := sys s1 KUnlock in set_pc (if f0 then s3 else k_unlock s3 d) t (PCloseR o d k)) with s2.
    assert (E2 : objs s2 = objs s1 /\ (forall t', t' <> t -> thr s2 t' = thr s1 t') /\
                 thr s2 t = mkthr p [] (PCloseR o d k) res0 cs' /\ dead s2 = dead s0 /\ faults s2 = faults s0 /\
                 now s2 = now s0 /\ nextfd s2 = nextfd s0 /\ fdown s2 = fdown s0 /\
                 (holder s2 = holder s0 \/ holder s2 = unl_holder (holder s0) d)).
    { unfold s2. destruct (fst (sys s1 KUnlock)).
      - cbn. rewrite upd_same, T1. cbn. repeat split; auto. intros; now rewrite upd_other.
      - cbn. rewrite objs_k_unlock, thr_k_unlock, dead_k_unlock, fdown_k_unlock, nextfd_k_unlock, holder_k_unlock,
          faults_k_unlock, now_k_unlock. cbn.
        rewrite upd_same, T1, K1h. cbn. repeat split; auto.
        intros; now rewrite upd_other. }
    destruct E2 as (O2 & T2o & T2 & D2 & FL2 & N2 & X2 & FD2 & H2). clearbody s2.
    destruct f as [|f]; [lia|].
    assert (Hnd2 : is_dead s2 t = false) by (unfold is_dead; rewrite T2, D2; exact Halive).
    rewrite run_alone_step; [|unfold call_done; now rewrite T2|unfold enabled; rewrite Hnd2, T2; reflexivity].
    rewrite (step_closer _ _ o d k); [|unfold enabled; rewrite Hnd2, T2; reflexivity|now rewrite T2].
    cbn [fst snd].
    set (s3 := set_obj (k_close (snd (sys s2 KClose)) d) o (set_cnt (objs (k_close (snd (sys s2 KClose)) d) o) 0)).
    change (let '(_, s4) := sys s2 KClose in
            enter_tlrel (set_obj (k_close s4 d) o (set_cnt (objs (k_close s4 d) o) 0)) t o k) with (enter_tlrel s3 t o k).
    assert (O3 : objs s3 o = mkobj (o_proc ob0) (o_reent ob0) (o_dflt ob0) None 0 (o_own ob0) (o_dep ob0)).
    { unfold s3. ev. rewrite objs_k_close. cbn. rewrite O2, O1. reflexivity. }
    destruct (tlrel_enter k s3 cs' (objs s3 o)) with (f := f) as (s' & E & F' & T' & O' & H' & D'); auto.
    + unfold s3. ev. rewrite thr_k_close. cbn. rewrite T2. reflexivity.
    + apply F0; unfold s3; ev; rewrite ?thr_k_close, ?objs_k_close, ?dead_k_close, ?nextfd_k_close; cbn; auto.
      * intros t' Hn. rewrite T2o by auto. auto.
      * intros o' Hn. rewrite upd_other by auto. rewrite O2. auto.
      * rewrite faults_k_close. cbn. auto.
      * rewrite now_k_close. cbn. auto.
    + unfold k. destruct force; lia.
    + exists s'. split; [exact E|]. rewrite T'. split; [exact F'|]. repeat split; auto.
      * rewrite O', O3. reflexivity.
      * rewrite H'. unfold s3. ev. rewrite holder_k_close. cbn.
        destruct H2 as [-> | ->]; auto. unfold unl_holder. destruct (holder s0) as [x|]; auto.
        destruct (Nat.eqb x d) eqn:Ex; cbn; auto. now rewrite Ex.
      * intros d'. rewrite D'. unfold s3. ev. rewrite fdown_k_close. cbn. now rewrite FD2.
  - (* an inner level of a reentrant lock: one thread-lock release *)
    destruct (tlrel_enter 1 (set_obj (set_cs sv t cs') o (set_cnt ob0 c')) cs' (set_cnt ob0 c')) with (f := f)
      as (s' & E & F' & T' & O' & H' & D'); auto.
    + ev. rewrite V2, Tsp. reflexivity.
    + apply F0; ev; auto.
      * intros t' Hn. rewrite upd_other by auto. rewrite V2. auto.
      * intros o' Hn. rewrite upd_other by auto. now rewrite V1.
    + ev. reflexivity.
    + lia.
    + exists s'. split; [exact E|]. rewrite T'. split; [exact F'|]. repeat split; auto.
      * rewrite H'. ev. exact V3.
      * rewrite D'. ev. exact V4.
Qed.

End Rel.
