(* FLockTL.v — the thread-lock accounting invariant TL (FLockInv.v) is preserved by
   every step of every thread, for all fault scripts, provided the step's call was
   inside the contract (ghost flag viol not raised by it). *)
From Coq Require Import List Arith NArith Bool Lia ZifyBool.
Import ListNotations.
Require Import Aiuti.FLock Aiuti.FLockInv.
Local Arguments Nat.max : simpl never.
Arguments upd : simpl never.
Arguments enter_tlrel : simpl never.
Arguments enter_cleanup : simpl never.
Arguments after_attempt : simpl never.
Arguments k_unlock : simpl never.
Arguments k_close : simpl never.
Arguments tl_release : simpl never.
Arguments tl_try : simpl never.
Arguments tl_rel_raises : simpl never.
Arguments normalise : simpl never.
Arguments faulty : simpl never.
Arguments intr : simpl never.
Arguments enabled : simpl never.
Arguments remove_all : simpl never.
Arguments remove_one : simpl never.

(* ---------- the contract, per call ------------------------------------------- *)

Definition call_ok (s : state) (t : tid) (c : call) : bool :=
  match c with
  | CAcq o _ _ _ _ _ => Nat.eqb (o_proc (objs s o)) (t_proc (thr s t))
  | CRel o _ => Nat.eqb (o_proc (objs s o)) (t_proc (thr s t)) &&
                match o_fd (objs s o) with None => true | Some _ => own_is (objs s o) t end
  end.

Lemma viol_enter_tlrel s t o k : viol (enter_tlrel s t o k) = viol s.
Proof. unfold enter_tlrel. destruct k; cbn; [|destruct (tl_rel_raises _ _)]; reflexivity. Qed.
Lemma viol_enter_cleanup s t a b : viol (enter_cleanup s t a b) = viol s.
Proof. unfold enter_cleanup. destruct (tl_rel_raises _ _); reflexivity. Qed.
Lemma viol_after_attempt s t a : viol (after_attempt s t a) = viol s.
Proof.
  unfold after_attempt. destruct (negb (a_blk a)); [apply viol_enter_cleanup|].
  destruct (a_tm a); try reflexivity. destruct (_ <? _)%N; [apply viol_enter_cleanup|reflexivity].
Qed.

Lemma viol_begin_call s t c rest :
  viol (begin_call s t c rest) = viol s || negb (call_ok s t c).
Proof.
  destruct c as [o m blk tm poll skip|o force]; unfold begin_call, call_ok; cbn.
  - rewrite upd_same. cbn. destruct (Nat.eqb _ _); destruct (normalise _ _ _); cbn; destruct (viol s); reflexivity.
  - rewrite upd_same. cbn.
    destruct (Nat.eqb (o_proc (objs s o)) (t_proc (thr s t))); cbn;
      (destruct (o_fd (objs s o)); cbn; [|destruct (viol s); reflexivity]);
      destruct (own_is _ _); cbn; destruct (_ || _); cbn; rewrite ?viol_enter_tlrel; cbn;
      destruct (viol s); reflexivity.
Qed.

(* ---------- TL depends on objects and threads only ----------------------------- *)

Lemma TL_same s s' : objs s' = objs s -> thr s' = thr s -> TL s -> TL s'.
Proof.
  intros Ho Ht [HL Hf Hw Htl Hc Hu]. constructor; unfold lev in *; rewrite ?Ho, ?Ht; assumption.
Qed.

Ltac kill_eqb := repeat match goal with
  | H : ?x <> ?y |- context [Nat.eqb ?x ?y] => rewrite (proj2 (Nat.eqb_neq x y) H)
  | H : ?x <> ?y |- context [Nat.eqb ?y ?x] => rewrite (proj2 (Nat.eqb_neq y x) (not_eq_sym H))
  end.
Ltac frames := intros; cbn; rewrite ?upd_same, ?upd_other by (assumption || congruence); cbn; kill_eqb; auto;
  try solve [repeat split; auto; eqb_cases; congruence || lia].

Lemma raises_own ob t : o_own ob = Some t -> tl_rel_raises ob t = false.
Proof. unfold tl_rel_raises. intros ->. rewrite Nat.eqb_refl. apply andb_false_r. Qed.

(* the pc is inside the OS-lock stage of an acquire described by a *)
Definition acq_pc (p : pc) (a : aloc) : Prop :=
  match p with
  | POpen a' | PFlock a' _ | PCloseF a' _ _ | PSleep a' _ => a' = a
  | _ => False
  end.

Lemma acq_pc_facts p a : acq_pc p a ->
  rel_need p (a_o a) = 1 /\ inacq p (a_o a) = 1 /\ tail_need p (a_o a) = 0 /\ unl p (a_o a) = false
  /\ forall o, o <> a_o a -> rel_need p o = 0.
Proof.
  destruct p; cbn; try tauto; intros ->; rewrite Nat.eqb_refl; repeat split; auto;
    intros o Hn; destruct (Nat.eqb_spec (a_o a) o); congruence.
Qed.

Lemma TL_enter_cleanup s t a b :
  TL s -> acq_pc (t_pc (thr s t)) a -> TL (enter_cleanup s t a b).
Proof.
  intros H Hpc. destruct (acq_pc_facts _ _ Hpc) as (Hr & Hi & Hta & Hu & Hoth).
  destruct (TL_at s t (a_o a) H) as (Hown & Hlev & Hd1 & Hnr & Hcd & _ & Hocc & _); [lia|].
  unfold enter_cleanup. rewrite (raises_own _ _ Hown).
  apply (TL_local s _ t (a_o a)); auto.
  - frames.
  - frames.
  - frames.
  - unfold local_ok. cbn. rewrite !upd_same. cbn. rewrite Hown, Nat.eqb_refl. 
    repeat split; auto; try lia.
Qed.

Lemma acq_pc_same p p' a o : acq_pc p a -> acq_pc p' a ->
  rel_need p' o = rel_need p o /\ tail_need p' o = 0 /\ inacq p' o = inacq p o /\ unl p' o = false.
Proof. destruct p, p'; cbn; try tauto; intros -> ->; auto. Qed.

Lemma TL_set_pc_acq s t a p' :
  TL s -> acq_pc (t_pc (thr s t)) a -> acq_pc p' a -> TL (set_pc s t p').
Proof.
  intros H Hpc Hpc'. apply (TL_lower s _ t); auto.
  - frames.
  - frames.
  - intros o. cbn. rewrite upd_same. cbn.
    destruct (acq_pc_same _ _ _ o Hpc Hpc') as (A & B & C & D). rewrite A, B, C, D. repeat split; auto. discriminate.
Qed.

Lemma TL_after_attempt s t a :
  TL s -> acq_pc (t_pc (thr s t)) a -> TL (after_attempt s t a).
Proof.
  intros H Hpc. unfold after_attempt.
  destruct (negb (a_blk a)); [now apply TL_enter_cleanup|].
  destruct (a_tm a); try (apply (TL_set_pc_acq s t a); cbn; auto).
  destruct (_ <? _)%N; [now apply TL_enter_cleanup|apply (TL_set_pc_acq s t a); cbn; auto].
Qed.

Lemma is_fail_fail_result m : is_fail (fail_result m) = true.
Proof. destruct m; reflexivity. Qed.

(* finishing an acquire unsuccessfully from a pc that accounts for nothing *)
Lemma TL_finish_fail s t a r :
  TL s -> is_fail r = true -> TL (finish_acq s t a r).
Proof.
  intros H Hf. apply (TL_lower s _ t); auto.
  - frames.
  - cbn. rewrite upd_same. cbn. now rewrite Hf.
  - intros o. cbn. rewrite upd_same. cbn. repeat split; auto; try lia.
Qed.

Lemma TL_own s t o : TL s -> o_own (objs s o) = Some t ->
  lev s t o <= o_dep (objs s o) /\ 1 <= o_dep (objs s o) /\
  (o_reent (objs s o) = false -> o_dep (objs s o) = 1) /\ o_cnt (objs s o) <= o_dep (objs s o) /\
  occ (t_cs (thr s t)) o + inacq (t_pc (thr s t)) o <= o_cnt (objs s o).
Proof.
  intros [HL Hf Hw Htl Hc Hu] Hown. destruct (Hw _ _ Hown) as (A & B & D).
  split; [|auto]. destruct (Nat.eq_dec (lev s t o) 0) as [->|Hp]; [lia|]. apply HL. lia.
Qed.

Lemma TL_none s t o : TL s -> o_own (objs s o) = None ->
  o_dep (objs s o) = 0 /\ o_cnt (objs s o) = 0 /\ lev s t o = 0.
Proof.
  intros [HL Hf Hw Htl Hc Hu] Hown. destruct (Hf _ Hown) as (A & B). repeat split; auto.
  destruct (Nat.eq_dec (lev s t o) 0) as [|Hp]; [assumption|].
  destruct (HL t o) as [E _]; [lia|congruence].
Qed.

Lemma tl_try_some ob t ob' : tl_try ob t = Some ob' ->
  o_own ob' = Some t /\ o_fd ob' = o_fd ob /\ o_cnt ob' = o_cnt ob /\ o_reent ob' = o_reent ob /\
  o_proc ob' = o_proc ob /\ o_dflt ob' = o_dflt ob /\
  ((o_own ob = None /\ o_dep ob' = 1) \/ (o_own ob = Some t /\ o_reent ob = true /\ o_dep ob' = S (o_dep ob))).
Proof.
  unfold tl_try. destruct (o_own ob) as [u|] eqn:E.
  - destruct (o_reent ob) eqn:R; cbn; [|discriminate]. destruct (Nat.eqb_spec u t); [|discriminate].
    intros [= <-]. cbn. subst. repeat split; auto.
  - intros [= <-]. cbn. repeat split; auto.
Qed.

Lemma tl_release_cases ob :
  (o_reent ob = true /\ 2 <= o_dep ob /\
   tl_release ob = mkobj (o_proc ob) (o_reent ob) (o_dflt ob) (o_fd ob) (o_cnt ob) (o_own ob) (pred (o_dep ob)))
  \/ ((o_reent ob = false \/ o_dep ob < 2) /\
      tl_release ob = mkobj (o_proc ob) (o_reent ob) (o_dflt ob) (o_fd ob) (o_cnt ob) None 0).
Proof.
  unfold tl_release. destruct (o_reent ob); [|right; auto].
  destruct (Nat.leb_spec 2 (o_dep ob)); cbn [andb]; [left; auto|right; split; auto].
Qed.

Lemma enter_tlrel_eq s t o k :
  enter_tlrel s t o k =
  if Nat.eqb k 0 || tl_rel_raises (objs s o) t then finish_rel s t else set_pc s t (PTLRel o k).
Proof. unfold enter_tlrel. destruct k; reflexivity. Qed.

Lemma step_viol_call s t c rest :
  t_pc (thr s t) = PIdle -> t_prog (thr s t) = c :: rest -> enabled s t = true ->
  viol (step s t) = false -> call_ok s t c = true /\ viol s = false.
Proof.
  intros Hpc Hpr He. unfold step. rewrite He, Hpc, Hpr. cbn. rewrite viol_begin_call.
  destruct (viol s), (call_ok s t c); cbn; auto; discriminate.
Qed.

Theorem TL_step s t : TL s -> viol (step s t) = false -> TL (step s t).
Proof.
  intros H Hv. destruct (enabled s t) eqn:He; [|unfold step; now rewrite He].
  destruct (t_pc (thr s t)) as [|a dl|a|a d|a d i|a w|a oserr|o d k|o d k|o k] eqn:Hpc.
  - (* PIdle *) destruct (t_prog (thr s t)) as [|c rest] eqn:Hpr; [unfold step; now rewrite He, Hpc, Hpr|].
    destruct (step_viol_call _ _ _ _ Hpc Hpr He Hv) as [Hok _].
    unfold step. rewrite He, Hpc, Hpr. cbn.
    destruct c as [o m blk tm poll skip|o force]; unfold begin_call; cbn.
    + (* acquire: only the pc changes, to PTLAcq *)
      rewrite upd_same. cbn. cbn in Hok. rewrite Hok. destruct (normalise _ _ _) as [b' tm'].
      apply (TL_lower s _ t); auto.
      * frames.
      * frames.
      * intros o'. cbn. rewrite upd_same. cbn. rewrite Hpc. cbn. auto.
    + rewrite upd_same. cbn. cbn in Hok. apply andb_prop in Hok. destruct Hok as [Hok1 Hok2]. rewrite Hok1.
      destruct (o_fd (objs s o)) as [d|] eqn:Hfd.
      2:{ (* release of an unheld lock: no-op *)
          apply (TL_lower s _ t); auto.
          - frames.
          - frames.
          - intros o'. cbn. rewrite upd_same. cbn. rewrite Hpc. cbn. auto. }
      rewrite Hok2. 
      assert (Hown : o_own (objs s o) = Some t).
      { unfold own_is in Hok2. destruct (o_own (objs s o)) as [u|]; [|discriminate].
        apply Nat.eqb_eq in Hok2. now subst. }
      destruct (TL_own _ _ _ H Hown) as (Hlev & Hd1 & Hnr & Hcd & Hocc). unfold lev in Hlev.
      rewrite Hpc in Hlev, Hocc. cbn in Hlev, Hocc.
      destruct (Nat.eqb (pred (o_cnt (objs s o))) 0 || force) eqn:Hfin.
      * apply (TL_local s _ t o); auto.
        -- frames.
        -- frames.
        -- frames. split; auto.
           ++ destruct force; [apply occ_remove_all_other|apply occ_remove_one_other]; auto.
        -- unfold local_ok. cbn. rewrite !upd_same. cbn. rewrite Hown, Nat.eqb_refl.
           assert (Ho0 : occ (if force then remove_all o (t_cs (thr s t)) else remove_one o (t_cs (thr s t))) o = 0).
           { destruct force; [apply occ_remove_all_same|rewrite occ_remove_one_same]. cbn in Hfin. lia. }
           rewrite Ho0. repeat split; auto; try lia. destruct force; lia.
      * rewrite enter_tlrel_eq. cbn. rewrite !upd_same. cbn. rewrite (raises_own _ t) by (cbn; auto). cbn.
        destruct force; [cbn in Hfin; rewrite orb_true_r in Hfin; discriminate|]. rewrite orb_false_r in Hfin.
        apply (TL_local s _ t o); auto.
        -- frames.
        -- frames.
        -- frames. split; auto. apply occ_remove_one_other; auto.
        -- unfold local_ok. cbn. rewrite !upd_same. cbn. rewrite Hown, Nat.eqb_refl.
           rewrite occ_remove_one_same. repeat split; auto; try lia.
  - (* PTLAcq *)
    unfold step. rewrite He, Hpc. cbn.
    destruct (tl_try (objs s (a_o a)) t) as [ob'|] eqn:Htry.
    2:{ apply TL_finish_fail; auto. apply is_fail_fail_result. }
    destruct (tl_try_some _ _ _ Htry) as (Hown' & Hfd' & Hcnt' & Hre' & _ & _ & Hcase).
    assert (Hloc : forall p' cs', 
       (unl p' (a_o a) = false) -> tail_need p' (a_o a) = 0 ->
       occ cs' (a_o a) + rel_need p' (a_o a) = S (occ (t_cs (thr s t)) (a_o a)) ->
       occ cs' (a_o a) + inacq p' (a_o a) = S (occ (t_cs (thr s t)) (a_o a)) ->
       local_ok (set_cnt ob' (S (o_cnt ob'))) (mkthr (t_proc (thr s t)) (t_prog (thr s t)) p' (t_res (thr s t)) cs') t (a_o a)).
    { intros p' cs' Hu Hta Hrn Hin. unfold local_ok. cbn. rewrite Hown', Hu, Hta, Hrn, Hin, Hcnt'.
      destruct Hcase as [(Hn & Hd)|(Hs & Hr & Hd)].
      - destruct (TL_none _ t _ H Hn) as (A & B & D). unfold lev in D. rewrite Hpc in D. cbn in D.
        rewrite Hre'. repeat split; auto; try discriminate; try lia.
      - destruct (TL_own _ _ _ H Hs) as (A & B & D & E & F). unfold lev in A. rewrite Hpc in A, F. cbn in A, F.
        rewrite Hre'. repeat split; auto; try discriminate; try lia. }
    assert (Hown0 : o_own (objs s (a_o a)) = Some t \/ o_own (objs s (a_o a)) = None) by tauto.
    destruct (o_fd ob') eqn:Hfd2.
    + apply (TL_local s _ t (a_o a)); auto.
      * frames.
      * frames.
      * frames. rewrite occ_cons. kill_eqb. auto.
      * cbn. rewrite !upd_same. cbn. apply Hloc; cbn; auto; rewrite occ_cons, Nat.eqb_refl; lia.
    + apply (TL_local s _ t (a_o a)); auto.
      * frames.
      * frames.
      * frames.
      * cbn. rewrite !upd_same. cbn. apply Hloc; cbn; auto; rewrite Nat.eqb_refl; lia.
  - (* POpen *)
    unfold step. rewrite He, Hpc. cbn.
    destruct (faulty s KOpen); [destruct (intr s KOpen)|].
    + apply TL_enter_cleanup; [eapply TL_same; [| |exact H]; reflexivity|]. cbn. rewrite Hpc. reflexivity.
    + apply TL_after_attempt; [eapply TL_same; [| |exact H]; reflexivity|]. cbn. rewrite Hpc. reflexivity.
    + apply (TL_set_pc_acq _ t a); [eapply TL_same; [| |exact H]; reflexivity| |]; cbn; auto. rewrite Hpc. reflexivity.
  - (* PFlock *)
    unfold step. rewrite He, Hpc. cbn.
    assert (Hfail : forall s1 i, objs s1 = objs s -> thr s1 = thr s -> TL (set_pc s1 t (PCloseF a d i))).
    { intros s1 i Ho Ht. apply (TL_set_pc_acq _ t a); [eapply TL_same; [| |exact H]; auto| |]; cbn; auto. rewrite Ht, Hpc. reflexivity. }
    destruct (faulty s KLock); [apply Hfail; reflexivity|].
    destruct (holder_free_for _ d); [|apply Hfail; reflexivity].
    destruct (TL_at s t (a_o a) H) as (Hown & Hlev & Hd1 & Hnr & Hcd & _ & Hocc & _); [rewrite Hpc; cbn; rewrite Nat.eqb_refl; lia|].
    rewrite Hpc in Hlev, Hocc. cbn in Hlev, Hocc. rewrite Nat.eqb_refl in Hlev, Hocc.
    apply (TL_local s _ t (a_o a)); auto.
    + frames.
    + frames.
    + frames. rewrite occ_cons. kill_eqb. auto.
    + unfold local_ok. cbn. rewrite !upd_same. cbn. rewrite Hown, occ_cons, Nat.eqb_refl.
      repeat split; auto; try discriminate; try lia.
  - (* PCloseF *)
    unfold step. rewrite He, Hpc. cbn.
    match goal with |- context [k_close ?s1 d] => assert (H2 : TL (k_close s1 d))
      by (eapply TL_same; [apply objs_k_close|apply thr_k_close|eapply TL_same; [| |exact H]; reflexivity]) end.
    destruct (faulty s KClose || i).
    + apply TL_enter_cleanup; auto. rewrite thr_k_close. cbn. rewrite Hpc. reflexivity.
    + apply TL_after_attempt; auto. rewrite thr_k_close. cbn. rewrite Hpc. reflexivity.
  - (* PSleep *)
    unfold step. rewrite He, Hpc. apply (TL_set_pc_acq _ t a); auto; [rewrite Hpc|]; reflexivity.
  - (* PCleanRel *)
    unfold step. rewrite He, Hpc. cbn.
    destruct (TL_at s t (a_o a) H) as (Hown & Hlev & Hd1 & Hnr & Hcd & Hta & Hocc & _); [rewrite Hpc; cbn; rewrite Nat.eqb_refl; lia|].
    rewrite Hpc in Hlev, Hocc, Hta. cbn in Hlev, Hocc, Hta. rewrite Nat.eqb_refl in Hlev, Hta.
    assert (Hf : is_fail (if oserr then ROSErr else fail_result (a_mode a)) = true)
      by (destruct oserr; [reflexivity|apply is_fail_fail_result]).
    apply (TL_local s _ t (a_o a)); auto.
    + frames.
    + frames.
    + frames; try (rewrite Hf; auto).
    + unfold local_ok. cbn. rewrite !upd_same. cbn. rewrite Hf.
      destruct (tl_release_cases (objs s (a_o a))) as [(R & D & ->)|(C & ->)]; cbn; rewrite ?Hown.
      * repeat split; auto; try discriminate; try lia.
      * assert (o_dep (objs s (a_o a)) = 1) by (destruct C; [auto|lia]).
        repeat split; auto; try discriminate; try lia.
  - (* PUnlock *)
    unfold step. rewrite He, Hpc. cbn.
    match goal with |- TL (set_pc ?s2 _ _) => assert (H2 : objs s2 = objs s /\ thr s2 = thr s)
      by (destruct (faulty s KUnlock); [split; reflexivity|split; [rewrite objs_k_unlock|rewrite thr_k_unlock]; reflexivity]) end.
    destruct H2 as [Ho2 Ht2].
    apply (TL_lower s _ t); auto.
    + intros o'. cbn. now rewrite Ho2.
    + intros t' Hn. cbn. rewrite upd_other by auto. now rewrite Ht2.
    + cbn. rewrite upd_same. cbn. now rewrite Ht2.
    + intros o'. cbn. rewrite upd_same. cbn. rewrite Hpc. cbn. repeat split; auto.
  - (* PCloseR *)
    unfold step. rewrite He, Hpc. cbn.
    destruct (TL_at s t o H) as (Hown & Hlev & Hd1 & Hnr & Hcd & _ & Hocc & Hunl); [rewrite Hpc; cbn; rewrite Nat.eqb_refl; lia|].
    rewrite Hpc in Hlev, Hocc, Hunl. cbn in Hlev, Hocc, Hunl. rewrite Nat.eqb_refl in Hlev, Hunl.
    specialize (Hunl eq_refl).
    rewrite enter_tlrel_eq. cbn. rewrite !upd_same, ?objs_k_close. cbn. rewrite (raises_own _ t) by (cbn; auto).
    rewrite orb_false_r.
    destruct (Nat.eqb_spec k 0) as [->|Hk].
    + apply (TL_local s _ t o); auto.
      * frames. now rewrite ?objs_k_close.
      * frames. now rewrite ?thr_k_close.
      * frames; rewrite ?thr_k_close; cbn; auto.
      * unfold local_ok. cbn. rewrite !upd_same, ?objs_k_close, ?thr_k_close. cbn. rewrite Hown.
        repeat split; auto; try discriminate; try lia.
    + apply (TL_local s _ t o); auto.
      * frames. now rewrite ?objs_k_close.
      * frames. now rewrite ?thr_k_close.
      * frames; rewrite ?thr_k_close; cbn; auto.
      * unfold local_ok. cbn. rewrite !upd_same, ?objs_k_close, ?thr_k_close. cbn. rewrite Hown, Nat.eqb_refl.
        repeat split; auto; try discriminate; try lia.
  - (* PTLRel *)
    unfold step. rewrite He, Hpc. cbn.
    destruct (TL_at s t o H) as (Hown & Hlev & Hd1 & Hnr & Hcd & Hta & Hocc & _); [rewrite Hpc; cbn; rewrite Nat.eqb_refl; lia|].
    rewrite Hpc in Hlev, Hocc, Hta. cbn in Hlev, Hocc, Hta. rewrite Nat.eqb_refl in Hlev, Hta.
    rewrite enter_tlrel_eq. cbn. rewrite !upd_same.
    destruct (tl_release_cases (objs s o)) as [(R & D & E)|(C & E)]; rewrite E.
    + rewrite (raises_own _ t) by (cbn; auto). rewrite orb_false_r.
      destruct (Nat.eqb_spec (pred k) 0) as [Hk|Hk].
      * apply (TL_local s _ t o); auto.
        -- frames.
        -- frames.
        -- frames.
        -- unfold local_ok. cbn. rewrite !upd_same. cbn. rewrite Hown.
           repeat split; auto; try discriminate; try lia.
      * apply (TL_local s _ t o); auto.
        -- frames.
        -- frames.
        -- frames.
        -- unfold local_ok. cbn. rewrite !upd_same. cbn. rewrite Hown, Nat.eqb_refl.
           repeat split; auto; try discriminate; try lia.
    + assert (Hdep1 : o_dep (objs s o) = 1) by (destruct C; [auto|lia]).
      assert (Hr : tl_rel_raises (mkobj (o_proc (objs s o)) (o_reent (objs s o)) (o_dflt (objs s o)) (o_fd (objs s o))
                       (o_cnt (objs s o)) None 0) t = true) by reflexivity.
      rewrite Hr, orb_true_r.
      apply (TL_local s _ t o); auto.
      * frames.
      * frames.
      * frames.
      * unfold local_ok. cbn. rewrite !upd_same. cbn.
        repeat split; auto; try discriminate; try lia.
Qed.
