(* Batcher.v — executable macro-step model of aiuti/asyncio.py :
   AsyncBackgroundBatcher / async_background_batcher (the code at /repo HEAD, i.e.
   after "fix: cancelling a batcher caller no longer disturbs other callers":
   callers await [asyncio.shield(fut)], the key is released by the future's
   done-callback [_release_key]).
   MODEL ONLY — no proofs here (BatcherInv.v, BatcherLimits.v, BatcherRet.v).

   One event loop, macro steps (DESIGN §4): [step] applies one external event and
   then every internal transition until the loop would be idle.  At such a
   quiescent point the asyncio queue is empty, because the collector
   (_get_next_batch) only ever blocks on the queue; so the state is

     coll      the batch being assembled by _get_next_batch with the deadline of
               its current  wait_for(q.get(), batch_timeout)        (l.1179-1196)
     waiting   spawned _process_batch tasks queued on the semaphore  (l.1218; FIFO)
     running   batches inside  async for ... in self.func(args)      (l.1223)
     free      the semaphore's value
     fdone     futures that are done, with outcome and completion tick
     ret       _retention_cache : key -> future                      (l.1117-1123)
     rtimers   armed  call_later(retention_timeout, cache.pop, key, None)  (l.1136)
     callers   one per call: key, future, creator?, arrival tick, status
     maxb      the (mutable) max_batch_size; now: the clock in ticks of 2^-10 s.

   Modelled, not verified (DESIGN §7): asyncio.Queue (FIFO, unbounded), wait_for
   (a fresh deadline per call, cancelled when the get succeeds), Semaphore (FIFO
   hand-over, no barging), shield (cancelling the awaiting task leaves the inner
   future untouched), Future done-callbacks run in registration order before the
   next quiescent point (so _release_key has run when the next external event
   arrives), call_later timers fire when deadline <= now, one deadline at a time.

   Identities: caller ids and future ids count calls / item-creating calls;
   batch ids count invocations of the batch function (the harness-owned batch
   function numbers its invocations the same way).  Keys are [nat]; the string
   handed to the library is str(key), hence the default key str(arg) of argument
   [a] is key [a]  (l.1108-1109). *)
From Coq Require Import List Arith NArith Bool.
Import ListNotations.

(* ---- values ------------------------------------------------------------ *)

Inductive res := Val (v : nat) | ExcVal (e : nat).          (* what the batch function yields for a key *)

Inductive outcome :=
| Ret (v : nat)            (* returned the yielded value *)
| YieldedExc (e : nat)     (* raised the Exception instance that was yielded for the key *)
| RaisedExc (e : nat)      (* raised the exception the batch function raised *)
| Missing                  (* ValueError("Missing result for ...") *)
| ProtocolErr              (* KeyError from futs.pop(key): unknown / repeated key *)
| Cancelled                (* the caller's own task was cancelled *)
| LibExc (cls : nat).      (* anything else (1 = InvalidStateError) *)

Definition of_res (r : res) : outcome :=
  match r with Val v => Ret v | ExcVal e => YieldedExc e end.

Record cfg := mkcfg {
  c_maxb : nat;     (* initial max_batch_size *)
  c_conc : nat;     (* max_concurrent_batches *)
  c_bt   : N;       (* batch_timeout, ticks *)
  c_rt   : N        (* retention_timeout, ticks *)
}.

(* (key, arg, future) as put on the queue, l.1125; it_t / it_max are ghosts:
   arrival tick and the max_batch_size in force when the collector took it *)
Record item := mkitem { it_key : nat; it_arg : nat; it_fid : nat; it_t : N; it_max : nat }.

(* a running _process_batch: its id, the tasks, and futs (l.1215) minus what was popped *)
Record batch := mkbatch { b_id : nat; b_items : list item; b_futs : list (nat * nat) }.

Record caller := mkcaller {
  cl_key : nat; cl_fid : nat; cl_creator : bool; cl_t : N;
  cl_st : option outcome;         (* None = still awaiting shield(fut) *)
  cl_arg : nat; cl_ko : option nat;
  cl_more : nat                   (* the calling task makes this many further calls (same arg / key), each one
                                     in the continuation of the previous answer, without yielding to the loop *)
}.

Inductive bev := EvYield (k : nat) (r : res) | EvRaise (e : nat) | EvFin.

Inductive event :=
| Call (a : nat) (k : option nat)              (* await batcher(a) / batcher(a, key=str k) *)
| Chain (a : nat) (k : option nat) (m : nat)   (* one task:  for _ in range(m+1): await batcher(a, key=...)  *)
| Burst (l : list (nat * option nat))          (* several calls in one loop iteration *)
| Advance (dt : N)
| BYield (b : nat) (k : nat) (r : res)         (* batch function of batch b yields (k, r) *)
| BRaise (b : nat) (e : nat)                   (* ... raises *)
| BFinish (b : nat)                            (* ... returns *)
| Cancel (c : nat)                             (* caller task c is cancelled *)
| SetMax (n : nat).                            (* batcher.max_batch_size = n *)

Inductive obs :=
| BatchStart (b : nat) (items : list (nat * nat)) (t : N)    (* (key, arg) pairs given to the batch function *)
| CallerDone (c : nat) (o : outcome) (t : N)
| TaskDied.

(* ---- state ------------------------------------------------------------- *)

Record state := mkst {
  now : N;
  maxb : nat;
  coll : option (list item * N);
  waiting : list (list item);
  running : list batch;
  free : nat;
  nbid : nat;
  nfut : nat;
  fdone : list (nat * (outcome * N));
  ret : list (nat * nat);
  rtimers : list (N * nat);
  callers : list caller;
  (* ghost history *)
  g_items : list item;                       (* item-creating calls, in arrival order *)
  g_started : list (nat * list item * N);    (* invocations of the batch function, in order *)
  g_blog : list (nat * bev);                 (* effective batch-function events, in order *)
  g_spawn : list (list item * N);            (* _process_batch tasks spawned by the collector: items, spawn tick *)
  tie : bool;                                (* a batch deadline and a retention deadline fired at the same instant *)
  fuel_out : bool                            (* [advance] ran out of fuel (proved impossible) *)
}.

Definition init (c : cfg) : state :=
  mkst 0%N (c_maxb c) None [] [] (c_conc c) 0 0 [] [] [] [] [] [] [] [] false false.

Definition set_now s v := mkst v (maxb s) (coll s) (waiting s) (running s) (free s) (nbid s) (nfut s) (fdone s) (ret s) (rtimers s) (callers s) (g_items s) (g_started s) (g_blog s) (g_spawn s) (tie s) (fuel_out s).
Definition set_maxb s v := mkst (now s) v (coll s) (waiting s) (running s) (free s) (nbid s) (nfut s) (fdone s) (ret s) (rtimers s) (callers s) (g_items s) (g_started s) (g_blog s) (g_spawn s) (tie s) (fuel_out s).
Definition set_coll s v := mkst (now s) (maxb s) v (waiting s) (running s) (free s) (nbid s) (nfut s) (fdone s) (ret s) (rtimers s) (callers s) (g_items s) (g_started s) (g_blog s) (g_spawn s) (tie s) (fuel_out s).
Definition set_waiting s v := mkst (now s) (maxb s) (coll s) v (running s) (free s) (nbid s) (nfut s) (fdone s) (ret s) (rtimers s) (callers s) (g_items s) (g_started s) (g_blog s) (g_spawn s) (tie s) (fuel_out s).
Definition set_running s v := mkst (now s) (maxb s) (coll s) (waiting s) v (free s) (nbid s) (nfut s) (fdone s) (ret s) (rtimers s) (callers s) (g_items s) (g_started s) (g_blog s) (g_spawn s) (tie s) (fuel_out s).
Definition set_free s v := mkst (now s) (maxb s) (coll s) (waiting s) (running s) v (nbid s) (nfut s) (fdone s) (ret s) (rtimers s) (callers s) (g_items s) (g_started s) (g_blog s) (g_spawn s) (tie s) (fuel_out s).
Definition set_ret s v := mkst (now s) (maxb s) (coll s) (waiting s) (running s) (free s) (nbid s) (nfut s) (fdone s) v (rtimers s) (callers s) (g_items s) (g_started s) (g_blog s) (g_spawn s) (tie s) (fuel_out s).
Definition set_rtimers s v := mkst (now s) (maxb s) (coll s) (waiting s) (running s) (free s) (nbid s) (nfut s) (fdone s) (ret s) v (callers s) (g_items s) (g_started s) (g_blog s) (g_spawn s) (tie s) (fuel_out s).
Definition set_callers s v := mkst (now s) (maxb s) (coll s) (waiting s) (running s) (free s) (nbid s) (nfut s) (fdone s) (ret s) (rtimers s) v (g_items s) (g_started s) (g_blog s) (g_spawn s) (tie s) (fuel_out s).
Definition set_fdone s v := mkst (now s) (maxb s) (coll s) (waiting s) (running s) (free s) (nbid s) (nfut s) v (ret s) (rtimers s) (callers s) (g_items s) (g_started s) (g_blog s) (g_spawn s) (tie s) (fuel_out s).
Definition set_blog s v := mkst (now s) (maxb s) (coll s) (waiting s) (running s) (free s) (nbid s) (nfut s) (fdone s) (ret s) (rtimers s) (callers s) (g_items s) (g_started s) v (g_spawn s) (tie s) (fuel_out s).
Definition set_spawn s v := mkst (now s) (maxb s) (coll s) (waiting s) (running s) (free s) (nbid s) (nfut s) (fdone s) (ret s) (rtimers s) (callers s) (g_items s) (g_started s) (g_blog s) v (tie s) (fuel_out s).
Definition set_tie s v := mkst (now s) (maxb s) (coll s) (waiting s) (running s) (free s) (nbid s) (nfut s) (fdone s) (ret s) (rtimers s) (callers s) (g_items s) (g_started s) (g_blog s) (g_spawn s) v (fuel_out s).
Definition set_fuel_out s := mkst (now s) (maxb s) (coll s) (waiting s) (running s) (free s) (nbid s) (nfut s) (fdone s) (ret s) (rtimers s) (callers s) (g_items s) (g_started s) (g_blog s) (g_spawn s) (tie s) true.

(* ---- small maps --------------------------------------------------------- *)

Fixpoint lookup {A} (l : list (nat * A)) (k : nat) : option A :=
  match l with
  | [] => None
  | (k', v) :: r => if Nat.eqb k' k then Some v else lookup r k
  end.

Definition remove_key {A} (k : nat) (l : list (nat * A)) : list (nat * A) :=
  filter (fun p => negb (Nat.eqb (fst p) k)) l.

(* dict insertion  d[k] = v : a later duplicate overwrites in place, a new key goes last *)
Fixpoint dict_set (l : list (nat * nat)) (k v : nat) : list (nat * nat) :=
  match l with
  | [] => [(k, v)]
  | (k', v') :: r => if Nat.eqb k' k then (k, v) :: r else (k', v') :: dict_set r k v
  end.

(* futs = {k: f for k, _, f in tasks}   (l.1215) *)
Definition futs_of (its : list item) : list (nat * nat) :=
  fold_left (fun d it => dict_set d (it_key it) (it_fid it)) its [].

Definition ka (it : item) : nat * nat := (it_key it, it_arg it).

(* ---- internal transitions ----------------------------------------------- *)

(* the batch function is invoked: async with self._semaphore: ... self.func(args)  (l.1218-1223) *)
Definition start_batch (its : list item) (s : state) : state * list obs :=
  let b := nbid s in
  (mkst (now s) (maxb s) (coll s) (waiting s) (running s ++ [mkbatch b its (futs_of its)]) (free s)
        (S b) (nfut s) (fdone s) (ret s) (rtimers s) (callers s) (g_items s)
        (g_started s ++ [(b, its, now s)]) (g_blog s) (g_spawn s) (tie s) (fuel_out s),
   [BatchStart b (map ka its) (now s)]).

(* _processing_loop spawns _process_batch(tasks), which enters the semaphore or queues on it *)
Definition dispatch (its : list item) (s0 : state) : state * list obs :=
  let s := set_spawn s0 (g_spawn s0 ++ [(its, now s0)]) in      (* ghost: the spawn is logged *)
  if 0 <? free s then start_batch its (set_free s (free s - 1))
  else (set_waiting s (waiting s ++ [its]), []).

(* Semaphore.release(): hand the slot to the first waiter, else value += 1 *)
Definition release_slot (s : state) : state * list obs :=
  match waiting s with
  | [] => (set_free s (S (free s)), [])
  | w :: ws => start_batch w (set_waiting s ws)
  end.

(* the collector obtains one item (first q.get(), the islice fast path, or the
   timed q.get()); then  while len(tasks) < self.max_batch_size  decides between a
   fresh wait_for (deadline re-armed) and handing the batch over   (l.1173-1197) *)
Definition take (c : cfg) (it : item) (s : state) : state * list obs :=
  let its := match coll s with Some (its0, _) => its0 ++ [it] | None => [it] end in
  if length its <? maxb s then (set_coll s (Some (its, (now s + c_bt c)%N)), [])
  else dispatch its (set_coll s None).

(* fut.set_result / set_exception followed, before the next quiescent point, by
   the done-callback _release_key (l.1128-1142) *)
Definition resolve (c : cfg) (k f : nat) (o : outcome) (s : state) : state :=
  let s1 := set_fdone s ((f, (o, now s)) :: fdone s) in
  if (0 <? c_rt c)%N then set_rtimers s1 (rtimers s1 ++ [((now s + c_rt c)%N, k)])
  else set_ret s1 (remove_key k (ret s1)).

Definition is_done (s : state) (f : nat) : bool :=
  match lookup (fdone s) f with Some _ => true | None => false end.

(* set_result / set_exception raise InvalidStateError on a future that is done *)
Definition set_fut (c : cfg) (k f : nat) (o : outcome) (s : state) : option state :=
  if is_done s f then None else Some (resolve c k f o s).

(* for fut in futs.values(): fut.set_exception(e)   — an InvalidStateError here
   escapes _process_batch: the task dies, the remaining futures stay pending *)
Fixpoint fanout (c : cfg) (l : list (nat * nat)) (o : outcome) (s : state) : state * bool :=
  match l with
  | [] => (s, false)
  | (k, f) :: r =>
      match set_fut c k f o s with
      | Some s' => fanout c r o s'
      | None => (s, true)
      end
  end.

(* callers awaiting shield(fut) of a future that is now done are resumed; they
   are reported in caller order (canonical order within a macro step) *)
Fixpoint wake_from (fd : list (nat * (outcome * N))) (t : N) (i : nat) (cs : list caller)
  : list caller * list obs :=
  match cs with
  | [] => ([], [])
  | cl :: r =>
      let '(r', os) := wake_from fd t (S i) r in
      match cl_st cl, lookup fd (cl_fid cl) with
      | None, Some (o, _) =>
          (mkcaller (cl_key cl) (cl_fid cl) (cl_creator cl) (cl_t cl) (Some o) (cl_arg cl) (cl_ko cl) (cl_more cl) :: r',
           CallerDone i o t :: os)
      | _, _ => (cl :: r', os)
      end
  end.

Definition wake (s : state) : state * list obs :=
  let '(cs, os) := wake_from (fdone s) (now s) 0 (callers s) in (set_callers s cs, os).

Definition find_batch (s : state) (b : nat) : option batch :=
  find (fun x => Nat.eqb (b_id x) b) (running s).

Definition set_batch_futs (s : state) (b : nat) (fs : list (nat * nat)) : state :=
  set_running s (map (fun x => if Nat.eqb (b_id x) b then mkbatch (b_id x) (b_items x) fs else x) (running s)).

Definition log_bev (s : state) (b : nat) (e : bev) : state := set_blog s (g_blog s ++ [(b, e)]).

(* ---- one call (l.1104-1126), run up to its  await shield(fut) ------------ *)

Definition key_of (a : nat) (k : option nat) : nat := match k with Some k => k | None => a end.

Definition add_caller (s : state) (cl : caller) : state := set_callers s (callers s ++ [cl]).

Definition do_call (c : cfg) (a : nat) (ko : option nat) (m : nat) (s : state) : state * list obs :=
  let k := key_of a ko in
  let cid := length (callers s) in
  match lookup (ret s) k with
  | Some f =>
      match lookup (fdone s) f with
      | Some (o, _) => (add_caller s (mkcaller k f false (now s) (Some o) a ko m), [CallerDone cid o (now s)])
      | None => (add_caller s (mkcaller k f false (now s) None a ko m), [])
      end
  | None =>
      let f := nfut s in
      let it := mkitem k a f (now s) (maxb s) in
      let s1 := mkst (now s) (maxb s) (coll s) (waiting s) (running s) (free s) (nbid s) (S f)
                     (fdone s) ((k, f) :: ret s) (rtimers s)
                     (callers s ++ [mkcaller k f true (now s) None a ko m])
                     (g_items s ++ [it]) (g_started s) (g_blog s) (g_spawn s) (tie s) (fuel_out s) in
      take c it s1
  end.

Fixpoint do_calls (c : cfg) (l : list (nat * option nat)) (s : state) : state * list obs :=
  match l with
  | [] => (s, [])
  | (a, ko) :: r =>
      let '(s1, o1) := do_call c a ko 0 s in
      let '(s2, o2) := do_calls c r s1 in
      (s2, o1 ++ o2)
  end.

(* the remembered future of key k is done: a call returns at once, without yielding to the loop *)
Definition cached_done (s : state) (k : nat) : bool :=
  match lookup (ret s) k with Some f => is_done s f | None => false end.

(* a task making m+1 sequential calls: while a call is answered at once the next one follows immediately *)
Fixpoint do_chain (c : cfg) (a : nat) (ko : option nat) (m : nat) (s : state) : state * list obs :=
  let '(s1, o1) := do_call c a ko m s in
  match m with
  | 0 => (s1, o1)
  | S m' =>
      if cached_done s (key_of a ko)
      then let '(s2, o2) := do_chain c a ko m' s1 in (s2, o1 ++ o2)
      else (s1, o1)
  end.

(* callers about to be resumed whose task calls again: (future, (arg, key, remaining)) *)
Fixpoint recalls_of (fd : list (nat * (outcome * N))) (cs : list caller) : list (nat * (nat * option nat * nat)) :=
  match cs with
  | [] => []
  | cl :: r =>
      match cl_st cl, lookup fd (cl_fid cl), cl_more cl with
      | None, Some _, S m' => (cl_fid cl, (cl_arg cl, cl_ko cl, m')) :: recalls_of fd r
      | _, _, _ => recalls_of fd r
      end
  end.

(* tasks are resumed in the order their futures were resolved (futs order = future-id order), and per
   future in the order they started to wait (caller order): stable insertion sort by future id *)
Fixpoint insert_rc (x : nat * (nat * option nat * nat)) (l : list (nat * (nat * option nat * nat))) :=
  match l with
  | [] => [x]
  | y :: r => if fst y <=? fst x then y :: insert_rc x r else x :: l
  end.
Definition sort_rc (l : list (nat * (nat * option nat * nat))) := fold_left (fun acc x => insert_rc x acc) l [].

Fixpoint do_recalls (c : cfg) (l : list (nat * (nat * option nat * nat))) (s : state) : state * list obs :=
  match l with
  | [] => (s, [])
  | (_, (a, ko, m)) :: r =>
      let '(s1, o1) := do_chain c a ko m s in
      let '(s2, o2) := do_recalls c r s1 in
      (s2, o1 ++ o2)
  end.

(* resume the callers of the futures that are now done; those whose task calls again do so at once *)
Definition wake_all (c : cfg) (s : state) : state * list obs :=
  let rc := sort_rc (recalls_of (fdone s) (callers s)) in
  let '(s1, o1) := wake s in
  let '(s2, o2) := do_recalls c rc s1 in
  (s2, o1 ++ o2).

(* the batch ends (function returned, raised, or the result loop failed): leave
   the semaphore, then give [o] to every future still in futs *)
Definition end_batch (c : cfg) (b : batch) (o : outcome) (s : state) : state * list obs :=
  let s0 := set_running s (filter (fun x => negb (Nat.eqb (b_id x) (b_id b))) (running s)) in
  let '(s1, o1) := release_slot s0 in
  let '(s2, died) := fanout c (b_futs b) o s1 in
  let '(s3, o3) := wake_all c s2 in
  (s3, o1 ++ o3 ++ (if died then [TaskDied] else [])).

(* ---- time ---------------------------------------------------------------- *)

Definition deadlines (s : state) : list N :=
  map fst (rtimers s) ++ match coll s with Some (_, dl) => [dl] | None => [] end.

Definition next_deadline (s : state) : option N :=
  match deadlines s with
  | [] => None
  | d :: r => Some (fold_left N.min r d)
  end.

(* the loop's clock reaches deadline t: every timer with that deadline fires *)
Definition fire_at (t : N) (s : state) : state * list obs :=
  let s1 := set_now s (N.max (now s) t) in
  let due := filter (fun p => (fst p <=? t)%N) (rtimers s1) in
  let s2 := set_rtimers (set_ret s1 (fold_left (fun r p => remove_key (snd p) r) due (ret s1)))
                        (filter (fun p => negb (fst p <=? t)%N) (rtimers s1)) in
  match coll s2 with
  | Some (its, dl) =>
      if (dl <=? t)%N then
        dispatch its (set_coll (set_tie s2 (tie s2 || negb (length due =? 0))) None)
      else (s2, [])
  | None => (s2, [])
  end.

Fixpoint advance (fuel : nat) (target : N) (s : state) : state * list obs :=
  match fuel with
  | 0 => (set_fuel_out s, [])
  | S n =>
      match next_deadline s with
      | Some t =>
          if (t <=? target)%N then
            let '(s1, o1) := fire_at t s in
            let '(s2, o2) := advance n target s1 in
            (s2, o1 ++ o2)
          else (set_now s (N.max (now s) target), [])
      | None => (set_now s (N.max (now s) target), [])
      end
  end.

(* ---- the macro step -------------------------------------------------------- *)

Definition cancel_caller (s : state) (cid : nat) : state * list obs :=
  match nth_error (callers s) cid with
  | Some cl =>
      match cl_st cl with
      | None =>
          (set_callers s (firstn cid (callers s)
                          ++ mkcaller (cl_key cl) (cl_fid cl) (cl_creator cl) (cl_t cl) (Some Cancelled)
                                      (cl_arg cl) (cl_ko cl) (cl_more cl)
                          :: skipn (S cid) (callers s)),
           [CallerDone cid Cancelled (now s)])
      | Some _ => (s, [])
      end
  | None => (s, [])
  end.

Definition step (c : cfg) (s : state) (e : event) : state * list obs :=
  match e with
  | Call a ko => do_call c a ko 0 s
  | Chain a ko m => do_chain c a ko m s
  | Burst l => do_calls c l s
  | Advance dt => advance (length (rtimers s) + 3) (now s + dt)%N s
  | BYield b k r =>
      match find_batch s b with
      | None => (s, [])
      | Some B =>
          let s0 := log_bev s b (EvYield k r) in
          match lookup (b_futs B) k with
          | None => end_batch c B ProtocolErr s0                      (* futs.pop(key) -> KeyError *)
          | Some f =>
              let fs := remove_key k (b_futs B) in
              match set_fut c k f (of_res r) (set_batch_futs s0 b fs) with
              | Some s1 => wake_all c s1
              | None => end_batch c (mkbatch (b_id B) (b_items B) fs) (LibExc 1) (set_batch_futs s0 b fs)
              end
          end
      end
  | BRaise b e =>
      match find_batch s b with
      | None => (s, [])
      | Some B => end_batch c B (RaisedExc e) (log_bev s b (EvRaise e))
      end
  | BFinish b =>
      match find_batch s b with
      | None => (s, [])
      | Some B => end_batch c B Missing (log_bev s b EvFin)
      end
  | Cancel cid => cancel_caller s cid
  | SetMax n => (set_maxb s n, [])
  end.

Fixpoint run_from (c : cfg) (s : state) (evs : list event) : list (list obs) * state :=
  match evs with
  | [] => ([], s)
  | e :: r =>
      let '(s1, o) := step c s e in
      let '(tr, s2) := run_from c s1 r in
      (o :: tr, s2)
  end.

Definition run (c : cfg) (evs : list event) : list (list obs) * state := run_from c (init c) evs.

Fixpoint waiting_from (i : nat) (cs : list caller) : list nat :=
  match cs with
  | [] => []
  | cl :: r => match cl_st cl with None => i :: waiting_from (S i) r | Some _ => waiting_from (S i) r end
  end.

(* callers still unanswered *)
Definition waiting_callers (s : state) : list nat := waiting_from 0 (callers s).

(* canonical order inside a macro step: batch starts, completions by caller id, task deaths *)
Definition is_start (o : obs) := match o with BatchStart _ _ _ => true | _ => false end.
Definition is_done_obs (o : obs) := match o with CallerDone _ _ _ => true | _ => false end.
Definition is_died (o : obs) := match o with TaskDied => true | _ => false end.
Definition done_id (o : obs) : nat := match o with CallerDone c _ _ => c | _ => 0 end.

Fixpoint insert_done (o : obs) (l : list obs) : list obs :=
  match l with
  | [] => [o]
  | x :: r => if done_id o <? done_id x then o :: l else x :: insert_done o r
  end.

Definition canon (os : list obs) : list obs :=
  filter is_start os ++ fold_right insert_done [] (filter is_done_obs os) ++ filter is_died os.

(* what the correspondence compares: the canonical trace, who is still waiting,
   whether a timer tie occurred *)
Definition run_trace (c : cfg) (evs : list event) : list (list obs) * list nat * bool :=
  let '(tr, s) := run c evs in (map canon tr, waiting_callers s, tie s || fuel_out s).
