(* GatherInv.v — invariants and theorems about the gather machine (Gather.v). *)
From Coq Require Import List Arith NArith Bool Lia Permutation ZifyBool ZifyNat ZifyN.
Import ListNotations.
Require Import Aiuti.Gather.

Local Open Scope N_scope.

(* ---- small list facts ------------------------------------------------------ *)
Definition maxl (l : list N) (t0 : N) : N := fold_right N.max t0 l.

Lemma maxl_max r : forall a b, maxl r (N.max a b) = N.max b (maxl r a).
Proof. induction r as [|y r IH]; intros a b; simpl; [lia|]. rewrite IH. lia. Qed.

Lemma fold_left_max_maxl l : forall t0, fold_left N.max l t0 = maxl l t0.
Proof.
  induction l as [|x r IH]; intros t0; [reflexivity|].
  cbn [fold_left]. rewrite IH. change (maxl (x :: r) t0) with (N.max x (maxl r t0)). apply maxl_max.
Qed.

Lemma maxl_perm l l' t0 : Permutation l l' -> maxl l t0 = maxl l' t0.
Proof.
  intros P; induction P; simpl; try lia.
Qed.

Lemma maxl_ge_init l t0 : t0 <= maxl l t0.
Proof. induction l; simpl; lia. Qed.

Lemma maxl_ge_in l t0 x : In x l -> x <= maxl l t0.
Proof.
  induction l as [|y r IH]; simpl; [tauto|]. intros [->|H]; [lia|]. specialize (IH H). lia.
Qed.

Lemma map_seq_ext {A B} (l : list A) (f : nat -> B) (g : A -> B) : forall k,
  (forall j a, nth_error l j = Some a -> f (k + j)%nat = g a) ->
  map f (seq k (length l)) = map g l.
Proof.
  induction l as [|x r IH]; intros k H; simpl; [reflexivity|].
  f_equal.
  - rewrite <- (H 0%nat x eq_refl). f_equal. lia.
  - apply IH. intros j a Hj. rewrite <- (H (S j) a Hj). f_equal. lia.
Qed.

(* ---- the schedule is a permutation of the awaitables ---------------------- *)
Lemma insert_ev_perm ev l : Permutation (insert_ev ev l) (ev :: l).
Proof.
  induction l as [|e r IH]; simpl; [reflexivity|].
  destruct (fst ev <=? fst e); [reflexivity|].
  rewrite IH. apply perm_swap.
Qed.

Lemma sort_evs_perm l : Permutation (sort_evs l) l.
Proof.
  induction l as [|e r IH]; simpl; [reflexivity|].
  rewrite insert_ev_perm. now constructor.
Qed.

Lemma events_from_snd tcall aws : forall k, map snd (events_from tcall aws k) = seq k (length aws).
Proof. induction aws as [|a r IH]; intros k; simpl; [reflexivity|]. now rewrite IH. Qed.

Lemma events_from_fst tcall aws : forall k, map fst (events_from tcall aws k) = ends tcall aws.
Proof. induction aws as [|a r IH]; intros k; simpl; [reflexivity|]. unfold ends in IH. now rewrite IH. Qed.

Lemma events_from_in tcall aws : forall k i a,
  nth_error aws i = Some a -> In (end_of tcall a, (k + i)%nat) (events_from tcall aws k).
Proof.
  induction aws as [|x r IH]; intros k [|i] a H; simpl in *; try discriminate.
  - injection H as ->. left. f_equal. lia.
  - right. replace (k + S i)%nat with (S k + i)%nat by lia. now apply IH.
Qed.

Lemma schedule_perm_idx tcall aws : Permutation (map snd (schedule tcall aws)) (seq 0 (length aws)).
Proof.
  unfold schedule. rewrite (Permutation_map snd (sort_evs_perm _)). now rewrite events_from_snd.
Qed.

Lemma schedule_perm_ticks tcall aws : Permutation (map fst (schedule tcall aws)) (ends tcall aws).
Proof.
  unfold schedule. rewrite (Permutation_map fst (sort_evs_perm _)). now rewrite events_from_fst.
Qed.

(* ---- the machine: invariant over any prefix of any duplicate-free schedule -- *)
Section Machine.
  Variable aws : list aw.
  Variable tcall : N.
  Notation n := (length aws).

  Definition slot (j : nat) : option outcome :=
    match nth_error aws j with Some a => Some (aout a) | None => None end.

  Definition swap (ev : N * nat) : nat * N := (snd ev, fst ev).

  Lemma gstep_eq s t i :
    gstep aws s (t, i) =
    mkg (N.max (now s) t) (fun j => if Nat.eqb j i then slot i else res s j) (S (nfin s))
        (match outer s with
         | Some x => Some x
         | None => if Nat.eqb (S (nfin s)) n
                   then Some (N.max (now s) t,
                              map (fun j => if Nat.eqb j i then slot i else res s j) (seq 0 n))
                   else None
         end)
        (clog s ++ [(i, t)]).
  Proof. reflexivity. Qed.

  Lemma run_prefix (p : list (N * nat)) :
    (length p < n)%nat ->
    let s := fold_left (gstep aws) p (ginit tcall) in
    outer s = None /\ nfin s = length p /\
    now s = maxl (map fst p) tcall /\
    clog s = map swap p /\
    (forall j, res s j = if existsb (Nat.eqb j) (map snd p) then slot j else None).
  Proof.
    induction p as [|[t i] p IH] using rev_ind; intros Hlen; simpl.
    - repeat split; reflexivity.
    - rewrite app_length in Hlen. simpl in Hlen.
      rewrite fold_left_app. cbn [fold_left].
      destruct IH as (Ho & Hn & Hnow & Hlog & Hres); [lia|].
      set (s := fold_left (gstep aws) p (ginit tcall)) in *.
      rewrite gstep_eq.
      cbn [outer nfin now clog res].
      rewrite Ho, Hn, Hnow, Hlog.
      repeat split.
      + destruct (Nat.eqb_spec (S (length p)) n) as [Heq|Hneq]; [lia|reflexivity].
      + rewrite app_length. simpl. lia.
      + rewrite map_app. simpl. rewrite <- !fold_left_max_maxl, fold_left_app. simpl. reflexivity.
      + rewrite map_app. reflexivity.
      + intros j. rewrite map_app, existsb_app. simpl. rewrite orb_false_r.
        destruct (Nat.eqb_spec j i) as [->|Hne].
        * rewrite orb_true_r. reflexivity.
        * rewrite orb_false_r. apply Hres.
  Qed.

  (* Any finishing order: if every child completes exactly once, the outer
     future is set when the LAST one completes, at the latest tick seen, with
     the results in INPUT order. *)
  Lemma run_complete (sched : list (N * nat)) :
    Permutation (map snd sched) (seq 0 n) ->
    let s := grun aws tcall sched in
    outer s = Some (maxl (map fst sched) tcall, map (fun a => Some (aout a)) aws) /\
    clog s = map swap sched.
  Proof.
    intros P. unfold grun.
    assert (Hlen : length sched = n).
    { rewrite <- (map_length snd sched), (Permutation_length P). apply seq_length. }
    destruct (Nat.eq_dec n 0) as [Hz|Hpos].
    - assert (Ea : aws = []) by (destruct aws; simpl in *; [reflexivity|discriminate]).
      rewrite Ea in Hlen |- *. destruct sched; [|simpl in Hlen; discriminate]. simpl. auto.
    - assert (Hinit : match aws with
                      | [] => mkg tcall (fun _ => None) 0 (Some (tcall, [])) []
                      | _ :: _ => ginit tcall
                      end = ginit tcall).
      { destruct aws; [simpl in Hpos; congruence|reflexivity]. }
      rewrite Hinit. clear Hinit.
      destruct (rev sched) as [|[t i] rp] eqn:Erev.
      { apply (f_equal (@length _)) in Erev. rewrite rev_length in Erev. simpl in Erev. lia. }
      assert (Es : sched = rev rp ++ [(t, i)]).
      { rewrite <- (rev_involutive sched), Erev. reflexivity. }
      set (p := rev rp) in *. rewrite Es in *. clear Erev Es.
      rewrite app_length in Hlen. simpl in Hlen.
      rewrite fold_left_app. cbn [fold_left].
      destruct (run_prefix p) as (Ho & Hn & Hnow & Hlog & Hres); [lia|].
      set (s := fold_left (gstep aws) p (ginit tcall)) in *.
      rewrite gstep_eq.
      cbn [outer clog].
      rewrite Ho, Hn, Hnow, Hlog.
      destruct (Nat.eqb_spec (S (length p)) n) as [Heq|Hneq]; [|lia].
      split.
      + f_equal. f_equal.
        * rewrite map_app. simpl. rewrite <- !fold_left_max_maxl, fold_left_app. reflexivity.
        * apply map_seq_ext. intros j a Hj. simpl.
          assert (Hin : In j (map snd (p ++ [(t, i)]))).
          { apply (Permutation_in j (Permutation_sym P)). apply in_seq.
            split; [lia|]. simpl. apply nth_error_Some. congruence. }
          rewrite map_app, in_app_iff in Hin. simpl in Hin.
          destruct (Nat.eqb_spec j i) as [->|Hne].
          -- unfold slot. now rewrite Hj.
          -- rewrite Hres.
             destruct Hin as [Hin|[Hin|[]]]; [|congruence].
             assert (E : existsb (Nat.eqb j) (map snd p) = true).
             { apply existsb_exists. exists j. split; [exact Hin|apply Nat.eqb_refl]. }
             rewrite E. unfold slot. now rewrite Hj.
      + rewrite map_app. reflexivity.
  Qed.
End Machine.

(* ---- gather_excs / raise_first_exc ---------------------------------------- *)
Section Gather.
  Variable inst : cls -> cls -> bool.

  Lemma filter_excs_expected only aws :
    filter_excs inst only (map (fun a => Some (aout a)) aws) = expected inst only aws.
  Proof.
    induction aws as [|a r IH]; simpl; [reflexivity|].
    destruct (aout a) as [|c e]; [exact IH|]. destruct (inst c only); now rewrite IH.
  Qed.

  (* the tick at which gather's outer future completes *)
  Definition tdone (tcall : N) (aws : list aw) : N := maxl (ends tcall aws) tcall.

  Lemma gather_excs_sched_lemma aws only tcall sched :
    Permutation (map snd sched) (seq 0 (length aws)) ->
    gather_excs_sched inst aws only tcall sched =
      Some (maxl (map fst sched) tcall, expected inst only aws).
  Proof.
    intros P. unfold gather_excs_sched.
    destruct (run_complete aws tcall sched P) as [-> _].
    now rewrite filter_excs_expected.
  Qed.

  Lemma gather_excs_lemma aws only tcall :
    gather_excs inst aws only tcall = Some (tdone tcall aws, expected inst only aws).
  Proof.
    unfold gather_excs. rewrite gather_excs_sched_lemma by apply schedule_perm_idx.
    unfold tdone. now rewrite (maxl_perm _ _ _ (schedule_perm_ticks tcall aws)).
  Qed.

  Lemma raise_first_lemma aws only tcall :
    raise_first_exc inst aws only tcall = Some (tdone tcall aws, hd_error (expected inst only aws)).
  Proof.
    unfold raise_first_exc. rewrite gather_excs_lemma.
    destruct (expected inst only aws); reflexivity.
  Qed.

  (* every awaitable is in the completion log with its own end tick, and that
     tick is not after the tick of the yields *)
  Lemma all_completed_lemma aws tcall :
    let s := grun aws tcall (schedule tcall aws) in
    length (clog s) = length aws /\
    forall i a, nth_error aws i = Some a ->
      In (i, end_of tcall a) (clog s) /\ (end_of tcall a <= tdone tcall aws)%N /\ (tcall <= tdone tcall aws)%N.
  Proof.
    destruct (run_complete aws tcall (schedule tcall aws) (schedule_perm_idx tcall aws)) as [_ Hlog].
    cbv zeta. rewrite Hlog. split.
    - rewrite map_length, <- (map_length snd), (Permutation_length (schedule_perm_idx tcall aws)).
      apply seq_length.
    - intros i a Hi. repeat split.
      + change (i, end_of tcall a) with (swap (end_of tcall a, i)). apply in_map.
        unfold schedule. apply (Permutation_in _ (Permutation_sym (sort_evs_perm _))).
        apply (events_from_in tcall aws 0 i a Hi).
      + unfold tdone. apply maxl_ge_in. unfold ends. apply in_map. eapply nth_error_In; eauto.
      + apply maxl_ge_init.
  Qed.

  Lemma expected_outcomes only aws aws' :
    map aout aws = map aout aws' -> expected inst only aws = expected inst only aws'.
  Proof.
    revert aws'; induction aws as [|a r IH]; intros [|a' r'] H; simpl in *; try discriminate; [reflexivity|].
    injection H as H1 H2. rewrite H1. rewrite (IH r' H2). reflexivity.
  Qed.

  Lemma expected_flat_map only aws :
    expected inst only aws =
    flat_map (fun a => match aout a with
                       | Raise c e => if inst c only then [e] else []
                       | Ret => []
                       end) aws.
  Proof.
    induction aws as [|a r IH]; simpl; [reflexivity|].
    destruct (aout a) as [|c e]; [exact IH|]. destruct (inst c only); simpl; now rewrite IH.
  Qed.

  (* membership characterisation of [expected] *)
  Lemma expected_in only aws e :
    In e (expected inst only aws) <->
    exists a c, In a aws /\ aout a = Raise c e /\ inst c only = true.
  Proof.
    induction aws as [|a r IH]; simpl.
    - split; [tauto|]. intros (a & c & [] & _).
    - destruct (aout a) as [|c0 e0] eqn:Ea.
      + rewrite IH. split.
        * intros (x & c & Hin & H1 & H2). exists x, c. auto.
        * intros (x & c & [->|Hin] & H1 & H2); [congruence|]. exists x, c. auto.
      + destruct (inst c0 only) eqn:Ei; simpl; rewrite IH; split.
        * intros [->|(x & c & Hin & H1 & H2)]; [exists a, c0; auto|exists x, c; auto].
        * intros (x & c & [->|Hin] & H1 & H2).
          -- left. congruence.
          -- right. exists x, c. auto.
        * intros (x & c & Hin & H1 & H2). exists x, c. auto.
        * intros (x & c & [->|Hin] & H1 & H2); [congruence|]. exists x, c. auto.
  Qed.

  (* input order is compositional: the yields of a concatenated input are the
     yields of its parts, concatenated; and never more than one per awaitable *)
  Lemma expected_app only aws1 aws2 :
    expected inst only (aws1 ++ aws2) = expected inst only aws1 ++ expected inst only aws2.
  Proof.
    induction aws1 as [|a r IH]; simpl; [reflexivity|].
    destruct (aout a) as [|c0 e0]; [exact IH|].
    destruct (inst c0 only); simpl; now rewrite IH.
  Qed.

  Lemma expected_length only aws : (length (expected inst only aws) <= length aws)%nat.
  Proof.
    induction aws as [|a r IH]; simpl; [apply le_n|].
    destruct (aout a) as [|c0 e0]; [now apply le_S|].
    destruct (inst c0 only); simpl; [now apply le_n_S|now apply le_S].
  Qed.
End Gather.

(* ---- isinstance over a forest --------------------------------------------- *)
Lemma isinst_refl h c : isinst h c c = true.
Proof. unfold isinst. destruct (length h); simpl; now rewrite Nat.eqb_refl. Qed.

Lemma anc_mono h f : forall c only, anc h f c only = true -> anc h (S f) c only = true.
Proof.
  induction f as [|f IH]; intros c only H.
  - simpl in *. rewrite orb_false_r in H. now rewrite H.
  - cbn [anc] in H |- *. apply orb_true_iff in H as [H|H]; [now rewrite H|].
    apply orb_true_iff. right.
    destruct (nth_error h c) as [[p|]|]; try discriminate. now apply IH.
Qed.
