(* Case_C18_Sound.v — the C18 trace monitor decides the property: whenever
   [ok] accepts an observed trace, that trace satisfies the partition statement
   (independently of the model). *)
From Coq Require Import List Arith Bool Lia.
Import ListNotations.
Require Import Aiuti.CaseLib Aiuti.Iter Aiuti.IterInv Aiuti.Case_C18.

Lemma expected_from_sel w xs cs : forall i,
  map snd (expected_from w xs cs i) = sel xs cs w.
Proof.
  unfold sel. revert cs. induction xs as [|x xr IH]; intros [|c cr] i; simpl; auto.
  destruct (Bool.eqb c w); simpl; [f_equal|]; apply IH.
Qed.

Definition rem_of (sd : side) (remL remR : list (nat * nat)) :=
  match sd with L => remL | R => remR end.

Lemma mon_sound callable : forall ops observed remL remR prev prevm,
  mon callable ops observed remL remR prev prevm = true ->
  forall sd,
    (exists tl, map snd (rem_of sd remL remR) = yields sd ops observed ++ tl) /\
    (stopped sd ops observed = true -> yields sd ops observed = map snd (rem_of sd remL remR)).
Proof.
  induction ops as [|sd0 ops IH]; intros [|[r [[[pulls st] evals] cst]] observed] remL remR prev prevm H sd;
    simpl in H; try discriminate.
  - simpl. split; [eexists; reflexivity|discriminate].
  - repeat (apply andb_prop in H as [H ?]).
    cbn [yields stopped].
    destruct r as [x|].
    + (* a yield: must be the head of what this side still owes *)
      destruct sd0; simpl rem_of in *.
      * destruct remL as [|[i y] remL']; [discriminate|].
        repeat (apply andb_prop in H0 as [H0 ?]).
        match goal with He : Nat.eqb x y = true |- _ => apply Nat.eqb_eq in He; subst y end.
        match goal with Hm : mon _ _ _ _ _ _ _ = true |- _ => specialize (IH _ _ _ _ _ Hm sd) end. destruct sd; simpl in *; [|exact IH].
        destruct IH as [[tl Htl] Hs]. split.
        -- exists tl. now rewrite Htl.
        -- intros St. now rewrite (Hs St).
      * destruct remR as [|[i y] remR']; [discriminate|].
        repeat (apply andb_prop in H0 as [H0 ?]).
        match goal with He : Nat.eqb x y = true |- _ => apply Nat.eqb_eq in He; subst y end.
        match goal with Hm : mon _ _ _ _ _ _ _ = true |- _ => specialize (IH _ _ _ _ _ Hm sd) end. destruct sd; simpl in *; [exact IH|].
        destruct IH as [[tl Htl] Hs]. split.
        -- exists tl. now rewrite Htl.
        -- intros St. now rewrite (Hs St).
    + (* a stop: this side owes nothing any more *)
      destruct sd0; simpl rem_of in *.
      * destruct remL as [|p remL']; [|discriminate].
        match goal with Hm : mon _ _ _ _ _ _ _ = true |- _ => specialize (IH _ _ _ _ _ Hm sd) end. destruct sd; simpl in *; [|exact IH].
        destruct IH as [[tl Htl] Hs]. split; [exists tl; exact Htl|].
        intros _. destruct (yields L ops observed); [reflexivity|discriminate].
      * destruct remR as [|p remR']; [|discriminate].
        match goal with Hm : mon _ _ _ _ _ _ _ = true |- _ => specialize (IH _ _ _ _ _ Hm sd) end. destruct sd; simpl in *; [exact IH|].
        destruct IH as [[tl Htl] Hs]. split; [exists tl; exact Htl|].
        intros _. destruct (yields R ops observed); [reflexivity|discriminate].
Qed.

Lemma nats_eqb_eq l1 l2 : nats_eqb l1 l2 = true -> l1 = l2.
Proof. apply list_eqb_eq. intros x y. apply Nat.eqb_eq. Qed.

Lemma ok_sound callable xs cs ops observed pl el :
  ok (CSplit callable xs cs ops observed pl el) = true ->
  (forall sd,
     (exists tl, sel xs cs (want sd) = yields sd ops observed ++ tl) /\
     (stopped sd ops observed = true -> yields sd ops observed = sel xs cs (want sd))) /\
  pl = seq 0 (last_pulls observed) /\ length pl <= length xs /\
  el = seq 0 (last_evals observed).
Proof.
  unfold ok. intros H. repeat (apply andb_prop in H as [H ?]).
  split; [|split; [|split]].
  - intros sd. pose proof (mon_sound _ _ _ _ _ _ _ H sd) as Hm.
    destruct sd; simpl in Hm; rewrite expected_from_sel in Hm; exact Hm.
  - now apply nats_eqb_eq.
  - now apply Nat.leb_le.
  - now apply nats_eqb_eq.
Qed.
