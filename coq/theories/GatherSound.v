(* GatherSound.v — C20: (1) the trace monitor of Case_C20.v decides a readable
   statement about the OBSERVED trace alone (no model involved): soundness and
   its converse; (2) isinstance over a class forest = "is the class itself or one
   of its ancestors"; (3) every awaitable completes with its own outcome whatever
   the others do; (4) raise_first_exc over the hierarchy. *)
From Coq Require Import List Arith NArith Bool Lia Permutation ZifyBool ZifyNat ZifyN.
Import ListNotations.
Require Import Aiuti.CaseLib Aiuti.Gather Aiuti.GatherInv Aiuti.Case_C20 Aiuti.GatherMon.

(* ---- the class forest, relationally ----------------------------------------- *)
(* [Ancestor h c a]: class [a] is [c] itself or is reached from [c] by following
   parents (h lists the parent of every class; None = no parent) —
   isinstance(object of class c, a) for single inheritance *)
Inductive Ancestor (h : hier) : cls -> cls -> Prop :=
| Anc_self c : Ancestor h c c
| Anc_up c p a : nth_error h c = Some (Some p) -> Ancestor h p a -> Ancestor h c a.

(* every class is created after its parent (parent number < own number): true of
   every forest the harness builds; it makes the parent walk well-founded *)
Fixpoint forest_ok_from (i : nat) (h : hier) : bool :=
  match h with
  | [] => true
  | p :: r => match p with Some q => q <? i | None => true end && forest_ok_from (S i) r
  end.
Definition forest_ok (h : hier) : bool := forest_ok_from 0 h.

Lemma forest_ok_from_parent h : forall i c p,
  forest_ok_from i h = true -> nth_error h c = Some (Some p) -> p < i + c.
Proof.
  induction h as [|q r IH]; intros i [|c] p H E; simpl in *; try discriminate.
  - injection E as ->. apply andb_prop in H as [H _]. apply Nat.ltb_lt in H. lia.
  - apply andb_prop in H as [_ H]. specialize (IH _ _ _ H E). lia.
Qed.

Lemma forest_ok_parent h c p : forest_ok h = true -> nth_error h c = Some (Some p) -> p < c.
Proof. intros H E. apply (forest_ok_from_parent h 0 c p H E). Qed.

Lemma anc_sound h f : forall c a, anc h f c a = true -> Ancestor h c a.
Proof.
  induction f as [|f IH]; intros c a H; cbn [anc] in H; apply orb_true_iff in H as [H|H].
  - apply Nat.eqb_eq in H. subst. constructor.
  - discriminate.
  - apply Nat.eqb_eq in H. subst. constructor.
  - destruct (nth_error h c) as [[p|]|] eqn:E; try discriminate.
    eapply Anc_up; eauto.
Qed.

Lemma anc_complete h : forest_ok h = true ->
  forall c a, Ancestor h c a -> forall f, c <= f -> anc h f c a = true.
Proof.
  intros Hok c a HA. induction HA as [c|c p a E HA IH]; intros f Hf.
  - destruct f; cbn [anc]; now rewrite Nat.eqb_refl.
  - pose proof (forest_ok_parent h c p Hok E) as Hlt.
    destruct f as [|f]; [lia|]. cbn [anc]. rewrite E, IH by lia. apply orb_true_r.
Qed.

Lemma isinst_ancestor h c a : forest_ok h = true -> (isinst h c a = true <-> Ancestor h c a).
Proof.
  intros Hok. unfold isinst. split; [apply anc_sound|].
  intros HA. destruct HA as [c|c p a E HA].
  - destruct (length h); cbn [anc]; now rewrite Nat.eqb_refl.
  - apply (anc_complete h Hok); [eapply Anc_up; eauto|].
    assert (c < length h) by (apply nth_error_Some; congruence). lia.
Qed.

Lemma isinst_not_ancestor h c a : forest_ok h = true -> (isinst h c a = false <-> ~ Ancestor h c a).
Proof.
  intros Hok. rewrite <- (isinst_ancestor h c a Hok). destruct (isinst h c a); split; congruence.
Qed.

(* ---- "exactly the failures that are instances of only, in input order" ------ *)
(* [Selected h only aws ys]: walking the awaitables in INPUT order, an awaitable
   that returns contributes nothing, one that raises exception e of class c
   contributes e iff [only] is c or an ancestor of c *)
Inductive Selected (h : hier) (only : cls) : list aw -> list eid -> Prop :=
| Sel_nil : Selected h only [] []
| Sel_ret a r ys : aout a = Ret -> Selected h only r ys -> Selected h only (a :: r) ys
| Sel_keep a c e r ys : aout a = Raise c e -> Ancestor h c only ->
    Selected h only r ys -> Selected h only (a :: r) (e :: ys)
| Sel_drop a c e r ys : aout a = Raise c e -> ~ Ancestor h c only ->
    Selected h only r ys -> Selected h only (a :: r) ys.

Lemma selected_unique_lemma h only aws : forall ys ys',
  Selected h only aws ys -> Selected h only aws ys' -> ys = ys'.
Proof.
  induction aws as [|a r IH]; intros ys ys' H1 H2.
  - inversion H1; inversion H2; reflexivity.
  - inversion H1; subst; inversion H2; subst; try congruence;
      try (match goal with
           | A : aout a = Raise ?c ?e, B : aout a = Raise ?c' ?e' |- _ =>
               rewrite A in B; injection B as <- <-
           end);
      try contradiction; try (f_equal; eauto); eauto.
Qed.

Lemma wanted_selected h only aws : forest_ok h = true -> Selected h only aws (wanted h only aws).
Proof.
  intros Hok. unfold wanted. induction aws as [|a r IH]; simpl; [constructor|].
  destruct (aout a) as [|c e] eqn:Ea.
  - simpl. now apply Sel_ret.
  - destruct (isinst h c only) eqn:Ei; simpl.
    + eapply Sel_keep; eauto. now apply isinst_ancestor.
    + eapply Sel_drop; eauto. now apply isinst_not_ancestor.
Qed.

(* ---- the statement about the observed trace --------------------------------- *)
(* every awaitable has a record, ran to completion (kind 1 — not pending, not
   cancelled) and did so no later than tick t *)
Definition completed_by (es : list (nat * N)) (t : N) : Prop :=
  forall i k u, nth_error es i = Some (k, u) -> k = 1 /\ (u <= t)%N.

Definition yield_eid (y : nat * N * nat) : nat := fst (fst y).
Definition yield_tick (y : nat * N * nat) : N := snd (fst y).
Definition yield_ndone (y : nat * N * nat) : nat := snd y.

Definition observed_ok (rm : bool) (h : hier) (only : cls) (aws : list aw) (o : observed) : Prop :=
  let fk := fst (fst (ofin o)) in
  let fe := snd (fst (ofin o)) in
  let ft := snd (ofin o) in
  (* one completion record per awaitable; all completed, none cancelled or
     skipped, before the consumer saw the end / the raised exception *)
  length (oends o) = length aws /\
  completed_by (oends o) ft /\
  exists sel, Selected h only aws sel /\
    if rm
    then (* raise_first_exc: raised the first selected exception, or returned None *)
      match sel with
      | e :: _ => fk = 2 /\ fe = e
      | [] => fk = 1
      end
    else (* gather_excs: the generator ended normally, yielded exactly the
            selected exceptions in input order, and at every yield every
            awaitable had already completed *)
      fk = 1 /\
      map yield_eid (oyields o) = sel /\
      forall y, In y (oyields o) ->
        completed_by (oends o) (yield_tick y) /\ yield_ndone y = length aws.

Lemma all_done_by_spec t es : all_done_by t es = true <-> completed_by es t.
Proof.
  unfold all_done_by, completed_by. rewrite forallb_forall. split.
  - intros H i k u E. apply nth_error_In in E. specialize (H _ E). simpl in H. lia.
  - intros H [k u] Hin. apply In_nth_error in Hin as [i E]. specialize (H _ _ _ E). simpl. lia.
Qed.

Lemma nats_eqb_iff l1 l2 : list_eqb Nat.eqb l1 l2 = true <-> l1 = l2.
Proof.
  split; [apply list_eqb_eq; intros x y; apply Nat.eqb_eq|intros ->; apply nats_eqb_refl].
Qed.

Lemma ok_iff_observed_ok rm h only tcall aws o :
  forest_ok h = true ->
  (ok (Case rm h only tcall aws o) = true <-> observed_ok rm h only aws o).
Proof.
  intros Hok. unfold ok, observed_ok.
  destruct (ofin o) as [[fk fe] ft]. cbn [fst snd].
  pose proof (wanted_selected h only aws Hok) as Hsel.
  split.
  - intros H. apply andb_prop in H as [H H3]. apply andb_prop in H as [H1 H2].
    apply Nat.eqb_eq in H1. apply all_done_by_spec in H2.
    split; [exact H1|]. split; [exact H2|].
    exists (wanted h only aws). split; [exact Hsel|].
    destruct rm.
    + destruct (wanted h only aws) as [|e r].
      * now apply Nat.eqb_eq.
      * apply andb_prop in H3 as [Ha Hb]. split; now apply Nat.eqb_eq.
    + apply andb_prop in H3 as [H3 H5]. apply andb_prop in H3 as [H3 H4].
      split; [now apply Nat.eqb_eq|]. split; [now apply nats_eqb_iff|].
      intros y Hy. rewrite forallb_forall in H5. specialize (H5 y Hy).
      apply andb_prop in H5 as [Ha Hb]. split; [now apply all_done_by_spec|now apply Nat.eqb_eq].
  - intros (H1 & H2 & sel & Hs & H3).
    rewrite (selected_unique_lemma _ _ _ _ _ Hs Hsel) in H3. clear Hs sel.
    apply andb_true_intro. split; [apply andb_true_intro; split|].
    + now apply Nat.eqb_eq.
    + now apply all_done_by_spec.
    + destruct rm.
      * destruct (wanted h only aws) as [|e r].
        -- now apply Nat.eqb_eq.
        -- destruct H3 as [-> ->]. now rewrite !Nat.eqb_refl.
      * destruct H3 as (-> & H4 & H5). cbn [Nat.eqb andb].
        apply andb_true_intro. split; [now apply nats_eqb_iff|].
        apply forallb_forall. intros y Hy. destruct (H5 y Hy) as [Ha Hb].
        apply andb_true_intro. split; [now apply all_done_by_spec|now apply Nat.eqb_eq].
Qed.

(* ---- every awaitable completes with its own outcome ------------------------- *)
Section Own.
  Variable aws : list aw.

  Lemma run_res_log (p : list (N * nat)) : forall s,
    let s' := fold_left (gstep aws) p s in
    (forall j, res s' j = if existsb (Nat.eqb j) (map snd p) then slot aws j else res s j) /\
    clog s' = clog s ++ map swap p.
  Proof.
    induction p as [|[t i] p IH]; intros s; cbn [fold_left map existsb].
    - split; [reflexivity|now rewrite app_nil_r].
    - destruct (IH (gstep aws s (t, i))) as [Hr Hl]. split.
      + intros j. rewrite Hr. cbn [snd].
        destruct (existsb (Nat.eqb j) (map snd p)); [now rewrite orb_true_r|].
        rewrite orb_false_r, gstep_eq. cbn [res].
        destruct (Nat.eqb_spec j i) as [->|]; reflexivity.
      + rewrite Hl, gstep_eq. cbn [clog]. now rewrite <- app_assoc.
  Qed.

  Lemma own_outcome_lemma tcall (sched : list (N * nat)) :
    Permutation (map snd sched) (seq 0 (length aws)) ->
    let s := grun aws tcall sched in
    (forall i a, nth_error aws i = Some a -> res s i = Some (aout a)) /\
    clog s = map (fun ev => (snd ev, fst ev)) sched /\
    outer s = Some (maxl (map fst sched) tcall, map (fun a => Some (aout a)) aws).
  Proof.
    intros P. cbv zeta.
    destruct (run_complete aws tcall sched P) as [Ho Hl].
    split; [|split; [exact Hl|exact Ho]].
    intros i a Hi. unfold grun.
    match goal with |- res (fold_left _ _ ?s0) _ = _ => destruct (run_res_log sched s0) as [Hr _] end.
    rewrite Hr.
    assert (Hin : In i (map snd sched)).
    { apply (Permutation_in i (Permutation_sym P)). apply in_seq. split; [lia|].
      simpl. apply nth_error_Some. congruence. }
    assert (E : existsb (Nat.eqb i) (map snd sched) = true).
    { apply existsb_exists. exists i. split; [exact Hin|apply Nat.eqb_refl]. }
    rewrite E. unfold slot. now rewrite Hi.
  Qed.
End Own.

Lemma events_from_timing tcall aws : forall aws' k,
  map aform aws = map aform aws' -> map adelay aws = map adelay aws' ->
  events_from tcall aws k = events_from tcall aws' k.
Proof.
  induction aws as [|a r IH]; intros [|a' r'] k Hf Hd; simpl in *; try discriminate; [reflexivity|].
  injection Hf as Hf1 Hf2. injection Hd as Hd1 Hd2.
  rewrite (IH r' (S k) Hf2 Hd2). unfold end_of, start_of. now rewrite Hf1, Hd1.
Qed.

Lemma clog_independent_of_outcomes tcall aws aws' :
  map aform aws = map aform aws' -> map adelay aws = map adelay aws' ->
  clog (grun aws tcall (schedule tcall aws)) = clog (grun aws' tcall (schedule tcall aws')).
Proof.
  intros Hf Hd.
  destruct (run_complete aws tcall _ (schedule_perm_idx tcall aws)) as [_ ->].
  destruct (run_complete aws' tcall _ (schedule_perm_idx tcall aws')) as [_ ->].
  unfold schedule. now rewrite (events_from_timing tcall aws aws' 0 Hf Hd).
Qed.

(* ---- raise_first_exc over the hierarchy -------------------------------------- *)
Section First.
  Variable inst : cls -> cls -> bool.

  Lemma hd_expected_some only aws e :
    hd_error (expected inst only aws) = Some e <->
    exists pre a c post, aws = pre ++ a :: post /\ aout a = Raise c e /\ inst c only = true /\
      forall a' c' e', In a' pre -> aout a' = Raise c' e' -> inst c' only = false.
  Proof.
    induction aws as [|a r IH]; simpl.
    - split; [discriminate|]. intros (pre & a & c & post & E & _). destruct pre; discriminate.
    - assert (Hskip : (forall c' e', aout a = Raise c' e' -> inst c' only = false) ->
                (hd_error (expected inst only r) = Some e <->
                 exists pre a0 c post, a :: r = pre ++ a0 :: post /\ aout a0 = Raise c e /\
                   inst c only = true /\
                   forall a' c' e', In a' pre -> aout a' = Raise c' e' -> inst c' only = false)).
      { intros Ha. rewrite IH. split.
        - intros (pre & a0 & c & post & -> & H1 & H2 & H3). exists (a :: pre), a0, c, post.
          repeat split; auto. intros a' c' e' [<-|Hin] Ho; [eapply Ha; eauto|eapply H3; eauto].
        - intros (pre & a0 & c & post & E & H1 & H2 & H3). destruct pre as [|x pre].
          + simpl in E. injection E as <- <-. rewrite (Ha _ _ H1) in H2. discriminate.
          + simpl in E. injection E as <- ->. exists pre, a0, c, post.
            repeat split; auto. intros a' c' e' Hin Ho. eapply H3; [right|]; eauto. }
      destruct (aout a) as [|c0 e0] eqn:Ea.
      + apply Hskip. intros; discriminate.
      + destruct (inst c0 only) eqn:Ei.
        * simpl. split.
          -- intros [= <-]. exists [], a, c0, r. repeat split; auto. intros ? ? ? [].
          -- intros (pre & a0 & c & post & E & H1 & H2 & H3). destruct pre as [|x pre].
             ++ simpl in E. injection E as <- <-. congruence.
             ++ simpl in E. injection E as <- ->.
                rewrite (H3 a c0 e0 (or_introl eq_refl) Ea) in Ei. discriminate.
        * apply Hskip. intros c' e' [= <- <-]. exact Ei.
  Qed.

  Lemma hd_expected_none only aws :
    hd_error (expected inst only aws) = None <->
    forall a c e, In a aws -> aout a = Raise c e -> inst c only = false.
  Proof.
    induction aws as [|a r IH]; simpl.
    - split; [intros _ ? ? ? []|reflexivity].
    - destruct (aout a) as [|c0 e0] eqn:Ea.
      + rewrite IH. split.
        * intros H x c e [<-|Hin] Ho; [congruence|eauto].
        * intros H x c e Hin Ho. eapply H; eauto.
      + destruct (inst c0 only) eqn:Ei.
        * simpl. split; [discriminate|]. intros H. rewrite (H a c0 e0 (or_introl eq_refl) Ea) in Ei.
          discriminate.
        * rewrite IH. split.
          -- intros H x c e [<-|Hin] Ho; [congruence|eauto].
          -- intros H x c e Hin Ho. eapply H; eauto.
  Qed.
End First.

Lemma raise_first_hierarchy_lemma h aws only tcall :
  forest_ok h = true ->
  (forall e, raise_first_exc (isinst h) aws only tcall = Some (tdone tcall aws, Some e) <->
     exists pre a c post, aws = pre ++ a :: post /\ aout a = Raise c e /\ Ancestor h c only /\
       forall a' c' e', In a' pre -> aout a' = Raise c' e' -> ~ Ancestor h c' only) /\
  (raise_first_exc (isinst h) aws only tcall = Some (tdone tcall aws, None) <->
     forall a c e, In a aws -> aout a = Raise c e -> ~ Ancestor h c only).
Proof.
  intros Hok. rewrite raise_first_lemma. split.
  - intros e. split.
    + intros [= H]. apply hd_expected_some in H as (pre & a & c & post & E & H1 & H2 & H3).
      exists pre, a, c, post. repeat split; auto.
      * now apply isinst_ancestor.
      * intros a' c' e' Hin Ho. apply isinst_not_ancestor; eauto.
    + intros (pre & a & c & post & E & H1 & H2 & H3). f_equal. f_equal.
      apply hd_expected_some. exists pre, a, c, post. repeat split; auto.
      * now apply isinst_ancestor.
      * intros a' c' e' Hin Ho. apply isinst_not_ancestor; eauto.
  - split.
    + intros [= H]. intros a c e Hin Ho. apply isinst_not_ancestor; [exact Hok|].
      eapply (proj1 (hd_expected_none _ _ _) H); eauto.
    + intros H. f_equal. f_equal. apply hd_expected_none. intros a c e Hin Ho.
      apply isinst_not_ancestor; eauto.
Qed.
