(* GatherSound.v — C20: (1) the trace monitor of Case_C20.v decides a readable
   statement about the OBSERVED trace alone (no model involved): soundness and
   its converse; (2) isinstance over a class forest = "is the class itself or one
   of its ancestors"; (3) every awaitable completes with its own outcome whatever
   the others do; (4) raise_first_exc over the hierarchy. *)
From Coq Require Import List Arith NArith Bool Lia Permutation ZifyBool ZifyNat ZifyN.
Import ListNotations.
Require Import Aiuti.CaseLib Aiuti.Gather Aiuti.GatherInv Aiuti.Case_C20 Aiuti.GatherMon.

(* ---- the class forest, relationally ----------------------------------------- *)
(* [Ancestor h c a]: class [a] is [c] itself or is reached from [c] by following
   parents (h lists the parent of every class; None = no parent) —
   isinstance(object of class c, a) for single inheritance *)
Inductive Ancestor (h : hier) : cls -> cls -> Prop :=
| Anc_self c : Ancestor h c c
| Anc_up c p a : nth_error h c = Some (Some p) -> Ancestor h p a -> Ancestor h c a.

(* the n-th ancestor of c, if the parent chain is that long *)
Fixpoint up (h : hier) (n : nat) (c : cls) : option cls :=
  match n with
  | 0 => Some c
  | S n' => match nth_error h c with Some (Some p) => up h n' p | _ => None end
  end.

Lemma ancestor_up h c a : Ancestor h c a <-> exists n, up h n c = Some a.
Proof.
  split.
  - induction 1 as [c|c p a E HA [n IH]]; [now exists 0|]. exists (S n). simpl. now rewrite E.
  - intros [n H]. revert c H. induction n as [|n IH]; simpl; intros c H.
    + injection H as ->. constructor.
    + destruct (nth_error h c) as [[p|]|] eqn:E; try discriminate. eapply Anc_up; eauto.
Qed.

Lemma anc_up_iff h f : forall c a, anc h f c a = true <-> exists n, n <= f /\ up h n c = Some a.
Proof.
  induction f as [|f IH]; intros c a; cbn [anc].
  - rewrite orb_false_r, Nat.eqb_eq. split.
    + intros ->. exists 0. split; [lia|reflexivity].
    + intros (n & Hn & H). assert (n = 0) by lia. subst. simpl in H. congruence.
  - rewrite orb_true_iff, Nat.eqb_eq. split.
    + intros [->|H]; [exists 0; split; [lia|reflexivity]|].
      destruct (nth_error h c) as [[p|]|] eqn:E; try discriminate.
      apply IH in H as (n & Hn & H). exists (S n). split; [lia|]. simpl. now rewrite E.
    + intros ([|n] & Hn & H); simpl in H; [left; congruence|right].
      destruct (nth_error h c) as [[p|]|] eqn:E; try discriminate.
      apply IH. exists n. split; [lia|exact H].
Qed.

Lemma up_add h i : forall k c,
  up h (i + k) c = match up h i c with Some x => up h k x | None => None end.
Proof.
  induction i as [|i IH]; intros k c; simpl; [reflexivity|].
  destruct (nth_error h c) as [[p|]|]; auto.
Qed.

Lemma up_before h n c a i :
  up h n c = Some a -> i < n -> exists x, up h i c = Some x /\ x < length h.
Proof.
  intros H Hi. replace n with (i + S (n - i - 1)) in H by lia. rewrite up_add in H.
  destruct (up h i c) as [x|]; [|discriminate]. exists x. split; [reflexivity|].
  cbn [up] in H. apply nth_error_Some. intros E. rewrite E in H. discriminate H.
Qed.

Lemma up_shortcut h n c a i j x :
  up h n c = Some a -> up h i c = Some x -> up h j c = Some x -> j <= n ->
  up h (i + (n - j)) c = Some a.
Proof.
  intros H Hi Hj Hle. replace n with (j + (n - j)) in H by lia.
  rewrite up_add, Hj in H. now rewrite up_add, Hi.
Qed.

(* a chain that reaches a reaches it within (length h) steps: otherwise a class
   would repeat on the way and the loop could be cut out (pigeonhole); the goal is
   a boolean, so the case analysis is constructive *)
Lemma isinst_complete h c a : Ancestor h c a -> isinst h c a = true.
Proof.
  intros HA. apply ancestor_up in HA as [n H]. unfold isinst.
  revert H. induction n as [n IH] using lt_wf_ind. intros H.
  destruct (le_lt_dec n (length h)) as [Hle|Hgt].
  { apply anc_up_iff. now exists n. }
  destruct (anc h (length h) c a) eqn:E; [reflexivity|exfalso].
  assert (Hno : forall m, m < n -> up h m c <> Some a).
  { intros m Hm Hu. discriminate (IH m Hm Hu). }
  set (g := fun i => match up h i c with Some x => x | None => 0 end).
  set (l := map g (seq 0 n)).
  assert (Hlen : length l = n) by (unfold l; now rewrite map_length, seq_length).
  assert (Hnth : forall i, i < n -> nth i l (g 0) = g i).
  { intros i Hi. unfold l. rewrite map_nth, seq_nth by exact Hi. reflexivity. }
  assert (Hnd : NoDup l).
  { apply (NoDup_nth l (g 0)). rewrite Hlen. intros i j Hi Hj Heq.
    rewrite !Hnth in Heq by assumption.
    destruct (up_before h n c a i H Hi) as (x & Hx & _).
    destruct (up_before h n c a j H Hj) as (y & Hy & _).
    unfold g in Heq. rewrite Hx, Hy in Heq. subst y.
    destruct (lt_eq_lt_dec i j) as [[Hlt|Heq]|Hlt]; [exfalso|exact Heq|exfalso].
    - apply (Hno (i + (n - j))); [lia|]. eapply up_shortcut; eauto. lia.
    - apply (Hno (j + (n - i))); [lia|]. eapply up_shortcut; eauto. lia. }
  assert (Hincl : incl l (seq 0 (length h))).
  { intros y Hy. unfold l in Hy. apply in_map_iff in Hy as (i & <- & Hi). apply in_seq in Hi.
    destruct (up_before h n c a i H) as (x & Hx & Hlt); [lia|].
    unfold g. rewrite Hx. apply in_seq. lia. }
  pose proof (NoDup_incl_length Hnd Hincl) as Hc. rewrite Hlen, seq_length in Hc. lia.
Qed.

Lemma isinst_ancestor h c a : isinst h c a = true <-> Ancestor h c a.
Proof.
  split; [|apply isinst_complete].
  unfold isinst. intros H. apply anc_up_iff in H as (n & _ & H). apply ancestor_up. now exists n.
Qed.

Lemma isinst_not_ancestor h c a : isinst h c a = false <-> ~ Ancestor h c a.
Proof.
  rewrite <- (isinst_ancestor h c a). destruct (isinst h c a); split; congruence.
Qed.

(* ---- "exactly the failures that are instances of only, in input order" ------ *)
(* [Selected h only aws ys]: walking the awaitables in INPUT order, an awaitable
   that returns contributes nothing, one that raises exception e of class c
   contributes e iff [only] is c or an ancestor of c *)
Inductive Selected (h : hier) (only : cls) : list aw -> list eid -> Prop :=
| Sel_nil : Selected h only [] []
| Sel_ret a r ys : aout a = Ret -> Selected h only r ys -> Selected h only (a :: r) ys
| Sel_keep a c e r ys : aout a = Raise c e -> Ancestor h c only ->
    Selected h only r ys -> Selected h only (a :: r) (e :: ys)
| Sel_drop a c e r ys : aout a = Raise c e -> ~ Ancestor h c only ->
    Selected h only r ys -> Selected h only (a :: r) ys.

Lemma selected_unique_lemma h only aws : forall ys ys',
  Selected h only aws ys -> Selected h only aws ys' -> ys = ys'.
Proof.
  induction aws as [|a r IH]; intros ys ys' H1 H2.
  - inversion H1; inversion H2; reflexivity.
  - inversion H1; subst; inversion H2; subst; try congruence;
      try (match goal with
           | A : aout a = Raise ?c ?e, B : aout a = Raise ?c' ?e' |- _ =>
               rewrite A in B; injection B as <- <-
           end);
      try contradiction; try (f_equal; eauto); eauto.
Qed.

Lemma wanted_selected h only aws : Selected h only aws (wanted h only aws).
Proof.
  unfold wanted. induction aws as [|a r IH]; simpl; [constructor|].
  destruct (aout a) as [|c e] eqn:Ea.
  - simpl. now apply Sel_ret.
  - destruct (isinst h c only) eqn:Ei; simpl.
    + eapply Sel_keep; eauto. now apply isinst_ancestor.
    + eapply Sel_drop; eauto. now apply isinst_not_ancestor.
Qed.

(* ---- the statement about the observed trace --------------------------------- *)
(* every awaitable has a record, ran to completion (kind 1 — not pending, not
   cancelled) and did so no later than tick t *)
Definition completed_by (es : list (nat * N)) (t : N) : Prop :=
  forall i k u, nth_error es i = Some (k, u) -> k = 1 /\ (u <= t)%N.

Definition yield_eid (y : nat * N * nat) : nat := fst (fst y).
Definition yield_tick (y : nat * N * nat) : N := snd (fst y).
Definition yield_ndone (y : nat * N * nat) : nat := snd y.

Definition observed_ok (rm : bool) (h : hier) (only : cls) (aws : list aw) (o : observed) : Prop :=
  let fk := fst (fst (ofin o)) in
  let fe := snd (fst (ofin o)) in
  let ft := snd (ofin o) in
  (* one completion record per awaitable; all completed, none cancelled or
     skipped, before the consumer saw the end / the raised exception *)
  length (oends o) = length aws /\
  completed_by (oends o) ft /\
  exists sel, Selected h only aws sel /\
    if rm
    then (* raise_first_exc: raised the first selected exception, or returned None *)
      match sel with
      | e :: _ => fk = 2 /\ fe = e
      | [] => fk = 1
      end
    else (* gather_excs: the generator ended normally, yielded exactly the
            selected exceptions in input order, and at every yield every
            awaitable had already completed *)
      fk = 1 /\
      map yield_eid (oyields o) = sel /\
      forall y, In y (oyields o) ->
        completed_by (oends o) (yield_tick y) /\ yield_ndone y = length aws.

Lemma all_done_by_spec t es : all_done_by t es = true <-> completed_by es t.
Proof.
  unfold all_done_by, completed_by. rewrite forallb_forall. split.
  - intros H i k u E. apply nth_error_In in E. specialize (H _ E). simpl in H. lia.
  - intros H [k u] Hin. apply In_nth_error in Hin as [i E]. specialize (H _ _ _ E). simpl. lia.
Qed.

Lemma nats_eqb_iff l1 l2 : list_eqb Nat.eqb l1 l2 = true <-> l1 = l2.
Proof.
  split; [apply list_eqb_eq; intros x y; apply Nat.eqb_eq|intros ->; apply nats_eqb_refl].
Qed.

Lemma ok_iff_observed_ok rm h only tcall aws o :
  ok (Case rm h only tcall aws o) = true <-> observed_ok rm h only aws o.
Proof.
  unfold ok, observed_ok.
  destruct (ofin o) as [[fk fe] ft]. cbn [fst snd].
  pose proof (wanted_selected h only aws) as Hsel.
  split.
  - intros H. apply andb_prop in H as [H H3]. apply andb_prop in H as [H1 H2].
    apply Nat.eqb_eq in H1. apply all_done_by_spec in H2.
    split; [exact H1|]. split; [exact H2|].
    exists (wanted h only aws). split; [exact Hsel|].
    destruct rm.
    + destruct (wanted h only aws) as [|e r].
      * now apply Nat.eqb_eq.
      * apply andb_prop in H3 as [Ha Hb]. split; now apply Nat.eqb_eq.
    + apply andb_prop in H3 as [H3 H5]. apply andb_prop in H3 as [H3 H4].
      split; [now apply Nat.eqb_eq|]. split; [now apply nats_eqb_iff|].
      intros y Hy. rewrite forallb_forall in H5. specialize (H5 y Hy).
      apply andb_prop in H5 as [Ha Hb]. split; [now apply all_done_by_spec|now apply Nat.eqb_eq].
  - intros (H1 & H2 & sel & Hs & H3).
    rewrite (selected_unique_lemma _ _ _ _ _ Hs Hsel) in H3. clear Hs sel.
    apply andb_true_intro. split; [apply andb_true_intro; split|].
    + now apply Nat.eqb_eq.
    + now apply all_done_by_spec.
    + destruct rm.
      * destruct (wanted h only aws) as [|e r].
        -- now apply Nat.eqb_eq.
        -- destruct H3 as [-> ->]. now rewrite !Nat.eqb_refl.
      * destruct H3 as (-> & H4 & H5). cbn [Nat.eqb andb].
        apply andb_true_intro. split; [now apply nats_eqb_iff|].
        apply forallb_forall. intros y Hy. destruct (H5 y Hy) as [Ha Hb].
        apply andb_true_intro. split; [now apply all_done_by_spec|now apply Nat.eqb_eq].
Qed.

(* ---- every awaitable completes with its own outcome ------------------------- *)
Section Own.
  Variable aws : list aw.

  Lemma run_res_log (p : list (N * nat)) : forall s,
    let s' := fold_left (gstep aws) p s in
    (forall j, res s' j = if existsb (Nat.eqb j) (map snd p) then slot aws j else res s j) /\
    clog s' = clog s ++ map swap p.
  Proof.
    induction p as [|[t i] p IH]; intros s; cbn [fold_left map existsb].
    - split; [reflexivity|now rewrite app_nil_r].
    - destruct (IH (gstep aws s (t, i))) as [Hr Hl]. split.
      + intros j. rewrite Hr. cbn [snd].
        destruct (existsb (Nat.eqb j) (map snd p)); [now rewrite orb_true_r|].
        rewrite orb_false_r, gstep_eq. cbn [res].
        destruct (Nat.eqb_spec j i) as [->|]; reflexivity.
      + rewrite Hl, gstep_eq. cbn [clog]. now rewrite <- app_assoc.
  Qed.

  Lemma own_outcome_lemma tcall (sched : list (N * nat)) :
    Permutation (map snd sched) (seq 0 (length aws)) ->
    let s := grun aws tcall sched in
    (forall i a, nth_error aws i = Some a -> res s i = Some (aout a)) /\
    clog s = map (fun ev => (snd ev, fst ev)) sched /\
    outer s = Some (maxl (map fst sched) tcall, map (fun a => Some (aout a)) aws).
  Proof.
    intros P. cbv zeta.
    destruct (run_complete aws tcall sched P) as [Ho Hl].
    split; [|split; [exact Hl|exact Ho]].
    intros i a Hi. unfold grun.
    match goal with |- res (fold_left _ _ ?s0) _ = _ => destruct (run_res_log sched s0) as [Hr _] end.
    rewrite Hr.
    assert (Hin : In i (map snd sched)).
    { apply (Permutation_in i (Permutation_sym P)). apply in_seq. split; [lia|].
      simpl. apply nth_error_Some. congruence. }
    assert (E : existsb (Nat.eqb i) (map snd sched) = true).
    { apply existsb_exists. exists i. split; [exact Hin|apply Nat.eqb_refl]. }
    rewrite E. unfold slot. now rewrite Hi.
  Qed.
End Own.

Lemma events_from_timing tcall aws : forall aws' k,
  map aform aws = map aform aws' -> map adelay aws = map adelay aws' ->
  events_from tcall aws k = events_from tcall aws' k.
Proof.
  induction aws as [|a r IH]; intros [|a' r'] k Hf Hd; simpl in *; try discriminate; [reflexivity|].
  injection Hf as Hf1 Hf2. injection Hd as Hd1 Hd2.
  rewrite (IH r' (S k) Hf2 Hd2). unfold end_of, start_of. now rewrite Hf1, Hd1.
Qed.

Lemma clog_independent_of_outcomes tcall aws aws' :
  map aform aws = map aform aws' -> map adelay aws = map adelay aws' ->
  clog (grun aws tcall (schedule tcall aws)) = clog (grun aws' tcall (schedule tcall aws')).
Proof.
  intros Hf Hd.
  destruct (run_complete aws tcall _ (schedule_perm_idx tcall aws)) as [_ ->].
  destruct (run_complete aws' tcall _ (schedule_perm_idx tcall aws')) as [_ ->].
  unfold schedule. now rewrite (events_from_timing tcall aws aws' 0 Hf Hd).
Qed.

(* ---- raise_first_exc over the hierarchy -------------------------------------- *)
Section First.
  Variable inst : cls -> cls -> bool.

  Lemma hd_expected_some only aws e :
    hd_error (expected inst only aws) = Some e <->
    exists pre a c post, aws = pre ++ a :: post /\ aout a = Raise c e /\ inst c only = true /\
      forall a' c' e', In a' pre -> aout a' = Raise c' e' -> inst c' only = false.
  Proof.
    induction aws as [|a r IH]; simpl.
    - split; [discriminate|]. intros (pre & a & c & post & E & _). destruct pre; discriminate.
    - assert (Hskip : (forall c' e', aout a = Raise c' e' -> inst c' only = false) ->
                (hd_error (expected inst only r) = Some e <->
                 exists pre a0 c post, a :: r = pre ++ a0 :: post /\ aout a0 = Raise c e /\
                   inst c only = true /\
                   forall a' c' e', In a' pre -> aout a' = Raise c' e' -> inst c' only = false)).
      { intros Ha. rewrite IH. split.
        - intros (pre & a0 & c & post & -> & H1 & H2 & H3). exists (a :: pre), a0, c, post.
          repeat split; auto. intros a' c' e' [<-|Hin] Ho; [eapply Ha; eauto|eapply H3; eauto].
        - intros (pre & a0 & c & post & E & H1 & H2 & H3). destruct pre as [|x pre].
          + simpl in E. injection E as <- <-. rewrite (Ha _ _ H1) in H2. discriminate.
          + simpl in E. injection E as <- ->. exists pre, a0, c, post.
            repeat split; auto. intros a' c' e' Hin Ho. eapply H3; [right|]; eauto. }
      destruct (aout a) as [|c0 e0] eqn:Ea.
      + apply Hskip. intros; discriminate.
      + destruct (inst c0 only) eqn:Ei.
        * simpl. split.
          -- intros [= <-]. exists [], a, c0, r. repeat split; auto. intros ? ? ? [].
          -- intros (pre & a0 & c & post & E & H1 & H2 & H3). destruct pre as [|x pre].
             ++ simpl in E. injection E as <- <-. congruence.
             ++ simpl in E. injection E as <- ->.
                rewrite (H3 a c0 e0 (or_introl eq_refl) Ea) in Ei. discriminate.
        * apply Hskip. intros c' e' [= <- <-]. exact Ei.
  Qed.

  Lemma hd_expected_none only aws :
    hd_error (expected inst only aws) = None <->
    forall a c e, In a aws -> aout a = Raise c e -> inst c only = false.
  Proof.
    induction aws as [|a r IH]; simpl.
    - split; [intros _ ? ? ? []|reflexivity].
    - destruct (aout a) as [|c0 e0] eqn:Ea.
      + rewrite IH. split.
        * intros H x c e [<-|Hin] Ho; [congruence|eauto].
        * intros H x c e Hin Ho. eapply H; eauto.
      + destruct (inst c0 only) eqn:Ei.
        * simpl. split; [discriminate|]. intros H. rewrite (H a c0 e0 (or_introl eq_refl) Ea) in Ei.
          discriminate.
        * rewrite IH. split.
          -- intros H x c e [<-|Hin] Ho; [congruence|eauto].
          -- intros H x c e Hin Ho. eapply H; eauto.
  Qed.
End First.

Lemma raise_first_hierarchy_lemma h aws only tcall :
  (forall e, raise_first_exc (isinst h) aws only tcall = Some (tdone tcall aws, Some e) <->
     exists pre a c post, aws = pre ++ a :: post /\ aout a = Raise c e /\ Ancestor h c only /\
       forall a' c' e', In a' pre -> aout a' = Raise c' e' -> ~ Ancestor h c' only) /\
  (raise_first_exc (isinst h) aws only tcall = Some (tdone tcall aws, None) <->
     forall a c e, In a aws -> aout a = Raise c e -> ~ Ancestor h c only).
Proof.
  rewrite raise_first_lemma. split.
  - intros e. split.
    + intros [= H]. apply hd_expected_some in H as (pre & a & c & post & E & H1 & H2 & H3).
      exists pre, a, c, post. repeat split; auto.
      * now apply isinst_ancestor.
      * intros a' c' e' Hin Ho. apply isinst_not_ancestor; eauto.
    + intros (pre & a & c & post & E & H1 & H2 & H3). f_equal. f_equal.
      apply hd_expected_some. exists pre, a, c, post. repeat split; auto.
      * now apply isinst_ancestor.
      * intros a' c' e' Hin Ho. apply isinst_not_ancestor; eauto.
  - split.
    + intros [= H]. intros a c e Hin Ho. apply isinst_not_ancestor.
      eapply (proj1 (hd_expected_none _ _ _) H); eauto.
    + intros H. f_equal. f_equal. apply hd_expected_none. intros a c e Hin Ho.
      apply isinst_not_ancestor; eauto.
Qed.

(* the model's own trace satisfies the readable statement *)
Lemma model_observed_ok rm h only tcall aws :
  observed_ok rm h only aws (model_trace rm h only tcall aws).
Proof. apply (ok_iff_observed_ok rm h only tcall aws). apply monitor_accepts_model_lemma. Qed.
