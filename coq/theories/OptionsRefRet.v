(* OptionsRefRet.v — batcher refinement, the remaining case: retention_timeout > 0 (retained results
   and their expiry timers).  Same statement as OptionsRefBat.v, with a relation that also covers
   done futures kept in the retention cache and the armed call_later timers. *)
From Coq Require Import List Arith Bool NArith Lia.
Import ListNotations.
Require Import Aiuti.Options Aiuti.OptionsInv Aiuti.OptionsRef Aiuti.OptionsRefBat.

Local Arguments N.add : simpl never.
Local Arguments N.leb : simpl never.
Local Arguments N.ltb : simpl never.
Local Arguments N.max : simpl never.
Local Arguments N.min : simpl never.
Local Arguments Nat.ltb : simpl never.
Local Arguments Nat.leb : simpl never.

(* what the retention cache of the full model says about key k, in Options' vocabulary *)
Definition retv (c : bcfg) (X : B.state) (k : nat) : option rst :=
  match B.lookup (B.ret X) k with
  | None => None
  | Some f => match B.lookup (B.fdone X) f with
              | None => Some (RPend f)
              | Some (B.Ret b, t) => Some (RDone b (t + cR c)%N)
              | Some (_, _) => None
              end
  end.

Record Rfly2 (c : bcfg) (fl : list B.item) (ret : list (nat * nat)) (fdone : list (nat * (B.outcome * N)))
             (rtimers : list (N * nat)) (nfut : nat) : Prop := mkRfly2 {
  g_ret : forall it, In it fl -> In (kf it) ret;
  g_back : forall p, In p ret -> B.lookup fdone (snd p) = None -> exists it, In it fl /\ kf it = p;
  g_keys : NoDup (map B.it_key fl);
  g_pend : forall it, In it fl -> B.lookup fdone (B.it_fid it) = None;
  g_fids : NoDup (map B.it_fid fl);
  g_lt : forall it, In it fl -> B.it_fid it < nfut;
  g_done_lt : forall f o, In (f, o) fdone -> f < nfut;
  g_retnd : NoDup (map fst ret);
  g_t1 : forall d k, In (d, k) rtimers ->
           exists f b t, In (k, f) ret /\ B.lookup fdone f = Some (B.Ret b, t) /\ d = (t + cR c)%N;
  g_t2 : forall k f o t, In (k, f) ret -> B.lookup fdone f = Some (o, t) ->
           In ((t + cR c)%N, k) rtimers /\ exists b, o = B.Ret b
}.

Record Rs2 (c : bcfg) (s : bst) (X : B.state) : Prop := mkRs2 {
  q_now : B.now X = now s;
  q_maxb : B.maxb X = cB c;
  q_coll : option_map (fun p => (map kf (fst p), snd p)) (B.coll X) = coll s;
  q_dl : forall its d, B.coll X = Some (its, d) -> (B.now X <= d)%N;
  q_wait : map (map kf) (B.waiting X) = waitq s;
  q_run : map (fun bt => (B.b_id bt, map kf (B.b_items bt))) (B.running X) = running s;
  q_futs : forall bt, In bt (B.running X) -> B.b_futs bt = map kf (B.b_items bt);
  q_free : B.free X + length (B.running X) = cC c;
  q_wfree : B.waiting X <> [] -> B.free X = 0;
  q_ids : forall bt, In bt (B.running X) -> B.b_id bt < B.nbid X;
  q_idnd : NoDup (map B.b_id (B.running X));
  q_nbid : B.nbid X = length (starts s);
  q_nfut : B.nfut X = nfut s;
  q_ret : forall k, assoc k (ret s) = retv c X k;
  q_nd : NoDup (map fst (ret s));
  q_tl : forall d k, In (d, k) (B.rtimers X) -> (B.now X <= d)%N;
  q_more : forall cl, In cl (B.callers X) -> B.cl_more cl = 0;
  q_fly : Rfly2 c (flight X) (B.ret X) (B.fdone X) (B.rtimers X) (B.nfut X)
}.

Lemma rs2_init c : Rs2 c binit (B.init (to_cfg c)).
Proof.
  constructor; simpl; try reflexivity; try discriminate; try contradiction; try constructor;
    simpl; try contradiction; try constructor; try lia.
Qed.

(* M2: the batch being collected leaves the collector *)
Lemma rs2_dispatch c s X its d :
  Rs2 c s X -> B.coll X = Some (its, d) ->
  let r := B.dispatch its (B.set_coll X None) in
  let s' := dispatch c (B.now X) (map kf its) s in
  Rs2 c s' (fst r) /\ starts s' = starts s ++ obs_starts (snd r).
Proof.
  intros [Hnow Hmaxb Hcoll Hdl Hwait Hrun Hfuts Hfree Hwfree Hids Hidnd Hnbid Hnfut Hret Hnd Htl Hmore Hfly] Hc.
  destr_states X s. bprojA. subst.
  assert (Hkeys : NoDup (map B.it_key its)).
  { pose proof (g_keys _ _ _ _ _ _ Hfly) as Hk. unfold flight, coll_items in Hk. bprojH Hk.
    rewrite !map_app in Hk. apply NoDup_app_r' in Hk. apply NoDup_app_r' in Hk. exact Hk. }
  assert (Hlen : length (map (fun bt => (B.b_id bt, map kf (B.b_items bt))) xrunning) = length xrunning) by apply map_length.
  unfold B.dispatch, dispatch. bproj.
  destruct xwaiting as [|w ws].
  - destruct (0 <? xfree) eqn:E.
    + apply Nat.ltb_lt in E. cbn [map app].
      assert (Hlt : length (map (fun bt : B.batch => (B.b_id bt, map kf (B.b_items bt))) xrunning) < cC c) by lia.
      rewrite start_loop_one by exact Hlt.
      unfold B.start_batch. bproj. cbn [fst snd obs_starts flat_map app]. split.
      * constructor; bproj; try assumption; try reflexivity.
        -- intros ? ? [=].
        -- rewrite map_app. reflexivity.
        -- intros bt Hin. apply in_app_or in Hin as [Hin|[<-|[]]]; [now apply Hfuts|]. cbn [B.b_futs B.b_items]. now apply futs_of_nodup.
        -- rewrite app_length. cbn [length]. lia.
        -- intros H. now elim H.
        -- intros bt Hin. apply in_app_or in Hin as [Hin|[<-|[]]]; [apply Hids in Hin; lia|]. cbn [B.b_id]. lia.
        -- rewrite map_app. cbn [map B.b_id]. apply NoDup_snoc; [assumption|]. intros Hin.
           apply in_map_iff in Hin as [bt [E1 Hin]]. apply Hids in Hin. lia.
        -- rewrite app_length. cbn [length]. lia.
        -- fly_same Hfly.
      * rewrite map_fst_kf, map_fst_ka, ?app_nil_r. reflexivity.
    + apply Nat.ltb_ge in E. cbn [map app].
      assert (Hge : cC c <= length (map (fun bt : B.batch => (B.b_id bt, map kf (B.b_items bt))) xrunning)) by lia.
      rewrite start_loop_stuck by exact Hge. cbn [fst snd obs_starts flat_map]. split; [|rewrite ?app_nil_r; reflexivity].
      constructor; bproj; try assumption; try reflexivity.
      * intros ? ? [=].
      * intros _. lia.
      * fly_same Hfly.
  - assert (Hf0 : xfree = 0) by (apply Hwfree; discriminate). subst xfree. cbn [Nat.ltb Nat.leb].
    change (0 <? 0) with false. cbn [map app].
    assert (Hge : cC c <= length (map (fun bt : B.batch => (B.b_id bt, map kf (B.b_items bt))) xrunning)) by lia.
    rewrite start_loop_stuck by exact Hge.
    cbn [fst snd obs_starts flat_map]. split; [|rewrite ?app_nil_r; reflexivity].
    constructor; bproj; try assumption; try reflexivity.
    + intros ? ? [=].
    + cbn [map]. rewrite map_app. reflexivity.
    + fly_same Hfly.
Qed.


Lemma assoc_None_notin {A} (l : list (nat * A)) k : assoc k l = None -> ~ In k (map fst l).
Proof.
  induction l as [|[k' v] r IH]; simpl; intros H; [intros []|].
  destruct (Nat.eqb k k') eqn:E; [discriminate|]. intros [->|Hin]; [now rewrite Nat.eqb_refl in E | now apply IH].
Qed.

Lemma lookup_In_Some {A} (l : list (nat * A)) k v : In (k, v) l -> B.lookup l k <> None.
Proof.
  intros Hin H. apply (lookup_None_notin _ _ H). apply in_map_iff. now exists (k, v).
Qed.

Lemma lookup_nodup {A} (l : list (nat * A)) k v : NoDup (map fst l) -> In (k, v) l -> B.lookup l k = Some v.
Proof.
  induction l as [|[k' v'] r IH]; cbn [map fst B.lookup]; intros Hnd Hin; [contradiction|].
  inversion Hnd as [|? ? Hn Hr]; subst. destruct Hin as [[= -> ->]|Hin]; [now rewrite Nat.eqb_refl|].
  destruct (Nat.eqb k' k) eqn:E; [|now apply IH].
  apply Nat.eqb_eq in E. subst. exfalso. apply Hn. apply in_map_iff. now exists (k, v).
Qed.

Lemma rfly2_push c fl ret fdone rt nfut k a t m :
  Rfly2 c fl ret fdone rt nfut -> B.lookup ret k = None ->
  Rfly2 c (fl ++ [B.mkitem k a nfut t m]) ((k, nfut) :: ret) fdone rt (S nfut).
Proof.
  intros [H1 H2 H3 H4 H5 H6 H7 H8 H9 H10] Hk. apply lookup_None_notin in Hk.
  assert (Hnew : B.lookup fdone nfut = None).
  { destruct (B.lookup fdone nfut) as [o|] eqn:E; [|reflexivity]. apply lookup_In in E. apply H7 in E. lia. }
  constructor.
  - intros it Hin. apply in_app_or in Hin as [Hin|[<-|[]]]; [right; now apply H1 | now left].
  - intros p [<-|Hin] Hp.
    + eexists. split; [apply in_or_app; right; now left | reflexivity].
    + destruct (H2 p Hin Hp) as [it [Hi1 Hi2]]. exists it. split; [apply in_or_app; now left | assumption].
  - rewrite map_app. cbn [map B.it_key]. apply NoDup_snoc; [assumption|]. intros Hin.
    apply in_map_iff in Hin as [it [E Hin]]. apply Hk. apply H1 in Hin. apply in_map_iff. exists (kf it). split; [exact E|assumption].
  - intros it Hin. apply in_app_or in Hin as [Hin|[<-|[]]]; [now apply H4|]. exact Hnew.
  - rewrite map_app. cbn [map B.it_fid]. apply NoDup_snoc; [assumption|]. intros Hin.
    apply in_map_iff in Hin as [it [E Hin]]. apply H6 in Hin. lia.
  - intros it Hin. apply in_app_or in Hin as [Hin|[<-|[]]]; [apply H6 in Hin; lia | cbn [B.it_fid]; lia].
  - intros f o Hin. apply H7 in Hin. lia.
  - cbn [map fst]. constructor; assumption.
  - intros d k0 Hin. destruct (H9 d k0 Hin) as (f & b & t0 & Hi & Hl & Hd). exists f, b, t0. split; [now right|auto].
  - intros k0 f o t0 [[= <- <-]|Hin] Hl.
    + rewrite Hnew in Hl. discriminate.
    + now apply (H10 k0 f o t0).
Qed.

Lemma rs2_collect c s X k :
  Rs2 c s X -> B.lookup (B.ret X) k = None -> Rs2 c (s_collect c k s) (x_collect c X k).
Proof.
  intros [Hnow Hmaxb Hcoll Hdl Hwait Hrun Hfuts Hfree Hwfree Hids Hidnd Hnbid Hnfut Hret Hnd Htl Hmore Hfly] Hk.
  assert (Hnew : B.lookup (B.fdone X) (B.nfut X) = None).
  { destruct (B.lookup (B.fdone X) (B.nfut X)) as [o|] eqn:E; [|reflexivity].
    apply lookup_In in E. apply (g_done_lt _ _ _ _ _ _ Hfly) in E. lia. }
  assert (Hks : assoc k (ret s) = None) by (rewrite Hret; unfold retv; now rewrite Hk).
  destr_states X s. unfold s_collect, x_collect, x_enq, x_item, coll_items. bprojA. subst.
  constructor; bproj; try assumption; try reflexivity.
  - destruct xcoll as [[its0 d0]|]; cbn [option_map fst snd]; [rewrite map_app|]; reflexivity.
  - intros its d [= <- <-]. lia.
  - intros k0. unfold retv. bproj. cbn [assoc B.lookup]. rewrite (Nat.eqb_sym k0 k).
    destruct (Nat.eqb k k0) eqn:E.
    + now rewrite Hnew.
    + specialize (Hret k0). unfold retv in Hret. bprojH Hret. exact Hret.
  - cbn [map fst]. constructor; [|assumption]. now apply assoc_None_notin.
  - intros cl Hin. apply in_app_or in Hin as [Hin|[<-|[]]]; [now apply Hmore | reflexivity].
  - unfold flight, coll_items in *. bproj. bprojH Hfly. rewrite !app_assoc. rewrite !app_assoc in Hfly.
    now apply rfly2_push.
Qed.

(* a call *)
Lemma sim_call2 c s X k :
  Rs2 c s X ->
  let r := B.step (to_cfg c) X (B.Call k None) in
  let s' := bstep c s (BCall k) in
  Rs2 c s' (fst r) /\ starts s' = starts s ++ obs_starts (snd r).
Proof.
  intros HR r s'. unfold r, s'. cbn [B.step bstep]. unfold B.do_call. cbn [B.key_of].
  rewrite (q_ret _ _ _ HR k). unfold retv.
  destruct (B.lookup (B.ret X) k) as [f|] eqn:Ek.
  - destruct (B.lookup (B.fdone X) f) as [[o t]|] eqn:Ef.
    + (* a retained result: answered at once *)
      destruct (g_t2 _ _ _ _ _ _ (q_fly _ _ _ HR) k f o t (lookup_In _ _ _ Ek) Ef) as [_ [b ->]].
      cbn [fst snd obs_starts flat_map]. split; [|now rewrite app_nil_r].
      destruct HR. unfold B.add_caller. constructor; bproj; try assumption; try reflexivity.
      intros cl Hin. apply in_app_or in Hin as [Hin|[<-|[]]]; [now apply q_more0 | reflexivity].
    + (* the key is in flight: share its future *)
      cbn [fst snd obs_starts flat_map]. split; [|now rewrite app_nil_r].
      destruct HR. unfold B.add_caller. constructor; bproj; try assumption; try reflexivity.
      intros cl Hin. apply in_app_or in Hin as [Hin|[<-|[]]]; [now apply q_more0 | reflexivity].
  - (* a new item *)
    pose proof (rs2_collect c s X k HR Ek) as HC.
    change (B.take (to_cfg c) (B.mkitem k k (B.nfut X) (B.now X) (B.maxb X))
              (B.mkst (B.now X) (B.maxb X) (B.coll X) (B.waiting X) (B.running X) (B.free X) (B.nbid X) (S (B.nfut X))
                 (B.fdone X) ((k, B.nfut X) :: B.ret X) (B.rtimers X)
                 (B.callers X ++ [B.mkcaller k (B.nfut X) true (B.now X) None k None 0])
                 (B.g_items X ++ [B.mkitem k k (B.nfut X) (B.now X) (B.maxb X)]) (B.g_started X) (B.g_blog X)
                 (B.g_spawn X) (B.tie X) (B.fuel_out X)))
      with (B.take (to_cfg c) (x_item X k) (x_enq X k)).
    unfold B.take. cbn [B.coll x_enq B.maxb].
    fold (coll_items X).
    assert (Hits : (match B.coll X with Some (its0, _) => its0 ++ [x_item X k] | None => [x_item X k] end)
                   = coll_items X ++ [x_item X k]).
    { unfold coll_items. now destruct (B.coll X) as [[? ?]|]. }
    rewrite Hits.
    set (tk := match coll s with Some (t, _) => t ++ [(k, nfut s)] | None => [(k, nfut s)] end).
    assert (Htk : tk = map kf (coll_items X ++ [x_item X k])).
    { unfold tk, coll_items. rewrite <- (q_coll _ _ _ HR). rewrite <- (q_nfut _ _ _ HR).
      destruct (B.coll X) as [[its0 d0]|]; cbn [option_map fst snd]; [rewrite map_app|]; reflexivity. }
    rewrite Nat.ltb_antisym, (q_maxb _ _ _ HR). rewrite Htk, map_length.
    destruct (cB c <=? length (coll_items X ++ [x_item X k])) eqn:E; cbn [negb].
    + assert (Hc : B.coll (x_collect c X k) = Some (coll_items X ++ [x_item X k], (B.now X + cbt c)%N)) by reflexivity.
      destruct (rs2_dispatch c _ _ _ _ HC Hc) as [H1 H2].
      rewrite <- Htk in *.
      change (B.now (x_collect c X k)) with (B.now X) in H1, H2. rewrite (q_now _ _ _ HR) in H1, H2.
      split.
      * exact H1.
      * exact H2.
    + cbn [fst snd obs_starts flat_map]. split; [|now rewrite app_nil_r].
      rewrite <- Htk. exact HC.
Qed.

(* ---- association lists under filters ---------------------------------------------- *)

Lemma assoc_In' {A} k (l : list (nat * A)) v : assoc k l = Some v -> In (k, v) l.
Proof.
  induction l as [|[k' v'] r IH]; simpl; [discriminate|].
  destruct (Nat.eqb k k') eqn:E.
  - apply Nat.eqb_eq in E. subst. intros [= ->]. now left.
  - intros H. right. now apply IH.
Qed.

Lemma assoc_filter {A} (P : nat * A -> bool) (l : list (nat * A)) k :
  NoDup (map fst l) ->
  assoc k (filter P l) = match assoc k l with
                         | Some v => if P (k, v) then Some v else None
                         | None => None end.
Proof.
  induction l as [|[k' v] r IH]; cbn [map fst filter assoc]; intros Hnd; [reflexivity|].
  inversion Hnd as [|? ? Hn Hr]; subst.
  destruct (Nat.eqb k k') eqn:E.
  - apply Nat.eqb_eq in E. subst k'. destruct (P (k, v)) eqn:EP.
    + cbn [assoc]. now rewrite Nat.eqb_refl.
    + rewrite (IH Hr). destruct (assoc k r) as [v'|] eqn:Ea; [|reflexivity].
      exfalso. apply Hn. apply assoc_In' in Ea. apply in_map_iff. now exists (k, v').
  - destruct (P (k', v)); [cbn [assoc]; rewrite E|]; now apply IH.
Qed.

Lemma lookup_remove_key_same {A} k (l : list (nat * A)) : B.lookup (B.remove_key k l) k = None.
Proof.
  unfold B.remove_key. induction l as [|[k' v] r IH]; cbn [filter fst B.lookup]; [reflexivity|].
  destruct (Nat.eqb k' k) eqn:E; cbn [negb]; [assumption|]. cbn [B.lookup]. now rewrite E.
Qed.

Lemma lookup_remove_key_other {A} k k0 (l : list (nat * A)) : k <> k0 -> B.lookup (B.remove_key k l) k0 = B.lookup l k0.
Proof.
  intros Hne. unfold B.remove_key. induction l as [|[k' v] r IH]; cbn [filter fst B.lookup]; [reflexivity|].
  destruct (Nat.eqb k' k) eqn:E; cbn [negb].
  - apply Nat.eqb_eq in E. subst k'. destruct (Nat.eqb k k0) eqn:E2; [apply Nat.eqb_eq in E2; contradiction|assumption].
  - cbn [B.lookup]. now rewrite IH.
Qed.

(* removing the keys of a list of timers *)
Definition rm_due (due : list (N * nat)) (ret : list (nat * nat)) : list (nat * nat) :=
  fold_left (fun r p => B.remove_key (snd p) r) due ret.

Lemma rm_due_In due : forall ret p, In p (rm_due due ret) <-> In p ret /\ ~ In (fst p) (map snd due).
Proof.
  unfold rm_due. induction due as [|q due IH]; intros ret p; cbn [fold_left map].
  - split; [intros H; split; [assumption|intros []] | now intros [H _]].
  - rewrite IH. unfold B.remove_key. rewrite filter_In. split.
    + intros [[H1 H2] H3]. split; [assumption|]. intros [E|Hin]; [|contradiction].
      rewrite <- E, Nat.eqb_refl in H2. discriminate.
    + intros [H1 H2]. split; [split; [assumption|]|].
      * destruct (Nat.eqb (fst p) (snd q)) eqn:E; [|reflexivity]. apply Nat.eqb_eq in E. exfalso. apply H2. now left.
      * intros Hin. apply H2. now right.
Qed.

Lemma rm_due_lookup due : forall ret k,
  B.lookup (rm_due due ret) k = if existsb (Nat.eqb k) (map snd due) then None else B.lookup ret k.
Proof.
  unfold rm_due. induction due as [|q due IH]; intros ret k; cbn [fold_left map existsb]; [reflexivity|].
  rewrite IH. destruct (existsb (Nat.eqb k) (map snd due)); [now rewrite orb_true_r|]. rewrite orb_false_r.
  destruct (Nat.eqb k (snd q)) eqn:E.
  - apply Nat.eqb_eq in E. subst. apply lookup_remove_key_same.
  - apply lookup_remove_key_other. intros Heq. rewrite <- Heq, Nat.eqb_refl in E. discriminate.
Qed.

Lemma rm_due_nodup due : forall ret, NoDup (map fst ret) -> NoDup (map fst (rm_due due ret)).
Proof.
  unfold rm_due. induction due as [|q due IH]; intros ret H; cbn [fold_left]; [assumption|].
  apply IH. unfold B.remove_key. now apply NoDup_map_filter.
Qed.

Lemma filter_filter_imp {A} (P Q : A -> bool) l : (forall x, Q x = true -> P x = true) -> filter Q (filter P l) = filter Q l.
Proof.
  intros H. induction l as [|x l IH]; cbn [filter]; [reflexivity|].
  destruct (P x) eqn:EP; cbn [filter].
  - now rewrite IH.
  - destruct (Q x) eqn:EQ; [apply H in EQ; congruence|assumption].
Qed.

(* ---- retained results expire (and the clock moves to t, not beyond the collector's deadline) ---- *)

Lemma in_due_keys (rt : list (N * nat)) t k :
  In k (map snd (filter (fun p => (fst p <=? t)%N) rt)) <-> exists d, In (d, k) rt /\ (d <= t)%N.
Proof.
  rewrite in_map_iff. split.
  - intros [[d k'] [E Hin]]. cbn [snd] in E. subst k'. apply filter_In in Hin as [Hin Hle]. cbn [fst] in Hle.
    exists d. split; [assumption|]. now apply N.leb_le.
  - intros [d [Hin Hle]]. exists (d, k). split; [reflexivity|]. apply filter_In. split; [assumption|]. now apply N.leb_le.
Qed.

Lemma rfly2_expire c fl ret fdone rt nfut t :
  Rfly2 c fl ret fdone rt nfut ->
  Rfly2 c fl (rm_due (filter (fun p => (fst p <=? t)%N) rt) ret) fdone
        (filter (fun p => negb (fst p <=? t)%N) rt) nfut.
Proof.
  intros [H1 H2 H3 H4 H5 H6 H7 H8 H9 H10].
  (* a due key has a done future; the same key cannot hold a pending one or a later timer *)
  assert (Hdue : forall k f, In (k, f) ret -> In k (map snd (filter (fun p => (fst p <=? t)%N) rt)) ->
                 exists b t0, B.lookup fdone f = Some (B.Ret b, t0) /\ (t0 + cR c <= t)%N).
  { intros k f Hin Hk. apply in_due_keys in Hk as [d [Hd Hle]].
    destruct (H9 d k Hd) as (f' & b & t0 & Hi & Hl & ->).
    assert (f' = f) by (pose proof (lookup_nodup _ _ _ H8 Hi) as E1; pose proof (lookup_nodup _ _ _ H8 Hin) as E2; congruence).
    subst f'. now exists b, t0. }
  constructor; try assumption.
  - intros it Hin. apply rm_due_In. split; [now apply H1|]. cbn [kf fst]. intros Hk.
    destruct (Hdue _ _ (H1 it Hin) Hk) as (b & t0 & Hl & _). rewrite (H4 it Hin) in Hl. discriminate.
  - intros p Hin Hp. apply rm_due_In in Hin as [Hin _]. now apply H2.
  - now apply rm_due_nodup.
  - intros d k Hin. apply filter_In in Hin as [Hin Hgt]. cbn [fst] in Hgt.
    destruct (H9 d k Hin) as (f & b & t0 & Hi & Hl & ->). exists f, b, t0. split; [|auto].
    apply rm_due_In. split; [assumption|]. cbn [fst]. intros Hk.
    destruct (Hdue _ _ Hi Hk) as (b' & t0' & Hl' & Hle). rewrite Hl in Hl'. injection Hl' as <- <-.
    apply N.leb_le in Hle. now rewrite Hle in Hgt.
  - intros k f o t0 Hin Hl. apply rm_due_In in Hin as [Hin Hk]. cbn [fst] in Hk.
    destruct (H10 k f o t0 Hin Hl) as [Ht Ho]. split; [|assumption].
    apply filter_In. split; [assumption|]. cbn [fst]. destruct (t0 + cR c <=? t)%N eqn:E; [|reflexivity].
    exfalso. apply Hk. apply in_due_keys. exists (t0 + cR c)%N. split; [assumption|]. now apply N.leb_le.
Qed.

Lemma rs2_expire c s X t :
  Rs2 c s X -> (B.now X <= t)%N -> (forall its d, B.coll X = Some (its, d) -> (t <= d)%N) ->
  Rs2 c (adv_fin t s) (x_fire t X).
Proof.
  intros [Hnow Hmaxb Hcoll Hdl Hwait Hrun Hfuts Hfree Hwfree Hids Hidnd Hnbid Hnfut Hret Hnd Htl Hmore Hfly] Hle Hd.
  destr_states X s. unfold x_fire, adv_fin. bprojA. subst.
  rewrite (N.max_r _ _ Hle).
  change (fold_left (fun (r : list (nat * nat)) (p : N * nat) => B.remove_key (snd p) r)
            (filter (fun p : N * nat => (fst p <=? t)%N) xrtimers) xret)
    with (rm_due (filter (fun p : N * nat => (fst p <=? t)%N) xrtimers) xret).
  constructor; bproj; try assumption; try reflexivity.
  - (* the retention cache, key by key *)
    intros k. rewrite (assoc_filter _ _ _ Hnd). rewrite (Hret k). unfold retv. bproj. rewrite rm_due_lookup.
    destruct (existsb (Nat.eqb k) (map snd (filter (fun p : N * nat => (fst p <=? t)%N) xrtimers))) eqn:ED.
    + apply existsb_exists in ED as [k' [Hk E]]. apply Nat.eqb_eq in E. subst k'.
      apply in_due_keys in Hk as [d [Hin Hle2]].
      destruct (g_t1 _ _ _ _ _ _ Hfly d k Hin) as (f & b & t0 & Hi & Hl & ->).
      rewrite (lookup_nodup _ _ _ (g_retnd _ _ _ _ _ _ Hfly) Hi), Hl. cbn [snd].
      apply N.leb_le in Hle2. now rewrite Hle2.
    + destruct (B.lookup xret k) as [f|] eqn:Ek; [|reflexivity].
      destruct (B.lookup xfdone f) as [[o t0]|] eqn:Ef; [|reflexivity].
      destruct (g_t2 _ _ _ _ _ _ Hfly k f o t0 (lookup_In _ _ _ Ek) Ef) as [Ht [b ->]]. cbn [snd].
      destruct (t0 + cR c <=? t)%N eqn:E; [|reflexivity]. exfalso.
      assert (Hk : In k (map snd (filter (fun p : N * nat => (fst p <=? t)%N) xrtimers))).
      { apply in_due_keys. exists (t0 + cR c)%N. split; [assumption|]. now apply N.leb_le. }
      assert (existsb (Nat.eqb k) (map snd (filter (fun p : N * nat => (fst p <=? t)%N) xrtimers)) = true).
      { apply existsb_exists. exists k. split; [assumption|apply Nat.eqb_refl]. }
      congruence.
  - now apply NoDup_map_filter.
  - intros d k Hin. apply filter_In in Hin as [_ Hgt]. cbn [fst] in Hgt.
    apply negb_true_iff, N.leb_gt in Hgt. lia.
  - unfold flight, coll_items in *. bproj. bprojH Hfly. now apply rfly2_expire.
Qed.

(* Rs2 only looks at these fields of the full model's state *)
Lemma rs2_ext c s X Y :
  Rs2 c s X ->
  B.now Y = B.now X -> B.maxb Y = B.maxb X -> B.coll Y = B.coll X -> B.waiting Y = B.waiting X ->
  B.running Y = B.running X -> B.free Y = B.free X -> B.nbid Y = B.nbid X -> B.nfut Y = B.nfut X ->
  B.fdone Y = B.fdone X -> B.ret Y = B.ret X -> B.rtimers Y = B.rtimers X -> B.callers Y = B.callers X ->
  Rs2 c s Y.
Proof.
  intros HR. destruct X, Y. bproj. intros; subst. destruct HR. constructor; assumption.
Qed.

(* ---- Options: [Adv] composes -------------------------------------------------------- *)

Definition adv_disp (c : bcfg) (t : N) (s : bst) : bst :=
  match coll s with
  | Some (tk, d) => if (d <=? t)%N then dispatch c d tk s else s
  | None => s
  end.

Lemma bstep_adv c s dt : bstep c s (Adv dt) = adv_fin (now s + dt)%N (adv_disp c (now s + dt)%N s).
Proof. reflexivity. Qed.

Lemma adv_fin_dispatch c t d tk s : adv_fin t (dispatch c d tk s) = dispatch c d tk (adv_fin t s).
Proof.
  unfold adv_fin, dispatch. bproj.
  now destruct (start_loop (cC c) d (waitq s ++ [tk]) (running s) (starts s)) as [[q run] st].
Qed.

Lemma adv_fin_twice t1 t2 s : (t1 <= t2)%N -> adv_fin t2 (adv_fin t1 s) = adv_fin t2 s.
Proof.
  intros HT. unfold adv_fin. bproj. f_equal. apply filter_filter_imp. intros [k [f|b0 ex]]; cbn [snd]; [reflexivity|].
  intros H. apply negb_true_iff, N.leb_gt in H. apply negb_true_iff, N.leb_gt. lia.
Qed.

Lemma adv_split c s a b : bstep c (bstep c s (Adv a)) (Adv b) = bstep c s (Adv (a + b)).
Proof.
  rewrite (bstep_adv c s a), (bstep_adv c s (a + b)).
  replace (now s + (a + b))%N with (now s + a + b)%N by lia.
  set (T1 := (now s + a)%N). unfold adv_disp.
  destruct (coll s) as [[tk d]|] eqn:Ec.
  - destruct (d <=? T1)%N eqn:E1.
    + assert (E2 : (d <=? T1 + b)%N = true) by (apply N.leb_le in E1; apply N.leb_le; lia).
      rewrite E2. rewrite !adv_fin_dispatch. rewrite bstep_adv, now_dispatch. cbn [now adv_fin].
      unfold adv_disp. rewrite coll_dispatch. rewrite adv_fin_dispatch. now rewrite adv_fin_twice by lia.
    + rewrite bstep_adv. cbn [now adv_fin]. fold (adv_fin T1 s). unfold adv_disp. cbn [coll adv_fin]. rewrite Ec.
      fold (adv_fin T1 s).
      destruct (d <=? T1 + b)%N eqn:E2.
      * rewrite !adv_fin_dispatch. now rewrite adv_fin_twice by lia.
      * now rewrite adv_fin_twice by lia.
  - rewrite bstep_adv. cbn [now adv_fin]. fold (adv_fin T1 s). unfold adv_disp. cbn [coll adv_fin]. rewrite Ec.
    fold (adv_fin T1 s). now rewrite adv_fin_twice by lia.
Qed.

(* ---- the full model's advance loop --------------------------------------------------- *)

Lemma fold_min_spec : forall (r : list N) (d : N),
  (fold_left N.min r d <= d)%N /\ (forall x, In x r -> (fold_left N.min r d <= x)%N) /\ In (fold_left N.min r d) (d :: r).
Proof.
  induction r as [|y r IH]; intros d; cbn [fold_left].
  - split; [lia|]. split; [intros ? []|now left].
  - destruct (IH (N.min d y)) as (H1 & H2 & H3). split; [lia|]. split.
    + intros x [<-|Hx]; [lia|now apply H2].
    + destruct H3 as [H3|H3]; [|right; now right].
      destruct (N.min_spec d y) as [[_ E]|[_ E]]; rewrite E in H3 |- *; [now left|right; now left].
Qed.

Lemma next_deadline_spec X t : B.next_deadline X = Some t ->
  (forall d, In d (B.deadlines X) -> (t <= d)%N) /\ In t (B.deadlines X).
Proof.
  unfold B.next_deadline. destruct (B.deadlines X) as [|d r]; [discriminate|]. intros [= <-].
  destruct (fold_min_spec r d) as (H1 & H2 & H3). split; [|assumption].
  intros x [<-|Hx]; [assumption|now apply H2].
Qed.

Lemma next_deadline_none X : B.next_deadline X = None -> B.rtimers X = [] /\ B.coll X = None.
Proof.
  unfold B.next_deadline, B.deadlines. destruct (B.rtimers X) as [|p r]; cbn [map app].
  - destruct (B.coll X) as [[its d]|]; [discriminate|auto].
  - discriminate.
Qed.

Definition meas (X : B.state) : nat :=
  length (B.rtimers X) + match B.coll X with Some _ => 1 | None => 0 end.

Lemma filter_length_le {A} (P : A -> bool) l : length (filter P l) <= length l.
Proof. induction l as [|x l IH]; cbn [filter length]; [lia|]. destruct (P x); cbn [length]; lia. Qed.

Lemma filter_length_lt {A} (P : A -> bool) l x : In x l -> P x = false -> length (filter P l) < length l.
Proof.
  induction l as [|y l IH]; cbn [filter length]; intros Hin Hp; [contradiction|].
  destruct Hin as [->|Hin].
  - rewrite Hp. pose proof (filter_length_le P l). lia.
  - specialize (IH Hin Hp). destruct (P y); cbn [length]; lia.
Qed.

Lemma dispatch_rtimers its Y : B.rtimers (fst (B.dispatch its Y)) = B.rtimers Y.
Proof. unfold B.dispatch. bproj. destruct (0 <? B.free Y); reflexivity. Qed.

Lemma no_due (rt : list (N * nat)) t : (forall d k, In (d, k) rt -> (t < d)%N) ->
  filter (fun p => (fst p <=? t)%N) rt = [] /\ filter (fun p => negb (fst p <=? t)%N) rt = rt.
Proof.
  induction rt as [|[d k] rt IH]; intros H; cbn [filter fst]; [auto|].
  assert (E : (d <=? t)%N = false) by (apply N.leb_gt; apply (H d k); now left).
  rewrite E. cbn [negb]. destruct IH as [I1 I2]; [intros d0 k0 Hin; apply (H d0 k0); now right|].
  split; [assumption|now rewrite I2].
Qed.

(* the clock reaches [target] and no deadline is due *)
Lemma rs2_idle c s X target :
  Rs2 c s X -> (B.now X <= target)%N ->
  (forall d, In d (B.deadlines X) -> (target < d)%N) ->
  Rs2 c (bstep c s (Adv (target - now s))) (B.set_now X (N.max (B.now X) target)).
Proof.
  intros HR Hle Hdl. rewrite bstep_adv.
  replace (now s + (target - now s))%N with target by (rewrite <- (q_now _ _ _ HR); lia).
  assert (Hc : forall its d, B.coll X = Some (its, d) -> (target < d)%N).
  { intros its d Hx. apply Hdl. unfold B.deadlines. rewrite Hx. apply in_or_app. right. now left. }
  assert (Hr : forall d k, In (d, k) (B.rtimers X) -> (target < d)%N).
  { intros d k Hx. apply Hdl. unfold B.deadlines. apply in_or_app. left. apply in_map_iff. now exists (d, k). }
  assert (Hd : adv_disp c target s = s).
  { unfold adv_disp. rewrite <- (q_coll _ _ _ HR). destruct (B.coll X) as [[its d]|] eqn:Ec; cbn [option_map fst snd]; [|reflexivity].
    specialize (Hc its d eq_refl). apply N.leb_gt in Hc. now rewrite Hc. }
  rewrite Hd.
  assert (HE : Rs2 c (adv_fin target s) (x_fire target X)).
  { apply rs2_expire; [assumption..|]. intros its d Hx. specialize (Hc its d Hx). lia. }
  destruct (no_due _ _ Hr) as [N1 N2].
  apply (rs2_ext c _ _ _ HE); unfold x_fire; bproj; rewrite ?(N.max_r _ _ Hle); try reflexivity.
  - now rewrite N1.
  - now rewrite N2.
Qed.

Lemma now_bstep_adv c s dt : now (bstep c s (Adv dt)) = (now s + dt)%N.
Proof. reflexivity. Qed.

(* the earliest deadline fires *)
Lemma fire_min c s X t :
  Rs2 c s X -> B.next_deadline X = Some t ->
  let r := B.fire_at t X in
  let s' := bstep c s (Adv (t - now s)) in
  Rs2 c s' (fst r) /\ starts s' = starts s ++ obs_starts (snd r) /\ meas (fst r) < meas X.
Proof.
  intros HR Hnd r s'. unfold r, s'. clear r s'.
  destruct (next_deadline_spec X t Hnd) as [Hmin Hin].
  assert (Hc : forall its d, B.coll X = Some (its, d) -> (t <= d)%N).
  { intros its d Hx. apply Hmin. unfold B.deadlines. rewrite Hx. apply in_or_app. right. now left. }
  assert (Hle : (B.now X <= t)%N).
  { unfold B.deadlines in Hin. apply in_app_or in Hin as [Hx|Hx].
    - apply in_map_iff in Hx as [[d k] [<- Hx]]. apply (q_tl _ _ _ HR d k Hx).
    - destruct (B.coll X) as [[its d]|] eqn:Ec; [|contradiction]. destruct Hx as [<-|[]]. apply (q_dl _ _ _ HR its d Ec). }
  rewrite bstep_adv. replace (now s + (t - now s))%N with t by (rewrite <- (q_now _ _ _ HR); lia).
  pose proof (rs2_expire c s X t HR Hle Hc) as HE.
  destruct (B.coll X) as [[its d]|] eqn:Ec.
  - destruct (d <=? t)%N eqn:Ed.
    + (* the collector's deadline: the batch is handed over at t *)
      assert (d = t) by (apply N.leb_le in Ed; specialize (Hc its d eq_refl); lia). subst d.
      rewrite (fire_at_eq X t its Ec).
      assert (Hcx : B.coll (x_fire t X) = Some (its, t)) by (unfold x_fire; bproj; exact Ec).
      destruct (rs2_dispatch c _ _ _ _ HE Hcx) as [H1 H2].
      assert (Hnx : B.now (x_fire t X) = t) by (unfold x_fire; bproj; now apply N.max_r).
      rewrite Hnx in H1, H2.
      unfold adv_disp. rewrite <- (q_coll _ _ _ HR), Ec. cbn [option_map fst snd]. rewrite Ed.
      rewrite adv_fin_dispatch. split; [exact H1|]. split; [exact H2|].
      unfold meas. rewrite dispatch_rtimers, Ec.
      assert (Hcn : B.coll (fst (B.dispatch its (B.set_coll (x_fire t X) None))) = None).
      { pose proof (q_coll _ _ _ H1) as Hx. rewrite coll_dispatch in Hx.
        destruct (B.coll (fst (B.dispatch its (B.set_coll (x_fire t X) None)))); [discriminate|reflexivity]. }
      rewrite Hcn. unfold x_fire. bproj.
      pose proof (filter_length_le (fun p : N * nat => negb (fst p <=? t)%N) (B.rtimers X)). lia.
    + (* only retained results expire *)
      assert (Hd : adv_disp c t s = s).
      { unfold adv_disp. rewrite <- (q_coll _ _ _ HR), Ec. cbn [option_map fst snd]. now rewrite Ed. }
      rewrite Hd. unfold B.fire_at. bproj. rewrite Ec, Ed. cbn [fst snd obs_starts flat_map]. rewrite app_nil_r.
      split; [|split; [reflexivity|]].
      * apply (rs2_ext c _ _ _ HE); unfold x_fire; bproj; reflexivity.
      * unfold meas. bproj. rewrite Ec.
        assert (Ht : In t (map fst (B.rtimers X))).
        { unfold B.deadlines in Hin. rewrite Ec in Hin. apply in_app_or in Hin as [Hx|[<-|[]]]; [assumption|].
          rewrite N.leb_refl in Ed. discriminate. }
        apply in_map_iff in Ht as [[d0 k0] [E0 Hx]]. cbn [fst] in E0. subst d0.
        assert (length (filter (fun p : N * nat => negb (fst p <=? t)%N) (B.rtimers X)) < length (B.rtimers X)).
        { apply (filter_length_lt _ _ (t, k0) Hx). cbn [fst]. now rewrite N.leb_refl. }
        lia.
  - assert (Hd : adv_disp c t s = s).
    { unfold adv_disp. rewrite <- (q_coll _ _ _ HR), Ec. reflexivity. }
    rewrite Hd. unfold B.fire_at. bproj. rewrite Ec. cbn [fst snd obs_starts flat_map]. rewrite app_nil_r.
    split; [|split; [reflexivity|]].
    + apply (rs2_ext c _ _ _ HE); unfold x_fire; bproj; reflexivity.
    + unfold meas. bproj. rewrite Ec.
      assert (Ht : In t (map fst (B.rtimers X))).
      { unfold B.deadlines in Hin. rewrite Ec in Hin. rewrite app_nil_r in Hin. assumption. }
      apply in_map_iff in Ht as [[d0 k0] [E0 Hx]]. cbn [fst] in E0. subst d0.
      assert (length (filter (fun p : N * nat => negb (fst p <=? t)%N) (B.rtimers X)) < length (B.rtimers X)).
      { apply (filter_length_lt _ _ (t, k0) Hx). cbn [fst]. now rewrite N.leb_refl. }
      lia.
Qed.

(* Batcher.advance with enough fuel = Options' [Adv] *)
Lemma adv_loop c : forall fuel s X target,
  Rs2 c s X -> meas X < fuel -> (B.now X <= target)%N ->
  let r := B.advance fuel target X in
  let s' := bstep c s (Adv (target - now s)) in
  Rs2 c s' (fst r) /\ starts s' = starts s ++ obs_starts (snd r).
Proof.
  induction fuel as [|n IH]; intros s X target HR Hm Hle; [lia|].
  cbn [B.advance].
  destruct (B.next_deadline X) as [t|] eqn:End.
  - destruct (t <=? target)%N eqn:Et.
    + destruct (fire_min c s X t HR End) as (H1 & H2 & H3).
      destruct (B.fire_at t X) as [X1 o1] eqn:Ef. cbn [fst snd] in H1, H2, H3.
      assert (Hlt : (B.now X <= t)%N).
      { destruct (next_deadline_spec X t End) as [Hmin Hin].
        unfold B.deadlines in Hin. apply in_app_or in Hin as [Hx|Hx].
        - apply in_map_iff in Hx as [[d k] [<- Hx]]. apply (q_tl _ _ _ HR d k Hx).
        - destruct (B.coll X) as [[its d]|] eqn:Ec; [|contradiction]. destruct Hx as [<-|[]]. apply (q_dl _ _ _ HR its d Ec). }
      assert (Hn1 : B.now X1 = t).
      { rewrite (q_now _ _ _ H1), now_bstep_adv. rewrite <- (q_now _ _ _ HR). lia. }
      apply N.leb_le in Et.
      specialize (IH _ X1 target H1). destruct IH as [I1 I2]; [lia|lia|].
      destruct (B.advance n target X1) as [X2 o2]. cbn [fst snd] in *.
      assert (Hs : bstep c (bstep c s (Adv (t - now s))) (Adv (target - now (bstep c s (Adv (t - now s))))) =
                   bstep c s (Adv (target - now s))).
      { rewrite adv_split. f_equal. f_equal. rewrite now_bstep_adv. rewrite (q_now _ _ _ HR) in Hlt. lia. }
      rewrite Hs in I1, I2. split; [exact I1|].
      rewrite I2, H2, obs_starts_app. now rewrite app_assoc.
    + apply N.leb_gt in Et. cbn [fst snd obs_starts flat_map]. rewrite app_nil_r. split.
      * apply rs2_idle; [assumption..|]. intros d Hd. destruct (next_deadline_spec X t End) as [Hmin _].
        specialize (Hmin d Hd). lia.
      * rewrite bstep_adv. cbn [adv_fin starts]. unfold adv_disp. rewrite <- (q_coll _ _ _ HR).
        destruct (B.coll X) as [[its d]|] eqn:Ec; cbn [option_map fst snd]; [|reflexivity].
        destruct (next_deadline_spec X t End) as [Hmin _].
        assert (t <= d)%N. { apply Hmin. unfold B.deadlines. rewrite Ec. apply in_or_app. right. now left. }
        assert (E : (d <=? now s + (target - now s))%N = false).
        { apply N.leb_gt. rewrite <- (q_now _ _ _ HR). lia. }
        now rewrite E.
  - destruct (next_deadline_none X End) as [Hr Hc]. cbn [fst snd obs_starts flat_map]. rewrite app_nil_r. split.
    + apply rs2_idle; [assumption..|]. intros d Hd. unfold B.deadlines in Hd. rewrite Hr, Hc in Hd. contradiction.
    + rewrite bstep_adv. cbn [adv_fin starts]. unfold adv_disp. rewrite <- (q_coll _ _ _ HR), Hc. reflexivity.
Qed.

(* time passes *)
Lemma sim_adv2 c s X dt :
  Rs2 c s X ->
  let r := B.step (to_cfg c) X (B.Advance dt) in
  let s' := bstep c s (Adv dt) in
  Rs2 c s' (fst r) /\ starts s' = starts s ++ obs_starts (snd r).
Proof.
  intros HR. cbn [B.step].
  assert (Hm : meas X < length (B.rtimers X) + 3) by (unfold meas; destruct (B.coll X); lia).
  assert (Hle : (B.now X <= B.now X + dt)%N) by lia.
  pose proof (adv_loop c _ s X (B.now X + dt)%N HR Hm Hle) as H.
  replace (B.now X + dt - now s)%N with dt in H by (rewrite (q_now _ _ _ HR); lia).
  exact H.
Qed.

(* ====================================================================================== *)
(* the batch function returns, retention_timeout > 0                                        *)
(* ====================================================================================== *)

Lemma yield_step2 C Y b B0 it rem' :
  (0 <? B.c_rt C)%N = true ->
  B.find_batch Y b = Some B0 -> B.b_futs B0 = kf it :: map kf rem' ->
  ~ In (B.it_key it) (map B.it_key rem') ->
  B.lookup (B.fdone Y) (B.it_fid it) = None ->
  (forall cl, In cl (B.callers Y) -> B.cl_more cl = 0) ->
  let r := B.step C Y (B.BYield b (B.it_key it) (B.Val b)) in
  exists cs gb,
    fst r = B.mkst (B.now Y) (B.maxb Y) (B.coll Y) (B.waiting Y) (map (with_futs b (map kf rem')) (B.running Y))
                   (B.free Y) (B.nbid Y) (B.nfut Y)
                   ((B.it_fid it, (B.Ret b, B.now Y)) :: B.fdone Y) (B.ret Y)
                   (B.rtimers Y ++ [((B.now Y + B.c_rt C)%N, B.it_key it)]) cs (B.g_items Y) (B.g_started Y) gb
                   (B.g_spawn Y) (B.tie Y) (B.fuel_out Y) /\
    (forall cl, In cl cs -> B.cl_more cl = 0) /\ obs_starts (snd r) = [].
Proof.
  intros Hrt Hfind Hfuts Hnk Hpend Hmore r. unfold r. clear r.
  cbn [B.step]. rewrite Hfind. rewrite Hfuts. cbn [kf B.lookup]. rewrite Nat.eqb_refl.
  cbn [B.remove_key filter fst]. rewrite Nat.eqb_refl. cbn [negb].
  change (filter (fun p : nat * nat => negb (fst p =? B.it_key it)) (map kf rem'))
    with (B.remove_key (B.it_key it) (map kf rem')).
  rewrite remove_key_notin by (now rewrite map_fst_kf).
  unfold B.set_fut, B.is_done, B.log_bev, B.set_batch_futs. bproj. rewrite Hpend.
  unfold B.resolve. rewrite Hrt. cbn iota. bproj.
  match goal with |- context [B.wake_all C ?Y1] => destruct (wake_all_spec C Y1) as (cs & H1 & H2 & H3) end.
  { bproj. exact Hmore. }
  exists cs, (B.g_blog Y ++ [(b, B.EvYield (B.it_key it) (B.Val b))]). split; [|split; [exact H2|exact H3]].
  rewrite H1. destruct Y. reflexivity.
Qed.

Lemma yields_run2 C b R0 bt0 : (0 <? B.c_rt C)%N = true ->
  find (fun x => Nat.eqb (B.b_id x) b) R0 = Some bt0 ->
  forall rem Y,
    B.running Y = map (with_futs b (map kf rem)) R0 ->
    NoDup (map B.it_key rem) -> NoDup (map B.it_fid rem) ->
    (forall it, In it rem -> B.lookup (B.fdone Y) (B.it_fid it) = None) ->
    (forall cl, In cl (B.callers Y) -> B.cl_more cl = 0) ->
    let r := B.run_from C Y (map (fun it => B.BYield b (B.it_key it) (B.Val b)) rem) in
    exists cs gb fd,
      snd r = B.mkst (B.now Y) (B.maxb Y) (B.coll Y) (B.waiting Y) (map (with_futs b []) R0)
                     (B.free Y) (B.nbid Y) (B.nfut Y) fd (B.ret Y)
                     (B.rtimers Y ++ map (fun it => ((B.now Y + B.c_rt C)%N, B.it_key it)) rem)
                     cs (B.g_items Y) (B.g_started Y) gb (B.g_spawn Y) (B.tie Y) (B.fuel_out Y) /\
      (forall f, B.lookup fd f = if existsb (Nat.eqb f) (map B.it_fid rem)
                                 then Some (B.Ret b, B.now Y) else B.lookup (B.fdone Y) f) /\
      (forall f o, In (f, o) fd -> In (f, o) (B.fdone Y) \/ In f (map B.it_fid rem)) /\
      (forall cl, In cl cs -> B.cl_more cl = 0) /\
      obs_starts (concat (fst r)) = [].
Proof.
  intros Hrt Hfind. induction rem as [|it rem' IH]; intros Y Hrun Hnk Hnf Hpend Hmore r; unfold r; clear r.
  - cbn [map B.run_from fst snd concat obs_starts flat_map existsb].
    exists (B.callers Y), (B.g_blog Y), (B.fdone Y). split; [|split; [|split; [|split]]]; auto.
    rewrite app_nil_r. destruct Y. cbn [B.running] in Hrun. subst. reflexivity.
  - cbn [map]. rewrite run_from_cons. cbn [fst snd concat].
    assert (Hf : B.find_batch Y b = Some (with_futs b (map kf (it :: rem')) bt0)).
    { unfold B.find_batch. rewrite Hrun, find_with_futs, Hfind. reflexivity. }
    assert (Hid : Nat.eqb (B.b_id bt0) b = true).
    { apply find_some in Hfind. apply Hfind. }
    assert (Hfu : B.b_futs (with_futs b (map kf (it :: rem')) bt0) = kf it :: map kf rem').
    { unfold with_futs. rewrite Hid. reflexivity. }
    inversion Hnk as [|? ? Hk1 Hk2]; subst. inversion Hnf as [|? ? Hf1 Hf2]; subst.
    destruct (yield_step2 C Y b _ it rem' Hrt Hf Hfu Hk1 (Hpend it (or_introl eq_refl)) Hmore)
      as (cs1 & gb1 & E1 & M1 & O1).
    rewrite E1. rewrite obs_starts_app, O1. cbn [app].
    match goal with |- context [B.run_from C ?Y1 _] => specialize (IH Y1) end.
    cbn [B.running B.fdone B.callers B.now B.maxb B.coll B.waiting B.free B.nbid B.nfut B.ret B.rtimers
         B.g_items B.g_started B.g_spawn B.tie B.fuel_out] in IH.
    destruct IH as (cs & gb & fd & E2 & L2 & F2 & M2 & O2).
    + rewrite Hrun. apply with_futs_twice.
    + exact Hk2.
    + exact Hf2.
    + intros it' Hin. rewrite lookup_cons_ne.
      * apply Hpend. now right.
      * intros Heq. apply Hf1. rewrite Heq. now apply in_map.
    + exact M1.
    + exists cs, gb, fd. split; [|split; [|split; [|split]]].
      * rewrite E2. rewrite <- app_assoc. reflexivity.
      * intros f. rewrite L2. cbn [map existsb B.lookup]. rewrite (Nat.eqb_sym f).
        destruct (existsb (Nat.eqb f) (map B.it_fid rem')); [now rewrite orb_true_r|]. rewrite orb_false_r.
        now destruct (Nat.eqb (B.it_fid it) f).
      * intros f o Hin. destruct (F2 f o Hin) as [[Hx|Hx]|Hx].
        -- injection Hx as <- _. right. now left.
        -- now left.
        -- right. now right.
      * exact M2.
      * exact O2.
Qed.

(* Options' retention cache after a batch returned (retention on) *)
Definition ret_done (b : nat) (ex : N) (tk : tasks) (r : list (nat * rst)) : list (nat * rst) :=
  fold_left (fun (r : list (nat * rst)) (kf0 : nat * nat) => (fst kf0, RDone b ex) :: unassoc (fst kf0) r) tk r.

Lemma assoc_ret_done b ex tk : forall r k,
  assoc k (ret_done b ex tk r) = if existsb (Nat.eqb k) (map fst tk) then Some (RDone b ex) else assoc k r.
Proof.
  unfold ret_done. induction tk as [|[k1 f1] tk IH]; intros r k; cbn [fold_left map fst existsb]; [reflexivity|].
  rewrite IH. destruct (existsb (Nat.eqb k) (map fst tk)); [now rewrite orb_true_r|]. rewrite orb_false_r.
  cbn [assoc]. destruct (Nat.eqb k k1) eqn:E; [reflexivity|].
  apply assoc_unassoc_other. intros ->. now rewrite Nat.eqb_refl in E.
Qed.

Lemma nodup_ret_done b ex tk : forall r, NoDup (map fst r) -> NoDup (map fst (ret_done b ex tk r)).
Proof.
  unfold ret_done. induction tk as [|[k1 f1] tk IH]; intros r H; cbn [fold_left fst]; [assumption|].
  apply IH. cbn [map fst]. constructor.
  - intros Hin. apply in_map_iff in Hin as [[k v] [E Hin]]. cbn [fst] in E. subst k.
    unfold unassoc in Hin. apply filter_In in Hin as [_ Hne]. cbn [fst] in Hne. now rewrite Nat.eqb_refl in Hne.
  - unfold unassoc. now apply NoDup_map_filter.
Qed.

Lemma existsb_eqb_In k l : existsb (Nat.eqb k) l = true <-> In k l.
Proof.
  rewrite existsb_exists. split.
  - intros [x [Hx E]]. apply Nat.eqb_eq in E. now subst.
  - intros H. exists k. split; [assumption|apply Nat.eqb_refl].
Qed.

Lemma existsb_eqb_notIn k l : existsb (Nat.eqb k) l = false <-> ~ In k l.
Proof.
  split.
  - intros H Hin. apply existsb_eqb_In in Hin. congruence.
  - intros H. destruct (existsb (Nat.eqb k) l) eqn:E; [|reflexivity]. apply existsb_eqb_In in E. contradiction.
Qed.

(* the flight facts after batch [its] returned at instant [tn] (retention on) *)
Lemma rfly2_finish c F1 its F2 ret fdone rt nfut fd b tn :
  Rfly2 c (F1 ++ its ++ F2) ret fdone rt nfut ->
  (forall f, B.lookup fd f = if existsb (Nat.eqb f) (map B.it_fid its) then Some (B.Ret b, tn) else B.lookup fdone f) ->
  (forall f o, In (f, o) fd -> In (f, o) fdone \/ In f (map B.it_fid its)) ->
  Rfly2 c (F1 ++ F2) ret fd (rt ++ map (fun it => ((tn + cR c)%N, B.it_key it)) its) nfut.
Proof.
  intros [H1 H2 H3 H4 H5 H6 H7 H8 H9 H10] Hl Hfd.
  assert (Hsub : forall it, In it (F1 ++ F2) -> In it (F1 ++ its ++ F2)).
  { intros it Hin. apply in_app_or in Hin as [Hin|Hin]; apply in_or_app; [now left|right; apply in_or_app; now right]. }
  assert (Hmid : forall it, In it its -> In it (F1 ++ its ++ F2)).
  { intros it Hin. apply in_or_app. right. apply in_or_app. now left. }
  pose proof H3 as H3'. pose proof H5 as H5'. rewrite !map_app in H3', H5'.
  (* a future of the batch belongs to exactly one key of the cache *)
  assert (Hone : forall k it, In it its -> In (k, B.it_fid it) ret -> k = B.it_key it).
  { intros k it Hit Hin.
    destruct (H2 (k, B.it_fid it) Hin (H4 it (Hmid it Hit))) as [it' [Hi1 Hi2]].
    assert (it' = it) by (apply (NoDup_map_inj' B.it_fid (F1 ++ its ++ F2)); auto; now injection Hi2).
    subst it'. now injection Hi2. }
  assert (Hold : forall f, ~ In f (map B.it_fid its) -> B.lookup fd f = B.lookup fdone f).
  { intros f Hn. rewrite Hl. apply existsb_eqb_notIn in Hn. now rewrite Hn. }
  assert (Hnew : forall it, In it its -> B.lookup fd (B.it_fid it) = Some (B.Ret b, tn)).
  { intros it Hit. rewrite Hl. assert (E : existsb (Nat.eqb (B.it_fid it)) (map B.it_fid its) = true).
    { apply existsb_eqb_In. now apply in_map. } now rewrite E. }
  constructor; try assumption.
  - intros it Hin. apply H1. now apply Hsub.
  - intros [k f] Hin Hp. cbn [snd] in Hp.
    assert (Hn : ~ In f (map B.it_fid its)).
    { intros Hx. apply in_map_iff in Hx as [it [<- Hit]]. rewrite (Hnew it Hit) in Hp. discriminate. }
    rewrite (Hold f Hn) in Hp. destruct (H2 (k, f) Hin Hp) as [it [Hi1 Hi2]]. exists it. split; [|assumption].
    apply in_app_or in Hi1 as [Hi1|Hi1]; [apply in_or_app; now left|].
    apply in_app_or in Hi1 as [Hi1|Hi1]; [|apply in_or_app; now right].
    exfalso. apply Hn. injection Hi2 as _ <-. now apply in_map.
  - rewrite map_app. now apply NoDup_drop_mid in H3'.
  - intros it Hin. rewrite Hold; [apply H4; now apply Hsub|].
    intros Hx. apply (NoDup_mid_disjoint _ _ _ _ H5' Hx). rewrite <- map_app. now apply in_map.
  - rewrite map_app. now apply NoDup_drop_mid in H5'.
  - intros it Hin. apply H6. now apply Hsub.
  - intros f o Hin. destruct (Hfd _ _ Hin) as [Hx|Hx]; [now apply (H7 f o)|].
    apply in_map_iff in Hx as [it [<- Hx]]. apply H6. now apply Hmid.
  - intros d k Hin. apply in_app_or in Hin as [Hin|Hin].
    + destruct (H9 d k Hin) as (f & b0 & t0 & Hi & Hlk & Hd). exists f, b0, t0. split; [assumption|]. split; [|assumption].
      rewrite Hold; [assumption|]. intros Hx. apply in_map_iff in Hx as [it [<- Hit]].
      rewrite (H4 it (Hmid it Hit)) in Hlk. discriminate.
    + apply in_map_iff in Hin as [it [[= <- <-] Hit]]. exists (B.it_fid it), b, tn.
      split; [apply (H1 it (Hmid it Hit))|]. split; [now apply Hnew|reflexivity].
  - intros k f o t0 Hin Hlk.
    destruct (existsb (Nat.eqb f) (map B.it_fid its)) eqn:E.
    + rewrite Hl, E in Hlk. injection Hlk as <- <-. apply existsb_eqb_In in E.
      apply in_map_iff in E as [it [<- Hit]]. rewrite (Hone k it Hit Hin). split; [|now exists b].
      apply in_or_app. right. apply in_map_iff. now exists it.
    + apply existsb_eqb_notIn in E. rewrite (Hold f E) in Hlk. destruct (H10 k f o t0 Hin Hlk) as [Ht Ho].
      split; [apply in_or_app; now left|assumption].
Qed.

Lemma ret_fid_key c fl ret fdone rt nfut it k :
  Rfly2 c fl ret fdone rt nfut -> In it fl -> In (k, B.it_fid it) ret -> k = B.it_key it.
Proof.
  intros H Hit Hin.
  destruct (g_back _ _ _ _ _ _ H (k, B.it_fid it) Hin (g_pend _ _ _ _ _ _ H it Hit)) as [it' [Hi1 Hi2]].
  assert (it' = it) by (apply (NoDup_map_inj' B.it_fid fl); auto; [apply (g_fids _ _ _ _ _ _ H) | now injection Hi2]).
  subst it'. now injection Hi2.
Qed.

(* the batch function of batch b returns (retention_timeout > 0) *)
Lemma sim_fin2 c s X b :
  (0 <? cR c)%N = true -> Rs2 c s X ->
  let r := B.run_from (to_cfg c) X (fin_events X b) in
  Rs2 c (bstep c s (BFin b)) (snd r) /\ starts (bstep c s (BFin b)) = starts s ++ obs_starts (concat (fst r)).
Proof.
  intros HcR HR. unfold fin_events. cbn [bstep].
  rewrite <- (q_run _ _ _ HR). change (fun bt : B.batch => (B.b_id bt, map kf (B.b_items bt))) with rb.
  rewrite assoc_rb. fold (B.find_batch X b).
  destruct (B.find_batch X b) as [bt|] eqn:Ef; cbn [option_map].
  2:{ cbn [B.run_from fst snd concat obs_starts flat_map]. rewrite app_nil_r. split; [|reflexivity]. exact HR. }
  unfold B.find_batch in Ef. destruct (find_some _ _ Ef) as [Hin Hid]. apply Nat.eqb_eq in Hid.
  destruct (in_split _ _ Hin) as (R1 & R2 & ER).
  pose proof (q_fly _ _ _ HR) as Hfly. pose proof Hfly as Hfly0.
  unfold flight in Hfly. rewrite ER, concat_split_items, <- !app_assoc in Hfly.
  pose proof (q_idnd _ _ _ HR) as Hidnd.
  assert (Hmid : forall it, In it (B.b_items bt) -> In it (flight X)).
  { intros it Hit. unfold flight. rewrite ER, concat_split_items, <- !app_assoc. apply in_or_app. right. apply in_or_app. now left. }
  assert (Hk : NoDup (map B.it_key (B.b_items bt))).
  { pose proof (g_keys _ _ _ _ _ _ Hfly) as H. rewrite !map_app in H. now apply NoDup_mid in H. }
  assert (Hf : NoDup (map B.it_fid (B.b_items bt))).
  { pose proof (g_fids _ _ _ _ _ _ Hfly) as H. rewrite !map_app in H. now apply NoDup_mid in H. }
  assert (Hpend : forall it, In it (B.b_items bt) -> B.lookup (B.fdone X) (B.it_fid it) = None).
  { intros it Hit. apply (g_pend _ _ _ _ _ _ Hfly0). now apply Hmid. }
  assert (Hsame : B.running X = map (with_futs b (map kf (B.b_items bt))) (B.running X)).
  { symmetry. apply map_with_futs_same. intros x Hx Ex. apply Nat.eqb_eq in Ex.
    assert (x = bt) by (apply (NoDup_map_inj' B.b_id (B.running X)); try assumption; congruence). subst x.
    now apply (q_futs _ _ _ HR). }
  assert (HcR' : (0 <? B.c_rt (to_cfg c))%N = true) by exact HcR.
  rewrite run_from_app. cbn [fst snd].
  destruct (yields_run2 (to_cfg c) b (B.running X) bt HcR' Ef (B.b_items bt) X Hsame Hk Hf Hpend (q_more _ _ _ HR))
    as (cs1 & gb1 & fd1 & E1 & L1 & F1 & M1 & O1).
  rewrite E1. rewrite run_from_one. cbn [fst snd]. rewrite concat_app, obs_starts_app, O1. cbn [app concat]. rewrite app_nil_r.
  match goal with |- context [B.step (to_cfg c) ?Y2 _] =>
    destruct (finish_step (to_cfg c) Y2 b (B.running X) bt Ef eq_refl M1) as (cs2 & gb2 & M2 & HZ) end.
  cbn [B.waiting B.now B.maxb B.coll B.free B.nbid B.nfut B.fdone B.ret B.rtimers B.g_items B.g_started B.g_spawn B.tie B.fuel_out] in HZ.
  (* the Options side *)
  rewrite HcR. cbn iota.
  change (fold_left (fun (r : list (nat * rst)) (kf0 : nat * nat) => (fst kf0, RDone b (now s + cR c)%N) :: unassoc (fst kf0) r)
            (map kf (B.b_items bt)) (ret s))
    with (ret_done b (now s + cR c)%N (map kf (B.b_items bt)) (ret s)).
  rewrite unassoc_rb.
  change (B.c_rt (to_cfg c)) with (cR c) in *.
  (* the retention cache after the batch, key by key *)
  assert (Hret' : forall k, assoc k (ret_done b (now s + cR c)%N (map kf (B.b_items bt)) (ret s)) =
                            match B.lookup (B.ret X) k with
                            | None => None
                            | Some f => match B.lookup fd1 f with
                                        | None => Some (RPend f)
                                        | Some (B.Ret b0, t) => Some (RDone b0 (t + cR c)%N)
                                        | Some (_, _) => None end end).
  { intros k. rewrite assoc_ret_done, map_fst_kf.
    destruct (existsb (Nat.eqb k) (map B.it_key (B.b_items bt))) eqn:E.
    - apply existsb_eqb_In in E. apply in_map_iff in E as [it [<- Hit]].
      rewrite (lookup_nodup _ _ _ (g_retnd _ _ _ _ _ _ Hfly0) (g_ret _ _ _ _ _ _ Hfly0 it (Hmid it Hit))).
      rewrite L1. assert (E : existsb (Nat.eqb (B.it_fid it)) (map B.it_fid (B.b_items bt)) = true).
      { apply existsb_eqb_In. now apply in_map. }
      rewrite E. now rewrite (q_now _ _ _ HR).
    - rewrite (q_ret _ _ _ HR k). unfold retv.
      destruct (B.lookup (B.ret X) k) as [f|] eqn:Ek; [|reflexivity].
      rewrite L1. destruct (existsb (Nat.eqb f) (map B.it_fid (B.b_items bt))) eqn:E2; [|reflexivity].
      exfalso. apply existsb_eqb_In in E2. apply in_map_iff in E2 as [it [<- Hit]].
      apply existsb_eqb_notIn in E. apply E.
      rewrite (ret_fid_key _ _ _ _ _ _ it k Hfly0 (Hmid it Hit) (lookup_In _ _ _ Ek)). now apply in_map. }
  assert (Hnd' : NoDup (map fst (ret_done b (now s + cR c)%N (map kf (B.b_items bt)) (ret s)))).
  { apply nodup_ret_done. apply (q_nd _ _ _ HR). }
  assert (Htl' : forall d k, In (d, k) (B.rtimers X ++ map (fun it => ((B.now X + cR c)%N, B.it_key it)) (B.b_items bt)) ->
                 (B.now X <= d)%N).
  { intros d k Hx. apply in_app_or in Hx as [Hx|Hx]; [now apply (q_tl _ _ _ HR d k)|].
    apply in_map_iff in Hx as [it [[= <- <-] _]]. lia. }
  pose proof (rfly2_finish c _ _ _ _ _ _ _ fd1 b (B.now X) Hfly L1 F1) as Hfin.
  rewrite ER in *. rewrite (filter_split_id b R1 R2 bt Hidnd Hid) in *.
  assert (Hlen : S (length (R1 ++ R2)) = length (R1 ++ bt :: R2)) by (rewrite !app_length; cbn [length]; lia).
  rewrite <- (q_wait _ _ _ HR).
  destruct (B.waiting X) as [|w ws] eqn:Ew; destruct HZ as [EZ OZ]; rewrite EZ, OZ; cbn [map].
  - (* nobody waits for the semaphore *)
    cbn [start_loop]. split; [|now rewrite app_nil_r].
    destruct HR. constructor; bproj; try assumption; try reflexivity.
    + rewrite ER in q_futs0. intros x Hx. apply q_futs0. apply in_app_or in Hx as [Hx|Hx]; apply in_or_app; [now left|right; now right].
    + rewrite ER in q_free0. rewrite app_length in *. cbn [length] in *. lia.
    + intros H. now elim H.
    + rewrite ER in q_ids0. intros x Hx. apply q_ids0. apply in_app_or in Hx as [Hx|Hx]; apply in_or_app; [now left|right; now right].
    + rewrite map_app in *. cbn [map] in Hidnd. now apply (NoDup_drop_mid _ [B.b_id bt] _).
    + unfold flight, coll_items. bproj. cbn [concat app]. rewrite map_app, concat_app, <- app_assoc.
      cbn [concat app] in Hfin. exact Hfin.
  - (* the first waiting batch gets the slot *)
    assert (Hfree0 : B.free X = 0) by (apply (q_wfree _ _ _ HR); rewrite Ew; discriminate).
    assert (HS : S (length (map rb (R1 ++ R2))) = cC c).
    { rewrite map_length, Hlen. pose proof (q_free _ _ _ HR) as H. rewrite ER in H. lia. }
    rewrite (start_loop_handover _ _ _ _ _ _ HS).
    assert (Hkw : NoDup (map B.it_key w)).
    { pose proof (g_keys _ _ _ _ _ _ Hfly) as H. cbn [concat] in H. rewrite !map_app in H.
      apply NoDup_app_r', NoDup_app_r', NoDup_app_r', NoDup_app_l', NoDup_app_l' in H. exact H. }
    split.
    + destruct HR. constructor; bproj; try assumption; try reflexivity.
      * change (fun bt0 : B.batch => (B.b_id bt0, map kf (B.b_items bt0))) with rb. rewrite map_app. cbn [map rb B.b_id B.b_items].
        now rewrite q_nbid0.
      * rewrite ER in q_futs0. intros x Hx. apply in_app_or in Hx as [Hx|[<-|[]]].
        -- apply q_futs0. apply in_app_or in Hx as [Hx|Hx]; apply in_or_app; [now left|right; now right].
        -- cbn [B.b_futs B.b_items]. now apply futs_of_nodup.
      * rewrite app_length. cbn [length]. rewrite map_length in HS. lia.
      * intros _. exact Hfree0.
      * rewrite ER in q_ids0. intros x Hx. apply in_app_or in Hx as [Hx|[<-|[]]]; [|cbn [B.b_id]; lia].
        assert (B.b_id x < B.nbid X); [|lia]. apply q_ids0. apply in_app_or in Hx as [Hx|Hx]; apply in_or_app; [now left|right; now right].
      * rewrite map_app. cbn [map B.b_id]. apply NoDup_snoc.
        -- rewrite map_app in *. cbn [map] in Hidnd. now apply (NoDup_drop_mid _ [B.b_id bt] _).
        -- intros Hx. apply in_map_iff in Hx as [x [E Hx]]. rewrite ER in q_ids0.
           assert (B.b_id x < B.nbid X); [|lia]. apply q_ids0. apply in_app_or in Hx as [Hx|Hx]; apply in_or_app; [now left|right; now right].
      * rewrite app_length. cbn [length]. lia.
      * unfold flight, coll_items. bproj. rewrite !map_app, !concat_app. cbn [map concat B.b_items app].
        cbn [concat app] in Hfin. rewrite ?app_nil_r. rewrite <- ?app_assoc in *. exact Hfin.
    + cbn [starts]. rewrite map_fst_kf. now rewrite (q_now _ _ _ HR).
Qed.

(* ---- scripts --------------------------------------------------------------------------- *)

Lemma sim_ev2 c : (0 <? cR c)%N = true -> forall s X x, Rs2 c s X ->
  let r := B.run_from (to_cfg c) X (tr_ev X x) in
  Rs2 c (bstep c s x) (snd r) /\ starts (bstep c s x) = starts s ++ obs_starts (concat (fst r)).
Proof.
  intros HcR s X x HR. destruct x as [k|b|dt].
  - cbn [tr_ev]. rewrite run_from_one. cbn [fst snd concat]. rewrite app_nil_r. now apply sim_call2.
  - cbn [tr_ev]. now apply sim_fin2.
  - cbn [tr_ev]. rewrite run_from_one. cbn [fst snd concat]. rewrite app_nil_r. now apply sim_adv2.
Qed.

Lemma sim_script2 c : (0 <? cR c)%N = true -> forall sc s X, Rs2 c s X ->
  starts (fold_left (bstep c) sc s) =
  starts s ++ obs_starts (concat (fst (B.run_from (to_cfg c) X (translate_from (to_cfg c) X sc)))).
Proof.
  intros HcR. induction sc as [|x sc IH]; intros s X HR; cbn [fold_left translate_from].
  - cbn [B.run_from fst concat obs_starts flat_map]. now rewrite app_nil_r.
  - destruct (sim_ev2 c HcR s X x HR) as [H1 H2].
    rewrite run_from_app. cbn [fst]. rewrite concat_app, obs_starts_app, app_assoc, <- H2.
    now apply IH.
Qed.

Lemma batcher_refines_retpos : forall (c : bcfg) (sc : list bev),
  (0 <? cR c)%N = true -> full_starts c sc = starts (brun c sc).
Proof.
  intros c sc H. unfold full_starts, translate, B.run, brun.
  now rewrite (sim_script2 c H sc binit (B.init (to_cfg c)) (rs2_init c)).
Qed.

(* THE refinement: every configuration, every script *)
Lemma batcher_refines : forall (c : bcfg) (sc : list bev), full_starts c sc = starts (brun c sc).
Proof.
  intros c sc. destruct (0 <? cR c)%N eqn:E.
  - now apply batcher_refines_retpos.
  - apply batcher_refines_ret0. apply N.ltb_ge in E. lia.
Qed.
