(* IterInv.v — invariants and theorems about the split/exhaust model (Iter.v). *)
From Coq Require Import List Arith Bool Lia.
Import ListNotations.
Require Import Aiuti.Iter.

Lemma firstn_S_nth {A} (l : list A) k x :
  nth_error l k = Some x -> firstn (S k) l = firstn k l ++ [x].
Proof.
  revert k; induction l as [|p l IH]; intros [|k] H; simpl in *; try discriminate.
  - injection H as ->; reflexivity.
  - f_equal. apply IH. exact H.
Qed.

Local Arguments Nat.max : simpl never.
Local Arguments seq : simpl never.

Section Proofs.
  Variable callable : bool.
  Variable xs : list nat.
  Variable cs : list bool.
  (* for a callable condition, cs_i is the result of evaluating it on x_i *)
  Hypothesis callable_len : callable = true -> length cs = length xs.

  Notation pull_ti := (pull_ti callable xs).
  Notation pull_tc := (pull_tc callable xs cs).
  Notation cnext := (cnext callable xs cs).
  Notation next := (next callable xs cs).
  Notation run := (run callable xs cs).

  (* outputs of side [w] among the first k source/condition pairs *)
  Definition selk (w : bool) (k : nat) : list nat :=
    map fst (filter (fun p => Bool.eqb (snd p) w) (firstn k (combine xs cs))).

  Definition get_out sd s := match sd with L => out1 s | R => out2 s end.
  Definition other sd := match sd with L => R | R => L end.

  Record Inv (s : st) : Prop := {
    I_plog : plog s = seq 0 (n s);
    I_n : n s <= length xs;
    I_elog : elog s = seq 0 (b s);
    I_a : a s = Nat.max (d1 s) (d2 s);
    I_an : if callable then n s = Nat.max (a s) (b s) else a s = n s;
    I_b : b s = Nat.max (c1 s) (c2 s);
    I_bc : b s <= length cs;
    I_s1 : c1 s <= d1 s /\ (d1 s = c1 s \/ length cs <= c1 s);
    I_s2 : c2 s <= d2 s /\ (d2 s = c2 s \/ length cs <= c2 s);
    I_o1 : out1 s = selk true (c1 s);
    I_o2 : out2 s = selk false (c2 s)
  }.

  Lemma init_inv : Inv init.
  Proof.
    constructor; simpl; auto; try lia.
    - destruct callable; reflexivity.
  Qed.

  Ltac inv_fields H :=
    destruct H as [Hplog Hn Helog Ha Han Hb Hbc [Hs1a Hs1b] [Hs2a Hs2b] Ho1 Ho2].

  Lemma nth_error_lt {A} (l : list A) k x : nth_error l k = Some x -> k < length l.
  Proof. intros H. apply nth_error_Some. congruence. Qed.
  Lemma nth_error_ge {A} (l : list A) k : nth_error l k = None -> length l <= k.
  Proof. apply nth_error_None. Qed.

  Lemma selk_S w k x v :
    nth_error xs k = Some x -> nth_error cs k = Some v ->
    selk w (S k) = selk w k ++ (if Bool.eqb v w then [x] else []).
  Proof.
    intros Hx Hv. unfold selk.
    assert (Hc : nth_error (combine xs cs) k = Some (x, v)).
    { clear callable_len. revert k Hx Hv. generalize cs. induction xs as [|y ys IH]; intros [|c cr] [|k]; simpl; try discriminate.
      - intros; congruence.
      - intros; apply IH; assumption. }
    pose proof (firstn_S_nth _ _ _ Hc) as Hf.
    rewrite Hf, filter_app, map_app. simpl. destruct (Bool.eqb v w); reflexivity.
  Qed.

  Lemma selk_full w k : Nat.min (length xs) (length cs) <= k -> selk w k = sel xs cs w.
  Proof.
    intros H. unfold selk, sel. rewrite firstn_all2; [reflexivity|]. rewrite combine_length. exact H.
  Qed.

  (* ------------------------------------------------------------------ *)
  (* one compress iteration: data pull then selector pull                *)

  (* Result of pull_ti on side sd: either a value (cursor advanced, the value
     is the element at the old cursor) or a stop with the cursor at the end. *)
  Lemma pull_ti_spec sd s :
    Inv s ->
    let d := get_d sd s in
    match pull_ti sd s with
    | (Some x, s1) =>
        nth_error xs d = Some x /\ get_d sd s1 = S d /\ get_d (other sd) s1 = get_d (other sd) s /\
        plog s1 = seq 0 (n s1) /\ n s1 <= length xs /\ n s <= n s1 /\ n s1 <= Nat.max (n s) (S d) /\
        a s1 = Nat.max (a s) (S d) /\
        (if callable then n s1 = Nat.max (a s1) (b s1) else a s1 = n s1) /\
        b s1 = b s /\ elog s1 = elog s /\ c1 s1 = c1 s /\ c2 s1 = c2 s /\
        out1 s1 = out1 s /\ out2 s1 = out2 s /\ cstops s1 = cstops s
    | (None, s1) =>
        length xs <= d /\ n s1 = n s /\ plog s1 = plog s /\ a s1 = a s /\ b s1 = b s /\ elog s1 = elog s /\
        d1 s1 = d1 s /\ d2 s1 = d2 s /\ c1 s1 = c1 s /\ c2 s1 = c2 s /\
        out1 s1 = out1 s /\ out2 s1 = out2 s /\ cstops s1 = cstops s
    end.
  Proof.
    intros H. inv_fields H.
    unfold Iter.pull_ti, Iter.pull_up_data, Iter.pull_src.
    destruct sd; simpl get_d; simpl other.
    all: destruct s as [n0 pl ps a0 b0 el cst x1 x2 y1 y2 o1 o2]; simpl in *.
    all: destruct callable; simpl.
    all: repeat match goal with
           | |- context [?u <? ?v] => destruct (Nat.ltb_spec u v)
           | |- context [nth_error xs ?k] => let E := fresh "E" in destruct (nth_error xs k) eqn:E
           end; simpl.
    all: repeat match goal with
           | E : nth_error _ _ = Some _ |- _ => pose proof (nth_error_lt _ _ _ E); revert E
           | E : nth_error _ _ = None |- _ => pose proof (nth_error_ge _ _ E); revert E
           end; intros.
    all: try lia.
    all: repeat split; try assumption; try reflexivity; try lia.
    all: try (rewrite seq_S; simpl; congruence).
    all: try (replace x1 with n0 in * by lia; assumption).
    all: try (replace x2 with n0 in * by lia; assumption).
    all: try (match goal with
              | E1 : nth_error xs ?u = Some ?p, E2 : nth_error xs ?v = Some ?q |- Some _ = Some _ =>
                  assert (u = v) by lia; congruence
              end).
    all: try (subst; rewrite seq_S; reflexivity).
  Qed.


  Lemma pull_tc_spec sd s :
    elog s = seq 0 (b s) -> b s = Nat.max (c1 s) (c2 s) -> b s <= length cs ->
    (callable = true -> get_c sd s < n s /\ n s <= length xs) ->
    let c := get_c sd s in
    match pull_tc sd s with
    | (Some v, s2) =>
        nth_error cs c = Some v /\ get_c sd s2 = S c /\ get_c (other sd) s2 = get_c (other sd) s /\
        b s2 = Nat.max (b s) (S c) /\ elog s2 = seq 0 (b s2) /\ b s2 <= length cs /\
        n s2 = n s /\ plog s2 = plog s /\ a s2 = a s /\ d1 s2 = d1 s /\ d2 s2 = d2 s /\
        out1 s2 = out1 s /\ out2 s2 = out2 s /\ pstops s2 = pstops s
    | (None, s2) =>
        length cs <= c /\
        n s2 = n s /\ plog s2 = plog s /\ a s2 = a s /\ b s2 = b s /\ elog s2 = elog s /\
        d1 s2 = d1 s /\ d2 s2 = d2 s /\ c1 s2 = c1 s /\ c2 s2 = c2 s /\
        out1 s2 = out1 s /\ out2 s2 = out2 s /\ pstops s2 = pstops s
    end.
  Proof.
    intros Helog Hb Hbc Hcal.
    unfold Iter.pull_tc, Iter.pull_up_cond, Iter.pull_src.
    destruct sd; simpl get_c in *; simpl other.
    all: destruct s as [n0 pl ps a0 b0 el cst x1 x2 y1 y2 o1 o2]; simpl in *.
    all: destruct callable; simpl;
      [ destruct (Hcal eq_refl) as [Hc1 Hc2]; pose proof (callable_len eq_refl) as Hlen | clear Hcal ].
    all: repeat match goal with
           | |- context [?u <? ?v] => destruct (Nat.ltb_spec u v)
           | |- context [nth_error cs ?k] => let E := fresh "E" in destruct (nth_error cs k) eqn:E
           | |- context [nth_error xs ?k] => let E := fresh "E" in destruct (nth_error xs k) eqn:E
           end; simpl.
    all: repeat match goal with
           | E : nth_error _ _ = Some _ |- _ => pose proof (nth_error_lt _ _ _ E); revert E
           | E : nth_error _ _ = None |- _ => pose proof (nth_error_ge _ _ E); revert E
           end; intros.
    all: try lia.
    all: repeat split; try assumption; try reflexivity; try lia.
    all: try (match goal with
              | E1 : nth_error cs ?u = Some ?p |- nth_error cs ?v = Some ?p =>
                  replace v with u by lia; exact E1
              end).
    all: try (subst; rewrite Nat.max_r by lia; rewrite seq_S; f_equal; f_equal; lia).
    all: try (subst; rewrite seq_S; simpl; f_equal; f_equal; lia).
    all: try (match goal with
              | E1 : nth_error cs ?u = Some ?p, E2 : nth_error cs ?v = Some ?q |- Some _ = Some _ =>
                  assert (u = v) by lia; congruence
              end).
  Qed.


  (* what side [w] still has to yield from position c on, with source indices *)
  Definition expk (w : bool) (c : nat) : list (nat * nat) :=
    expected_from w (skipn c xs) (skipn c cs) c.

  Lemma skipn_nth {A} (l : list A) k x : nth_error l k = Some x -> skipn k l = x :: skipn (S k) l.
  Proof.
    revert k; induction l as [|y l IH]; intros [|k] H; simpl in *; try discriminate.
    - injection H as ->; reflexivity.
    - apply IH, H.
  Qed.

  Lemma expk_step w c x v :
    nth_error xs c = Some x -> nth_error cs c = Some v ->
    expk w c = if Bool.eqb v w then (c, x) :: expk w (S c) else expk w (S c).
  Proof.
    intros Hx Hv. unfold expk. rewrite (skipn_nth _ _ _ Hx), (skipn_nth _ _ _ Hv). reflexivity.
  Qed.

  Lemma expk_nil_data w c : length xs <= c -> expk w c = [].
  Proof. intros H. unfold expk. rewrite (skipn_all2 xs H). reflexivity. Qed.

  Lemma expk_nil_cond w c : length cs <= c -> expk w c = [].
  Proof. intros H. unfold expk. rewrite (skipn_all2 cs H). destruct (skipn c xs); reflexivity. Qed.

  Definition rest_ok (rest : list nat) sd s := length rest = length xs - get_d sd s.

  Lemma cnext_spec rest : forall sd s,
    Inv s -> rest_ok rest sd s ->
    match cnext rest sd s with
    | (Some x, s') =>
        Inv s' /\ get_out sd s' = get_out sd s ++ [x] /\
        get_out (other sd) s' = get_out (other sd) s /\
        n s <= n s' /\ n s' <= Nat.max (n s) (get_d sd s') /\ b s <= b s' /\
        get_d sd s < get_d sd s' /\
        expk (want sd) (get_c sd s) = (get_d sd s' - 1, x) :: expk (want sd) (get_c sd s') /\
        get_c (other sd) s' = get_c (other sd) s
    | (None, s') =>
        Inv s' /\ out1 s' = out1 s /\ out2 s' = out2 s /\
        Nat.min (length xs) (length cs) <= get_c sd s' /\ n s <= n s' /\ b s <= b s' /\
        expk (want sd) (get_c sd s) = [] /\ get_c (other sd) s' = get_c (other sd) s
    end.
  Proof.
    induction rest as [|r0 rest IH]; intros sd s HI Hr; unfold rest_ok in Hr; cbn [Iter.cnext].
    - (* no data left *)
      pose proof (pull_ti_spec sd s HI) as Hti. cbv zeta in Hti.
      destruct (pull_ti sd s) as [[x|] s1]; simpl snd.
      + destruct Hti as (Hx & _). apply nth_error_lt in Hx. simpl in Hr. lia.
      + destruct Hti as (Hd & En & Epl & Ea & Eb & Eel & Ed1 & Ed2 & Ec1 & Ec2 & Eo1 & Eo2 & Ecs).
        inv_fields HI.
        split; [|repeat split; try lia; try congruence].
        * constructor; rewrite ?En, ?Epl, ?Ea, ?Eb, ?Eel, ?Ed1, ?Ed2, ?Ec1, ?Ec2, ?Eo1, ?Eo2; auto.
        * destruct sd; simpl in *; lia.
        * destruct sd; simpl in *; [destruct Hs1b|destruct Hs2b];
            solve [apply expk_nil_data; lia | apply expk_nil_cond; lia].
        * destruct sd; simpl; congruence.
    - pose proof (pull_ti_spec sd s HI) as Hti. cbv zeta in Hti.
      destruct (pull_ti sd s) as [[x|] s1].
      + destruct Hti as (Hx & Hd & Hdo & Hpl & Hn1 & Hnn & Hnmax & Ha1 & Han1 & Eb & Eel & Ec1 & Ec2 & Eo1 & Eo2 & Ecs).
        pose proof (nth_error_lt _ _ _ Hx) as Hdlt.
        assert (Hsync : get_c sd s = get_d sd s \/ (callable = false /\ length cs <= get_c sd s)).
        { inv_fields HI. destruct sd; simpl in *.
          - destruct Hs1b as [->|Hge]; [left; reflexivity|].
            destruct callable eqn:Ecal; [rewrite (callable_len eq_refl) in Hge; lia | right; split; [reflexivity|exact Hge]].
          - destruct Hs2b as [->|Hge]; [left; reflexivity|].
            destruct callable eqn:Ecal; [rewrite (callable_len eq_refl) in Hge; lia | right; split; [reflexivity|exact Hge]]. }
        assert (Hpre1 : elog s1 = seq 0 (b s1)) by (inv_fields HI; congruence).
        assert (Hpre2 : b s1 = Nat.max (c1 s1) (c2 s1)) by (inv_fields HI; congruence).
        assert (Hpre3 : b s1 <= length cs) by (inv_fields HI; congruence).
        assert (Hpre4 : callable = true -> get_c sd s1 < n s1 /\ n s1 <= length xs).
        { intros Ecal. split; [|exact Hn1]. rewrite Ecal in Han1.
          destruct Hsync as [Hs|[Hs _]]; [|congruence].
          assert (get_c sd s1 = get_c sd s) by (destruct sd; simpl; congruence).
          destruct sd; simpl in *; lia. }
        pose proof (pull_tc_spec sd s1 Hpre1 Hpre2 Hpre3 Hpre4) as Htc. cbv zeta in Htc.
        assert (Hcsame : get_c sd s1 = get_c sd s) by (destruct sd; simpl; congruence).
        destruct (pull_tc sd s1) as [[v|] s2].
        * destruct Htc as (Hv & Hc' & Hco & Hb2 & Hel2 & Hbc2 & En2 & Epl2 & Ea2 & Ed12 & Ed22 & Eo12 & Eo22 & Eps2).
          rewrite Hcsame in Hv, Hc'.
          assert (Hcd : get_c sd s = get_d sd s).
          { destruct Hsync as [Hs|[_ Hs]]; [exact Hs|]. apply nth_error_lt in Hv. lia. }
          rewrite Hcd in Hv, Hc'.
          (* the invariant holds again after the pair was consumed *)
          assert (HI2 : forall s3, n s3 = n s2 -> plog s3 = plog s2 -> a s3 = a s2 -> b s3 = b s2 ->
                         elog s3 = elog s2 -> d1 s3 = d1 s2 -> d2 s3 = d2 s2 -> c1 s3 = c1 s2 -> c2 s3 = c2 s2 ->
                         get_out sd s3 = get_out sd s ++ (if Bool.eqb v (want sd) then [x] else []) ->
                         get_out (other sd) s3 = get_out (other sd) s ->
                         Inv s3).
          { intros s3 F1 F2 F3 F4 F5 F6 F7 F8 F9 F10 F11. inv_fields HI.
            pose proof (selk_S (want sd) _ _ _ Hx Hv) as Hsel.
            destruct sd; simpl in *.
            all: constructor; rewrite ?F1, ?F2, ?F3, ?F4, ?F5, ?F6, ?F7, ?F8, ?F9; try congruence; try lia.
            all: try (destruct callable; lia).
            all: try (rewrite F10, Hc', Hsel, ?Ho1, ?Ho2, Hcd; reflexivity).
            all: try (rewrite F11, ?Ho1, ?Ho2; f_equal; lia). }
          destruct (Bool.eqb v (want sd)) eqn:Ev.
          -- (* yielded *)
             split; [|repeat split].
             ++ apply HI2; try (destruct sd; reflexivity).
                ** destruct sd; simpl; congruence.
                ** destruct sd; simpl; congruence.
             ++ destruct sd; simpl; congruence.
             ++ destruct sd; simpl; congruence.
             ++ destruct sd; simpl; lia.
             ++ destruct sd; simpl in *; lia.
             ++ destruct sd; simpl; lia.
             ++ destruct sd; simpl in *; lia.
             ++ rewrite Hcd. rewrite (expk_step (want sd) _ _ _ Hx Hv), Ev.
                assert (Ed' : get_d sd (add_out sd s2 x) = S (get_d sd s)) by (destruct sd; simpl in *; congruence).
                assert (Ec' : get_c sd (add_out sd s2 x) = S (get_d sd s)) by (destruct sd; simpl in *; congruence).
                rewrite Ed', Ec'. simpl. rewrite Nat.sub_0_r. reflexivity.
             ++ destruct sd; simpl in *; congruence.
          -- (* skipped: loop *)
             assert (HInv2 : Inv s2).
             { apply HI2; try reflexivity.
               - rewrite app_nil_r. destruct sd; simpl; congruence.
               - destruct sd; simpl; congruence. }
             assert (Hr2 : rest_ok rest sd s2).
             { unfold rest_ok. simpl in Hr. destruct sd; simpl in *; lia. }
             specialize (IH sd s2 HInv2 Hr2).
             destruct (cnext rest sd s2) as [[y|] s'].
             ++ destruct IH as (J1 & J2 & J3 & J4 & J5 & J6 & J7 & J8 & J9).
                assert (Hd2 : get_d sd s2 = S (get_d sd s)) by (destruct sd; simpl in *; congruence).
                assert (Hc2 : get_c sd s2 = S (get_d sd s)) by (destruct sd; simpl in *; congruence).
                assert (Hoc2 : get_c (other sd) s2 = get_c (other sd) s) by (destruct sd; simpl in *; congruence).
                split; [exact J1|]. repeat split.
                ** rewrite J2. destruct sd; simpl; congruence.
                ** rewrite J3. destruct sd; simpl; congruence.
                ** lia.
                ** destruct sd; simpl in *; lia.
                ** lia.
                ** lia.
                ** rewrite Hcd, (expk_step (want sd) _ _ _ Hx Hv), Ev, <- Hc2. exact J8.
                ** congruence.
             ++ destruct IH as (J1 & J2 & J3 & J4 & J5 & J6 & J7 & J8).
                assert (Hc2 : get_c sd s2 = S (get_d sd s)) by (destruct sd; simpl in *; congruence).
                assert (Hoc2 : get_c (other sd) s2 = get_c (other sd) s) by (destruct sd; simpl in *; congruence).
                split; [exact J1|]. repeat split; try congruence; try lia.
                rewrite Hcd, (expk_step (want sd) _ _ _ Hx Hv), Ev, <- Hc2. exact J7.
        * (* selector stream exhausted *)
          destruct Htc as (Hge & En2 & Epl2 & Ea2 & Eb2 & Eel2 & Ed12 & Ed22 & Ec12 & Ec22 & Eo12 & Eo22 & Eps2).
          rewrite Hcsame in Hge.
          split; [|repeat split; try congruence; try lia].
          -- inv_fields HI. destruct sd; simpl in *.
             all: constructor; rewrite ?En2, ?Epl2, ?Ea2, ?Eb2, ?Eel2, ?Ed12, ?Ed22, ?Ec12, ?Ec22, ?Eo12, ?Eo22; try congruence; try lia.
             all: try (destruct callable; lia).
          -- destruct sd; simpl in *; lia.
          -- apply expk_nil_cond. exact Hge.
          -- destruct sd; simpl in *; congruence.
      + (* data exhausted *)
        destruct Hti as (Hd & En & Epl & Ea & Eb & Eel & Ed1 & Ed2 & Ec1 & Ec2 & Eo1 & Eo2 & Ecs).
        inv_fields HI.
        split; [|repeat split; try lia; try congruence].
        * constructor; rewrite ?En, ?Epl, ?Ea, ?Eb, ?Eel, ?Ed1, ?Ed2, ?Ec1, ?Ec2, ?Eo1, ?Eo2; auto.
        * destruct sd; simpl in *; lia.
        * destruct sd; simpl in *; [destruct Hs1b|destruct Hs2b];
            solve [apply expk_nil_data; lia | apply expk_nil_cond; lia].
        * destruct sd; simpl; congruence.
  Qed.


  Lemma next_spec sd s :
    Inv s ->
    match next sd s with
    | (Some x, s') =>
        Inv s' /\ get_out sd s' = get_out sd s ++ [x] /\
        get_out (other sd) s' = get_out (other sd) s /\
        n s <= n s' /\ n s' <= Nat.max (n s) (get_d sd s') /\ b s <= b s' /\
        get_d sd s < get_d sd s' /\
        expk (want sd) (get_c sd s) = (get_d sd s' - 1, x) :: expk (want sd) (get_c sd s') /\
        get_c (other sd) s' = get_c (other sd) s
    | (None, s') =>
        Inv s' /\ out1 s' = out1 s /\ out2 s' = out2 s /\
        Nat.min (length xs) (length cs) <= get_c sd s' /\ n s <= n s' /\ b s <= b s' /\
        expk (want sd) (get_c sd s) = [] /\ get_c (other sd) s' = get_c (other sd) s
    end.
  Proof.
    intros HI. unfold Iter.next. apply cnext_spec; [exact HI|].
    unfold rest_ok. apply skipn_length.
  Qed.

  (* what side [sd] yielded / whether it reported exhaustion, read off a run *)
  Definition side_eqb (x y : side) : bool :=
    match x, y with L, L | R, R => true | _, _ => false end.

  Fixpoint yields (sd : side) (ops : list side) (os : list obs) : list nat :=
    match ops, os with
    | sd' :: ops', (r, _) :: os' =>
        (if side_eqb sd sd' then match r with Some x => [x] | None => [] end else [])
        ++ yields sd ops' os'
    | _, _ => []
    end.

  Fixpoint stopped (sd : side) (ops : list side) (os : list obs) : bool :=
    match ops, os with
    | sd' :: ops', (r, _) :: os' =>
        (side_eqb sd sd' && match r with Some _ => false | None => true end) || stopped sd ops' os'
    | _, _ => false
    end.

  Lemma selk_prefix w k : exists tl, sel xs cs w = selk w k ++ tl.
  Proof.
    unfold sel, selk.
    exists (map fst (filter (fun p => Bool.eqb (snd p) w) (skipn k (combine xs cs)))).
    rewrite <- map_app, <- filter_app, firstn_skipn. reflexivity.
  Qed.

  Lemma out_is_selk sd s : Inv s -> get_out sd s = selk (want sd) (get_c sd s).
  Proof. intros H; inv_fields H. destruct sd; simpl; assumption. Qed.

  Lemma run_spec ops : forall s,
    Inv s ->
    match run ops s with
    | (os, s') =>
        Inv s' /\ length os = length ops /\
        forall sd, get_out sd s' = get_out sd s ++ yields sd ops os /\
                   (stopped sd ops os = true -> get_out sd s' = sel xs cs (want sd))
    end.
  Proof.
    induction ops as [|sd0 ops IH]; intros s HI; cbn [Iter.run].
    - split; [exact HI|]. split; [reflexivity|]. intros sd. simpl. rewrite app_nil_r. split; [reflexivity|discriminate].
    - pose proof (next_spec sd0 s HI) as Hn.
      destruct (next sd0 s) as [r s1].
      assert (HI1 : Inv s1) by (destruct r; apply Hn).
      specialize (IH s1 HI1).
      destruct (run ops s1) as [os s2].
      destruct IH as (HI2 & Hlen & IH).
      split; [exact HI2|]. split; [simpl; congruence|].
      intros sd. destruct (IH sd) as [Hy Hs].
      unfold observe. cbn [yields stopped].
      destruct r as [x|].
      + destruct Hn as (_ & Ho & Hoo & _).
        destruct sd, sd0; simpl in *; split; try exact Hs.
        all: rewrite Hy, ?Ho, ?Hoo, <- ?app_assoc; reflexivity.
      + destruct Hn as (_ & Ho1 & Ho2 & Hfull & _).
        assert (Hsame : get_out sd s1 = get_out sd s) by (destruct sd; simpl; congruence).
        split; [rewrite Hy, Hsame; destruct (side_eqb sd sd0); reflexivity|].
        destruct (side_eqb sd sd0) eqn:Esd; simpl; [intros _|exact Hs].
        assert (sd = sd0) by (destruct sd, sd0; simpl in Esd; congruence). subst sd0.
        (* at the stop, everything of this side had been yielded; nothing can follow *)
        pose proof (out_is_selk sd s1 HI1) as Hk1. rewrite (selk_full _ _ Hfull) in Hk1.
        pose proof (out_is_selk sd s2 HI2) as Hk2.
        destruct (selk_prefix (want sd) (get_c sd s2)) as [tl Htl].
        rewrite <- Hk2, Hy, Hk1 in Htl.
        assert (Hnil : yields sd ops os = []).
        { apply (f_equal (@length nat)) in Htl. rewrite !app_length in Htl.
          destruct (yields sd ops os); [reflexivity|simpl in Htl; lia]. }
        rewrite Hy, Hnil, app_nil_r. exact Hk1.
  Qed.

  (* ---------------- the statements used by props/C18.v ---------------- *)

  Lemma split_partition_lemma ops :
    match run ops init with
    | (os, s') =>
        forall sd,
          (exists k, yields sd ops os = selk (want sd) k) /\
          (exists tl, sel xs cs (want sd) = yields sd ops os ++ tl) /\
          (stopped sd ops os = true -> yields sd ops os = sel xs cs (want sd))
    end.
  Proof.
    pose proof (run_spec ops init init_inv) as H.
    destruct (run ops init) as [os s'].
    destruct H as (HI & _ & H). intros sd. destruct (H sd) as [Hy Hs].
    assert (Ho : get_out sd init = []) by (destruct sd; reflexivity).
    rewrite Ho in Hy. simpl in Hy.
    pose proof (out_is_selk sd s' HI) as Hk.
    split; [exists (get_c sd s'); congruence|].
    split; [rewrite <- Hy, Hk; apply selk_prefix|].
    intros St. rewrite <- Hy. apply Hs, St.
  Qed.

  Lemma logs_lemma ops :
    let s' := snd (run ops init) in
    plog s' = seq 0 (n s') /\ n s' <= length xs /\
    elog s' = seq 0 (b s') /\ b s' <= n s' \/ callable = false /\
    plog s' = seq 0 (n s') /\ n s' <= length xs /\ elog s' = seq 0 (b s') /\ b s' <= length cs.
  Proof.
    pose proof (run_spec ops init init_inv) as H.
    destruct (run ops init) as [os s']. simpl. destruct H as (HI & _).
    inv_fields HI. destruct callable; [left|right]; repeat split; auto; lia.
  Qed.

  Lemma lazy_lemma ops :
    let s' := snd (run ops init) in n s' = Nat.max (d1 s') (d2 s').
  Proof.
    pose proof (run_spec ops init init_inv) as H.
    destruct (run ops init) as [os s']. simpl. destruct H as (HI & _).
    inv_fields HI. destruct callable; lia.
  Qed.

End Proofs.

(* the two output lists partition the first min(|xs|,|cs|) elements *)
From Coq Require Import Permutation.

Lemma sel_partition xs cs :
  Permutation (sel xs cs true ++ sel xs cs false) (firstn (Nat.min (length xs) (length cs)) xs).
Proof.
  unfold sel. revert cs. induction xs as [|x xr IH]; intros [|c cr]; simpl; auto.
  destruct c; simpl.
  - apply perm_skip, IH.
  - eapply Permutation_trans; [apply Permutation_sym, Permutation_middle|]. apply perm_skip, IH.
Qed.

(* nothing is duplicated or dropped: the two output lengths add up to the number
   of source elements that have a condition *)
Lemma sel_lengths xs cs :
  length (sel xs cs true) + length (sel xs cs false) = Nat.min (length xs) (length cs).
Proof.
  rewrite <- app_length, (Permutation_length (sel_partition xs cs)), firstn_length.
  apply PeanoNat.Nat.min_l, PeanoNat.Nat.le_min_l.
Qed.

(* an element is yielded on some side iff it is among the conditioned source prefix *)
Lemma sel_membership xs cs x :
  In x (firstn (Nat.min (length xs) (length cs)) xs) <->
  In x (sel xs cs true) \/ In x (sel xs cs false).
Proof.
  rewrite <- in_app_iff. split; intro H.
  - eapply Permutation_in; [apply Permutation_sym, sel_partition|exact H].
  - eapply Permutation_in; [apply sel_partition|exact H].
Qed.

(* each output list is in source order: it is the source filtered by its condition *)
Lemma sel_in_order xs cs w :
  sel xs cs w = map fst (filter (fun p => Bool.eqb (snd p) w) (combine xs cs)).
Proof. reflexivity. Qed.

Lemma drain_spec rest : forall pos log,
  drain rest pos log = (log ++ seq pos (length rest), 1).
Proof.
  induction rest as [|x r IH]; intros pos log; simpl.
  - now rewrite app_nil_r.
  - rewrite IH, <- app_assoc. reflexivity.
Qed.

Lemma exhaust_lemma xs : exhaust xs = (seq 0 (length xs), 1).
Proof. unfold exhaust. now rewrite drain_spec. Qed.
