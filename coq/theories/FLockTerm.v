(* FLockTerm.v — termination of an acquire call run by its thread alone when no OSError
   is scripted: a measure on (pending primitive, clock) that every iteration of
   run_alone decreases; hence a fuel bound that excludes ROutOfFuel.               *)
From Coq Require Import List Arith NArith Bool Lia ZifyBool ZifyN.
Import ListNotations.
Require Import Aiuti.FLock Aiuti.FLockInv Aiuti.FLockTL Aiuti.FLockFD Aiuti.FLockMutex Aiuti.FLockExec Aiuti.FLockAcq.
Local Arguments Nat.max : simpl never.
Arguments upd : simpl never.
Arguments enter_tlrel : simpl never.
Arguments enter_cleanup : simpl never.
Arguments after_attempt : simpl never.
Arguments k_unlock : simpl never.
Arguments k_close : simpl never.
Arguments tl_release : simpl never.
Arguments tl_try : simpl never.
Arguments tl_rel_raises : simpl never.
Arguments normalise : simpl never.
Arguments faulty : simpl never.
Arguments intr : simpl never.
Arguments enabled : simpl never.
Arguments step : simpl never.
Arguments run_alone : simpl never.
Local Open Scope N_scope.

Lemma tmo_cases (x : tmo) : x = TNone \/ x = TNeg \/ exists T, x = TVal T.
Proof. destruct x; eauto. Qed.

Section Term.
Variables (s0 : state) (t : tid) (o : oid) (m : amode) (b' : bool) (tm' : tmo) (poll : N) (skip : nat).
Hypothesis Halive : dead s0 (t_proc (thr s0 t)) = false.
Hypothesis Hh0 : forall h, holder s0 = Some h -> (h < nextfd s0)%nat.
Hypothesis Hnf : faults s0 = [].
Hypothesis Hpoll : forall T, tm' = TVal T -> 1 <= poll.

Notation Phase := (Phase s0 t o m b' tm' poll skip).
Notation Step_out := (Step_out s0 t o m b' tm' poll skip).

(* sleeps still possible before the OS-stage timeout expires *)
Definition rem (start nw : N) : nat :=
  match tm' with TVal T => N.to_nat ((start + T + poll - nw) / poll) | _ => 0%nat end.

Definition ub : bool := b' && match tm' with TVal _ => false | _ => true end.

Definition mu' (pc : pc) (nw : N) : nat :=
  match pc with
  | PTLAcq a dl => (5 * rem 0 0 + 14 + match dl with Some D => if (D <=? nw)%N then 0 else 1 | None => 0 end)%nat
  | POpen a => (5 * rem (a_start a) nw + 5)%nat
  | PFlock a d => (5 * rem (a_start a) nw + 4)%nat
  | PCloseF a d _ => if ub then 8%nat else (5 * rem (a_start a) nw + 3)%nat
  | PSleep a w => if w <=? nw then (5 * rem (a_start a) nw + 6)%nat else (5 * rem (a_start a) w + 7)%nat
  | PCleanRel _ _ => 1%nat
  | _ => 0%nat
  end.

Definition mu (s : state) : nat := mu' (t_pc (thr s t)) (now s).

Lemma no_fault s pend h k : Frame s0 t o s pend h -> faulty s k = false.
Proof. intros F. unfold faulty. rewrite (f_faults _ _ _ _ _ _ F), Hnf. reflexivity. Qed.

Lemma rem_same nw : rem nw nw = rem 0 0.
Proof. unfold rem. destruct tm'; auto. f_equal. f_equal. lia. Qed.

Lemma rem_sleep start nw T : tm' = TVal T -> start <= nw -> nw <= start + T ->
  rem start nw = S (rem start (nw + poll)).
Proof.
  intros E A B. unfold rem. rewrite E. specialize (Hpoll T E).
  replace (start + T + poll - nw) with ((start + T - nw) + 1 * poll) by lia.
  rewrite N.div_add by lia. replace (start + T + poll - (nw + poll)) with (start + T - nw) by lia. lia.
Qed.

Ltac ev := cbn; rewrite ?upd_same; cbn.

Lemma pc_cleanup s a b : o_own (objs s (a_o a)) = Some t ->
  t_pc (thr (enter_cleanup s t a b) t) = PCleanRel a b /\ now (enter_cleanup s t a b) = now s.
Proof. intros H. rewrite enter_cleanup_eq by auto. ev. auto. Qed.

Lemma mu_attempt s a :
  o_own (objs s (a_o a)) = Some t -> a_ok o m b' tm' poll skip a -> time2 s0 b' tm' poll s (a_start a) ->
  (mu (after_attempt s t a) < if ub then 8 else 5 * rem (a_start a) (now s) + 3)%nat.
Proof.
  intros Hown (Ao & Am & Ab & At & Ap & As) (T1 & T2 & T3 & T4 & Tstart). unfold after_attempt, mu. rewrite Ab, At, Ap.
  destruct (pc_cleanup s a false Hown) as [C1 C2].
  unfold ub. destruct (Bool.bool_dec b' true) as [Eb|Eb]; [|apply not_true_is_false in Eb]; rewrite Eb; cbn [negb andb].
  2:{ rewrite C1, C2. cbn. lia. }
  destruct (tmo_cases tm') as [Et|[Et|[T Et]]]; rewrite Et.
  - ev. unfold rem. rewrite Et. destruct (now s + poll <=? now s); cbn; lia.
  - ev. unfold rem. rewrite Et. destruct (now s + poll <=? now s); cbn; lia.
  - destruct (T <? now s - a_start a) eqn:El.
    + rewrite C1, C2. cbn. lia.
    + ev. pose proof (Hpoll T Et) as Hp. assert (now s + poll <=? now s = false) as -> by lia.
      destruct (T4 T Et) as [T5 T6].
      rewrite (rem_sleep (a_start a) (now s) T) by (auto; lia). lia.
Qed.

Lemma thr_pc s pc res cs : thr s t = mkthr (t_proc (thr s0 t)) [] pc res cs -> t_pc (thr s t) = pc.
Proof. now intros ->. Qed.

Lemma mu_dec s : Phase s ->
  (enabled s t = true -> (mu (step s t) < mu s)%nat) /\
  (enabled s t = false -> forall w, deadline s t = Some w -> (mu (set_now s (N.max (now s) w)) < mu s)%nat).
Proof.
  intros [a dl Ht Ha F Ho Htm|a Ht Ha F Ho Hfd Htm Htry|a w Ht Ha F Ho Hfd Htm Hb Hw Htry|a d Ht Ha F Ho Hfd Htm Htry
         |a d i Ht Ha F Ho Hfd Htm R Hi Htry|a b Ht Ha F Ho Hfd Htm R1 R2 Htry];
    pose proof (thr_pc _ _ _ _ Ht) as Tpc; pose proof Ha as (Ao & Am & Ab & At & Ap & As);
    assert (Hnd : is_dead s t = false) by (apply (not_dead s0 t o Halive s _ _ _ F Ht)).
  - (* PTLAcq *)
    assert (En : enabled s t = if b' then tl_free_for (objs s0 o) t || match dl with Some d => d <=? now s | None => false end else true).
    { unfold enabled. rewrite Hnd, Tpc, Ab, Ao, Ho. reflexivity. }
    split.
    + intros E. rewrite (step_tlacq _ _ a dl E Tpc). unfold mu at 2. rewrite Tpc. cbn [mu'].
      destruct (tl_try (objs s (a_o a)) t) as [ob'|]; cbv zeta.
      * destruct (o_fd (set_cnt ob' (S (o_cnt ob')))); unfold mu; ev; [lia|]. rewrite rem_same. lia.
      * unfold mu; ev. lia.
    + intros E w Hw. unfold deadline in Hw. rewrite Tpc in Hw. unfold mu. cbn. rewrite Tpc. cbn [mu'].
      destruct dl as [D|]; [|discriminate]. injection Hw as ->.
      rewrite En in E. destruct b'; [|discriminate]. apply orb_false_elim in E. destruct E as [_ E].
      rewrite E. assert (w <=? N.max (now s) w = true) as -> by lia. lia.
  - (* POpen *)
    assert (En : enabled s t = true) by (eapply (enabled_simple s0 t o Halive s _ _ _ F Ht); exact I).
    split; [|congruence]. intros _. rewrite (step_open _ _ a En Tpc). cbn.
    rewrite (no_fault _ _ _ KOpen F). unfold mu. ev. rewrite Tpc. cbn [mu']. lia.
  - (* PSleep *)
    assert (En : enabled s t = (w <=? now s)) by (unfold enabled; rewrite Hnd, Tpc; reflexivity).
    split.
    + intros E. rewrite (step_sleep _ _ a w E Tpc). unfold mu. ev. rewrite Tpc. cbn [mu']. rewrite En in E. rewrite E. lia.
    + intros E w' Hw'. unfold deadline in Hw'. rewrite Tpc in Hw'. injection Hw' as <-.
      unfold mu. cbn. rewrite Tpc. cbn [mu']. rewrite En in E. rewrite E.
      assert (N.max (now s) w = w) as -> by lia. rewrite N.leb_refl. lia.
  - (* PFlock *)
    assert (En : enabled s t = if ub then holder_free_for s d || faulty s KLock else true).
    { unfold enabled, ub. rewrite Hnd, Tpc, Ab, At. reflexivity. }
    split; [|intros _ w Hw; unfold deadline in Hw; rewrite Tpc in Hw; discriminate].
    intros E. rewrite (step_flock _ _ a d E Tpc). cbn. rewrite (no_fault _ _ _ KLock F).
    change (holder_free_for _ d) with (holder_free_for s d).
    unfold mu at 2. rewrite Tpc. cbn [mu'].
    destruct (holder_free_for s d) eqn:Eh; unfold mu; ev; [lia|].
    rewrite En, (no_fault _ _ _ KLock F) in E. destruct ub; [discriminate|]. lia.
  - (* PCloseF *)
    assert (En : enabled s t = true) by (eapply (enabled_simple s0 t o Halive s _ _ _ F Ht); exact I).
    assert (i = false) by (destruct i; auto; exfalso; apply Hi; auto). subst i.
    split; [|congruence]. intros _. rewrite (step_closef _ _ a d false En Tpc). cbn.
    rewrite (no_fault _ _ _ KClose F). cbn [orb].
    match goal with |- (mu (after_attempt ?s1 t a) < _)%nat =>
      assert (N1 : now s1 = now s) by (rewrite now_k_close; reflexivity);
      assert (O1 : o_own (objs s1 (a_o a)) = Some t) by (rewrite objs_k_close; cbn; rewrite Ao, Ho; reflexivity);
      assert (T1 : time2 s0 b' tm' poll s1 (a_start a)) by (unfold time2 in *; rewrite N1; exact Htm);
      pose proof (mu_attempt s1 a O1 Ha T1) as M; rewrite N1 in M end.
    unfold mu at 2. rewrite Tpc. cbn [mu']. exact M.
  - (* PCleanRel *)
    assert (En : enabled s t = true) by (eapply (enabled_simple s0 t o Halive s _ _ _ F Ht); exact I).
    split; [|congruence]. intros _. rewrite (step_cleanrel _ _ a b En Tpc). unfold mu. ev. rewrite Tpc. cbn. lia.
Qed.

(* enough fuel: the measure of the state *)
Lemma acq_terminates fuel : forall s, Phase s -> (mu s <= fuel)%nat -> snd (run_alone fuel s t) <> ROutOfFuel.
Proof.
  induction fuel as [|f IH]; intros s P Hm.
  - exfalso. destruct P as [a dl Ht|a Ht|a w Ht|a d Ht|a d i Ht|a b Ht]; unfold mu in Hm; rewrite (thr_pc _ _ _ _ Ht) in Hm; cbn in Hm;
      try lia. destruct (w <=? now s); lia. destruct ub; lia.
  - pose proof (phase_not_done _ _ _ _ _ _ _ _ _ P) as Hnd. destruct (mu_dec s P) as [M1 M2].
    destruct (phase_step s0 t o m b' tm' poll skip Halive Hh0 s P) as [(En & r & Fin & Hd & Hl)|[(En & P')|[(En & w & Hw & P')|(En & Hdl & B)]]].
    + rewrite run_alone_step by auto. rewrite run_alone_done by auto. cbn. rewrite Hl.
      destruct Fin as [E|d E|E|b E]; rewrite E; try discriminate. destruct m; discriminate. destruct b, m; discriminate.
    + rewrite run_alone_step by auto. apply IH; auto. specialize (M1 En). lia.
    + rewrite (run_alone_wait _ _ _ w) by auto. apply IH; auto. specialize (M2 En w Hw). lia.
    + rewrite run_alone_block by auto. discriminate.
Qed.

End Term.

(* fuel that always suffices for an acquire when no OSError is scripted *)
Definition acq_fuel (tm' : tmo) (poll : N) : nat :=
  match tm' with TVal T => (5 * N.to_nat ((T + poll) / poll) + 16)%nat | _ => 16%nat end.

Theorem do_acquire_terminates s0 t o m blk tm poll skip fuel :
  t_pc (thr s0 t) = PIdle -> dead s0 (t_proc (thr s0 t)) = false ->
  o_proc (objs s0 o) = t_proc (thr s0 t) ->
  (forall h, holder s0 = Some h -> (h < nextfd s0)%nat) ->
  (forall d q, fdown s0 d = Some q -> (d < nextfd s0)%nat) ->
  faults s0 = [] ->
  let tm' := snd (normalise (objs s0 o) blk tm) in
  (forall T, tm' = TVal T -> (1 <= poll)%N) ->
  (acq_fuel tm' poll <= fuel)%nat ->
  snd (do_call fuel s0 t (CAcq o m blk tm poll skip)) <> ROutOfFuel.
Proof.
  intros Hpc Hal Hpr Hh Hfo Hnf tm' Hp Hfu.
  destruct (acquire_begin s0 t o m blk tm poll skip Hpc Hal Hpr Hfo) as (s1 & a & dl & E1 & _ & P & Tpc & Nw).
  fold tm' in P. destruct fuel as [|f]; [unfold acq_fuel in Hfu; destruct tm'; lia|].
  rewrite E1. apply (acq_terminates s0 t o m (fst (normalise (objs s0 o) blk tm)) tm' poll skip Hal Hh Hnf Hp); auto.
  unfold mu. rewrite Tpc. cbn [mu']. unfold acq_fuel, rem in *.
  destruct tm' as [| |T]; destruct dl as [D|]; try destruct (D <=? now s1)%N; rewrite ?N.add_0_l, ?N.sub_0_r in *; lia.
Qed.
