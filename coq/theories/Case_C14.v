(* Case_C14.v — correspondence cases and trace monitor for C14 (cache keys).
   No proofs of the property here; see KeysInv.v / props/C14.v.

   A case is: which mapping the caller supplied, whether it was pre-populated
   with one foreign entry, a list of events (sequential calls with explicit
   signatures, evictions performed by the harness on the user mapping between
   calls) and, per event, what the implementation did: number of invocations
   of the wrapped function, tag of the returned value (= index of the event
   whose invocation produced it), tags of the values held by the user mapping
   afterwards (not observable, [], for the decorator's own dict). *)
From Coq Require Import List Arith Bool.
Import ListNotations.
Require Import Aiuti.CaseLib Aiuti.Keys AiutiGen.T_KeyExpr.

Inductive case :=
| C14 (kind : mkind) (prefill : bool) (evs : list ev) (observed : list obs)
(* the wrapped function returns an identity-less value (None, 0, '', False): which
   invocation produced a returned value is not observable, only the number of invocations
   per call is.  Retaining stores only (the decorator's dict or an unbounded user mapping,
   not pre-populated), histories of calls only. *)
| C14N (kind : mkind) (evs : list ev) (ninvs : list nat).

Definition nmem (x : nat) (l : list nat) : bool := existsb (Nat.eqb x) l.
Definition nsubset (a b : list nat) : bool := forallb (fun x => nmem x b) a.
Definition nset_eqb (a b : list nat) : bool := nsubset a b && nsubset b a && Nat.eqb (length a) (length b).

Definition obs_eqb (o1 o2 : obs) : bool :=
  let '(i1, r1, c1) := o1 in let '(i2, r2, c2) := o2 in
  Nat.eqb i1 i2 && Nat.eqb r1 r2 && nset_eqb c1 c2.

(* model (with the key expression and the store selection of the CURRENT
   source, as translated) = implementation *)
Definition agree (c : case) : bool :=
  match c with
  | C14 kind pf evs observed =>
      match key_expr_opt, cache_init_opt with
      | Some e, Some m => list_eqb obs_eqb (run e m kind pf evs) observed
      | _, _ => false          (* fail closed: untranslatable source *)
      end
  | C14N kind evs ninvs =>
      match key_expr_opt, cache_init_opt with
      | Some e, Some m => list_eqb Nat.eqb (map (fun o => fst (fst o)) (run e m kind false evs)) ninvs
      | _, _ => false
      end
  end.

(* ---- monitor: the property decided on the observed trace ----------------
   It uses only the property's own notion of "same arguments":
   positional classes equal pointwise, keyword (name, class) pairs equal as
   sets — never the key expression of the source. *)
Definition kwitems (s : sig) : list atom := map (fun p => AItem (fst p) (snd p)) (kw s).
Definition same_args (s1 s2 : sig) : bool :=
  list_eqb Nat.eqb (pos s1) (pos s2) &&
  subset (kwitems s1) (kwitems s2) && subset (kwitems s2) (kwitems s1).

(* hist : signatures of the events so far (None for an eviction), oldest first *)
Definition sig_of_tag (hist : list (option sig)) (t : nat) : option sig :=
  match nth_error hist t with Some (Some s) => Some s | _ => None end.
Definition tags_for (hist : list (option sig)) (s : sig) (tags : list nat) : list nat :=
  filter (fun t => match sig_of_tag hist t with Some s' => same_args s' s | None => false end) tags.

Definition cap_kind (k : mkind) : option nat := match k with KDefault => None | KUser c => c end.
Definition observable (k : mkind) : bool := match k with KDefault => false | KUser _ => true end.

(* before  : tags in the user mapping before the event (observable kinds) /
             tags of all invocations so far (the decorator's own dict, which
             retains everything)
   i       : index of the event *)
Fixpoint mon (kind : mkind) (evs : list ev) (observed : list obs)
         (hist : list (option sig)) (before : list nat) (i : nat) : bool :=
  match evs, observed with
  | [], [] => true
  | Call s :: evs', (ninv, r, cont) :: obs' =>
      let present := tags_for hist s before in
      let call_ok :=
        match present with
        | [] => Nat.eqb ninv 1 && Nat.eqb r i            (* nothing to share: computes once, gets its own *)
        | _ :: _ => Nat.eqb ninv 0 && nmem r present     (* shares, and the value is that key's *)
        end in
      let after :=
        if observable kind then cont
        else if Nat.eqb ninv 0 then before else i :: before in
      let store_ok :=
        if observable kind then
          if Nat.eqb ninv 0 then nset_eqb cont before    (* a hit stores nothing *)
          else
            nsubset cont (i :: before) &&                (* nothing foreign appears *)
            match cap_kind kind with
            | None => nset_eqb cont (i :: before)        (* the user mapping received the entry *)
            | Some n => (Nat.eqb n 0 || nmem i cont) &&
                        Nat.eqb (length cont) (Nat.min n (S (length before)))
            end
        else match cont with [] => true | _ => false end in
      call_ok && store_ok && mon kind evs' obs' (hist ++ [Some s]) after (S i)
  | Evict v :: evs', (ninv, r, cont) :: obs' =>
      let expect := filter (fun t => negb (Nat.eqb t v)) before in
      Nat.eqb ninv 0 &&
      (if observable kind then nset_eqb cont expect else match cont with [] => true | _ => false end) &&
      mon kind evs' obs' (hist ++ [None]) (if observable kind then cont else before) (S i)
  | _, _ => false
  end.

(* retaining store, calls only: a call invokes the function iff no earlier call had the same
   arguments (props/C14.v same_args_share) *)
Fixpoint mon_n (evs : list ev) (ninvs : list nat) (hist : list sig) : bool :=
  match evs, ninvs with
  | [], [] => true
  | Call s :: evs', ninv :: r =>
      Nat.eqb ninv (if existsb (fun s' => same_args s' s) hist then 0 else 1) &&
      mon_n evs' r (hist ++ [s])
  | _, _ => false
  end.

Definition is_call (x : ev) : bool := match x with Call _ => true | _ => false end.
Definition retaining (k : mkind) : bool :=
  match k with KDefault | KUser None => true | KUser (Some _) => false end.

Definition ok (c : case) : bool :=
  match c with
  | C14 kind pf evs observed =>
      mon kind evs observed [] (match kind with KDefault => [] | KUser _ => map snd (init_user pf) end) 0
  | C14N kind evs ninvs =>
      negb (retaining kind && forallb is_call evs) || mon_n evs ninvs []
  end.

Definition nontrivial (c : case) : bool :=
  match c with
  | C14 kind pf evs observed =>
      (2 <=? length (filter is_call evs)) &&
      existsb (fun o => match o with (1, _, _) => true | _ => false end) observed
  | C14N kind evs ninvs =>
      retaining kind && forallb is_call evs && existsb (Nat.eqb 0) ninvs && existsb (Nat.eqb 1) ninvs
  end.

Definition verdict := verdict3 agree ok nontrivial.
