(* FLockFD.v — descriptor / kernel-holder invariant FD of the FileLock model, preserved
   by every step, time advance and crash, for all fault scripts (contract-respecting
   calls).  Together with TL (FLockInv.v, FLockTL.v) it gives mutual exclusion.   *)
From Coq Require Import List Arith NArith Bool Lia ZifyBool.
Import ListNotations.
Require Import Aiuti.FLock Aiuti.FLockInv Aiuti.FLockTL.
Local Arguments Nat.max : simpl never.
Arguments upd : simpl never.
Arguments enter_tlrel : simpl never.
Arguments enter_cleanup : simpl never.
Arguments after_attempt : simpl never.
Arguments k_unlock : simpl never.
Arguments k_close : simpl never.
Arguments tl_release : simpl never.
Arguments tl_try : simpl never.
Arguments tl_rel_raises : simpl never.
Arguments normalise : simpl never.
Arguments faulty : simpl never.
Arguments intr : simpl never.
Arguments enabled : simpl never.
Arguments remove_all : simpl never.
Arguments remove_one : simpl never.

(* the descriptor a thread's pending primitive works on *)
Definition pc_fd (p : pc) : option fdid :=
  match p with
  | PFlock _ d | PCloseF _ d _ | PUnlock _ d _ | PCloseR _ d _ => Some d
  | _ => None
  end.

(* the object a thread's pending primitive belongs to *)
Definition pc_obj (p : pc) : option oid :=
  match p with
  | PIdle => None
  | PTLAcq a _ | POpen a | PFlock a _ | PCloseF a _ _ | PSleep a _ | PCleanRel a _ => Some (a_o a)
  | PUnlock o _ _ | PCloseR o _ _ | PTLRel o _ => Some o
  end.

Record FD (s : state) : Prop := mkFD {
  (* descriptors in use are below the allocation counter *)
  fd_obj_lt : forall o d, o_fd (objs s o) = Some d -> d < nextfd s;
  fd_pc_lt : forall t d, pc_fd (t_pc (thr s t)) = Some d -> d < nextfd s;
  fd_open_lt : forall d p, fdown s d = Some p -> d < nextfd s;
  (* a descriptor is referenced by at most one object field or pending primitive *)
  fd_obj_inj : forall o1 o2 d, o_fd (objs s o1) = Some d -> o_fd (objs s o2) = Some d -> o1 = o2;
  fd_obj_pc : forall o t d, o_fd (objs s o) = Some d -> pc_fd (t_pc (thr s t)) = Some d -> False;
  fd_pc_inj : forall t1 t2 d, pc_fd (t_pc (thr s t1)) = Some d -> pc_fd (t_pc (thr s t2)) = Some d -> t1 = t2;
  (* a live thread's pending descriptor is open and belongs to its process *)
  fd_pc_own : forall t d, pc_fd (t_pc (thr s t)) = Some d -> dead s (t_proc (thr s t)) = false ->
              fdown s d = Some (t_proc (thr s t));
  (* I1: the descriptor recorded in a live object carries the kernel lock *)
  fd_hold : forall o d, o_fd (objs s o) = Some d -> dead s (o_proc (objs s o)) = false ->
            holder s = Some d /\ fdown s d = Some (o_proc (objs s o));
  (* open descriptors belong to live processes; the holder is an open descriptor *)
  fd_open_live : forall d p, fdown s d = Some p -> dead s p = false;
  fd_holder_open : forall d, holder s = Some d -> fdown s d <> None;
  (* threads only work on objects of their own process *)
  pr_pc : forall t o, pc_obj (t_pc (thr s t)) = Some o -> o_proc (objs s o) = t_proc (thr s t);
  (* I2 (first half): an object a thread is inside of records a descriptor *)
  pr_cs : forall t o, In o (t_cs (thr s t)) ->
          o_proc (objs s o) = t_proc (thr s t) /\ o_fd (objs s o) <> None;
  (* the holder is referenced by a live object's field or a live thread's pending primitive *)
  fd_holder_ref : forall d, holder s = Some d ->
          (exists o, o_fd (objs s o) = Some d /\ dead s (o_proc (objs s o)) = false) \/
          (exists t, pc_fd (t_pc (thr s t)) = Some d /\ dead s (t_proc (thr s t)) = false)
}.

(* what a step of thread t on object o0 leaves alone *)
Record Upd (s s' : state) (t : tid) (o0 : oid) : Prop := mkUpd {
  u_thr : forall t', t' <> t -> thr s' t' = thr s t';
  u_obj : forall o', o' <> o0 -> objs s' o' = objs s o';
  u_oproc : o_proc (objs s' o0) = o_proc (objs s o0);
  u_tproc : t_proc (thr s' t) = t_proc (thr s t);
  u_dead : dead s' = dead s
}.

Lemma Upd_oproc s s' t o0 o : Upd s s' t o0 -> o_proc (objs s' o) = o_proc (objs s o).
Proof. intros U. destruct (Nat.eq_dec o o0) as [->|Hn]; [apply U|now rewrite (u_obj _ _ _ _ U)]. Qed.

Lemma Upd_tproc s s' t o0 t' : Upd s s' t o0 -> t_proc (thr s' t') = t_proc (thr s t').
Proof. intros U. destruct (Nat.eq_dec t' t) as [->|Hn]; [apply U|now rewrite (u_thr _ _ _ _ U)]. Qed.

(* K0: no kernel effect, no descriptor moves *)
Lemma FD_soft s s' t o0 :
  FD s -> Upd s s' t o0 ->
  holder s' = holder s -> fdown s' = fdown s -> nextfd s' = nextfd s ->
  o_fd (objs s' o0) = o_fd (objs s o0) ->
  pc_fd (t_pc (thr s' t)) = pc_fd (t_pc (thr s t)) ->
  (forall o, pc_obj (t_pc (thr s' t)) = Some o -> o_proc (objs s o) = t_proc (thr s t)) ->
  (forall o, In o (t_cs (thr s' t)) ->
     In o (t_cs (thr s t)) \/ (o_proc (objs s o) = t_proc (thr s t) /\ o_fd (objs s o) <> None)) ->
  FD s'.
Proof.
  intros F U Hh Hf Hn Hfd Hpf Hpo Hcs.
  assert (Ofd : forall o, o_fd (objs s' o) = o_fd (objs s o)).
  { intros o. destruct (Nat.eq_dec o o0) as [->|Hne]; [assumption|now rewrite (u_obj _ _ _ _ U)]. }
  assert (Pfd : forall t', pc_fd (t_pc (thr s' t')) = pc_fd (t_pc (thr s t'))).
  { intros t'. destruct (Nat.eq_dec t' t) as [->|Hne]; [auto|now rewrite (u_thr _ _ _ _ U)]. }
  destruct F. constructor; intros *; rewrite ?Ofd, ?Pfd, ?Hh, ?Hf, ?Hn, ?(u_dead _ _ _ _ U), ?(Upd_oproc _ _ _ _ _ U), ?(Upd_tproc _ _ _ _ _ U); eauto.
  - intros A. destruct (Nat.eq_dec t0 t) as [->|Hne]; [auto|]. rewrite (u_thr _ _ _ _ U) in A; auto.
  - intros A. destruct (Nat.eq_dec t0 t) as [->|Hne]; [|rewrite (u_thr _ _ _ _ U) in A; auto].
    destruct (Hcs _ A) as [B|B]; auto.
  - intros A. destruct (fd_holder_ref0 _ A) as [(o & B & C)|(t' & B & C)]; [left; exists o|right; exists t'];
      rewrite ?Ofd, ?Pfd, ?(u_dead _ _ _ _ U), ?(Upd_oproc _ _ _ _ _ U), ?(Upd_tproc _ _ _ _ _ U); auto.
Qed.

Ltac split_o U o o0 := destruct (Nat.eq_dec o o0) as [->|?]; [|rewrite ?(u_obj _ _ _ _ U) in * by assumption].
Ltac split_t U t' t := destruct (Nat.eq_dec t' t) as [->|?]; [|rewrite ?(u_thr _ _ _ _ U) in * by assumption].

(* release: the descriptor moves from the object field to the thread's pending unlock *)
Lemma FD_move s s' t o0 d :
  FD s -> Upd s s' t o0 ->
  holder s' = holder s -> fdown s' = fdown s -> nextfd s' = nextfd s ->
  o_fd (objs s o0) = Some d -> o_fd (objs s' o0) = None ->
  pc_fd (t_pc (thr s t)) = None -> pc_fd (t_pc (thr s' t)) = Some d ->
  pc_obj (t_pc (thr s' t)) = Some o0 ->
  dead s (t_proc (thr s t)) = false -> o_proc (objs s o0) = t_proc (thr s t) ->
  (forall o, In o (t_cs (thr s' t)) -> In o (t_cs (thr s t)) /\ o <> o0) ->
  (forall t', t' <> t -> ~ In o0 (t_cs (thr s t'))) ->
  FD s'.
Proof.
  intros F U Hh Hf Hn Hfd Hfd' Hpf Hpf' Hpo Hal Hpr Hcs Hoth.
  destruct F. constructor; intros *; rewrite ?Hh, ?Hf, ?Hn, ?(u_dead _ _ _ _ U), ?(Upd_oproc _ _ _ _ _ U), ?(Upd_tproc _ _ _ _ _ U).
  - intros A. split_o U o o0; [congruence|eauto].
  - intros A. split_t U t0 t; [|eauto]. rewrite Hpf' in A. injection A as <-. eauto.
  - eauto.
  - intros A B. split_o U o1 o0; [congruence|]. split_o U o2 o0; [congruence|eauto].
  - intros A B. split_o U o o0; [congruence|]. split_t U t0 t; [|eauto]. rewrite Hpf' in B. injection B as <-. eauto.
  - intros A B. split_t U t1 t; split_t U t2 t; auto; rewrite ?Hpf' in *.
    + injection A as <-. exfalso. eapply fd_obj_pc0; eauto.
    + injection B as <-. exfalso. eapply fd_obj_pc0; eauto.
    + eauto.
  - intros A B. split_t U t0 t; [|eauto]. rewrite Hpf' in A. injection A as <-. rewrite <- Hpr. apply fd_hold0; auto. now rewrite Hpr.
  - intros A B. split_o U o o0; [congruence|eauto].
  - eauto.
  - eauto.
  - intros A. split_t U t0 t; [|eauto]. rewrite Hpo in A. injection A as <-. auto.
  - intros A. split_t U t0 t.
    + destruct (Hcs _ A) as [B C]. rewrite (u_obj _ _ _ _ U) by auto. auto.
    + destruct (pr_cs0 _ _ A) as [B C]. split; auto. split_o U o o0; auto. exfalso. eapply Hoth; eauto.
  - intros A. destruct (fd_holder_ref0 _ A) as [(o & B & C)|(t' & B & C)].
    + destruct (Nat.eq_dec o o0) as [->|Hne].
      * right. exists t. rewrite Hpf', (Upd_tproc _ _ _ _ _ U). split; [congruence|auto].
      * left. exists o. rewrite (u_obj _ _ _ _ U) by auto. auto.
    + right. exists t'. destruct (Nat.eq_dec t' t) as [->|Hne]; [congruence|]. rewrite (u_thr _ _ _ _ U) by auto. auto.
Qed.

(* os.open: a fresh descriptor, owned by the caller's process, becomes the pending one *)
Lemma FD_open s s' t o0 :
  FD s -> Upd s s' t o0 ->
  holder s' = holder s ->
  (forall d, fdown s' d = if Nat.eqb d (nextfd s) then Some (t_proc (thr s t)) else fdown s d) ->
  nextfd s' = S (nextfd s) ->
  o_fd (objs s' o0) = o_fd (objs s o0) ->
  pc_fd (t_pc (thr s t)) = None -> pc_fd (t_pc (thr s' t)) = Some (nextfd s) ->
  (forall o, pc_obj (t_pc (thr s' t)) = Some o -> o_proc (objs s o) = t_proc (thr s t)) ->
  dead s (t_proc (thr s t)) = false ->
  (forall o, In o (t_cs (thr s' t)) -> In o (t_cs (thr s t))) ->
  FD s'.
Proof.
  intros F U Hh Hf Hn Hfd Hpf Hpf' Hpo Hal Hcs.
  assert (Ofd : forall o, o_fd (objs s' o) = o_fd (objs s o)).
  { intros o. destruct (Nat.eq_dec o o0) as [->|Hne]; [assumption|now rewrite (u_obj _ _ _ _ U)]. }
  assert (Fold : forall d, d < nextfd s -> fdown s' d = fdown s d).
  { intros d Hd. rewrite Hf. destruct (Nat.eqb_spec d (nextfd s)); [lia|auto]. }
  destruct F. constructor; intros *; rewrite ?Ofd, ?Hh, ?Hn, ?(u_dead _ _ _ _ U), ?(Upd_oproc _ _ _ _ _ U), ?(Upd_tproc _ _ _ _ _ U).
  - intros A. apply fd_obj_lt0 in A. lia.
  - intros A. split_t U t0 t; [rewrite Hpf' in A; injection A as <-; lia|]. apply fd_pc_lt0 in A. lia.
  - rewrite Hf. destruct (Nat.eqb_spec d (nextfd s)); [lia|]. intros A. apply fd_open_lt0 in A. lia.
  - eauto.
  - intros A B. split_t U t0 t; [|eauto]. rewrite Hpf' in B. injection B as <-. apply fd_obj_lt0 in A. lia.
  - intros A B. split_t U t1 t; split_t U t2 t; auto; rewrite ?Hpf' in *.
    + injection A as <-. apply fd_pc_lt0 in B. lia.
    + injection B as <-. apply fd_pc_lt0 in A. lia.
    + eauto.
  - intros A B. split_t U t0 t.
    + rewrite Hpf' in A. injection A as <-. rewrite Hf, Nat.eqb_refl. reflexivity.
    + rewrite Fold; eauto.
  - intros A B. rewrite Fold; eauto.
  - rewrite Hf. destruct (Nat.eqb_spec d (nextfd s)); [intros [= <-]; auto|eauto].
  - intros A. pose proof (fd_holder_open0 _ A) as B. rewrite Fold; auto.
    destruct (fdown s d) eqn:E; [eauto|congruence].
  - intros A. split_t U t0 t; eauto.
  - intros A. split_t U t0 t; eauto.
  - intros A. destruct (fd_holder_ref0 _ A) as [(o & B & C)|(t' & B & C)].
    + left. exists o. rewrite Ofd, (Upd_oproc _ _ _ _ _ U). auto.
    + right. exists t'. destruct (Nat.eq_dec t' t) as [->|Hne]; [congruence|]. rewrite (u_thr _ _ _ _ U) by auto. auto.
Qed.

(* flock succeeds: the pending descriptor becomes the holder and is recorded in the object *)
Lemma FD_lock s s' t o0 d :
  FD s -> Upd s s' t o0 ->
  holder s' = Some d -> (holder s = None \/ holder s = Some d) ->
  fdown s' = fdown s -> nextfd s' = nextfd s ->
  pc_fd (t_pc (thr s t)) = Some d -> pc_fd (t_pc (thr s' t)) = None ->
  o_fd (objs s' o0) = Some d ->
  dead s (t_proc (thr s t)) = false -> o_proc (objs s o0) = t_proc (thr s t) ->
  (forall o, pc_obj (t_pc (thr s' t)) = Some o -> o_proc (objs s o) = t_proc (thr s t)) ->
  (forall o, In o (t_cs (thr s' t)) -> In o (t_cs (thr s t)) \/ o = o0) ->
  FD s'.
Proof.
  intros F U Hh Hh0 Hf Hn Hpf Hpf' Hfd' Hal Hpr Hpo Hcs.
  destruct F. constructor; intros *; rewrite ?Hh, ?Hf, ?Hn, ?(u_dead _ _ _ _ U), ?(Upd_oproc _ _ _ _ _ U), ?(Upd_tproc _ _ _ _ _ U).
  - intros A. split_o U o o0; [|eauto]. rewrite Hfd' in A. injection A as <-. eauto.
  - intros A. split_t U t0 t; [congruence|eauto].
  - eauto.
  - intros A B. split_o U o1 o0; split_o U o2 o0; auto; rewrite ?Hfd' in *.
    + injection A as <-. exfalso. eauto.
    + injection B as <-. exfalso. eauto.
    + eauto.
  - intros A B. split_t U t0 t; [congruence|]. split_o U o o0; [|eauto].
    rewrite Hfd' in A. injection A as <-. apply n. eauto.
  - intros A B. split_t U t1 t; [congruence|]. split_t U t2 t; [congruence|eauto].
  - intros A B. split_t U t0 t; [congruence|eauto].
  - intros A B. split_o U o o0.
    + rewrite Hfd' in A. injection A as <-. split; auto. rewrite Hpr. auto.
    + exfalso. destruct (fd_hold0 _ _ A B) as [C _]. destruct Hh0 as [E|E]; rewrite E in C; [discriminate|].
      injection C as <-. eauto.
  - eauto.
  - intros [= <-]. rewrite (fd_pc_own0 _ _ Hpf Hal). discriminate.
  - intros A. split_t U t0 t; eauto.
  - intros A. assert (B : o_proc (objs s o) = t_proc (thr s t0) /\ (o <> o0 -> o_fd (objs s o) <> None)).
    { split_t U t0 t.
      - destruct (Hcs _ A) as [B| ->]; [destruct (pr_cs0 _ _ B); auto|]. split; [auto|congruence].
      - destruct (pr_cs0 _ _ A); auto. }
    destruct B as [B C]. split; auto. split_o U o o0; [congruence|auto].
  - intros [= <-]. left. exists o0. rewrite Hfd', (Upd_oproc _ _ _ _ _ U), Hpr. auto.
Qed.

Definition unl_holder (h : option fdid) (d : fdid) : option fdid :=
  match h with Some x => if Nat.eqb x d then None else Some x | None => None end.

(* flock(UN) and/or close of the pending descriptor *)
Lemma FD_unlock_close s s' t o0 d (closing : bool) :
  FD s -> Upd s s' t o0 ->
  holder s' = unl_holder (holder s) d \/ (closing = false /\ holder s' = holder s) ->
  (forall d', fdown s' d' = if closing && Nat.eqb d' d then None else fdown s d') ->
  nextfd s' = nextfd s ->
  o_fd (objs s' o0) = o_fd (objs s o0) ->
  pc_fd (t_pc (thr s t)) = Some d ->
  pc_fd (t_pc (thr s' t)) = (if closing then None else Some d) ->
  (forall o, pc_obj (t_pc (thr s' t)) = Some o -> o_proc (objs s o) = t_proc (thr s t)) ->
  (forall o, In o (t_cs (thr s' t)) -> In o (t_cs (thr s t))) ->
  FD s'.
Proof.
  intros F U Hh Hf Hn Hfd Hpf Hpf' Hpo Hcs.
  assert (Ofd : forall o, o_fd (objs s' o) = o_fd (objs s o)).
  { intros o. destruct (Nat.eq_dec o o0) as [->|Hne]; [assumption|now rewrite (u_obj _ _ _ _ U)]. }
  assert (Fold : forall d', d' <> d -> fdown s' d' = fdown s d').
  { intros d' Hd. rewrite Hf. destruct (Nat.eqb_spec d' d); [congruence|]. now rewrite andb_false_r. }
  assert (Hold : forall d', d' <> d -> holder s = Some d' -> holder s' = Some d').
  { intros d' Hd E. destruct Hh as [->|[_ ->]]; auto. rewrite E. cbn. destruct (Nat.eqb_spec d' d); congruence. }
  assert (Hnew : forall d', holder s' = Some d' -> holder s = Some d' /\ (closing = true -> d' <> d)).
  { intros d' E. destruct Hh as [E'|[-> E']]; rewrite E' in E; [|split; [auto|discriminate]].
    unfold unl_holder in E. destruct (holder s) as [x|]; [|discriminate].
    destruct (Nat.eqb_spec x d); [discriminate|]. injection E as <-. auto. }
  assert (Pfd : forall t' d', pc_fd (t_pc (thr s' t')) = Some d' -> pc_fd (t_pc (thr s t')) = Some d').
  { intros t' d'. split_t U t' t; auto. rewrite Hpf'. destruct closing; [discriminate|congruence]. }
  destruct F. constructor; intros *; rewrite ?Ofd, ?Hn, ?(u_dead _ _ _ _ U), ?(Upd_oproc _ _ _ _ _ U), ?(Upd_tproc _ _ _ _ _ U).
  - eauto.
  - eauto.
  - rewrite Hf. destruct (closing && Nat.eqb d0 d); [discriminate|eauto].
  - eauto.
  - eauto.
  - eauto.
  - intros A B. split_t U t0 t.
    + rewrite Hpf' in A. destruct closing; [discriminate|]. injection A as <-. rewrite Hf. cbn. eauto.
    + rewrite Fold; eauto. intros ->. apply n. eauto.
  - intros A B. assert (d0 <> d) by (intros ->; eauto). destruct (fd_hold0 _ _ A B). rewrite Fold; auto.
  - rewrite Hf. destruct (closing && Nat.eqb d0 d); [discriminate|eauto].
  - intros A. destruct (Hnew _ A) as [B C]. rewrite Hf. destruct closing; cbn; [|eauto].
    destruct (Nat.eqb_spec d0 d); [exfalso; apply C; auto|eauto].
  - intros A. split_t U t0 t; eauto.
  - intros A. split_t U t0 t; eauto.
  - intros A. destruct (Hnew _ A) as [B C]. destruct (fd_holder_ref0 _ B) as [(o & D & E)|(t' & D & E)].
    + left. exists o. rewrite Ofd, (Upd_oproc _ _ _ _ _ U). auto.
    + right. exists t'. destruct (Nat.eq_dec t' t) as [->|Hne].
      * rewrite Hpf', (Upd_tproc _ _ _ _ _ U). rewrite Hpf in D. injection D as <-.
        destruct closing; [exfalso; apply C; auto|auto].
      * rewrite (u_thr _ _ _ _ U) by auto. auto.
Qed.

(* ---------- the thread-local tails of a step ------------------------------------ *)

Record Tail (s s' : state) (t : tid) (o0 : oid) : Prop := mkTail {
  ta_upd : Upd s s' t o0;
  ta_holder : holder s' = holder s;
  ta_fdown : fdown s' = fdown s;
  ta_nextfd : nextfd s' = nextfd s;
  ta_ofd : o_fd (objs s' o0) = o_fd (objs s o0);
  ta_pcfd : pc_fd (t_pc (thr s' t)) = None;
  ta_pcobj : forall o, pc_obj (t_pc (thr s' t)) = Some o -> o = o0;
  ta_cs : t_cs (thr s' t) = t_cs (thr s t)
}.

Ltac frames2 := cbn; rewrite ?upd_same; cbn; intros; rewrite ?upd_other by (assumption || congruence); cbn; eauto.

Ltac frames3 := cbn; rewrite ?upd_same; cbn; auto.

Lemma Tail_set_pc s t o0 p :
  pc_fd p = None -> (forall o, pc_obj p = Some o -> o = o0) -> Tail s (set_pc s t p) t o0.
Proof. intros A B. constructor; [constructor|..]; frames2. Qed.

Lemma Tail_finish_rel s t o0 : Tail s (finish_rel s t) t o0.
Proof. constructor; [constructor|..]; frames2. discriminate. Qed.

Lemma Tail_finish_fail s t a r : is_fail r = true -> Tail s (finish_acq s t a r) t (a_o a).
Proof. intros A. constructor; [constructor|..]; frames2; [discriminate|now rewrite A]. Qed.

Lemma Tail_enter_tlrel s t o k : Tail s (enter_tlrel s t o k) t o.
Proof.
  rewrite enter_tlrel_eq. destruct (_ || _); [apply Tail_finish_rel|apply Tail_set_pc; cbn; congruence].
Qed.

Lemma Tail_enter_cleanup s t a b : Tail s (enter_cleanup s t a b) t (a_o a).
Proof.
  unfold enter_cleanup. destruct (tl_rel_raises _ _); (constructor; [constructor|..]); frames2; congruence.
Qed.

Lemma Tail_after_attempt s t a : Tail s (after_attempt s t a) t (a_o a).
Proof.
  unfold after_attempt. destruct (negb (a_blk a)); [apply Tail_enter_cleanup|].
  destruct (a_tm a); try (apply Tail_set_pc; cbn; congruence).
  destruct (_ <? _)%N; [apply Tail_enter_cleanup|apply Tail_set_pc; cbn; congruence].
Qed.

Lemma Upd_trans s s1 s2 t o0 : Upd s s1 t o0 -> Upd s1 s2 t o0 -> Upd s s2 t o0.
Proof.
  intros [A B C D E] [A' B' C' D' E']. constructor; intros; try congruence.
  - rewrite A', A; auto.
  - rewrite B', B; auto.
Qed.

Lemma Upd_eq s s1 t o0 : objs s1 = objs s -> thr s1 = thr s -> dead s1 = dead s -> Upd s s1 t o0.
Proof. intros A B C. constructor; intros; congruence. Qed.

Lemma holder_k_unlock s d : holder (k_unlock s d) = unl_holder (holder s) d.
Proof. unfold k_unlock, unl_holder. destruct (holder s) as [h|] eqn:E; [destruct (Nat.eqb h d)|]; cbn; auto. Qed.
Lemma fdown_k_unlock s d : fdown (k_unlock s d) = fdown s.
Proof. unfold k_unlock. destruct (holder s) as [h|]; [destruct (Nat.eqb h d)|]; reflexivity. Qed.
Lemma nextfd_k_unlock s d : nextfd (k_unlock s d) = nextfd s.
Proof. unfold k_unlock. destruct (holder s) as [h|]; [destruct (Nat.eqb h d)|]; reflexivity. Qed.
Lemma holder_k_close s d : holder (k_close s d) = unl_holder (holder s) d.
Proof. unfold k_close. cbn. apply holder_k_unlock. Qed.
Lemma fdown_k_close s d d' : fdown (k_close s d) d' = if Nat.eqb d' d then None else fdown s d'.
Proof. unfold k_close. cbn. unfold upd. now rewrite fdown_k_unlock. Qed.
Lemma nextfd_k_close s d : nextfd (k_close s d) = nextfd s.
Proof. unfold k_close. cbn. apply nextfd_k_unlock. Qed.

Lemma enabled_alive s t : enabled s t = true -> dead s (t_proc (thr s t)) = false.
Proof. unfold enabled, is_dead. destruct (dead s (t_proc (thr s t))); cbn; [discriminate|auto]. Qed.

Definition kern_eq (s0 s : state) : Prop :=
  objs s0 = objs s /\ thr s0 = thr s /\ dead s0 = dead s /\
  holder s0 = holder s /\ fdown s0 = fdown s /\ nextfd s0 = nextfd s.

Lemma Tail_set_obj_pre s o ob' s' t :
  o_fd ob' = o_fd (objs s o) -> o_proc ob' = o_proc (objs s o) ->
  Tail (set_obj s o ob') s' t o -> Tail s s' t o.
Proof.
  intros A B [[U1 U2 U3 U4 U5] Th Tf Tn To Tp Tq Tc]. cbn in *. rewrite upd_same in *.
  constructor; [constructor|..]; auto; try congruence.
  intros o' Hn. rewrite U2 by auto. now rewrite upd_other.
Qed.

Lemma FD_tail s s1 s' t o0 :
  FD s -> kern_eq s1 s -> Tail s1 s' t o0 -> o_proc (objs s o0) = t_proc (thr s t) ->
  pc_fd (t_pc (thr s t)) = None -> FD s'.
Proof.
  intros F (E1 & E2 & E3 & E4 & E5 & E6) [U Th Tf Tn To Tp Tq Tc] Hpr Hpn.
  apply (FD_soft s s' t o0); auto; try congruence.
  - apply (Upd_trans _ s1); auto. now apply Upd_eq.
  - intros o A. apply Tq in A. now subst.
  - intros o A. left. congruence.
Qed.

Lemma FD_close_tail s s1 s' t o0 d :
  FD s -> kern_eq s1 s -> pc_fd (t_pc (thr s t)) = Some d ->
  Tail (k_close s1 d) s' t o0 -> o_proc (objs s o0) = t_proc (thr s t) -> FD s'.
Proof.
  intros F (E1 & E2 & E3 & E4 & E5 & E6) Hpf [U Th Tf Tn To Tp Tq Tc] Hpr.
  apply (FD_unlock_close s s' t o0 d true); auto.
  - apply (Upd_trans _ (k_close s1 d)); auto. apply Upd_eq; rewrite ?objs_k_close, ?thr_k_close, ?dead_k_close; auto.
  - left. rewrite Th, holder_k_close. congruence.
  - intros d'. rewrite Tf, fdown_k_close. cbn. now rewrite E5.
  - rewrite Tn, nextfd_k_close. auto.
  - rewrite To, objs_k_close. congruence.
  - intros o A. apply Tq in A. now subst.
  - intros o. rewrite Tc, thr_k_close, E2. auto.
Qed.

Lemma kern_eq_sys s k : kern_eq (snd (sys s k)) s.
Proof. repeat split. Qed.

Lemma In_remove_one o l x : In x (remove_one o l) -> In x l.
Proof.
  induction l as [|y r IH]; cbn; auto. unfold remove_one; fold remove_one.
  destruct (Nat.eqb y o); cbn; intuition.
Qed.
Lemma In_remove_all o l x : In x (remove_all o l) -> In x l.
Proof. unfold remove_all. intros A. apply filter_In in A. tauto. Qed.

Theorem FD_step s t : TL s -> FD s -> viol (step s t) = false -> FD (step s t).
Proof.
  intros H F Hv. destruct (enabled s t) eqn:He; [|unfold step; now rewrite He].
  pose proof (enabled_alive _ _ He) as Hal.
  destruct (t_pc (thr s t)) as [|a dl|a|a d|a d i|a w|a oserr|o d k|o d k|o k] eqn:Hpc.
  - (* PIdle *) destruct (t_prog (thr s t)) as [|c rest] eqn:Hpr; [unfold step; now rewrite He, Hpc, Hpr|].
    destruct (step_viol_call _ _ _ _ Hpc Hpr He Hv) as [Hok _].
    unfold step. rewrite He, Hpc, Hpr. cbn.
    destruct c as [o m blk tm poll skip|o force]; unfold begin_call; cbn.
    + rewrite upd_same. cbn. cbn in Hok. rewrite Hok. destruct (normalise _ _ _) as [b' tm'].
      apply Nat.eqb_eq in Hok.
      apply (FD_soft s _ t o); auto; [constructor|..]; frames2; rewrite ?Hpc; cbn; congruence.
    + rewrite upd_same. cbn. cbn in Hok. apply andb_prop in Hok. destruct Hok as [Hok1 Hok2]. rewrite Hok1.
      apply Nat.eqb_eq in Hok1.
      destruct (o_fd (objs s o)) as [d|] eqn:Hfd.
      2:{ apply (FD_soft s _ t o); auto; [constructor|..]; frames2; rewrite ?Hpc; cbn; auto; discriminate. }
      rewrite Hok2.
      assert (Hown : o_own (objs s o) = Some t).
      { unfold own_is in Hok2. destruct (o_own (objs s o)) as [u|]; [|discriminate].
        apply Nat.eqb_eq in Hok2. now subst. }
      destruct (TL_own _ _ _ H Hown) as (Hlev & Hd1 & Hnr & Hcd & Hocc). unfold lev in Hlev.
      rewrite Hpc in Hlev, Hocc. cbn in Hlev, Hocc.
      assert (Hsub : forall x, In x (if force then remove_all o (t_cs (thr s t)) else remove_one o (t_cs (thr s t))) ->
                               In x (t_cs (thr s t))).
      { intros x. destruct force; [apply In_remove_all|apply In_remove_one]. }
      destruct (Nat.eqb (pred (o_cnt (objs s o))) 0 || force) eqn:Hfin.
      * assert (Ho0 : occ (if force then remove_all o (t_cs (thr s t)) else remove_one o (t_cs (thr s t))) o = 0).
        { destruct force; [apply occ_remove_all_same|rewrite occ_remove_one_same]. cbn in Hfin. lia. }
        apply (FD_move s _ t o d); auto; [constructor; frames2|..]; frames3.
        -- rewrite Hpc. reflexivity.
        -- intros x A. split; auto. intros ->. apply occ_pos_in in A. lia.
        -- intros t' Hn A. apply occ_pos_in in A. destruct H as [HL _ _ _ _ _].
           destruct (HL t' o) as [E _]; [unfold lev; lia|]. congruence.
      * eapply (FD_soft s _ t o); auto.
        -- eapply Upd_trans; [|apply Tail_enter_tlrel]. constructor; frames2.
        -- rewrite (ta_holder _ _ _ _ (Tail_enter_tlrel _ _ _ _)). reflexivity.
        -- rewrite (ta_fdown _ _ _ _ (Tail_enter_tlrel _ _ _ _)). reflexivity.
        -- rewrite (ta_nextfd _ _ _ _ (Tail_enter_tlrel _ _ _ _)). reflexivity.
        -- rewrite (ta_ofd _ _ _ _ (Tail_enter_tlrel _ _ _ _)). frames2.
        -- rewrite (ta_pcfd _ _ _ _ (Tail_enter_tlrel _ _ _ _)), Hpc. reflexivity.
        -- intros o' A. apply (ta_pcobj _ _ _ _ (Tail_enter_tlrel _ _ _ _)) in A. now subst.
        -- intros o'. rewrite (ta_cs _ _ _ _ (Tail_enter_tlrel _ _ _ _)). frames2.
  - (* PTLAcq *)
    unfold step. rewrite He, Hpc. cbn.
    assert (Hpr : o_proc (objs s (a_o a)) = t_proc (thr s t)) by (apply (pr_pc _ F); rewrite Hpc; reflexivity).
    destruct (tl_try (objs s (a_o a)) t) as [ob'|] eqn:Htry.
    2:{ eapply FD_tail; eauto; [repeat split|apply Tail_finish_fail, is_fail_fail_result|now rewrite Hpc]. }
    destruct (tl_try_some _ _ _ Htry) as (Hown' & Hfd' & Hcnt' & Hre' & Hproc' & _ & Hcase).
    destruct (o_fd ob') eqn:Hfd2.
    + apply (FD_soft s _ t (a_o a)); auto; [constructor; frames2|..]; frames3.
      * congruence.
      * now rewrite Hpc.
      * intros o A. discriminate.
      * intros o [<-|A]; auto. right. split; auto. congruence.
    + apply (FD_soft s _ t (a_o a)); auto; [constructor; frames2|..]; frames3.
      * congruence.
      * now rewrite Hpc.
      * intros o [= <-]. auto.
  - (* POpen *)
    unfold step. rewrite He, Hpc. cbn.
    assert (Hpr : o_proc (objs s (a_o a)) = t_proc (thr s t)) by (apply (pr_pc _ F); rewrite Hpc; reflexivity).
    destruct (faulty s KOpen); [destruct (intr s KOpen)|].
    + eapply FD_tail; eauto; [|apply Tail_enter_cleanup|now rewrite Hpc]. repeat split.
    + eapply FD_tail; eauto; [|apply Tail_after_attempt|now rewrite Hpc]. repeat split.
    + apply (FD_open s _ t (a_o a)); auto; [constructor; frames2|..]; frames3.
      * rewrite Hpc. reflexivity.
      * intros o [= <-]. auto.
  - (* PFlock *)
    unfold step. rewrite He, Hpc. cbn.
    assert (Hpr : o_proc (objs s (a_o a)) = t_proc (thr s t)) by (apply (pr_pc _ F); rewrite Hpc; reflexivity).
    assert (Hfail : forall s1 i, kern_eq s1 s -> FD (set_pc s1 t (PCloseF a d i))).
    { intros s1 i (E1 & E2 & E3 & E4 & E5 & E6).
      apply (FD_soft s _ t (a_o a)); auto; [constructor; frames2; congruence|..]; frames3; try congruence.
      - now rewrite Hpc.
      - rewrite E2. auto. }
    destruct (faulty s KLock); [apply Hfail; repeat split|].
    destruct (holder_free_for _ d) eqn:Hfree; [|apply Hfail; repeat split].
    apply (FD_lock s _ t (a_o a) d); auto; [constructor; frames2|..]; frames3.
    + unfold holder_free_for in Hfree. cbn in Hfree. destruct (holder s) as [h|]; auto.
      apply Nat.eqb_eq in Hfree. subst. auto.
    + rewrite Hpc. reflexivity.
    + intros o A. discriminate.
    + intros o [<-|A]; auto.
  - (* PCloseF *)
    unfold step. rewrite He, Hpc. cbn.
    assert (Hpr : o_proc (objs s (a_o a)) = t_proc (thr s t)) by (apply (pr_pc _ F); rewrite Hpc; reflexivity).
    destruct (faulty s KClose || i).
    + eapply (FD_close_tail s _ _ t (a_o a) d); eauto; [|rewrite Hpc; reflexivity|apply Tail_enter_cleanup]. repeat split.
    + eapply (FD_close_tail s _ _ t (a_o a) d); eauto; [|rewrite Hpc; reflexivity|apply Tail_after_attempt]. repeat split.
  - (* PSleep *)
    unfold step. rewrite He, Hpc.
    assert (Hpr : o_proc (objs s (a_o a)) = t_proc (thr s t)) by (apply (pr_pc _ F); rewrite Hpc; reflexivity).
    eapply (FD_tail s s); eauto; [repeat split|apply Tail_set_pc; cbn; congruence|now rewrite Hpc].
  - (* PCleanRel *)
    unfold step. rewrite He, Hpc. cbn.
    assert (Hpr : o_proc (objs s (a_o a)) = t_proc (thr s t)) by (apply (pr_pc _ F); rewrite Hpc; reflexivity).
    assert (Hf : is_fail (if oserr then ROSErr else fail_result (a_mode a)) = true)
      by (destruct oserr; [reflexivity|apply is_fail_fail_result]).
    eapply (FD_tail s s); eauto; [repeat split| |now rewrite Hpc].
    eapply Tail_set_obj_pre; [| |apply Tail_finish_fail; auto];
      destruct (tl_release_cases (objs s (a_o a))) as [(_ & _ & ->)|(_ & ->)]; reflexivity.
  - (* PUnlock *)
    unfold step. rewrite He, Hpc. cbn.
    assert (Hpr : o_proc (objs s o) = t_proc (thr s t)) by (apply (pr_pc _ F); rewrite Hpc; reflexivity).
    destruct (faulty s KUnlock).
    + apply (FD_unlock_close s _ t o d false); auto; [constructor; frames2|..]; frames3.
      * rewrite Hpc. reflexivity.
      * intros o' [= <-]. auto.
    + apply (FD_unlock_close s _ t o d false); auto; [constructor; frames2|..]; frames3;
        rewrite ?objs_k_unlock, ?thr_k_unlock, ?dead_k_unlock, ?holder_k_unlock, ?fdown_k_unlock, ?nextfd_k_unlock; cbn; auto.
      * rewrite Hpc. reflexivity.
      * intros o' [= <-]. auto.
  - (* PCloseR *)
    unfold step. rewrite He, Hpc. cbn.
    assert (Hpr : o_proc (objs s o) = t_proc (thr s t)) by (apply (pr_pc _ F); rewrite Hpc; reflexivity).
    eapply (FD_close_tail s _ _ t o d); eauto; [apply (kern_eq_sys s KClose)|rewrite Hpc; reflexivity|].
    eapply Tail_set_obj_pre; [| |apply Tail_enter_tlrel]; reflexivity.
  - (* PTLRel *)
    unfold step. rewrite He, Hpc. cbn.
    assert (Hpr : o_proc (objs s o) = t_proc (thr s t)) by (apply (pr_pc _ F); rewrite Hpc; reflexivity).
    eapply (FD_tail s s); eauto; [repeat split| |now rewrite Hpc].
    eapply Tail_set_obj_pre; [| |apply Tail_enter_tlrel];
      destruct (tl_release_cases (objs s o)) as [(_ & _ & ->)|(_ & ->)]; reflexivity.
Qed.
