(* Case_C20.v — correspondence cases and trace monitor for C20
   (gather_excs / raise_first_exc).  Proofs are in GatherInv.v / props/C20.v. *)
From Coq Require Import List Arith NArith Bool.
Import ListNotations.
Require Import Aiuti.CaseLib Aiuti.Gather.

(* Observation of one run of the real code (harness/props/C20.py):
     oends   : per awaitable, in input order: (kind, tick), kind 0 = still pending
               when the script ended, 1 = ran to completion at [tick], 2 = cancelled at [tick]
     oyields : (exception id, tick, #awaitables completed at that moment) per
               yield of gather_excs, in order (empty in raise_first mode)
     ofin    : (kind, exception id, tick): 0 = consumer never finished,
               1 = generator exhausted / raise_first_exc returned None,
               2 = an exception came out (raise_first: the raised one),
               3 = raise_first_exc returned something that is not None *)
Record observed := mkobs {
  oends : list (nat * N);
  oyields : list (nat * N * nat);
  ofin : nat * nat * N
}.

(* raise_mode = false: async-for over gather_excs; true: await raise_first_exc *)
Inductive case :=
| Case (raise_mode : bool) (h : hier) (only : cls) (tcall : N) (aws : list aw) (o : observed).

Definition nN_eqb (p q : nat * N) : bool := Nat.eqb (fst p) (fst q) && N.eqb (snd p) (snd q).
Definition y_eqb (p q : nat * N * nat) : bool :=
  let '(a1, b1, c1) := p in let '(a2, b2, c2) := q in Nat.eqb a1 a2 && N.eqb b1 b2 && Nat.eqb c1 c2.
Definition fin_eqb (p q : nat * nat * N) : bool :=
  let '(a1, b1, c1) := p in let '(a2, b2, c2) := q in Nat.eqb a1 a2 && Nat.eqb b1 b2 && N.eqb c1 c2.
Definition obs_eqb (x y : observed) : bool :=
  list_eqb nN_eqb (oends x) (oends y) && list_eqb y_eqb (oyields x) (oyields y) && fin_eqb (ofin x) (ofin y).

(* ---- the model's trace -------------------------------------------------- *)
Fixpoint lookup_end (i : nat) (l : list (nat * N)) : nat * N :=
  match l with
  | [] => (0, 0%N)
  | (j, t) :: r => if Nat.eqb i j then (1, t) else lookup_end i r
  end.

Definition model_trace (raise_mode : bool) (h : hier) (only : cls) (tcall : N) (aws : list aw) : observed :=
  let s := grun aws tcall (schedule tcall aws) in
  let es := map (fun i => lookup_end i (clog s)) (seq 0 (length aws)) in
  if raise_mode then
    match raise_first_exc (isinst h) aws only tcall with
    | Some (t, Some e) => mkobs es [] (2, e, t)
    | Some (t, None) => mkobs es [] (1, 0, t)
    | None => mkobs es [] (0, 0, 0%N)
    end
  else
    match gather_excs (isinst h) aws only tcall with
    | Some (t, ys) => mkobs es (map (fun e => (e, t, length aws)) ys) (1, 0, t)
    | None => mkobs es [] (0, 0, 0%N)
    end.

Definition agree (c : case) : bool :=
  match c with
  | Case rm h only tcall aws o => obs_eqb (model_trace rm h only tcall aws) o
  end.

(* ---- monitor: the property decided on the observed trace ---------------- *)
(* own statement of "exactly the failures that are instances of only, in input order" *)
Definition wanted (h : hier) (only : cls) (aws : list aw) : list nat :=
  flat_map (fun a => match aout a with
                     | Raise c e => if isinst h c only then [e] else []
                     | Ret => []
                     end) aws.

(* every awaitable ran to completion (kind 1), no later than tick t *)
Definition all_done_by (t : N) (es : list (nat * N)) : bool :=
  forallb (fun p => Nat.eqb (fst p) 1 && (snd p <=? t)%N) es.

Definition ok (c : case) : bool :=
  match c with
  | Case rm h only tcall aws o =>
      let w := wanted h only aws in
      let '(fk, fe, ft) := ofin o in
      Nat.eqb (length (oends o)) (length aws) &&
      (* run to completion: nothing skipped or cancelled, and all before the consumer is told anything *)
      all_done_by ft (oends o) &&
      if rm then
        match w with
        | e :: _ => Nat.eqb fk 2 && Nat.eqb fe e
        | [] => Nat.eqb fk 1
        end
      else
        Nat.eqb fk 1 &&
        list_eqb Nat.eqb (map (fun y => fst (fst y)) (oyields o)) w &&
        forallb (fun y => all_done_by (snd (fst y)) (oends o) && Nat.eqb (snd y) (length aws)) (oyields o)
  end.

(* non-trivial: at least two awaitables, at least one failure, and either two
   failures or a finishing order that differs from the input order *)
Fixpoint sorted_N (l : list N) : bool :=
  match l with
  | a :: ((b :: _) as r) => (a <=? b)%N && sorted_N r
  | _ => true
  end.
Definition nontrivial (c : case) : bool :=
  match c with
  | Case rm h only tcall aws o =>
      let fails := length (filter (fun a => match aout a with Raise _ _ => true | Ret => false end) aws) in
      (2 <=? length aws) && (1 <=? fails) && ((2 <=? fails) || negb (sorted_N (ends tcall aws)))
  end.

Definition verdict := verdict3 agree ok nontrivial.
