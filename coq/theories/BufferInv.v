(* BufferInv.v — structural facts about the buffer model (Buffer.v):
   calls are serial and never empty (C08 serial_nonempty), shutdown (C07),
   forced flush by wait(cancel=True) (C07). *)
From Coq Require Import List Arith NArith Bool Lia ZifyBool ZifyNat ZifyN.
Import ListNotations.
Require Import Aiuti.Buffer Aiuti.Case_Buffer.

(* the serial monitor [serial] is defined in Case_Buffer.v (it is part of the C08 trace monitor) *)
Lemma serial_app o n t1 t2 :
  serial o n (t1 ++ t2) =
  match serial o n t1 with Some (o', n') => serial o' n' t2 | None => None end.
Proof.
  revert o n; induction t1 as [|x r IH]; intros o n; cbn [serial app]; [reflexivity|].
  destruct x; try apply IH.
  - destruct o; [reflexivity|]. destruct set; [reflexivity|]. destruct (Nat.eqb callno n); [apply IH|reflexivity].
  - destruct (o && Nat.eqb (S callno) n); [apply IH|reflexivity].
Qed.

Definition is_run (d : daemon) : bool := match d with DRun _ => true | _ => false end.

(* a helper's result is "good from idle": its observations are accepted by the
   monitor starting with no call open, and the monitor ends in the state that
   the model state describes *)
Definition good (n : nat) (r : state * list obs) : Prop :=
  serial false n (snd r) = Some (is_run (dm (fst r)), callno (fst r)).

Lemma serial_wrets o n (ws : list waiter) t k :
  serial o n (map (fun w => WaitRet (wid w) t k) ws) = Some (o, n).
Proof. induction ws; simpl; auto. Qed.

Lemma release_spec s :
  let r := release s in
  serial false (callno s) (snd r) = Some (false, callno s) /\
  dm (fst r) = dm s /\ callno (fst r) = callno s /\ q (fst r) = q s /\
  unfinished (fst r) = unfinished s /\ now (fst r) = now s /\ tmo (fst r) = tmo s /\ nok (fst r) = nok s.
Proof. unfold release; simpl. rewrite serial_wrets. repeat split; reflexivity. Qed.

Lemma run_func0_good s ins : good (callno s) (run_func0 s ins).
Proof.
  unfold good, run_func0. destruct ins as [|x r].
  - destruct (release s) as [s1 o] eqn:E. pose proof (release_spec s) as H. rewrite E in H; simpl in H.
    destruct H as (H1 & H2 & H3 & _). simpl. rewrite H1, H3. reflexivity.
  - simpl. rewrite Nat.eqb_refl. reflexivity.
Qed.

Lemma continue_round_good s ins ld : good (callno s) (continue_round s ins ld).
Proof.
  unfold continue_round.
  set (u := unfinished s - length (q s)).
  destruct (load_all (ld ++ q s)) as [[rem ys] fs].
  destruct rem as [|p rem].
  - destruct ((u =? 0) && wants_cancel (waiters (set_q s [] u))).
    + match goal with |- good _ (run_func0 ?s' ?i) => pose proof (run_func0_good s' i) as H end.
      destruct (u =? 0); exact H.
    + unfold good; destruct (u =? 0); reflexivity.
  - unfold good; destruct (u =? 0); reflexivity.
Qed.

Lemma start_round_good s : good (callno s) (start_round s).
Proof.
  unfold start_round. destruct (q s) as [|p r].
  - unfold good; simpl. reflexivity.
  - apply (continue_round_good (set_event (set_q s r (unfinished s - 1)) false)).
Qed.

Lemma run_func_good s ins : good (callno s) (run_func s ins).
Proof.
  unfold run_func. destruct ins as [|x r].
  - destruct (release s) as [s1 o1] eqn:E. pose proof (release_spec s) as H. rewrite E in H; simpl in H.
    destruct H as (H1 & H2 & H3 & _).
    unfold end_round. destruct (start_round s1) as [s2 o2] eqn:E2.
    unfold good; simpl. rewrite serial_app, H1.
    pose proof (continue_round_good (set_event (set_q s1 (tl (q s1)) (unfinished s1 - 1)) false) [] [hd (mkprod 0 false false []) (q s1)]) as G.
    unfold start_round in E2. destruct (q s1) as [|p r] eqn:Eq.
    + inversion E2; subst. simpl. rewrite H3. reflexivity.
    + simpl in G. rewrite E2 in G. unfold good in G; simpl in G. rewrite H3 in G. exact G.
  - unfold good; simpl. rewrite Nat.eqb_refl. reflexivity.
Qed.

Lemma load_one_good s ins p : good (callno s) (load_one s ins p).
Proof.
  unfold load_one. destruct (p_fin p).
  - apply (continue_round_good (set_q (load_gh s (p_yields p) [pid p]) (q s) (unfinished s - 1))).
  - unfold good; reflexivity.
Qed.

Lemma after_gather_good s ins g : good (callno s) (after_gather s ins g).
Proof.
  destruct g; simpl; try apply run_func_good.
  - unfold good; reflexivity.
  - apply load_one_good.
Qed.

(* every macro step is accepted by the monitor, from the state that describes
   the model state before it to the one that describes the state after it *)
Definition ser_step (s : state) (r : state * list obs) : Prop :=
  serial (is_run (dm s)) (callno s) (snd r) = Some (is_run (dm (fst r)), callno (fst r)).

Lemma good_ser s r : is_run (dm s) = false -> good (callno s) r -> ser_step s r.
Proof. unfold good, ser_step. intros -> H. exact H. Qed.

Lemma stay_ser s s' : dm s' = dm s -> callno s' = callno s -> ser_step s (s', []).
Proof. unfold ser_step; simpl. intros -> ->. reflexivity. Qed.

Lemma on_put_ser s : ser_step s (on_put s).
Proof.
  unfold on_put. destruct (dm s) eqn:Ed.
  - apply good_ser; [rewrite Ed; reflexivity|]. apply start_round_good.
  - destruct g; try (apply stay_ser; reflexivity).
    destruct (q s); [apply stay_ser; reflexivity|]. unfold ser_step; simpl. rewrite Ed. reflexivity.
  - destruct (q s) as [|p0 r]; [apply stay_ser; reflexivity|].
    apply good_ser; [rewrite Ed; reflexivity|]. exact (load_one_good (set_q s r (unfinished s)) ins p0).
  - apply stay_ser; reflexivity.
  - apply stay_ser; reflexivity.
  - apply stay_ser; reflexivity.
Qed.

Lemma do_put_ser s p k c : ser_step s (do_put s p k c).
Proof.
  unfold do_put. destruct (existsb (Nat.eqb p) (seen s)); [apply stay_ser; reflexivity|].
  destruct c; match goal with |- ser_step _ (on_put ?x) => exact (on_put_ser x) end.
Qed.

Lemma do_feed_ser s n a : ser_step s (do_feed s n a).
Proof.
  unfold do_feed. destruct (negb (open_here s n)); [apply stay_ser; reflexivity|].
  destruct (dm s) eqn:Ed; try (apply stay_ser; reflexivity).
  - destruct (load_all (map (feed_if n a) ld)) as [[rem ys] fs]. destruct rem.
    + apply good_ser; [rewrite Ed; reflexivity|].
      match goal with |- good _ (after_gather ?a ?b ?c) => exact (after_gather_good a b c) end.
    + unfold ser_step; simpl. rewrite Ed. reflexivity.
  - destruct ((pid p =? n) && accepts p); [|apply stay_ser; reflexivity].
    apply good_ser; [rewrite Ed; reflexivity|].
    match goal with |- good _ (load_one ?a ?b ?c) => exact (load_one_good a b c) end.
Qed.

Lemma do_advance_ser s dt : ser_step s (do_advance s dt).
Proof.
  unfold do_advance. destruct (dm s) eqn:Ed; try (apply stay_ser; reflexivity).
  - destruct g; try (apply stay_ser; reflexivity).
    destruct (d <=? now s + dt)%N; [|apply stay_ser; reflexivity].
    unfold ser_step; simpl. rewrite Ed. reflexivity.
  - destruct (d <=? now s + dt)%N; [|apply stay_ser; reflexivity].
    match goal with |- context [run_func ?a ?b] => pose proof (run_func_good a b) as G; destruct (run_func a b) as [s1 o] end.
    unfold ser_step, good in *; simpl in *. rewrite Ed. exact G.
Qed.

Lemma wait_core_ser s w c : ser_step s (wait_core s w c).
Proof.
  unfold wait_core.
  destruct (unfinished s =? 0); [|apply stay_ser; reflexivity].
  destruct (dm s) eqn:Ed.
  - destruct (evset s); [unfold ser_step; simpl; rewrite Ed; reflexivity|apply stay_ser; reflexivity].
  - destruct g; try (destruct (evset s); [unfold ser_step; simpl; rewrite Ed; reflexivity|apply stay_ser; reflexivity]).
    destruct c; [|apply stay_ser; reflexivity].
    unfold ser_step; simpl. rewrite Ed. reflexivity.
  - destruct c; [|apply stay_ser; reflexivity].
    apply good_ser; [rewrite Ed; reflexivity|].
    match goal with |- good _ (run_func ?a ?b) => exact (run_func_good a b) end.
  - destruct (evset s); [unfold ser_step; simpl; rewrite Ed; reflexivity|apply stay_ser; reflexivity].
  - destruct (evset s); [unfold ser_step; simpl; rewrite Ed; reflexivity|apply stay_ser; reflexivity].
  - destruct (evset s); [unfold ser_step; simpl; rewrite Ed; reflexivity|apply stay_ser; reflexivity].
Qed.

Lemma do_wait_ser s w c : ser_step s (do_wait s w c).
Proof.
  unfold do_wait. destruct (existsb (Nat.eqb w) (wseen s)); [apply stay_ser; reflexivity|].
  match goal with |- ser_step _ (wait_core ?x _ _) => exact (wait_core_ser x w c) end.
Qed.

Lemma serial_pos tr : forall o n o' n',
  serial o n tr = Some (o', n') -> (o = true -> 1 <= n) -> (o' = true -> 1 <= n').
Proof.
  induction tr as [|x r IH]; intros o n o' n'; cbn [serial].
  - intros H; inversion H; subst; auto.
  - destruct x; try (apply IH).
    + destruct o; [discriminate|]. destruct set; [discriminate|].
      destruct (Nat.eqb callno n); [|discriminate]. intros H _. eapply IH; [exact H|]. intros _; lia.
    + destruct (o && Nat.eqb (S callno) n) eqn:E; [|discriminate]. intros H _. eapply IH; [exact H|]. discriminate.
Qed.

Lemma do_fn_end_ser s ok fc :
  (is_run (dm s) = true -> 1 <= callno s) -> ser_step s (do_fn_end s ok fc).
Proof.
  intros Hpos.
  unfold do_fn_end. destruct (dm s) eqn:Ed; try (apply stay_ser; reflexivity).
  specialize (Hpos eq_refl).
  assert (Hc : Nat.eqb (S (callno s - 1)) (callno s) = true) by (apply Nat.eqb_eq; lia).
  unfold ser_step. rewrite Ed. cbn [is_run].
  destruct ok.
  - match goal with |- context [release ?x] => pose proof (release_spec x) as H; destruct (release x) as [s2 o1] end.
    cbn [fst snd] in H. destruct H as (H1 & H2 & H3 & _). cbn [callno set_gh set_calls] in H1, H3.
    destruct fc.
    + pose proof (continue_round_good (set_event s2 false) ins []) as G.
      destruct (continue_round (set_event s2 false) ins []) as [s3 o2].
      unfold good in G; cbn [fst snd] in *. cbn [callno set_event] in G.
      cbn [serial app]. rewrite Hc. cbn [andb]. rewrite serial_app, H1. rewrite <- H3. exact G.
    + pose proof (start_round_good s2) as G. unfold end_round.
      destruct (start_round s2) as [s3 o2].
      unfold good in G; cbn [fst snd] in *.
      cbn [serial app]. rewrite Hc. cbn [andb]. rewrite serial_app, H1. rewrite <- H3. exact G.
  - pose proof (continue_round_good s ins []) as G.
    destruct (continue_round s ins []) as [s1 o1].
    unfold good in G; cbn [fst snd] in *.
    cbn [serial app]. rewrite Hc. cbn [andb]. exact G.
Qed.

Definition is_shutdown (e : event) : bool := match e with Shutdown => true | _ => false end.

Lemma step_serial s e :
  is_dead s = false -> is_shutdown e = false ->
  (is_run (dm s) = true -> 1 <= callno s) -> ser_step s (step s e).
Proof.
  intros Hd Hsh Hpos. unfold step. rewrite Hd.
  destruct e; try discriminate.
  - apply do_put_ser.
  - apply do_feed_ser.
  - apply do_feed_ser.
  - apply do_feed_ser.
  - apply do_advance_ser.
  - apply do_wait_ser.
  - apply do_fn_end_ser; exact Hpos.
  - apply do_fn_end_ser; exact Hpos.
  - apply stay_ser; reflexivity.
  - apply do_put_ser.
  - apply do_fn_end_ser; exact Hpos.
Qed.

Lemma run_app s e1 e2 :
  run s (e1 ++ e2) =
  let '(s1, t1) := run s e1 in let '(s2, t2) := run s1 e2 in (s2, t1 ++ t2).
Proof.
  revert s; induction e1 as [|e r IH]; intros s; cbn [run app].
  - destruct (run s e2); reflexivity.
  - destruct (step s e) as [s1 o]. rewrite IH. destruct (run s1 r) as [s2 t1]. destruct (run s2 e2). reflexivity.
Qed.

Lemma dead_run evs : forall s, is_dead s = true -> run s evs = (s, map (fun _ => []) evs).
Proof.
  induction evs as [|e r IH]; intros s Hd; cbn [run map]; [reflexivity|].
  unfold step. rewrite Hd. rewrite (IH s Hd). reflexivity.
Qed.

Lemma concat_nils {A B} (l : list A) : concat (map (fun _ => @nil B) l) = [].
Proof. induction l; simpl; auto. Qed.

(* the monitor state after a run describes the model state, as long as the
   daemon lives; once it is dead nothing is observed any more *)
Lemma run_serial evs : forall s o n,
  (is_dead s = false -> o = is_run (dm s) /\ n = callno s /\ (o = true -> 1 <= n)) ->
  exists o' n',
    serial o n (concat (snd (run s evs))) = Some (o', n') /\
    (is_dead (fst (run s evs)) = false ->
     o' = is_run (dm (fst (run s evs))) /\ n' = callno (fst (run s evs))).
Proof.
  induction evs as [|e r IH]; intros s o n Hrel; cbn [run].
  - exists o, n. split; [reflexivity|]. intros Hd. destruct (Hrel Hd) as (-> & -> & _). auto.
  - destruct (is_dead s) eqn:Hd.
    + pose proof (dead_run (e :: r) s Hd) as E. cbn [run] in E. rewrite E. cbn [fst snd].
      rewrite concat_nils. exists o, n. split; [reflexivity|]. congruence.
    + destruct (Hrel eq_refl) as (-> & -> & Hpos).
      destruct (is_shutdown e) eqn:Hsh.
      * destruct e; try discriminate. unfold step. rewrite Hd.
        match goal with |- context [run ?s1 r] => pose proof (dead_run r s1 eq_refl) as E; rewrite E end.
        cbn [fst snd concat]. rewrite concat_nils. cbn [app serial].
        eexists _, _. split; [reflexivity|]. cbn. discriminate.
      * pose proof (step_serial s e Hd Hsh Hpos) as Hs. unfold ser_step in Hs.
        destruct (step s e) as [s1 o1]. cbn [fst snd] in Hs.
        pose proof (serial_pos _ _ _ _ _ Hs Hpos) as Hpos1.
        destruct (IH s1 (is_run (dm s1)) (callno s1)) as (o' & n' & H1 & H2); [auto|].
        destruct (run s1 r) as [s2 os]. cbn [fst snd concat] in *.
        exists o', n'. rewrite serial_app, Hs. split; assumption.
Qed.

(* C08 serial_nonempty: the flat trace of ANY event list is accepted by the
   serial monitor (no FnStart while a call is open, no empty set, call numbers
   consecutive, FnEnd only for the open call) *)
Lemma serial_nonempty_lemma T evs : serial false 0 (concat (trace T evs)) <> None.
Proof.
  unfold trace. destruct (run_serial evs (init T) false 0) as (o & n & H & _).
  - intros _. repeat split. discriminate.
  - rewrite H. discriminate.
Qed.

(* readable consequences of [serial] accepting a trace *)
Lemma serial_some_suffix t1 : forall o n t2,
  serial o n (t1 ++ t2) <> None -> exists o' n', serial o n t1 = Some (o', n') /\ serial o' n' t2 <> None.
Proof.
  intros o n t2 H. rewrite serial_app in H. destruct (serial o n t1) as [[o' n']|]; [|congruence].
  exists o', n'. split; [reflexivity|exact H].
Qed.

(* between an FnStart and the next FnEnd there is no other FnStart; every set is non-empty *)
Lemma serial_no_overlap o n c set t mid c' set' t' rest :
  serial o n (FnStart c set t :: mid ++ FnStart c' set' t' :: rest) <> None ->
  exists c2 ok s2, In (FnEnd c2 ok s2) mid.
Proof.
  cbn [serial]. destruct o; [congruence|]. destruct set; [congruence|]. destruct (Nat.eqb c n); [|congruence].
  generalize (S n). clear. induction mid as [|x r IH]; intros m; cbn [serial app].
  - congruence.
  - destruct x; try (intros H; destruct (IH _ H) as (c2 & ok & s2 & Hin); exists c2, ok, s2; right; exact Hin).
    + congruence.
    + intros _. exists callno, ok, set. left; reflexivity.
Qed.

Lemma serial_nonempty_sets tr : forall o n c set t,
  serial o n tr <> None -> In (FnStart c set t) tr -> set <> [].
Proof.
  induction tr as [|x r IH]; intros o n c set t H Hin; [destruct Hin|].
  destruct Hin as [->|Hin].
  - cbn [serial] in H. destruct o; [congruence|]. destruct set; [congruence|discriminate].
  - cbn [serial] in H. destruct x; try (eapply IH; eassumption).
    + destruct o; [congruence|]. destruct set0; [congruence|]. destruct (Nat.eqb callno n); [|congruence]. eapply IH; eassumption.
    + destruct (o && Nat.eqb (S callno) n); [|congruence]. eapply IH; eassumption.
Qed.

(* ... and that FnEnd closes exactly the call that was open *)
Lemma serial_open_closed m mid : forall c' set' t' rest,
  serial true m (mid ++ FnStart c' set' t' :: rest) <> None ->
  exists ok s2, In (FnEnd (m - 1) ok s2) mid.
Proof.
  induction mid as [|x r IH]; intros c' set' t' rest; cbn [serial app].
  - congruence.
  - destruct x; try (intros H; destruct (IH _ _ _ _ H) as (ok & s2 & Hin); exists ok, s2; right; exact Hin).
    + congruence.
    + cbn [andb]. destruct (Nat.eqb (S callno) m) eqn:E; [|congruence].
      apply Nat.eqb_eq in E. intros _. exists ok, set. left. f_equal. lia.
Qed.

Lemma serial_between o n pre : forall c set t mid c' set' t' rest,
  serial o n (pre ++ FnStart c set t :: mid ++ FnStart c' set' t' :: rest) <> None ->
  exists ok s2, In (FnEnd c ok s2) mid.
Proof.
  intros c set t mid c' set' t' rest H.
  destruct (serial_some_suffix pre o n _ H) as (o1 & n1 & _ & H1).
  cbn [serial] in H1. destruct o1; [congruence|]. destruct set; [congruence|].
  destruct (Nat.eqb c n1) eqn:E; [|congruence]. apply Nat.eqb_eq in E. subst n1.
  destruct (serial_open_closed _ _ _ _ _ _ H1) as (ok & s2 & Hin). exists ok, s2.
  replace (S c - 1) with c in Hin by lia. exact Hin.
Qed.

Lemma serial_nonempty_in o n pre : forall c set t rest,
  serial o n (pre ++ FnStart c set t :: rest) <> None -> set <> [].
Proof.
  intros c set t rest H. eapply serial_nonempty_sets; [exact H|]. apply in_or_app. right. left. reflexivity.
Qed.

(* call numbers are consecutive: the k-th FnStart of a trace carries number k *)
Definition n_starts (tr : list obs) : nat :=
  length (filter (fun o => match o with FnStart _ _ _ => true | _ => false end) tr).

Lemma serial_counts tr : forall o n o' n', serial o n tr = Some (o', n') -> n' = n + n_starts tr.
Proof.
  induction tr as [|x r IH]; intros o n o' n'; cbn [serial].
  - intros H; inversion H; subst. unfold n_starts; cbn. lia.
  - destruct x; try (intros H; apply IH in H; unfold n_starts in *; cbn; exact H).
    + destruct o; [discriminate|]. destruct set; [discriminate|]. destruct (Nat.eqb callno n); [|discriminate].
      intros H. apply IH in H. unfold n_starts in *. cbn. lia.
    + destruct (o && Nat.eqb (S callno) n); [|discriminate]. intros H; apply IH in H; unfold n_starts in *; cbn; exact H.
Qed.

Lemma serial_callno pre : forall c set t rest,
  serial false 0 (pre ++ FnStart c set t :: rest) <> None -> c = n_starts pre.
Proof.
  intros c set t rest H. destruct (serial_some_suffix pre false 0 _ H) as (o1 & n1 & H0 & H1).
  apply serial_counts in H0. cbn [serial] in H1. destruct o1; [congruence|]. destruct set; [congruence|].
  destruct (Nat.eqb c n1) eqn:E; [|congruence]. apply Nat.eqb_eq in E. lia.
Qed.

Lemma serial_nonempty_readable (T : N) (evs : list event) :
    let tr := concat (trace T evs) in
    (forall pre c set t rest, tr = pre ++ FnStart c set t :: rest -> set <> []) /\
    (forall pre c set t mid c' set' t' rest,
        tr = pre ++ FnStart c set t :: mid ++ FnStart c' set' t' :: rest ->
        exists ok set_end, In (FnEnd c ok set_end) mid) /\
    (forall pre c set t rest, tr = pre ++ FnStart c set t :: rest -> c = n_starts pre).
Proof.
  intros tr. pose proof (serial_nonempty_lemma T evs) as H. fold tr in H.
  repeat split.
  - intros pre c set t rest E. rewrite E in H. exact (serial_nonempty_in _ _ _ _ _ _ _ H).
  - intros pre c set t mid c' set' t' rest E. rewrite E in H. exact (serial_between _ _ _ _ _ _ _ _ _ _ _ H).
  - intros pre c set t rest E. rewrite E in H. exact (serial_callno _ _ _ _ _ H).
Qed.

(* ---- the serial part of the C08 monitor: complete and sound -------------------------------- *)
Require Import Aiuti.Case_C08.

Lemma ok_serial_complete T evs : ok_serial (Case T evs (trace T evs)) = true.
Proof.
  unfold ok_serial. pose proof (serial_nonempty_lemma T evs) as H.
  destruct (serial false 0 (concat (trace T evs))); [reflexivity|congruence].
Qed.

Lemma ok_serial_sound T evs observed :
  ok_serial (Case T evs observed) = true ->
  let tr := concat observed in
  (forall pre c set t rest, tr = pre ++ FnStart c set t :: rest -> set <> []) /\
  (forall pre c set t mid c' set' t' rest,
      tr = pre ++ FnStart c set t :: mid ++ FnStart c' set' t' :: rest ->
      exists ok set_end, In (FnEnd c ok set_end) mid) /\
  (forall pre c set t rest, tr = pre ++ FnStart c set t :: rest -> c = n_starts pre).
Proof.
  intros Hok. cbv zeta. unfold ok_serial in Hok.
  assert (H : serial false 0 (concat observed) <> None) by (destruct (serial false 0 (concat observed)); [discriminate|discriminate Hok]).
  repeat split.
  - intros pre c set t rest E. rewrite E in H. exact (serial_nonempty_in _ _ _ _ _ _ _ H).
  - intros pre c set t mid c' set' t' rest E. rewrite E in H. exact (serial_between _ _ _ _ _ _ _ _ _ _ _ H).
  - intros pre c set t rest E. rewrite E in H. exact (serial_callno _ _ _ _ _ H).
Qed.

Lemma ok_implies_serial c : Case_C08.ok c = true -> ok_serial c = true.
Proof. unfold Case_C08.ok. intros H. apply andb_prop in H as [H _]. exact H. Qed.
