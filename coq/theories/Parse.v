(* Parse.v — executable model of aiuti/parsing.py:14-91 : parse_to_dict.
   MODEL ONLY (no proofs here).

   Strings are lists of character codes.  Objects are either strings (exact
   type str) or opaque values [OVal vid kcls hashable]: [vid] identifies the
   value (type + repr, or the identity of a harness object), [kcls] is its class
   under Python's ==/hash as a dict key (1 == 1.0 == True are one class),
   [hashable] says whether hash() succeeds.  A str never equals a non-str.

   The parser ([ast.literal_eval] by default, or the caller's callable) is an
   ORACLE: [parse : str -> option obj], [None] = it raised (anything).

   Modelled, not verified: str.split(sep, 1), dict construction from an
   iterable of pairs (insertion ordered; on an equal key the first key object
   and its position are kept, the value is replaced), map's laziness (pairs are
   produced and inserted one at a time, so the first failing item decides the
   exception and later items are never looked at). *)
From Coq Require Import List Arith Bool.
Import ListNotations.

Definition str := list nat.

Fixpoint str_eqb (a b : str) : bool :=
  match a, b with
  | [], [] => true
  | x :: a', y :: b' => Nat.eqb x y && str_eqb a' b'
  | _, _ => false
  end.

Inductive obj :=
| OStr (s : str)
| OVal (vid kcls : nat) (hashable : bool).

Definition key_eqb (x y : obj) : bool :=
  match x, y with
  | OStr a, OStr b => str_eqb a b
  | OVal _ c1 _, OVal _ c2 _ => Nat.eqb c1 c2
  | _, _ => false
  end.

Definition hashable (x : obj) : bool :=
  match x with OStr _ => true | OVal _ _ h => h end.

(* ---- str.split(sep, 1) ---------------------------------------------------- *)

(* [strip_prefix p s] = Some r  iff  s = p ++ r *)
Fixpoint strip_prefix (p s : str) : option str :=
  match p, s with
  | [], _ => Some s
  | a :: p', b :: s' => if Nat.eqb a b then strip_prefix p' s' else None
  | _ :: _, [] => None
  end.

(* split at the FIRST occurrence of sep (naive left-to-right search) *)
Fixpoint split_once (sep s : str) : option (str * str) :=
  match strip_prefix sep s with
  | Some rest => Some ([], rest)
  | None =>
      match s with
      | [] => None
      | c :: s' =>
          match split_once sep s' with
          | Some (k, v) => Some (c :: k, v)
          | None => None
          end
      end
  end.

(* k, v = pair.split(sep, 1): None = ValueError (an empty separator makes
   str.split raise ValueError; no occurrence makes the unpacking raise it) *)
Definition split_py (sep s : str) : option (str * str) :=
  match sep with
  | [] => None
  | _ => split_once sep s
  end.

(* ---- dict ------------------------------------------------------------------ *)
Definition dict := list (obj * obj).

(* d[k] = v *)
Fixpoint dict_set (d : dict) (k v : obj) : dict :=
  match d with
  | [] => [(k, v)]
  | (k0, v0) :: r => if key_eqb k0 k then (k0, v) :: r else (k0, v0) :: dict_set r k v
  end.

Inductive item :=
| IStr (s : str)              (* a 'key<sep>value' string *)
| IPair (k v : obj).          (* a (key, value) pair / a mapping entry *)

Inductive result :=
| Ok (d : dict)
| ErrNotKV (i : nat)          (* ValueError("<item i> is not like KEY<sep>VALUE") *)
| ErrUnhashable (i : nat)     (* TypeError from dict(): the parsed key of item i is unhashable *)
| ErrOther (k : nat).         (* anything else; never produced by the model *)

Section Model.
  Variable parse : str -> option obj.
  Variable sep : str.
  Variable parse_keys : bool.

  (* parsing.py:62-68 *)
  Definition try_parse (x : obj) : obj :=
    match x with
    | OStr s => match parse s with
                | Some o => o          (* return parse(x) *)
                | None => x            (* except: pass ; return x *)
                end
    | _ => x                           (* not a str: returned untouched *)
    end.

  (* parsing.py:70-75 *)
  Definition parse_tuple (k v : obj) : obj * obj :=
    if parse_keys then (try_parse k, try_parse v) else (k, try_parse v).

  (* the unparsed (key, value) of an item; None = ValueError (parsing.py:78-84) *)
  Definition kv_of (it : item) : option (obj * obj) :=
    match it with
    | IStr s => match split_py sep s with
                | Some (k, v) => Some (OStr k, OStr v)
                | None => None
                end
    | IPair k v => Some (k, v)
    end.

  (* parsing.py:77-85 *)
  Definition parse_pair (it : item) : option (obj * obj) :=
    match kv_of it with
    | Some (k, v) => Some (parse_tuple k v)
    | None => None
    end.

  (* dict(map(parse_pair, items)), parsing.py:91, one item at a time *)
  Fixpoint build (i : nat) (items : list item) (d : dict) : result :=
    match items with
    | [] => Ok d
    | it :: rest =>
        match parse_pair it with
        | None => ErrNotKV i
        | Some (k, v) => if hashable k then build (S i) rest (dict_set d k v) else ErrUnhashable i
        end
    end.

  Definition parse_to_dict (items : list item) : result := build 0 items [].

  (* ghost: the strings handed to the parser, in call order *)
  Definition tp_calls (x : obj) : list str := match x with OStr s => [s] | _ => [] end.
  Definition pair_calls (k v : obj) : list str :=
    (if parse_keys then tp_calls k else []) ++ tp_calls v.
  Fixpoint calls (items : list item) : list str :=
    match items with
    | [] => []
    | it :: rest =>
        match kv_of it with
        | None => []
        | Some (k, v) =>
            pair_calls k v ++ (if hashable (fst (parse_tuple k v)) then calls rest else [])
        end
    end.
End Model.

(* ---- finite oracle table used by the correspondence ---------------------- *)
Definition table := list (str * option obj).
Fixpoint lookup (t : table) (s : str) : option obj :=
  match t with
  | [] => None
  | (k, r) :: rest => if str_eqb k s then r else lookup rest s
  end.
