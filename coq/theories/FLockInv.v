(* FLockInv.v — inductive invariants of the FileLock model (FLock.v), for ALL
   event lists (steps of any thread, time advances, crashes) and ALL fault scripts.

   Part 1 (thread-lock accounting): who owns an object's thread lock and how
   many levels each thread is entitled to.                                     *)
From Coq Require Import List Arith NArith Bool Lia ZifyBool.
Import ListNotations.
Require Import Aiuti.FLock.

Local Arguments Nat.max : simpl never.

(* ---------- generic helpers ------------------------------------------------- *)

Lemma upd_same {A} (f : nat -> A) k v : upd f k v k = v.
Proof. unfold upd. now rewrite Nat.eqb_refl. Qed.

Lemma upd_other {A} (f : nat -> A) k v x : x <> k -> upd f k v x = f x.
Proof. unfold upd. intros H. destruct (Nat.eqb_spec x k); congruence. Qed.

Definition occ (l : list oid) (o : oid) : nat := count_occ Nat.eq_dec l o.
Arguments occ : simpl never.

Lemma occ_cons x l o : occ (x :: l) o = (if Nat.eqb x o then 1 else 0) + occ l o.
Proof. unfold occ. simpl. destruct (Nat.eq_dec x o), (Nat.eqb_spec x o); try congruence; lia. Qed.

Lemma occ_remove_all_same l o : occ (remove_all o l) o = 0.
Proof.
  induction l as [|x r IH]; [reflexivity|]. unfold remove_all in *. simpl.
  destruct (Nat.eqb_spec x o); simpl; [exact IH|]. rewrite occ_cons.
  destruct (Nat.eqb_spec x o); [congruence|]. simpl. exact IH.
Qed.

Lemma occ_remove_all_other l o o' : o' <> o -> occ (remove_all o l) o' = occ l o'.
Proof.
  intros H. induction l as [|x r IH]; [reflexivity|]. unfold remove_all in *. simpl.
  destruct (Nat.eqb_spec x o); simpl.
  - rewrite occ_cons. subst. destruct (Nat.eqb_spec o o'); [congruence|]. simpl. exact IH.
  - rewrite !occ_cons. now rewrite IH.
Qed.

Lemma occ_remove_one_same l o : occ (remove_one o l) o = pred (occ l o).
Proof.
  induction l as [|x r IH]; [reflexivity|]. simpl. rewrite occ_cons.
  destruct (Nat.eqb_spec x o); simpl; [reflexivity|]. rewrite occ_cons.
  destruct (Nat.eqb_spec x o); [congruence|]. simpl. exact IH.
Qed.

Lemma occ_remove_one_other l o o' : o' <> o -> occ (remove_one o l) o' = occ l o'.
Proof.
  intros H. induction l as [|x r IH]; [reflexivity|]. simpl.
  destruct (Nat.eqb_spec x o); simpl.
  - rewrite occ_cons. subst. destruct (Nat.eqb_spec o o'); [congruence|]. reflexivity.
  - rewrite !occ_cons. now rewrite IH.
Qed.

Lemma occ_pos_in l o : 0 < occ l o <-> In o l.
Proof. unfold occ. symmetry. apply count_occ_In. Qed.

(* ---------- Part 1: thread-lock accounting ------------------------------------ *)

(* levels of o's thread lock that thread-local state (pc) still accounts for *)
Definition rel_need (p : pc) (o : oid) : nat :=
  match p with
  | POpen a | PFlock a _ | PCloseF a _ _ | PSleep a _ | PCleanRel a _ => if Nat.eqb (a_o a) o then 1 else 0
  | PUnlock o' _ k | PCloseR o' _ k | PTLRel o' k => if Nat.eqb o' o then Nat.max 1 k else 0
  | _ => 0
  end.

(* thread-lock releases of o that are imminent (counter already adjusted) *)
Definition tail_need (p : pc) (o : oid) : nat :=
  match p with
  | PCleanRel a _ => if Nat.eqb (a_o a) o then 1 else 0
  | PTLRel o' k => if Nat.eqb o' o then Nat.max 1 k else 0
  | _ => 0
  end.

(* an acquire of o is in progress after the thread lock was taken *)
Definition inacq (p : pc) (o : oid) : nat :=
  match p with
  | POpen a | PFlock a _ | PCloseF a _ _ | PSleep a _ => if Nat.eqb (a_o a) o then 1 else 0
  | _ => 0
  end.

(* the OS lock of o is being dropped *)
Definition unl (p : pc) (o : oid) : bool :=
  match p with
  | PUnlock o' _ _ | PCloseR o' _ _ => Nat.eqb o' o
  | _ => false
  end.

Definition lev (s : state) (t : tid) (o : oid) : nat :=
  occ (t_cs (thr s t)) o + rel_need (t_pc (thr s t)) o.

Record TL (s : state) : Prop := mkTL {
  tl_L : forall t o, 0 < lev s t o ->
           o_own (objs s o) = Some t /\ lev s t o <= o_dep (objs s o);
  tl_free : forall o, o_own (objs s o) = None -> o_dep (objs s o) = 0 /\ o_cnt (objs s o) = 0;
  tl_owned : forall o t, o_own (objs s o) = Some t ->
           1 <= o_dep (objs s o) /\ (o_reent (objs s o) = false -> o_dep (objs s o) = 1)
           /\ o_cnt (objs s o) <= o_dep (objs s o);
  tl_tail : forall t o, 0 < tail_need (t_pc (thr s t)) o ->
           o_cnt (objs s o) + tail_need (t_pc (thr s t)) o <= o_dep (objs s o);
  tl_occ : forall t o, o_own (objs s o) = Some t ->
           occ (t_cs (thr s t)) o + inacq (t_pc (thr s t)) o <= o_cnt (objs s o);
  tl_unl : forall t o, unl (t_pc (thr s t)) o = true -> occ (t_cs (thr s t)) o = 0
}.

Ltac eqb_cases :=
  repeat match goal with
  | |- context [Nat.eqb ?a ?b] => destruct (Nat.eqb_spec a b); subst
  | H : context [Nat.eqb ?a ?b] |- _ => destruct (Nat.eqb_spec a b); subst
  end.

Lemma tail_le_need p o : tail_need p o <= rel_need p o.
Proof. destruct p; simpl; lia. Qed.

Lemma inacq_need p o : inacq p o <= rel_need p o.
Proof. destruct p; simpl; lia. Qed.

Lemma unl_need p o : unl p o = true -> 1 <= rel_need p o.
Proof. destruct p; simpl; try discriminate; intros ->; lia. Qed.

(* what the (stepping thread, touched object) pair must satisfy afterwards *)
Definition local_ok (ob : obj) (th : thread) (t0 : tid) (o0 : oid) : Prop :=
  (unl (t_pc th) o0 = true -> occ (t_cs th) o0 = 0) /\
  match o_own ob with
  | None => o_dep ob = 0 /\ o_cnt ob = 0 /\ occ (t_cs th) o0 + rel_need (t_pc th) o0 = 0
  | Some u => u = t0 /\ 1 <= o_dep ob /\ (o_reent ob = false -> o_dep ob = 1) /\ o_cnt ob <= o_dep ob
              /\ occ (t_cs th) o0 + rel_need (t_pc th) o0 <= o_dep ob
              /\ (0 < tail_need (t_pc th) o0 -> o_cnt ob + tail_need (t_pc th) o0 <= o_dep ob)
              /\ occ (t_cs th) o0 + inacq (t_pc th) o0 <= o_cnt ob
  end.

(* A step of t0 that touches only thread t0 and object o0, whose thread lock is
   free or owned by t0 before, preserves TL if the pair is locally fine. *)
Lemma TL_local s s' t0 o0 :
  TL s ->
  (o_own (objs s o0) = Some t0 \/ o_own (objs s o0) = None) ->
  (forall o, o <> o0 -> objs s' o = objs s o) ->
  (forall t, t <> t0 -> thr s' t = thr s t) ->
  (forall o, o <> o0 -> occ (t_cs (thr s' t0)) o = occ (t_cs (thr s t0)) o
                        /\ rel_need (t_pc (thr s' t0)) o = 0) ->
  local_ok (objs s' o0) (thr s' t0) t0 o0 ->
  TL s'.
Proof.
  intros [HL Hf Ho Ht Hc Hu] Hown Hobj Hthr Hoth [Hlu Hloc].
  assert (Hnot : forall t, t <> t0 -> lev s t o0 = 0).
  { intros t Hne. destruct (Nat.eq_dec (lev s t o0) 0) as [|Hp]; [assumption|].
    destruct (HL t o0) as [E _]; [lia|]. destruct Hown as [E'|E']; congruence. }
  constructor.
  - (* L *) intros t o Hpos. unfold lev in *.
    destruct (Nat.eq_dec o o0) as [->|Hno].
    + destruct (Nat.eq_dec t t0) as [->|Hnt].
      * destruct (o_own (objs s' o0)) as [u|].
        -- destruct Hloc as (-> & _ & _ & _ & Hle & _). auto.
        -- lia.
      * rewrite (Hthr _ Hnt) in Hpos. specialize (Hnot _ Hnt). unfold lev in Hnot. lia.
    + rewrite (Hobj _ Hno). destruct (Nat.eq_dec t t0) as [->|Hnt].
      * destruct (Hoth _ Hno) as [E1 E2]. rewrite E1, E2 in *.
        destruct (HL t0 o) as [Ha Hb]; [lia|]. split; [assumption|]. lia.
      * rewrite (Hthr _ Hnt) in *. apply HL. assumption.
  - (* free *) intros o E. destruct (Nat.eq_dec o o0) as [->|Hno].
    + rewrite E in Hloc. tauto.
    + rewrite (Hobj _ Hno) in *. auto.
  - (* owned *) intros o t E. destruct (Nat.eq_dec o o0) as [->|Hno].
    + rewrite E in Hloc. tauto.
    + rewrite (Hobj _ Hno) in *. eauto.
  - (* tail *) intros t o E. destruct (Nat.eq_dec o o0) as [->|Hno].
    + destruct (Nat.eq_dec t t0) as [->|Hnt].
      * pose proof (tail_le_need (t_pc (thr s' t0)) o0).
        destruct (o_own (objs s' o0)); [tauto|lia].
      * rewrite (Hthr _ Hnt) in *. pose proof (tail_le_need (t_pc (thr s t)) o0).
        specialize (Hnot _ Hnt). unfold lev in Hnot. lia.
    + rewrite (Hobj _ Hno). destruct (Nat.eq_dec t t0) as [->|Hnt].
      * destruct (Hoth _ Hno) as [_ E2]. pose proof (tail_le_need (t_pc (thr s' t0)) o). lia.
      * rewrite (Hthr _ Hnt) in *. eauto.
  - (* occ *) intros t o E. destruct (Nat.eq_dec o o0) as [->|Hno].
    + rewrite E in Hloc. destruct Hloc as (-> & _ & _ & _ & _ & _ & H). exact H.
    + rewrite (Hobj _ Hno) in *. destruct (Nat.eq_dec t t0) as [->|Hnt].
      * destruct (Hoth _ Hno) as [E1 E2]. pose proof (inacq_need (t_pc (thr s' t0)) o).
        specialize (Hc _ _ E). rewrite E1. lia.
      * rewrite (Hthr _ Hnt). auto.
  - (* unl *) intros t o E. destruct (Nat.eq_dec t t0) as [->|Hnt].
    + destruct (Nat.eq_dec o o0) as [->|Hno]; [auto|].
      destruct (Hoth _ Hno) as [_ E2]. pose proof (unl_need _ _ E). lia.
    + rewrite (Hthr _ Hnt) in *. auto.
Qed.

(* ---------- frame facts: kernel operations do not touch objects / threads ------ *)

Lemma objs_k_unlock s d : objs (k_unlock s d) = objs s.
Proof. unfold k_unlock. destruct (holder s) as [h|]; [destruct (Nat.eqb h d)|]; reflexivity. Qed.
Lemma thr_k_unlock s d : thr (k_unlock s d) = thr s.
Proof. unfold k_unlock. destruct (holder s) as [h|]; [destruct (Nat.eqb h d)|]; reflexivity. Qed.
Lemma objs_k_close s d : objs (k_close s d) = objs s.
Proof. unfold k_close. cbn. apply objs_k_unlock. Qed.
Lemma thr_k_close s d : thr (k_close s d) = thr s.
Proof. unfold k_close. cbn. apply thr_k_unlock. Qed.
Lemma viol_k_unlock s d : viol (k_unlock s d) = viol s.
Proof. unfold k_unlock. destruct (holder s) as [h|]; [destruct (Nat.eqb h d)|]; reflexivity. Qed.
Lemma viol_k_close s d : viol (k_close s d) = viol s.
Proof. unfold k_close. cbn. apply viol_k_unlock. Qed.
Lemma dead_k_unlock s d : dead (k_unlock s d) = dead s.
Proof. unfold k_unlock. destruct (holder s) as [h|]; [destruct (Nat.eqb h d)|]; reflexivity. Qed.
Lemma dead_k_close s d : dead (k_close s d) = dead s.
Proof. unfold k_close. cbn. apply dead_k_unlock. Qed.

(* same objects; thread t0 keeps t_cs and its new pc accounts for no more than the old one *)
Lemma TL_lower s s' t0 :
  (forall o, objs s' o = objs s o) ->
  (forall t, t <> t0 -> thr s' t = thr s t) ->
  t_cs (thr s' t0) = t_cs (thr s t0) ->
  (forall o, rel_need (t_pc (thr s' t0)) o <= rel_need (t_pc (thr s t0)) o
             /\ (tail_need (t_pc (thr s' t0)) o = 0 \/ tail_need (t_pc (thr s' t0)) o = tail_need (t_pc (thr s t0)) o)
             /\ inacq (t_pc (thr s' t0)) o <= inacq (t_pc (thr s t0)) o
             /\ (unl (t_pc (thr s' t0)) o = true -> unl (t_pc (thr s t0)) o = true)) ->
  TL s -> TL s'.
Proof.
  intros Hobj Hthr Hcs Hpc [HL Hf Ho Ht Hc Hu]. constructor.
  - intros t o. unfold lev. rewrite Hobj. destruct (Nat.eq_dec t t0) as [->|Hn].
    + rewrite Hcs. destruct (Hpc o) as (A & _). intros Hp.
      destruct (HL t0 o) as [B D]; [unfold lev; lia|]. unfold lev in D. split; [assumption|lia].
    + rewrite (Hthr _ Hn). apply HL.
  - intros o. rewrite Hobj. apply Hf.
  - intros o t. rewrite Hobj. apply Ho.
  - intros t o. rewrite Hobj. destruct (Nat.eq_dec t t0) as [->|Hn].
    + destruct (Hpc o) as (_ & [A|A] & _); [lia|]. rewrite A. apply Ht.
    + rewrite (Hthr _ Hn). apply Ht.
  - intros t o. rewrite Hobj. destruct (Nat.eq_dec t t0) as [->|Hn].
    + rewrite Hcs. destruct (Hpc o) as (_ & _ & A & _). intros E. specialize (Hc _ _ E). lia.
    + rewrite (Hthr _ Hn). apply Hc.
  - intros t o. destruct (Nat.eq_dec t t0) as [->|Hn].
    + rewrite Hcs. destruct (Hpc o) as (_ & _ & _ & A). intros E. auto.
    + rewrite (Hthr _ Hn). apply Hu.
Qed.

Lemma TL_at s t0 o0 :
  TL s -> 0 < rel_need (t_pc (thr s t0)) o0 ->
  let ob := objs s o0 in let th := thr s t0 in
  o_own ob = Some t0 /\ occ (t_cs th) o0 + rel_need (t_pc th) o0 <= o_dep ob /\ 1 <= o_dep ob
  /\ (o_reent ob = false -> o_dep ob = 1) /\ o_cnt ob <= o_dep ob
  /\ (0 < tail_need (t_pc th) o0 -> o_cnt ob + tail_need (t_pc th) o0 <= o_dep ob)
  /\ occ (t_cs th) o0 + inacq (t_pc th) o0 <= o_cnt ob
  /\ (unl (t_pc th) o0 = true -> occ (t_cs th) o0 = 0).
Proof.
  intros [HL Hf Ho Ht Hc Hu] Hpos. cbv zeta.
  destruct (HL t0 o0) as [Hown Hle]; [unfold lev; lia|]. unfold lev in Hle.
  destruct (Ho _ _ Hown) as (A & B & D).
  split; [assumption|]. split; [assumption|]. split; [assumption|]. split; [assumption|].
  split; [assumption|]. split; [apply Ht|]. split; [apply Hc; assumption|apply Hu].
Qed.
