(* ParseInv.v — lemmas and theorems about the parse_to_dict model (Parse.v). *)
From Coq Require Import List Arith Bool Lia.
Import ListNotations.
Require Import Aiuti.Parse.

(* ---- strings --------------------------------------------------------------- *)
Lemma str_eqb_refl a : str_eqb a a = true.
Proof. induction a as [|x a IH]; simpl; [reflexivity|]. now rewrite Nat.eqb_refl. Qed.

Lemma str_eqb_eq a : forall b, str_eqb a b = true -> a = b.
Proof.
  induction a as [|x a IH]; intros [|y b] H; simpl in H; try discriminate; [reflexivity|].
  apply andb_prop in H as [H1 H2]. apply Nat.eqb_eq in H1. f_equal; auto.
Qed.

Lemma str_eqb_iff a b : str_eqb a b = true <-> a = b.
Proof. split; [apply str_eqb_eq|intros ->; apply str_eqb_refl]. Qed.

Lemma app_eq_len {A} (k : list A) : forall k' x x',
  k ++ x = k' ++ x' -> length k = length k' -> k = k' /\ x = x'.
Proof.
  induction k as [|a k IH]; intros [|a' k'] x x' E L; simpl in *; try discriminate; [auto|].
  injection E as -> E. injection L as L. destruct (IH _ _ _ E L) as [-> ->]. auto.
Qed.

(* ---- split_once: complete characterisation --------------------------------- *)
Lemma strip_prefix_spec p : forall s r, strip_prefix p s = Some r <-> s = p ++ r.
Proof.
  induction p as [|a p IH]; intros s r; simpl.
  - split; [intros [= ->]; reflexivity|intros ->; reflexivity].
  - destruct s as [|b s]; [split; discriminate|].
    destruct (Nat.eqb_spec a b) as [->|Hne].
    + rewrite IH. split; [intros ->; reflexivity|intros [= ->]; reflexivity].
    + split; [discriminate|intros [= E _]; congruence].
Qed.

Lemma split_once_eq sep s :
  split_once sep s =
  match strip_prefix sep s with
  | Some rest => Some ([], rest)
  | None => match s with
            | [] => None
            | c :: s' => match split_once sep s' with
                         | Some (k, v) => Some (c :: k, v)
                         | None => None
                         end
            end
  end.
Proof. destruct s; reflexivity. Qed.

(* what split_once returns is a decomposition at the FIRST occurrence: no other
   decomposition s = k' ++ sep ++ v' has a shorter key part *)
Lemma split_once_sound sep : forall s k v,
  split_once sep s = Some (k, v) ->
  s = k ++ sep ++ v /\ forall k' v', s = k' ++ sep ++ v' -> length k <= length k'.
Proof.
  induction s as [|c s IH]; intros k v H; rewrite split_once_eq in H.
  - destruct (strip_prefix sep []) eqn:E; [|discriminate]. injection H as <- <-.
    apply strip_prefix_spec in E. split; [exact E|intros; simpl; lia].
  - destruct (strip_prefix sep (c :: s)) eqn:E.
    + injection H as <- <-. apply strip_prefix_spec in E. split; [exact E|intros; simpl; lia].
    + destruct (split_once sep s) as [[k0 v0]|] eqn:E2; [|discriminate]. injection H as <- <-.
      destruct (IH k0 v0 eq_refl) as [Hs Hmin]. split.
      * simpl. now rewrite <- Hs.
      * intros k' v' Hk'. destruct k' as [|c' k'].
        -- simpl in Hk'. apply strip_prefix_spec in Hk'. congruence.
        -- simpl in Hk'. injection Hk' as -> Hk'. simpl. apply le_n_S. eapply Hmin; eauto.
Qed.

Lemma split_once_none sep : forall s,
  split_once sep s = None <-> ~ exists k v, s = k ++ sep ++ v.
Proof.
  intros s. split.
  - induction s as [|c s IH]; intros H (k & v & E); rewrite split_once_eq in H.
    + destruct (strip_prefix sep []) eqn:Ep; [discriminate|].
      destruct k; [|discriminate]. simpl in E. apply strip_prefix_spec in E. congruence.
    + destruct (strip_prefix sep (c :: s)) eqn:Ep; [discriminate|].
      destruct (split_once sep s) as [[k0 v0]|] eqn:E2; [discriminate|].
      destruct k as [|c' k].
      * simpl in E. apply strip_prefix_spec in E. congruence.
      * simpl in E. injection E as -> E. apply IH; [reflexivity|]. now exists k, v.
  - intros H. destruct (split_once sep s) as [[k v]|] eqn:E; [|reflexivity].
    exfalso. apply H. exists k, v. now apply split_once_sound.
Qed.

Lemma split_once_first sep s k v :
  split_once sep s = Some (k, v) <->
  s = k ++ sep ++ v /\ forall k' v', s = k' ++ sep ++ v' -> length k <= length k'.
Proof.
  split; [apply split_once_sound|].
  intros [Hs Hmin].
  destruct (split_once sep s) as [[k1 v1]|] eqn:E.
  - destruct (split_once_sound _ _ _ _ E) as [Hs1 Hmin1].
    assert (L : length k = length k1).
    { apply Nat.le_antisymm; [eapply Hmin; eauto|eapply Hmin1; eauto]. }
    rewrite Hs in Hs1. destruct (app_eq_len _ _ _ _ Hs1 L) as [-> E2].
    apply app_inv_head in E2. now subst.
  - exfalso. apply (proj1 (split_once_none sep s) E). now exists k, v.
Qed.

(* one-character separators: it suffices that the key does not contain it *)
Lemma split_once_char c : forall k v, ~ In c k -> split_once [c] (k ++ [c] ++ v) = Some (k, v).
Proof.
  induction k as [|x k IH]; intros v Hn; rewrite split_once_eq.
  - simpl. now rewrite Nat.eqb_refl.
  - simpl. destruct (Nat.eqb_spec c x) as [->|Hne]; [exfalso; apply Hn; now left|].
    simpl in IH. rewrite IH; [reflexivity|]. intros Hin. apply Hn. now right.
Qed.

(* ---- key equality is an equivalence --------------------------------------- *)
Lemma key_eqb_refl k : key_eqb k k = true.
Proof. destruct k; simpl; [apply str_eqb_refl|apply Nat.eqb_refl]. Qed.

Lemma key_eqb_sym a b : key_eqb a b = key_eqb b a.
Proof.
  destruct a as [s|v c h], b as [s'|v' c' h']; simpl; try reflexivity.
  - destruct (str_eqb s s') eqn:E.
    + apply str_eqb_eq in E. subst. now rewrite str_eqb_refl.
    + destruct (str_eqb s' s) eqn:E'; [|reflexivity]. apply str_eqb_eq in E'. subst.
      now rewrite str_eqb_refl in E.
  - apply Nat.eqb_sym.
Qed.

Lemma key_eqb_trans a b c : key_eqb a b = true -> key_eqb b c = true -> key_eqb a c = true.
Proof.
  destruct a, b, c; simpl; try discriminate; intros H1 H2.
  - apply str_eqb_eq in H1, H2. subst. apply str_eqb_refl.
  - apply Nat.eqb_eq in H1, H2. subst. apply Nat.eqb_refl.
Qed.

Lemma key_eqb_congr a b c : key_eqb a b = true -> key_eqb a c = key_eqb b c.
Proof.
  intros H. destruct (key_eqb b c) eqn:E.
  - eapply key_eqb_trans; eauto.
  - destruct (key_eqb a c) eqn:E'; [|reflexivity].
    rewrite key_eqb_sym in H. rewrite (key_eqb_trans _ _ _ H E') in E. discriminate.
Qed.

(* ---- dictionary semantics -------------------------------------------------- *)
Definition dict_of (ps : list (obj * obj)) (d : dict) : dict :=
  fold_left (fun d kv => dict_set d (fst kv) (snd kv)) ps d.

(* d.get(k) *)
Fixpoint dict_get (d : dict) (k : obj) : option obj :=
  match d with
  | [] => None
  | (k0, v0) :: r => if key_eqb k0 k then Some v0 else dict_get r k
  end.

Definition has_key (ks : list obj) (k : obj) : bool := existsb (fun k0 => key_eqb k0 k) ks.

(* the value of the LAST pair whose key equals k *)
Definition last_of (k : obj) (ps : list (obj * obj)) (init : option obj) : option obj :=
  fold_left (fun acc kv => if key_eqb (fst kv) k then Some (snd kv) else acc) ps init.

(* keys in order of FIRST occurrence, the first key object being kept *)
Definition keys_of (ps : list (obj * obj)) (init : list obj) : list obj :=
  fold_left (fun ks kv => if has_key ks (fst kv) then ks else ks ++ [fst kv]) ps init.

Lemma dict_get_set d : forall k0 v k,
  dict_get (dict_set d k0 v) k = if key_eqb k0 k then Some v else dict_get d k.
Proof.
  induction d as [|[k1 v1] r IH]; intros k0 v k; simpl; [reflexivity|].
  destruct (key_eqb k1 k0) eqn:E10; simpl.
  - rewrite (key_eqb_congr _ _ k E10). destruct (key_eqb k0 k); reflexivity.
  - rewrite IH. destruct (key_eqb k1 k) eqn:E1; [|reflexivity].
    destruct (key_eqb k0 k) eqn:E0; [|reflexivity].
    rewrite key_eqb_sym in E0. rewrite (key_eqb_trans _ _ _ E1 E0) in E10. discriminate.
Qed.

Lemma dict_set_keys d : forall k v,
  map fst (dict_set d k v) = if has_key (map fst d) k then map fst d else map fst d ++ [k].
Proof.
  induction d as [|[k1 v1] r IH]; intros k v; simpl; [reflexivity|].
  destruct (key_eqb k1 k); simpl; [reflexivity|]. rewrite IH.
  destruct (has_key (map fst r) k); reflexivity.
Qed.

Lemma dict_last_wins_gen ps : forall d k,
  dict_get (dict_of ps d) k = last_of k ps (dict_get d k).
Proof.
  induction ps as [|[k0 v0] ps IH]; intros d k; simpl; [reflexivity|].
  unfold dict_of in IH. rewrite IH, dict_get_set. reflexivity.
Qed.

Lemma dict_keys_gen ps : forall d, map fst (dict_of ps d) = keys_of ps (map fst d).
Proof.
  induction ps as [|[k0 v0] ps IH]; intros d; simpl; [reflexivity|].
  unfold dict_of in IH. rewrite IH, dict_set_keys. reflexivity.
Qed.

(* no two keys of a dict are equal *)
Fixpoint keys_distinct (ks : list obj) : Prop :=
  match ks with
  | [] => True
  | k :: r => has_key r k = false /\ keys_distinct r
  end.

Lemma has_key_app ks ks' k : has_key (ks ++ ks') k = has_key ks k || has_key ks' k.
Proof. unfold has_key. apply existsb_app. Qed.

Lemma has_key_congr ks a b : key_eqb a b = true -> has_key ks a = has_key ks b.
Proof.
  intros H. induction ks as [|k r IH]; simpl; [reflexivity|]. rewrite IH. f_equal.
  rewrite (key_eqb_sym k a), (key_eqb_sym k b). now apply key_eqb_congr.
Qed.

Lemma keys_distinct_snoc ks k : keys_distinct ks -> has_key ks k = false -> keys_distinct (ks ++ [k]).
Proof.
  induction ks as [|k0 r IH]; simpl; [auto|]. intros [H1 H2] H.
  apply orb_false_iff in H as [Ha Hb]. split; [|now apply IH].
  rewrite has_key_app, H1. simpl. rewrite key_eqb_sym, Ha. reflexivity.
Qed.

Lemma keys_of_distinct ps : forall init, keys_distinct init -> keys_distinct (keys_of ps init).
Proof.
  induction ps as [|[k v] ps IH]; intros init H; simpl; [exact H|].
  apply IH. destruct (has_key init k) eqn:E; [exact H|]. now apply keys_distinct_snoc.
Qed.

(* ---- parse_to_dict --------------------------------------------------------- *)
Section Spec.
  Variable parse : str -> option obj.
  Variable sep : str.
  Variable pk : bool.

  Notation ppair := (parse_pair parse sep pk).
  Notation tp := (try_parse parse).

  (* an item is bad if it is a string without the separator (or the separator
     is empty), or if its parsed key is unhashable *)
  Definition bad (it : item) : bool :=
    match ppair it with
    | None => true
    | Some (k, _) => negb (hashable k)
    end.
  Definition err_of (i : nat) (it : item) : result :=
    match ppair it with
    | None => ErrNotKV i
    | Some _ => ErrUnhashable i
    end.
  Definition pairs_of (items : list item) : list (obj * obj) :=
    flat_map (fun it => match ppair it with Some p => [p] | None => [] end) items.

  Lemma build_good items : forall i d,
    (forall it, In it items -> bad it = false) ->
    build parse sep pk i items d = Ok (dict_of (pairs_of items) d).
  Proof.
    induction items as [|it r IH]; intros i d H; simpl; [reflexivity|].
    pose proof (H it (or_introl eq_refl)) as Hb. unfold bad in Hb.
    destruct (ppair it) as [[k v]|]; [|discriminate].
    apply negb_false_iff in Hb. rewrite Hb. simpl. apply IH. intros x Hx. apply H. now right.
  Qed.

  Lemma build_bad good : forall it rest i d,
    (forall g, In g good -> bad g = false) -> bad it = true ->
    build parse sep pk i (good ++ it :: rest) d = err_of (i + length good) it.
  Proof.
    induction good as [|g r IH]; intros it rest i d Hg Hb; simpl.
    - unfold bad in Hb. unfold err_of. rewrite Nat.add_0_r.
      destruct (ppair it) as [[k v]|]; [|reflexivity].
      apply negb_true_iff in Hb. now rewrite Hb.
    - pose proof (Hg g (or_introl eq_refl)) as Hgb. unfold bad in Hgb.
      destruct (ppair g) as [[k v]|]; [|discriminate].
      apply negb_false_iff in Hgb. rewrite Hgb.
      rewrite IH; [f_equal; lia| |exact Hb]. intros x Hx. apply Hg. now right.
  Qed.

  Lemma build_ok_iff items : forall i d,
    (exists d', build parse sep pk i items d = Ok d') <-> (forall it, In it items -> bad it = false).
  Proof.
    induction items as [|it r IH]; intros i d; simpl.
    - split; [intros _ ? []|intros _; now exists d].
    - unfold bad at 1. destruct (ppair it) as [[k v]|] eqn:E.
      + destruct (hashable k) eqn:Hh.
        * rewrite IH. split.
          -- intros H x [<-|Hx]; [unfold bad; now rewrite E, Hh|now apply H].
          -- intros H x Hx. apply H. now right.
        * split; [intros [d' Hd]; discriminate|].
          intros H. specialize (H it (or_introl eq_refl)). unfold bad in H. rewrite E, Hh in H. discriminate.
      + split; [intros [d' Hd]; discriminate|].
        intros H. specialize (H it (or_introl eq_refl)). unfold bad in H. rewrite E in H. discriminate.
  Qed.

  (* the three input shapes: items with equal parse_pair give equal results *)
  Lemma build_ext items items' : forall i d,
    map ppair items = map ppair items' ->
    build parse sep pk i items d = build parse sep pk i items' d.
  Proof.
    revert items'. induction items as [|it r IH]; intros [|it' r'] i d H; simpl in *; try discriminate; [reflexivity|].
    injection H as H1 H2. rewrite H1. destruct (ppair it') as [[k v]|]; [|reflexivity].
    destruct (hashable k); [|reflexivity]. now apply IH.
  Qed.

  Definition joined (kv : str * str) : item := IStr (fst kv ++ sep ++ snd kv).
  Definition as_pair (kv : str * str) : item := IPair (OStr (fst kv)) (OStr (snd kv)).

  Lemma shapes_agree_lemma (m : list (str * str)) :
    sep <> [] ->
    (forall k v, In (k, v) m -> split_once sep (k ++ sep ++ v) = Some (k, v)) ->
    parse_to_dict parse sep pk (map joined m) = parse_to_dict parse sep pk (map as_pair m).
  Proof.
    intros Hsep H. unfold parse_to_dict. apply build_ext. rewrite !map_map.
    apply map_ext_in. intros [k v] Hin. unfold joined, as_pair, parse_pair, kv_of, split_py. simpl.
    destruct sep as [|c sp] eqn:Es; [congruence|]. rewrite <- Es in *.
    now rewrite (H k v Hin).
  Qed.
End Spec.

(* ---- frame: string content matters only through the oracle ---------------- *)
Section Frame.
  Variable sep : str.
  Variable pk : bool.

  (* two oracles that agree on the strings actually handed to the parser give
     the same result (so the call log is a complete account of what is parsed) *)
  Lemma build_parse_ext (p p' : str -> option obj) items : forall i d,
    (forall s, In s (calls p sep pk items) -> p s = p' s) ->
    build p sep pk i items d = build p' sep pk i items d.
  Proof.
    induction items as [|it r IH]; intros i d H; simpl in *; [reflexivity|].
    unfold parse_pair in *. destruct (kv_of sep it) as [[k v]|] eqn:E; [|reflexivity].
    assert (Ht : parse_tuple p pk k v = parse_tuple p' pk k v).
    { unfold parse_tuple, pair_calls in *.
      assert (Hv : try_parse p v = try_parse p' v).
      { destruct v as [s|]; [|reflexivity]. simpl. rewrite (H s); [reflexivity|].
        apply in_or_app. left. apply in_or_app. right. now left. }
      destruct pk; [|now rewrite Hv].
      assert (Hk : try_parse p k = try_parse p' k).
      { destruct k as [s|]; [|reflexivity]. simpl. rewrite (H s); [reflexivity|].
        apply in_or_app. left. apply in_or_app. left. now left. }
      now rewrite Hk, Hv. }
    rewrite <- Ht. destruct (parse_tuple p pk k v) as [k' v'] eqn:Et. simpl in H.
    destruct (hashable k'); [|reflexivity].
    apply IH. intros s Hs. apply H. apply in_or_app. now right.
  Qed.

  (* an oracle that rejects everything turns parse_to_dict into pure re-pairing *)
  Lemma try_parse_none x : try_parse (fun _ => None) x = x.
  Proof. destruct x; reflexivity. Qed.

  Lemma parse_pair_none it :
    parse_pair (fun _ => None) sep pk it = kv_of sep it.
  Proof.
    unfold parse_pair. destruct (kv_of sep it) as [[k v]|]; [|reflexivity].
    unfold parse_tuple. rewrite !try_parse_none. destruct pk; reflexivity.
  Qed.
End Frame.
