(* BufferMon8B.v — completeness of Case_C08.ok_walk, part B: immediate-only scripts.
   A simulation between the monitor state m8 and the model state, step by step;
   the model side is computed symbolically on "calm" states (every producer the
   buffer holds has already ended, so a round never parks on a producer). *)
From Coq Require Import List Arith NArith Bool Lia ZifyBool ZifyNat ZifyN.
Import ListNotations.
Require Import Aiuti.CaseLib Aiuti.Buffer Aiuti.Case_Buffer Aiuti.Case_C08 Aiuti.BufferCore Aiuti.BufferFlag
               Aiuti.BufferInv Aiuti.BufferJoin Aiuti.BufferTime Aiuti.BufferQuiet Aiuti.BufferProgress
               Aiuti.BufferWait Aiuti.BufferReturn Aiuti.BufferMon Aiuti.BufferMon8.

(* ---- the monitor over a block of WaitRet observations ------------------------------------- *)
Definition set_pendc (x : m8) (pc : list nat) : m8 :=
  mk8 (opened x) (nextc x) (tlast x) (anysub x) (burst x) (clean x) pc (ties x) (inflight x) (tend x).

Definition drop_w (ws : list waiter) (pc : list nat) : list nat :=
  fold_left (fun pc w => filter (fun v => negb (Nat.eqb v (wid w))) pc) ws pc.

Lemma drop_w_in ws : forall pc v, In v (drop_w ws pc) <-> In v pc /\ ~ In v (map wid ws).
Proof.
  induction ws as [|w r IH]; intros pc v; cbn [drop_w fold_left map]; [cbn; tauto|].
  fold (drop_w r (filter (fun v0 => negb (Nat.eqb v0 (wid w))) pc)). rewrite IH, filter_In, negb_true_iff, Nat.eqb_neq.
  cbn. intuition.
Qed.

Lemma walk_wrets T b k (ws : list waiter) t n : forall x,
  walk_obs m8 (on_ob8 T b) k (map (fun w => WaitRet (wid w) t n) ws) x = Some (set_pendc x (drop_w ws (pendc x))).
Proof.
  induction ws as [|w r IH]; intros x; cbn [map walk_obs on_ob8 drop_w fold_left].
  - destruct x; reflexivity.
  - rewrite IH. reflexivity.
Qed.

Lemma walk_obs_app8 T b k o1 : forall o2 x,
  walk_obs m8 (on_ob8 T b) k (o1 ++ o2) x =
  match walk_obs m8 (on_ob8 T b) k o1 x with Some x' => walk_obs m8 (on_ob8 T b) k o2 x' | None => None end.
Proof. induction o1 as [|o r IH]; intros o2 x; cbn; [reflexivity|]. destruct (on_ob8 T b k o x); [apply IH|reflexivity]. Qed.

(* ---- waiters ---------------------------------------------------------------------------------- *)
Lemma wid_pass ws : map wid (join_pass ws) = map wid ws.
Proof. unfold join_pass. rewrite map_map. reflexivity. Qed.

Lemma pass_in w ws : In w (join_pass ws) -> exists w0, In w0 ws /\ wid w0 = wid w /\ wcancel w0 = wcancel w.
Proof. unfold join_pass. intros H. apply in_map_iff in H as (w0 & <- & Hin). exists w0. auto. Qed.

Lemma pass_onevent ws : forall w, In w (join_pass ws) -> wstate w = OnEvent.
Proof. intros w H. unfold join_pass in H. apply in_map_iff in H as (w0 & <- & _). reflexivity. Qed.

Lemma filter_onevent_all ws : (forall w, In w ws -> wstate w = OnEvent) -> filter is_onevent ws = ws.
Proof.
  induction ws as [|w r IH]; intros H; cbn; [reflexivity|].
  unfold is_onevent at 1. rewrite (H w (or_introl eq_refl)). f_equal. apply IH. intros w1 H1. apply H. right. exact H1.
Qed.

Lemma no_joining_cancel ws : (forall w, In w ws -> wstate w = OnEvent) -> wants_cancel ws = false.
Proof.
  intros H. unfold wants_cancel. destruct (existsb _ ws) eqn:E; [|reflexivity].
  apply existsb_exists in E as (w & Hin & Hw). unfold is_joining in Hw. rewrite (H w Hin) in Hw. discriminate.
Qed.

Lemma wants_cancel_joining ws : wants_cancel ws = true -> exists w, In w ws /\ wcancel w = true /\ wstate w = Joining.
Proof.
  unfold wants_cancel. rewrite existsb_exists. intros (w & Hin & H). apply andb_prop in H as [H1 H2].
  exists w. repeat split; auto. unfold is_joining in H1. destruct (wstate w); [reflexivity|discriminate].
Qed.

Lemma nodup_filter_wid f ws : NoDup (map wid ws) -> NoDup (map wid (filter f ws)).
Proof.
  induction ws as [|w r IH]; cbn; intros H; [constructor|]. inversion H as [|? ? Hn Hr]; subst.
  destruct (f w); cbn; [constructor|]; auto. intros Hin. apply Hn. apply in_map_iff in Hin as (w0 & E & Hin).
  apply filter_In in Hin as [Hin _]. rewrite <- E. apply in_map. exact Hin.
Qed.

(* ---- a round on producers that have all ended ------------------------------------------------ *)
Lemma load_all_fin_eq ps : all_fin ps -> (forall p, In p ps -> wf_prod p) -> load_all ps = ([], pend ps, map pid ps).
Proof.
  induction ps as [|p r IH]; intros Hf Hw; cbn [load_all pend flat_map map]; [reflexivity|].
  rewrite IH; [|intros p0 H0; apply Hf; right; exact H0|intros p0 H0; apply Hw; right; exact H0].
  rewrite (Hf p (or_introl eq_refl)). destruct (Hw p (or_introl eq_refl)) as [Hy _]. rewrite Hy. reflexivity.
Qed.

(* the state a (re)started round leaves behind, in the three possible outcomes *)
Definition cr_base (s : state) (ys fs : list nat) : state :=
  load_gh (set_waiters (set_q s [] 0) (join_pass (waiters (set_q s [] 0)))) ys fs.

Lemma cr_fin s ins ld :
  all_fin (ld ++ q s) -> (forall p, In p (ld ++ q s) -> wf_prod p) -> unfinished s = length (q s) ->
  continue_round s ins ld =
    let ys := pend (ld ++ q s) in
    let s3 := cr_base s ys (map pid (ld ++ q s)) in
    if wants_cancel (waiters s) then run_func0 s3 (set_addl ys ins)
    else (set_dm s3 (DAwait (set_addl ys ins) (now s + tmo s)), []).
Proof.
  intros Hf Hw Hu. unfold continue_round. replace (unfinished s - length (q s)) with 0 by lia.
  rewrite (load_all_fin_eq _ Hf Hw). cbn [Nat.eqb andb]. unfold cr_base.
  cbn [waiters set_q]. destruct (wants_cancel (waiters s)); reflexivity.
Qed.

(* ---- the simulation relation -------------------------------------------------------------------- *)
Definition seteq (a b : list nat) : Prop := incl a b /\ incl b a.

Record RL (T : N) (s : state) (x : m8) : Prop := {
  rl_open : opened x = match dm s with DRun _ => Some (callno s - 1) | _ => None end;
  rl_next : nextc x = callno s;
  rl_tlast : tlast x = g_lastsub (gh s);
  rl_pend : forall w, In w (waiters s) -> wcancel w = true -> In (wid w) (pendc x);
  rl_nd : NoDup (map wid (waiters s));
  rl_ws : forall w, In w (waiters s) -> In (wid w) (wseen s);
  rl_infl : inflight x <= length (burst x);
  rl_q : forall ins, dm s = DRun ins -> incl (pend (q s)) (skipn (inflight x) (burst x));
  rl_clean : clean x = true ->
             q s = [] /\
             match dm s with
             | DIdle => burst x = []
             | DAwait ins d => seteq ins (burst x) /\ (burst x <> [] -> d = (tlast x + T)%N) /\ (now s <= d)%N
             | DRun _ => True
             | _ => False
             end;
  (* an armed quiet timer lies ahead, at most [timeout] after the latest submission / end of a call *)
  rl_late : match dm s with
            | DAwait ins d => (now s <= d)%N /\ (d <= N.max (tlast x) (tend x) + T)%N
            | _ => True
            end
}.

(* the monitor state just before the observations of a (re)started round, relative to the
   state the round starts from *)
Record PreR (s : state) (x : m8) : Prop := {
  p_open : opened x = None;
  p_next : nextc x = callno s;
  p_tlast : tlast x = g_lastsub (gh s);
  p_pend : forall w, In w (waiters s) -> wcancel w = true -> In (wid w) (pendc x);
  p_nd : NoDup (map wid (waiters s));
  p_ws : forall w, In w (waiters s) -> In (wid w) (wseen s);
  p_infl : inflight x <= length (burst x)
}.

Lemma seteq_nil_l b : seteq [] b -> b = [].
Proof. intros [_ H]. destruct b as [|y r]; [reflexivity|]. destruct (H y (or_introl eq_refl)). Qed.

Ltac sim := cbn [fst snd dm callno nok q unfinished evset waiters gh seen wseen now tmo lastfire
                  set_dm set_calls load_gh set_gh set_waiters set_q set_event set_now set_seen set_wseen set_lastfire
                  gh_load gh_deliver gh_return gh_tie gh_offer gh_offer1 g_lastsub g_offered
                  opened nextc tlast anysub pendc burst clean inflight ties tend set_pendc].

Lemma cr_mon T k s ins ld x :
  all_fin (ld ++ q s) -> (forall p, In p (ld ++ q s) -> wf_prod p) -> unfinished s = length (q s) -> tmo s = T ->
  PreR s x -> (now s <= N.max (tlast x) (tend x))%N ->
  (clean x = true -> seteq (set_addl (pend (ld ++ q s)) ins) (burst x) /\ (burst x <> [] -> (now s + T = tlast x + T)%N)) ->
  exists x', walk_obs m8 (on_ob8 T true) k (snd (continue_round s ins ld)) x = Some x' /\
             RL T (fst (continue_round s ins ld)) x'.
Proof.
  intros Hf Hw Hu HT [P1 P2 P3 P4 P5 P6 P7] Hl Hc. rewrite (cr_fin s ins ld Hf Hw Hu). cbv zeta.
  set (ys := pend (ld ++ q s)) in *. set (ins' := set_addl ys ins) in *.
  assert (Hpass : forall w, In w (join_pass (waiters s)) -> wcancel w = true -> In (wid w) (pendc x)).
  { intros w Hin Hcn. destruct (pass_in _ _ Hin) as (w0 & Hin0 & E1 & E2). rewrite <- E1. apply P4; [exact Hin0|congruence]. }
  destruct (wants_cancel (waiters s)) eqn:Ewc.
  - (* forced: some task passed q.join() just now with cancel=True *)
    destruct (wants_cancel_joining _ Ewc) as (wj & Hj1 & Hj2 & _).
    pose proof (P4 wj Hj1 Hj2) as Hforced.
    unfold run_func0. destruct ins' as [|y r] eqn:Ei.
    + unfold release, cr_base. cbn [fst snd waiters set_q set_waiters load_gh set_gh now nok].
      rewrite (filter_onevent_all _ (pass_onevent (waiters s))). rewrite walk_wrets.
      eexists. split; [reflexivity|]. constructor; sim.
      * exact P1.
      * exact P2.
      * exact P3.
      * rewrite (filter_joining_nil _ (pass_onevent (waiters s))). intros w [].
      * rewrite (filter_joining_nil _ (pass_onevent (waiters s))). constructor.
      * rewrite (filter_joining_nil _ (pass_onevent (waiters s))). intros w [].
      * exact P7.
      * discriminate.
      * intros Hcl. split; [reflexivity|]. apply seteq_nil_l. apply (Hc Hcl).
      * exact I.
    + cbn [fst snd walk_obs on_ob8]. unfold cr_base. cbn [callno set_dm set_calls load_gh set_gh set_waiters set_q now].
      rewrite P1, P2, Nat.eqb_refl. destruct (pendc x) as [|v pc] eqn:Ep; [destruct Hforced|].
      cbn [negb orb andb]. eexists. split; [reflexivity|]. constructor; sim.
      * f_equal. lia.
      * rewrite ?P2. reflexivity.
      * exact P3.
      * exact Hpass.
      * rewrite wid_pass. exact P5.
      * intros w Hin. destruct (pass_in _ _ Hin) as (w0 & Hin0 & E1 & _). rewrite <- E1. apply P6, Hin0.
      * lia.
      * intros ? _ z [].
      * intros _. auto.
      * exact I.
  - cbn [fst snd walk_obs]. exists x. split; [reflexivity|]. unfold cr_base. constructor; sim.
    + exact P1.
    + exact P2.
    + exact P3.
    + exact Hpass.
    + rewrite wid_pass. exact P5.
    + intros w Hin. destruct (pass_in _ _ Hin) as (w0 & Hin0 & E1 & _). rewrite <- E1. apply P6, Hin0.
    + exact P7.
    + discriminate.
    + intros Hcl. split; [reflexivity|]. destruct (Hc Hcl) as [A B]. split; [exact A|]. split; [|lia].
      intros Hb. rewrite HT. apply B, Hb.
    + rewrite HT. lia.
Qed.

(* ---- the tracker's clock / id sets follow the model, for every event ------------------------ *)
Definition keeps_sn (s : state) (r : state * list obs) : Prop := seen (fst r) = seen s /\ now (fst r) = now s.

Lemma run_func0_sn s ins : keeps_sn s (run_func0 s ins).
Proof. unfold keeps_sn, run_func0, release. destruct ins; auto. Qed.

Lemma continue_round_sn s ins ld : keeps_sn s (continue_round s ins ld).
Proof.
  unfold keeps_sn, continue_round. destruct (load_all (ld ++ q s)) as [[rem ys] fs].
  destruct (unfinished s - length (q s) =? 0); destruct rem; cbn [andb];
    try destruct (wants_cancel _); auto;
    match goal with |- context [run_func0 ?a ?b] => destruct (run_func0_sn a b) as [A B]; rewrite A, B; auto end.
Qed.

Lemma start_round_sn s : keeps_sn s (start_round s).
Proof.
  unfold start_round. destruct (q s); [split; reflexivity|].
  match goal with |- keeps_sn _ (continue_round ?a ?b ?c) => destruct (continue_round_sn a b c) as [A B]; split; [rewrite A|rewrite B]; reflexivity end.
Qed.

Lemma run_func_sn s ins : keeps_sn s (run_func s ins).
Proof.
  unfold run_func. destruct ins; [|split; reflexivity].
  destruct (release s) as [s1 o1] eqn:E. unfold release in E. inversion E; subst s1 o1; clear E. unfold end_round.
  match goal with |- context [start_round ?a] => destruct (start_round_sn a) as [A B]; destruct (start_round a) end.
  split; cbn in *; auto.
Qed.

Lemma load_one_sn s ins p : keeps_sn s (load_one s ins p).
Proof.
  unfold load_one. destruct (p_fin p); [|split; reflexivity].
  match goal with |- keeps_sn _ (continue_round ?a ?b ?c) => destruct (continue_round_sn a b c) as [A B]; split; [rewrite A|rewrite B]; reflexivity end.
Qed.

Lemma after_gather_sn s ins g : keeps_sn s (after_gather s ins g).
Proof. destruct g; cbn [after_gather]; [split; reflexivity|apply load_one_sn|apply run_func_sn|apply run_func_sn]. Qed.

Lemma seen_now_step s e :
  seen (fst (step s e)) = (if accepted_submit s e then seen s ++ match e with Submit p _ | FPut p _ => [p] | _ => [] end else seen s) /\
  now (fst (step s e)) = (if is_dead s then now s else match e with Advance dt => (now s + dt)%N | _ => now s end).
Proof.
  unfold step, accepted_submit. destruct (is_dead s) eqn:Hd; [destruct e; auto|]. cbn [negb andb].
  assert (PutCase : forall p k c,
    seen (fst (do_put s p k c)) = (if negb (existsb (Nat.eqb p) (seen s)) then seen s ++ [p] else seen s) /\
    now (fst (do_put s p k c)) = now s).
  { intros p k c. unfold do_put. destruct (existsb (Nat.eqb p) (seen s)); [auto|]. cbn [negb].
    match goal with |- context [on_put ?x] => set (s4 := x) end.
    assert (E4 : seen s4 = seen s ++ [p] /\ now s4 = now s) by (unfold s4; destruct c; auto). destruct E4 as [E1 E2]. clearbody s4.
    unfold on_put. destruct (dm s4); auto.
    - destruct (start_round_sn s4) as [A B]. split; congruence.
    - destruct g; auto. destruct (q s4); auto.
    - destruct (q s4); auto. match goal with |- context [load_one ?a ?b ?c] => destruct (load_one_sn a b c) as [A B] end.
      cbn in A, B. split; congruence. }
  assert (FeedCase : forall n a, seen (fst (do_feed s n a)) = seen s /\ now (fst (do_feed s n a)) = now s).
  { intros n a. unfold do_feed. destruct (negb (open_here s n)); [auto|].
    destruct (dm s); auto.
    - destruct (load_all (map (feed_if n a) ld)) as [[rem ys] fs]. destruct rem; auto.
      match goal with |- context [after_gather ?a ?b ?c] => destruct (after_gather_sn a b c) as [A B] end. auto.
    - destruct ((pid p =? n) && accepts p); auto.
      match goal with |- context [load_one ?a ?b ?c] => destruct (load_one_sn a b c) as [A B] end. auto. }
  assert (EndCase : forall ok fc, seen (fst (do_fn_end s ok fc)) = seen s /\ now (fst (do_fn_end s ok fc)) = now s).
  { intros ok fc. unfold do_fn_end. destruct (dm s); auto. destruct ok.
    - match goal with |- context [release ?x] => destruct (release x) as [s2 o1] eqn:E end.
      unfold release in E. inversion E; subst s2 o1; clear E. destruct fc.
      + match goal with |- context [continue_round ?a ?b ?c] => destruct (continue_round_sn a b c) as [A B]; destruct (continue_round a b c) end. auto.
      + unfold end_round. match goal with |- context [start_round ?a] => destruct (start_round_sn a) as [A B]; destruct (start_round a) end. auto.
    - destruct (continue_round_sn s ins []) as [A B]. destruct (continue_round s ins []). auto. }
  destruct e; try apply PutCase; try apply FeedCase; try apply EndCase; auto.
  - unfold do_advance. destruct (dm s) as [|ins ld g|ins d|ins p|ins|]; auto.
    + destruct g; auto. destruct (d <=? now s + dt)%N; auto.
    + destruct (d <=? now s + dt)%N; auto.
      match goal with |- context [run_func ?a ?b] => destruct (run_func_sn a b) as [A B]; destruct (run_func a b) end. auto.
  - unfold do_wait. destruct (existsb (Nat.eqb w) (wseen s)); auto.
    unfold wait_core. cbn [unfinished set_gh set_wseen dm evset]. destruct (unfinished s =? 0); auto.
    destruct (dm s); try (solve [destruct (evset s); auto]).
    + destruct g; try (solve [destruct (evset s); auto]). destruct cancel; auto.
    + destruct cancel; auto. match goal with |- context [run_func ?a ?b] => destruct (run_func_sn a b) as [A B] end. auto.
Qed.

Definition TL (k : trk) (s : state) : Prop :=
  k_now k = now s /\ k_dead k = is_dead s /\ k_seen k = seen s /\ k_wseen k = wseen s.

Lemma mem_existsb p l : mem p l = existsb (Nat.eqb p) l.
Proof. reflexivity. Qed.

Lemma TL_step k s e : Struct s -> TL k s -> TL (trk_ev k e) (fst (step s e)).
Proof.
  intros HS (A & B & C & D). destruct (seen_now_step s e) as [Es En]. pose proof (wseen_step s e) as Ew.
  unfold TL, trk_ev. rewrite B. destruct (is_dead s) eqn:Hd.
  - unfold step. rewrite Hd. cbn [fst]. rewrite Hd. auto.
  - assert (Alive : e <> Shutdown -> is_dead (fst (step s e)) = false) by (intros He; apply step_alive; auto).
    unfold accepted_submit in Es. rewrite Hd in Es. cbn [negb andb orb] in Es.
    destruct e; try rewrite Hd in Ew; cbn [orb] in Ew; rewrite En, Es, Ew; rewrite ?mem_existsb, ?C, ?D;
      try (rewrite (Alive ltac:(discriminate)));
      try (unfold step; rewrite Hd; cbn [fst is_dead dm set_dm set_waiters]);
      repeat match goal with |- context [existsb ?f ?l] => destruct (existsb f l) end; cbn [negb];
      repeat match goal with |- context [if ?b then _ else _] => destruct b end;
      cbn [k_now k_dead k_seen k_wseen negb]; rewrite ?app_nil_r, ?A; repeat split; auto.
Qed.

(* ---- what is known about a reachable live state of an immediate-only script ------------------ *)
Record MF (T : N) (s : state) : Prop := {
  mf_calm : Calm s;
  mf_struct : StructOK s;
  mf_time : TimeOK T s;
  mf_ie : IE s;
  mf_fl : FL s;
  mf_wf : forall p, In p (q s) -> wf_prod p
}.

Lemma imm_no_fclear evs : imm_only evs = true -> ~ In FClear evs.
Proof.
  unfold imm_only. rewrite forallb_forall. intros H Hin. specialize (H _ Hin). discriminate.
Qed.

Lemma final_MF T evs : imm_only evs = true -> is_dead (final T evs) = false -> MF T (final T evs).
Proof.
  intros Hi Hd. constructor.
  - apply final_calm, Hi.
  - apply final_struct, Hd.
  - apply final_time.
  - apply final_IE, imm_no_fclear, Hi.
  - apply final_FL, Hd.
  - intros p Hin. apply (c_wf _ _ _ (final_inv T evs Hd)). unfold prods. apply in_or_app. auto.
Qed.

Lemma sr_mon T k s x :
  all_fin (q s) -> (forall p, In p (q s) -> wf_prod p) -> unfinished s = length (q s) -> tmo s = T ->
  PreR s x -> (now s <= N.max (tlast x) (tend x))%N ->
  (clean x = true -> seteq (set_addl (pend (q s)) []) (burst x) /\ (burst x <> [] -> (now s + T = tlast x + T)%N)) ->
  exists x', walk_obs m8 (on_ob8 T true) k (snd (start_round s)) x = Some x' /\ RL T (fst (start_round s)) x'.
Proof.
  intros Hf Hw Hu HT HP Hl Hc. unfold start_round. destruct (q s) as [|p r] eqn:Eq.
  - destruct HP as [P1 P2 P3 P4 P5 P6 P7]. exists x. split; [reflexivity|]. constructor; sim; auto.
    + discriminate.
    + intros Hcl. split; [exact Eq|]. apply seteq_nil_l. apply (Hc Hcl).
  - apply cr_mon; sim; auto.
    + cbn in Hu. lia.
    + destruct HP as [P1 P2 P3 P4 P5 P6 P7]. constructor; sim; auto.
Qed.

Lemma seteq_add ys ins b : seteq ins b -> seteq (set_addl ys ins) (b ++ ys).
Proof.
  intros [A B]. split; intros z Hz.
  - apply set_addl_in in Hz as [Hz|Hz]; apply in_or_app; auto.
  - apply set_addl_in. apply in_app_or in Hz as [Hz|Hz]; auto.
Qed.

Lemma pend_mk p kd : pend [mk_prod p kd] = imm_args kd.
Proof. cbn [pend flat_map]. rewrite app_nil_r. apply BufferOnce.args_mk_prod. Qed.

Lemma skipn_app_le {A} n (a b : list A) : n <= length a -> skipn n (a ++ b) = skipn n a ++ b.
Proof. intros H. rewrite skipn_app. replace (n - length a) with 0 by lia. reflexivity. Qed.

(* ---- Submit ------------------------------------------------------------------------------------ *)
Lemma ev_submit T s k x p kd :
  MF T s -> is_dead s = false -> TL k s -> RL T s x -> is_imm kd = true ->
  exists x', walk_obs m8 (on_ob8 T true) (trk_ev k (Submit p kd)) (snd (step s (Submit p kd)))
               (on_ev8 T k (trk_ev k (Submit p kd)) (Submit p kd) x) = Some x' /\
             RL T (fst (step s (Submit p kd))) x'.
Proof.
  intros [[Hpk Hfin] [S1 S2 S3] [T1 T2 T3] [IA IB] HF Hwf] Hd (K1 & K2 & K3 & K4) HR Hk.
  pose proof HR as [R1 R2 R3 R4 R5 R6 R7 R8 R9 R10].
  unfold step. rewrite Hd. unfold do_put. cbn [on_ev8]. unfold submit_accepted. rewrite K2, Hd, K3, mem_existsb. cbn [negb andb].
  destruct (existsb (Nat.eqb p) (seen s)) eqn:Ef; cbn [negb].
  - exists x. split; [reflexivity|exact HR].
  - set (x0 := mk8 _ _ _ _ _ _ _ _ _ _).
    destruct (imm_prod_loads p kd Hk) as (Hpf & Hpy & Hpp).
    assert (Hwfm : wf_prod (mk_prod p kd)) by apply wf_mk_prod.
    destruct (dm s) eqn:Ed; try discriminate.
    + (* idle: a new round *)
      pose proof (S2 eq_refl) as Hq. rewrite Hq in S1. cbn in S1.
      unfold on_put. sim. rewrite Ed. 
      match goal with |- context [start_round ?a] => destruct (sr_mon T (trk_ev k (Submit p kd)) a x0) as (x' & A & B) end; sim.
      * rewrite Hq. intros p0 [<-|[]]. exact Hpf.
      * rewrite Hq. intros p0 [<-|[]]. exact Hwfm.
      * rewrite Hq, S1. reflexivity.
      * exact T1.
      * constructor; sim; unfold x0; sim; auto. rewrite app_length. lia.
      * unfold x0; sim. rewrite K1. lia.
      * unfold x0; sim. rewrite Hq. cbn [app]. rewrite pend_mk. intros Hcl.
        apply andb_prop in Hcl as [Hcl _]. apply andb_prop in Hcl as [Hcl _].
        destruct (R9 Hcl) as [_ Hb]. rewrite Hb. cbn [app]. split; [|intros _; rewrite K1; reflexivity].
        split; intros z Hz; [apply set_addl_in in Hz as [Hz|[]]; exact Hz|apply set_addl_in; auto].
      * exists x'. split; assumption.
    + (* timer armed: the producer is loaded at once and the timer re-armed *)
      pose proof (S2 eq_refl) as Hq. rewrite Hq in S1. cbn in S1.
      unfold on_put. sim. rewrite Ed, Hq. cbn [app]. unfold load_one. rewrite Hpf, Hpy, Hpp.
      match goal with |- context [continue_round ?a ?b ?c] => destruct (cr_mon T (trk_ev k (Submit p kd)) a b c x0) as (x' & A & B) end; sim.
      * intros p0 [].
      * intros p0 [].
      * rewrite S1. reflexivity.
      * exact T1.
      * constructor; sim; unfold x0; sim; auto. rewrite app_length. lia.
      * unfold x0; sim. rewrite K1. lia.
      * unfold x0; sim. cbn [app pend flat_map set_addl fold_left]. intros Hcl.
        apply andb_prop in Hcl as [Hcl _]. apply andb_prop in Hcl as [Hcl _].
        destruct (R9 Hcl) as [_ (Hb & _ & _)]. split; [apply seteq_add; exact Hb|intros _; rewrite K1; reflexivity].
      * exists x'. split; assumption.
    + (* a call is running: the producer waits in the queue *)
      unfold on_put. sim. rewrite Ed. exists x0. split; [reflexivity|]. constructor; sim; unfold x0; sim; rewrite ?Ed; auto.
      * rewrite app_length. lia.
      * intros ins0 _. rewrite pend_app, pend_mk, skipn_app_le by exact R7. apply incl_app_app; [apply (R8 ins eq_refl)|apply incl_refl].
      * rewrite R1. cbn. rewrite andb_false_r. discriminate.
    + unfold is_dead in Hd. rewrite Ed in Hd. discriminate.
Qed.

Lemma subset_of_incl a b : incl a b -> subset a b = true.
Proof.
  intros H. unfold subset. apply forallb_forall. intros z Hz. unfold mem. apply existsb_exists.
  exists z. split; [apply H, Hz|apply Nat.eqb_refl].
Qed.

Lemma all_onevent s : StructOK s -> unfinished s = 0 -> forall w, In w (waiters s) -> wstate w = OnEvent.
Proof. intros [_ _ S3] Hu. exact (S3 Hu). Qed.

(* ---- Advance ------------------------------------------------------------------------------------ *)
Lemma ev_advance T s k x dt :
  MF T s -> is_dead s = false -> RL T s x ->
  exists x', walk_obs m8 (on_ob8 T true) (trk_ev k (Advance dt)) (snd (step s (Advance dt))) x = Some x' /\
             RL T (fst (step s (Advance dt))) x'.
Proof.
  intros [[Hpk Hfin] HS [T1 T2 T3] [IA IB] HF Hwf] Hd HR. pose proof HS as [S1 S2 S3].
  pose proof HR as [R1 R2 R3 R4 R5 R6 R7 R8 R9 R10].
  unfold step. rewrite Hd. unfold do_advance.
  destruct (dm s) as [|ins ld g|ins d|ins p|ins|] eqn:Ed; try discriminate.
  - exists x. split; [reflexivity|]. constructor; sim; rewrite ?Ed; auto.
  - pose proof (S2 eq_refl) as Hq. rewrite Hq in S1. cbn in S1.
    destruct (d <=? now s + dt)%N eqn:El.
    + (* the quiet timer fires *)
      destruct (T3 d eq_refl) as [Tl Tu].
      unfold run_func. destruct ins as [|y r].
      * unfold release, end_round, start_round. sim. rewrite Hq. sim. rewrite app_nil_r.
        rewrite (filter_onevent_all _ (all_onevent s HS S1)), walk_wrets.
        eexists. split; [reflexivity|]. rewrite (filter_joining_nil _ (all_onevent s HS S1)).
        constructor; sim; auto.
        -- intros w [].
        -- constructor.
        -- intros w [].
        -- discriminate.
        -- intros Hcl. split; [exact Hq|]. destruct (R9 Hcl) as [_ (Hb & _ & _)]. apply seteq_nil_l, Hb.
      * sim. cbn [walk_obs on_ob8]. rewrite R1, R2, Nat.eqb_refl. cbn [negb orb andb].
        assert (Hne : (tlast x + T <=? N.max (now s) d)%N = true) by (rewrite R3; lia).
        rewrite Hne, orb_true_r. cbn [andb].
        assert (Hex : (match pendc x with [] => false | _ => true end) || negb (clean x) ||
                      ((N.max (now s) d =? tlast x + T)%N && subset (burst x) (y :: r) && subset (y :: r) (burst x)) = true).
        { destruct (clean x) eqn:Ecl; [|rewrite orb_true_r; reflexivity].
          destruct (R9 eq_refl) as [_ ([Hb1 Hb2] & Hbd & Hnd)].
          assert (Hbn : burst x <> []) by (intros E; rewrite E in Hb1; destruct (Hb1 y (or_introl eq_refl))).
          rewrite (subset_of_incl _ _ Hb1), (subset_of_incl _ _ Hb2), (Hbd Hbn).
          assert (E : (N.max (now s) (tlast x + T) =? tlast x + T)%N = true) by (rewrite (Hbd Hbn) in Hnd; lia).
          rewrite E. rewrite !orb_true_r. reflexivity. }
        rewrite Hex.
        assert (Hnl : (N.max (now s) d <=? N.max (tlast x) (tend x) + T)%N = true) by (apply N.leb_le; lia).
        rewrite Hnl, orb_true_r. cbn [andb].
        eexists. split; [reflexivity|]. constructor; sim; auto.
        -- f_equal. lia.
        -- rewrite Hq. intros ? _ z [].
    + exists x. split; [reflexivity|]. constructor; sim; rewrite ?Ed; auto.
      * intros Hcl. destruct (R9 Hcl) as [A (B & C & D)]. split; [exact A|]. split; [exact B|]. split; [exact C|lia].
      * lia.
  - exists x. split; [reflexivity|]. constructor; sim; rewrite ?Ed; auto.
  - unfold is_dead in Hd. rewrite Ed in Hd. discriminate.
Qed.

Lemma nodup_wid_eq ws a b : NoDup (map wid ws) -> In a ws -> In b ws -> wid a = wid b -> a = b.
Proof.
  induction ws as [|w r IH]; intros Hn Ha Hb E; [destruct Ha|]. cbn in Hn. inversion Hn as [|? ? Hnot Hr]; subst.
  destruct Ha as [<-|Ha]; destruct Hb as [<-|Hb]; auto.
  - exfalso. apply Hnot. rewrite E. apply in_map, Hb.
  - exfalso. apply Hnot. rewrite <- E. apply in_map, Ha.
Qed.

Lemma not_seen_false w l : existsb (Nat.eqb w) l = false -> ~ In w l.
Proof. apply BufferOnce.existsb_eqb_false. Qed.

(* ---- Wait ---------------------------------------------------------------------------------------- *)
Lemma ev_wait T s k x w c :
  MF T s -> is_dead s = false -> TL k s -> RL T s x ->
  exists x', walk_obs m8 (on_ob8 T true) (trk_ev k (Wait w c)) (snd (step s (Wait w c)))
               (on_ev8 T k (trk_ev k (Wait w c)) (Wait w c) x) = Some x' /\
             RL T (fst (step s (Wait w c))) x'.
Proof.
  intros [[Hpk Hfin] HS [T1 T2 T3] [IA IB] HF Hwf] Hd (K1 & K2 & K3 & K4) HR. pose proof HS as [S1 S2 S3].
  pose proof HR as [R1 R2 R3 R4 R5 R6 R7 R8 R9 R10].
  unfold step. rewrite Hd. unfold do_wait.
  assert (Eacc : wait_accepted k w = negb (existsb (Nat.eqb w) (wseen s))).
  { unfold wait_accepted. rewrite K2, Hd, K4. reflexivity. }
  destruct (existsb (Nat.eqb w) (wseen s)) eqn:Ef.
  - exists x. split; [|exact HR]. cbn [on_ev8]. destruct c; [rewrite Eacc|]; reflexivity.
  - apply not_seen_false in Ef.
    set (x0 := on_ev8 T k (trk_ev k (Wait w c)) (Wait w c) x).
    assert (X0 : opened x0 = opened x /\ nextc x0 = nextc x /\ tlast x0 = tlast x /\ burst x0 = burst x /\
                 clean x0 = clean x /\ inflight x0 = inflight x /\ anysub x0 = anysub x /\
                 (pendc x0 = if c then pendc x ++ [w] else pendc x) /\ tend x0 = tend x).
    { unfold x0. cbn [on_ev8]. destruct c; [rewrite Eacc|]; cbn; repeat split; reflexivity. }
    destruct X0 as (X1 & X2 & X3 & X4 & X5 & X6 & X7 & X8 & X9). clearbody x0.
    assert (Hfresh : forall w0, In w0 (waiters s) -> wid w0 <> w) by (intros w0 Hin E; apply Ef; rewrite <- E; apply R6, Hin).
    (* adding the new waiter, whatever its stage, with nothing observed *)
    assert (Add : forall st s1, dm s1 = dm s -> callno s1 = callno s -> gh s1 = gh_tie (gh s) (tie_now s) ->
              waiters s1 = waiters s ++ [mkw w c st (seen s)] -> wseen s1 = wseen s ++ [w] -> q s1 = q s -> now s1 = now s ->
              RL T s1 x0).
    { intros st s1 E1 E2 E3 E4 E5 E6 E7. constructor; rewrite ?E1, ?E2, ?E3, ?E4, ?E5, ?E6, ?E7, ?X1, ?X2, ?X3, ?X4, ?X5, ?X6, ?X8, ?X9; sim; auto.
      - intros w0 Hin Hc. apply in_app_or in Hin as [Hin|[<-|[]]].
        + destruct c; [apply in_or_app; left|]; apply R4; auto.
        + cbn in Hc. subst c. apply in_or_app. right. left. reflexivity.
      - rewrite map_app. cbn. apply BufferOnce.NoDup_app_snoc; [exact R5|]. intros Hin. apply in_map_iff in Hin as (w0 & E & Hin). exact (Hfresh w0 Hin E).
      - intros w0 Hin. apply in_or_app. apply in_app_or in Hin as [Hin|[<-|[]]]; [left; apply R6, Hin|right; left; reflexivity]. }
    unfold wait_core. sim.
    destruct (unfinished s =? 0) eqn:Eu.
    + apply Nat.eqb_eq in Eu. pose proof (all_onevent s HS Eu) as Hon.
      assert (Hq : q s = []) by (rewrite Eu in S1; destruct (q s); [reflexivity|cbn in S1; lia]).
      destruct (dm s) as [|ins ld g|ins d|ins p|ins|] eqn:Ed; try discriminate.
      * (* idle: the flag is set, wait() returns at once *)
        rewrite (IA eq_refl). cbn [fst snd walk_obs on_ob8]. eexists. split; [reflexivity|].
        pose proof (IB (IA eq_refl)) as Hw0.
        constructor; sim; rewrite ?Ed, ?X1, ?X2, ?X3, ?X4, ?X5, ?X6, ?Hw0; auto.
        -- intros w0 [].
        -- constructor.
        -- intros w0 [].
      * destruct c.
        -- (* cancel=True on an armed timer: flush now *)
           unfold run_func. destruct ins as [|y r].
           ++ unfold release, end_round, start_round. sim. rewrite Hq. sim. rewrite app_nil_r.
              assert (Hall : forall w0, In w0 (waiters s ++ [mkw w true OnEvent (seen s)]) -> wstate w0 = OnEvent).
              { intros w0 Hin. apply in_app_or in Hin as [Hin|[<-|[]]]; [apply Hon, Hin|reflexivity]. }
              rewrite (filter_onevent_all _ Hall), walk_wrets. eexists. split; [reflexivity|].
              rewrite (filter_joining_nil _ Hall). constructor; sim; rewrite ?X1, ?X2, ?X3, ?X4, ?X5, ?X6; auto.
              ** intros w0 [].
              ** constructor.
              ** intros w0 [].
              ** discriminate.
              ** intros Hcl. split; [exact Hq|]. destruct (R9 Hcl) as [_ (Hb & _ & _)]. apply seteq_nil_l, Hb.
           ++ sim. cbn [walk_obs on_ob8]. rewrite X1, X2, R1, R2, Nat.eqb_refl, X8.
              destruct (pendc x ++ [w]) as [|v pc] eqn:Ep; [destruct (pendc x); discriminate|].
              cbn [negb orb andb]. eexists. split; [reflexivity|]. constructor; sim; rewrite ?X3, ?X4, ?X5, ?X6; auto.
              ** f_equal. lia.
              ** intros w0 Hin Hc. rewrite <- Ep. apply in_app_or in Hin as [Hin|[<-|[]]]; apply in_or_app; [left; apply R4; auto|right; left; reflexivity].
              ** rewrite map_app. cbn. apply BufferOnce.NoDup_app_snoc; [exact R5|]. intros Hin. apply in_map_iff in Hin as (w0 & E & Hin). exact (Hfresh w0 Hin E).
              ** intros w0 Hin. apply in_or_app. apply in_app_or in Hin as [Hin|[<-|[]]]; [left; apply R6, Hin|right; left; reflexivity].
              ** rewrite Hq. intros ? _ z [].
        -- exists x0. split; [reflexivity|]. apply (Add OnEvent); sim; rewrite ?Ed; reflexivity.
      * (* a call is running and nothing is queued: the flag is clear *)
        assert (Hev : evset s = false).
        { destruct (evset s) eqn:E; [|reflexivity]. destruct (HF E) as [H _]. rewrite Ed in H. discriminate. }
        rewrite Hev. exists x0. split; [reflexivity|]. apply (Add OnEvent); sim; rewrite ?Ed; reflexivity.
      * unfold is_dead in Hd. rewrite Ed in Hd. discriminate.
    + exists x0. split; [reflexivity|]. apply (Add Joining); sim; reflexivity.
Qed.

(* ---- FnOk ---------------------------------------------------------------------------------------- *)
Lemma ev_fnok T s k x :
  MF T s -> is_dead s = false -> k_now k = now s -> RL T s x ->
  exists x', walk_obs m8 (on_ob8 T true) k (snd (step s FnOk)) x = Some x' /\ RL T (fst (step s FnOk)) x'.
Proof.
  intros [[Hpk Hfin] HS [T1 T2 T3] [IA IB] HF Hwf] Hd K1 HR. pose proof HS as [S1 S2 S3].
  pose proof HR as [R1 R2 R3 R4 R5 R6 R7 R8 R9 R10].
  unfold step. rewrite Hd. unfold do_fn_end.
  destruct (dm s) as [|ins0 ld g|ins0 d|ins0 p|ins|] eqn:Ed; try (exists x; split; [reflexivity|exact HR]).
  cbn [extra] in S1.
  unfold release, end_round. sim.
  set (rest := minus (firstn (inflight x) (burst x)) ins ++ skipn (inflight x) (burst x)).
  set (x1 := mk8 None (nextc x) (tlast x) (anysub x) rest (match rest with [] => true | _ => false end) (pendc x) (ties x) 0 (k_now k)).
  set (x2 := set_pendc x1 (drop_w (filter is_onevent (waiters s)) (pendc x))).
  match goal with |- context [start_round ?a] => set (s2 := a) end.
  destruct (sr_mon T k s2 x2) as (x' & A & B); unfold s2; sim.
  - exact Hfin.
  - exact Hwf.
  - lia.
  - exact T1.
  - constructor; unfold x2, x1; sim; auto.
    + intros w0 Hin Hc. apply filter_In in Hin as [Hin Hj]. apply drop_w_in. split; [apply R4; auto|].
      intros Hin2. apply in_map_iff in Hin2 as (w1 & E & Hin1). apply filter_In in Hin1 as [Hin1 Ho].
      assert (w1 = w0) by (eapply nodup_wid_eq; eauto). subst w1.
      unfold is_joining in Hj. unfold is_onevent in Ho. destruct (wstate w0); discriminate.
    + apply nodup_filter_wid, R5.
    + intros w0 Hin. apply filter_In in Hin as [Hin _]. apply R6, Hin.
    + lia.
  - unfold x2, x1; sim. rewrite K1. lia.
  - unfold x2, x1; sim. intros Hcl. destruct rest as [|z rr] eqn:Er; [|discriminate].
    unfold rest in Er. apply app_eq_nil in Er as [_ Er].
    pose proof (R8 ins eq_refl) as Hinc. rewrite Er in Hinc.
    assert (Hp : pend (q s) = []) by (destruct (pend (q s)) as [|z r]; [reflexivity|destruct (Hinc z (or_introl eq_refl))]).
    rewrite Hp. cbn. split; [split; intros z []|intros H; contradiction].
  - fold s2. destruct (start_round s2) as [s3 o2]. cbn [fst snd] in *. exists x'. split; [|exact B].
    cbn [app walk_obs on_ob8]. rewrite R1, Nat.eqb_refl. fold rest. fold x1.
    rewrite walk_obs_app8, walk_wrets. fold x2. exact A.
Qed.

(* ---- FnFail -------------------------------------------------------------------------------------- *)
Lemma ev_fnfail T s k x :
  MF T s -> is_dead s = false -> k_now k = now s -> RL T s x ->
  exists x', walk_obs m8 (on_ob8 T true) k (snd (step s FnFail)) x = Some x' /\ RL T (fst (step s FnFail)) x'.
Proof.
  intros [[Hpk Hfin] HS [T1 T2 T3] [IA IB] HF Hwf] Hd K1 HR. pose proof HS as [S1 S2 S3].
  pose proof HR as [R1 R2 R3 R4 R5 R6 R7 R8 R9 R10].
  unfold step. rewrite Hd. unfold do_fn_end.
  destruct (dm s) as [|ins0 ld g|ins0 d|ins0 p|ins|] eqn:Ed; try (exists x; split; [reflexivity|exact HR]).
  cbn [extra] in S1.
  set (x1 := mk8 None (nextc x) (tlast x) (anysub x) (burst x) false (pendc x) (ties x) 0 (k_now k)).
  destruct (cr_mon T k s ins [] x1) as (x' & A & B); sim.
  - exact Hfin.
  - exact Hwf.
  - lia.
  - exact T1.
  - constructor; unfold x1; sim; auto. lia.
  - unfold x1; sim. rewrite K1. lia.
  - unfold x1; sim. discriminate.
  - destruct (continue_round s ins []) as [s1 o1]. exists x'. split; [|exact B].
    cbn [fst snd app walk_obs on_ob8] in *. rewrite R1, Nat.eqb_refl. fold x1. exact A.
Qed.

Lemma trk_run_snoc' evs : forall k e, trk_run k (evs ++ [e]) = trk_ev (trk_run k evs) e.
Proof. induction evs as [|y r IH]; intros k e; cbn; [reflexivity|apply IH]. Qed.

(* ---- one step of the simulation ---------------------------------------------------------------- *)
Lemma imm_app a b : imm_only (a ++ b) = true -> imm_only a = true /\ imm_only b = true.
Proof. unfold imm_only. rewrite forallb_app. intros H. apply andb_prop in H. exact H. Qed.

Lemma step8 T done e x :
  imm_only (done ++ [e]) = true ->
  let s := final T done in let k := trk_run trk0 done in
  TL k s -> (is_dead s = false -> RL T s x) ->
  exists x', walk_obs m8 (on_ob8 T true) (trk_ev k e) (snd (step s e)) (on_ev8 T k (trk_ev k e) e x) = Some x' /\
             (is_dead (fst (step s e)) = false -> RL T (fst (step s e)) x').
Proof.
  intros Hi s k HTL HR. destruct (imm_app _ _ Hi) as [Hid He]. unfold imm_only in He. cbn in He. rewrite andb_true_r in He.
  destruct (is_dead s) eqn:Hd.
  - unfold step. rewrite Hd. cbn [fst snd walk_obs]. eexists. split; [reflexivity|]. intros H. rewrite Hd in H. discriminate.
  - pose proof (final_MF T done Hid Hd) as HM. fold s in HM. specialize (HR eq_refl).
    destruct e; try discriminate.
    + destruct (ev_submit T s k x p k0 HM Hd HTL HR He) as (x' & A & B). exists x'. auto.
    + destruct (ev_advance T s k x dt HM Hd HR) as (x' & A & B). exists x'. auto.
    + destruct (ev_wait T s k x w cancel HM Hd HTL HR) as (x' & A & B). exists x'. auto.
    + assert (Kn : k_now (trk_ev k FnOk) = now s).
      { destruct HTL as (K1 & K2 & _). unfold trk_ev. rewrite K2, Hd. exact K1. }
      destruct (ev_fnok T s (trk_ev k FnOk) x HM Hd Kn HR) as (x' & A & B). exists x'. auto.
    + assert (Kn : k_now (trk_ev k FnFail) = now s).
      { destruct HTL as (K1 & K2 & _). unfold trk_ev. rewrite K2, Hd. exact K1. }
      destruct (ev_fnfail T s (trk_ev k FnFail) x HM Hd Kn HR) as (x' & A & B). exists x'. auto.
    + destruct HTL as (_ & K2 & _). unfold step, trk_ev. rewrite Hd, K2, Hd. cbn. eexists. split; [reflexivity|]. discriminate.
Qed.

Lemma init_RL T : RL T (init T) m8_0.
Proof.
  constructor; cbn; auto; try (constructor; fail); try discriminate; try (intros ? []; fail).
Qed.

Lemma walk8_imm T more : forall done x,
  imm_only (done ++ more) = true ->
  TL (trk_run trk0 done) (final T done) -> (is_dead (final T done) = false -> RL T (final T done) x) ->
  walk m8 (on_ev8 T) (on_ob8 T true) more (snd (run (final T done) more)) (trk_run trk0 done) x <> None.
Proof.
  induction more as [|e r IH]; intros done x Hi HTL HR; cbn [run]; [cbn; discriminate|].
  assert (Hi1 : imm_only (done ++ [e]) = true).
  { replace (done ++ e :: r) with ((done ++ [e]) ++ r) in Hi by (rewrite <- app_assoc; reflexivity). apply (imm_app _ _ Hi). }
  destruct (step8 T done e x Hi1 HTL HR) as (x' & A & B).
  pose proof (TL_step _ _ e (final_struct T done) HTL) as HTL1.
  specialize (IH (done ++ [e]) x').
  rewrite final_snoc, trk_run_snoc' in IH.
  destruct (step (final T done) e) as [s1 o]. cbn [fst snd] in *.
  destruct (run s1 r) as [s2 os] eqn:Er. cbn [snd walk]. rewrite A. cbn [snd] in IH.
  apply IH; auto. rewrite <- app_assoc. exact Hi.
Qed.

(* ---- C08: the whole trace monitor accepts the model's own trace of EVERY event list ----------- *)
Lemma walk_complete T evs : ok_walk (Case T evs (trace T evs)) = true.
Proof.
  destruct (imm_only evs) eqn:Hi; [|apply walk_complete_nonimm; exact Hi].
  unfold ok_walk. rewrite Hi.
  pose proof (walk8_imm T evs [] m8_0) as H. cbn [app trk_run] in H.
  assert (E : final T [] = init T) by reflexivity. rewrite E in H.
  unfold trace. destruct (walk m8 (on_ev8 T) (on_ob8 T true) evs (snd (run (init T) evs)) trk0 m8_0); [reflexivity|].
  exfalso. apply H; auto.
  - repeat split.
  - intros _. apply init_RL.
Qed.

Lemma c08_monitor_complete T evs : Case_C08.ok (Case T evs (trace T evs)) = true.
Proof. unfold Case_C08.ok. rewrite ok_serial_complete, walk_complete. reflexivity. Qed.
