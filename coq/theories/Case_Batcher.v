(* Case_Batcher.v — correspondence case type, [agree], and the trace monitors
   shared by C04, C09, C10, C11 (AsyncBackgroundBatcher).

   The monitors decide the properties on the OBSERVED implementation trace and
   the scripted input alone: they never run the model [Batcher.step].  They walk
   the script and the observed macro steps in lock-step and keep a small
   specification state: the calls so far, the batches the batch function was
   observed to be given (with the keys it has not answered yet, according to the
   script), the specification of the retention window per key, and the queue of
   item-creating calls that no observed batch has carried yet. *)
From Coq Require Import List Arith NArith Bool.
Import ListNotations.
Require Import Aiuti.CaseLib Aiuti.Batcher.

Inductive case :=
| BCase (c : cfg) (evs : list event) (observed : list (list obs)) (waiting : list nat).

(* ---- equality of observations ------------------------------------------- *)

Definition outcome_eqb (a b : outcome) : bool :=
  match a, b with
  | Ret x, Ret y => Nat.eqb x y
  | YieldedExc x, YieldedExc y => Nat.eqb x y
  | RaisedExc x, RaisedExc y => Nat.eqb x y
  | Missing, Missing => true
  | ProtocolErr, ProtocolErr => true
  | Cancelled, Cancelled => true
  | LibExc x, LibExc y => Nat.eqb x y
  | _, _ => false
  end.

Definition nn_eqb : nat * nat -> nat * nat -> bool := pair_eqb Nat.eqb Nat.eqb.

Definition obs_eqb (a b : obs) : bool :=
  match a, b with
  | BatchStart b1 i1 t1, BatchStart b2 i2 t2 => Nat.eqb b1 b2 && list_eqb nn_eqb i1 i2 && N.eqb t1 t2
  | CallerDone c1 o1 t1, CallerDone c2 o2 t2 => Nat.eqb c1 c2 && outcome_eqb o1 o2 && N.eqb t1 t2
  | TaskDied, TaskDied => true
  | _, _ => false
  end.

Definition agree (cs : case) : bool :=
  match cs with
  | BCase c evs observed waiting =>
      let '(tr, w, _) := run_trace c evs in
      list_eqb (list_eqb obs_eqb) tr observed && list_eqb Nat.eqb w waiting
  end.

(* a batch-timeout deadline and a retention deadline fired at the same instant
   (they commute in the implementation and in the model; counted only) *)
Definition has_tie (cs : case) : bool :=
  match cs with BCase c evs _ _ => let '(_, _, t) := run_trace c evs in t end.

(* ---- the monitor state --------------------------------------------------- *)

Record mcall := mkmcall { mc_key : nat; mc_step : nat; mc_done : bool;
                          mc_arg : nat; mc_ko : option nat; mc_more : nat  (* further calls the task makes *) }.
Record mitem := mkmitem { mi_key : nat; mi_arg : nat; mi_t : N; mi_max : nat }.
Record mbatch := mkmbatch { mb_id : nat; mb_unans : list nat; mb_step : nat }.
Inductive entry := EPending (st : nat) | EDone (t : N) (o : outcome).
Inductive slook := SFree | SPend | SDone (o : outcome).

Record mst := mkm {
  m_now : N; m_maxb : nat; m_step : nat;
  m_calls : list mcall;                 (* by caller id *)
  m_live : list mbatch;                 (* observed started, not ended by the script *)
  m_entries : list (nat * entry);       (* specification of the retention cache *)
  m_last : list (nat * outcome);        (* latest outcome the batch function produced per key *)
  m_expect : list mitem;                (* item-creating calls (per specification) not yet seen in a batch *)
  m_prev : option (N * nat * nat);      (* last item of the previous batch: arrival, limit then, batch size *)
  m_idle : N;                           (* ticks advanced since the last call *)
  m_bad04 : bool; m_bad10 : bool; m_bad11 : bool
}.

Definition minit (c : cfg) : mst := mkm 0%N (c_maxb c) 0 [] [] [] [] [] None 0%N false false false.

Definition spec_lookup (c : cfg) (now : N) (es : list (nat * entry)) (k : nat) : slook :=
  match lookup es k with
  | None => SFree
  | Some (EPending _) => SPend
  | Some (EDone t o) => if (now <? t + c_rt c)%N then SDone o else SFree
  end.

Definition calls_of (e : event) : list (nat * option nat * nat) :=
  match e with
  | Call a k => [(a, k, 0)]
  | Chain a k m => [(a, k, m)]
  | Burst l => map (fun p => (fst p, snd p, 0)) l
  | _ => []
  end.

(* one task making m+1 calls: register a call; if the specification says it is
   answered at once (inside the window of a finished request) the next call of
   the task follows immediately *)
Fixpoint reg_chain (c : cfg) (now : N) (mx st : nat) (a : nat) (ko : option nat) (m : nat)
         (calls : list mcall) (es : list (nat * entry)) (ex : list mitem) (imm : list (nat * outcome))
  : list mcall * list (nat * entry) * list mitem * list (nat * outcome) :=
  let k := key_of a ko in
  let cid := length calls in
  let calls' := calls ++ [mkmcall k st false a ko m] in
  match spec_lookup c now es k with
  | SFree => (calls', (k, EPending st) :: es, ex ++ [mkmitem k a now mx], imm)
  | SPend => (calls', es, ex, imm)
  | SDone o =>
      match m with
      | 0 => (calls', es, ex, imm ++ [(cid, o)])
      | S m' => reg_chain c now mx st a ko m' calls' es ex (imm ++ [(cid, o)])
      end
  end.

(* register the calls of this step: (calls, entries, expect, immediate answers expected) *)
Fixpoint reg_calls (c : cfg) (now : N) (mx st : nat) (l : list (nat * option nat * nat))
         (calls : list mcall) (es : list (nat * entry)) (ex : list mitem) (imm : list (nat * outcome))
  : list mcall * list (nat * entry) * list mitem * list (nat * outcome) :=
  match l with
  | [] => (calls, es, ex, imm)
  | (a, ko, m) :: r =>
      let '(calls', es', ex', imm') := reg_chain c now mx st a ko m calls es ex imm in
      reg_calls c now mx st r calls' es' ex' imm'
  end.

Definition memb (k : nat) (l : list nat) : bool := existsb (Nat.eqb k) l.
Definition remove_nat (k : nat) (l : list nat) : list nat := filter (fun x => negb (Nat.eqb x k)) l.
Definition find_live (l : list mbatch) (b : nat) : option mbatch := find (fun x => Nat.eqb (mb_id x) b) l.
Definition drop_live (l : list mbatch) (b : nat) : list mbatch := filter (fun x => negb (Nat.eqb (mb_id x) b)) l.
Definition upd_live (l : list mbatch) (b : nat) (u : list nat) : list mbatch :=
  map (fun x => if Nat.eqb (mb_id x) b then mkmbatch (mb_id x) u (mb_step x) else x) l.

(* what the scripted batch-function event means for an observed live batch:
   (start step of the batch, outcomes produced per key, live list afterwards, ended?) *)
Definition bat_effect (live : list mbatch) (e : event)
  : option (nat * list (nat * outcome) * list mbatch * bool) :=
  let all (mb : mbatch) (o : outcome) :=
    Some (mb_step mb, map (fun k => (k, o)) (mb_unans mb), drop_live live (mb_id mb), true) in
  match e with
  | BYield b k r =>
      match find_live live b with
      | Some mb => if memb k (mb_unans mb)
                   then Some (mb_step mb, [(k, of_res r)], upd_live live b (remove_nat k (mb_unans mb)), false)
                   else all mb ProtocolErr
      | None => None
      end
  | BRaise b e' => match find_live live b with Some mb => all mb (RaisedExc e') | None => None end
  | BFinish b => match find_live live b with Some mb => all mb Missing | None => None end
  | _ => None
  end.

(* C11: an outcome for key k may only be produced for a pending request, by a
   batch that started after (or when) the request was made *)
Fixpoint prod_ok (es : list (nat * entry)) (bstep : nat) (p : list (nat * outcome)) : bool :=
  match p with
  | [] => true
  | (k, _) :: r =>
      match lookup es k with
      | Some (EPending cs) => (cs <=? bstep) && prod_ok es bstep r
      | _ => false
      end
  end.

Definition set_done (now : N) (es : list (nat * entry)) (p : list (nat * outcome)) : list (nat * entry) :=
  fold_left (fun es' ko => (fst ko, EDone now (snd ko)) :: es') p es.

(* callers registered before this step that are not done and whose key got an outcome *)
Fixpoint late_expected (i : nat) (calls : list mcall) (p : list (nat * outcome)) : list (nat * outcome) :=
  match calls with
  | [] => []
  | mc :: r =>
      match mc_done mc, lookup p (mc_key mc) with
      | false, Some o => (i, o) :: late_expected (S i) r p
      | _, _ => late_expected (S i) r p
      end
  end.

(* tasks resumed in this step that call again, in the order they are resumed:
   per produced key (the order in which the batch's futures are resolved), the
   waiting callers of that key in caller order *)
Definition recalls_for (calls : list mcall) (k : nat) : list (nat * option nat * nat) :=
  flat_map (fun mc => if Nat.eqb (mc_key mc) k && negb (mc_done mc)
                      then match mc_more mc with S m' => [(mc_arg mc, mc_ko mc, m')] | 0 => [] end
                      else []) calls.

Definition recall_list (calls : list mcall) (p : list (nat * outcome)) : list (nat * option nat * nat) :=
  flat_map (fun ko => recalls_for calls (fst ko)) p.

Definition co_eqb : nat * outcome -> nat * outcome -> bool := pair_eqb Nat.eqb outcome_eqb.

Fixpoint dones_of (os : list obs) : list (nat * outcome * N) :=
  match os with
  | [] => []
  | CallerDone c o t :: r => (c, o, t) :: dones_of r
  | _ :: r => dones_of r
  end.

Fixpoint starts_of (os : list obs) : list (nat * list (nat * nat) * N) :=
  match os with
  | [] => []
  | BatchStart b i t :: r => (b, i, t) :: starts_of r
  | _ :: r => starts_of r
  end.

Fixpoint mark_done (calls : list mcall) (i : nat) (ds : list nat) : list mcall :=
  match calls with
  | [] => []
  | mc :: r => (if memb i ds then mkmcall (mc_key mc) (mc_step mc) true (mc_arg mc) (mc_ko mc) (mc_more mc) else mc)
               :: mark_done r (S i) ds
  end.

(* C04 on an answer given in the call's own step: it must be the latest outcome
   the batch function produced for that key *)
Definition imm_ok04 (calls : list mcall) (last : list (nat * outcome)) (d : nat * outcome) : bool :=
  match nth_error calls (fst d) with
  | Some mc => match lookup last (mc_key mc) with Some o => outcome_eqb o (snd d) | None => false end
  | None => false
  end.

Fixpoint nodup_nat (l : list nat) : bool :=
  match l with [] => true | x :: r => negb (memb x r) && nodup_nat r end.

Fixpoint take_items (n : nat) (l : list mitem) : list mitem * list mitem :=
  match n, l with
  | 0, _ => ([], l)
  | S n', x :: r => let '(a, b) := take_items n' r in (x :: a, b)
  | S _, [] => ([], [])
  end.

(* inside a batch: consecutive items less than batch_timeout apart, and after
   taking a non-last item the batch was not yet full *)
Fixpoint within_ok (c : cfg) (pos : nat) (l : list mitem) : bool :=
  match l with
  | x :: ((y :: _) as r) =>
      (mi_t y <? mi_t x + c_bt c)%N && (S pos <? mi_max x) && within_ok c (S pos) r
  | _ => true
  end.

Definition last_item (l : list mitem) : option mitem := match rev l with x :: _ => Some x | [] => None end.

(* one observed BatchStart against the specification state.
   live0 = number of live batches before this step's event, freed = the event ended a live batch *)
Definition check_start (c : cfg) (m : mst) (live0 : nat) (freed : bool)
           (st : nat * list (nat * nat) * N) : mst :=
  let '(b, items, t) := st in
  let n := length items in
  let '(mine, rest) := take_items n (m_expect m) in
  let fifo := list_eqb nn_eqb (map (fun x => (mi_key x, mi_arg x)) mine) items in
  let lim := fold_right Nat.max 0 (map mi_max mine) in
  let size := (1 <=? n) && (n <=? lim) in
  let split_ok :=
    match m_prev m, mine with
    | Some (tp, mp, np), f :: _ => (mp <=? np) || (tp + c_bt c <=? mi_t f)%N
    | _, _ => true
    end in
  let dl :=
    match last_item mine with
    | Some x =>
        let sp := if mi_max x <=? n then mi_t x else (mi_t x + c_bt c)%N in
        (sp <=? t)%N && ((t =? sp)%N || (freed && (c_conc c <=? live0)))
    | None => false
    end in
  let conc := S (length (m_live m)) <=? c_conc c in
  let keys := map fst items in
  let ok10 := fifo && size && split_ok && within_ok c 0 mine && dl && conc && (t <=? m_now m)%N in
  let ok11 := nodup_nat keys && fifo in
  mkm (m_now m) (m_maxb m) (m_step m) (m_calls m)
      (m_live m ++ [mkmbatch b keys (m_step m)])
      (m_entries m) (m_last m) rest
      (match last_item mine with Some x => Some (mi_t x, mi_max x, n) | None => m_prev m end)
      (m_idle m) (m_bad04 m) (m_bad10 m || negb ok10) (m_bad11 m || negb ok11).

Definition is_cancel (e : event) : option nat := match e with Cancel c => Some c | _ => None end.

Definition mon_step (c : cfg) (m : mst) (e : event) (os : list obs) : mst :=
  let now := match e with Advance dt => (m_now m + dt)%N | _ => m_now m end in
  let mx := match e with SetMax n => n | _ => m_maxb m end in
  let first_new := length (m_calls m) in
  let '(calls1, es1, ex1, imm1) :=
    reg_calls c now mx (m_step m) (calls_of e) (m_calls m) (m_entries m) (m_expect m) [] in
  let live0 := length (m_live m) in
  let '(bstep, produced, live1, freed) :=
    match bat_effect (m_live m) e with
    | Some x => x
    | None => (0, [], m_live m, false)
    end in
  let ok11_prod := prod_ok es1 bstep produced in
  let es2 := set_done now es1 produced in
  let last2 := fold_left (fun l ko => ko :: l) produced (m_last m) in
  (* the answered tasks that call again do so now, against the updated windows *)
  let recalls := recall_list (m_calls m) produced in
  let '(calls3, es3, ex3, imm) := reg_calls c now mx (m_step m) recalls calls1 es2 ex1 imm1 in
  let idle := match e with
              | Advance dt => (m_idle m + dt)%N
              | Call _ _ => 0%N
              | Chain _ _ _ => 0%N
              | Burst (_ :: _) => 0%N
              | _ => match recalls with [] => m_idle m | _ => 0%N end
              end in
  (* expected completions of callers that were already waiting *)
  let late_exp :=
    match is_cancel e with
    | Some cid => match nth_error (m_calls m) cid with
                  | Some mc => if mc_done mc then [] else [(cid, Cancelled)]
                  | None => [] end
    | None => late_expected 0 (m_calls m) produced
    end in
  let ds := dones_of os in
  let late_obs := filter (fun d => fst (fst d) <? first_new) ds in
  let imm_obs := filter (fun d => negb (fst (fst d) <? first_new)) ds in
  let times_ok := forallb (fun d => N.eqb (snd d) now) ds in
  let ok04 :=
    list_eqb co_eqb (map fst late_obs) late_exp
    && forallb (imm_ok04 calls3 last2) (map fst imm_obs)
    && nodup_nat (map (fun d => fst (fst d)) ds)
    && times_ok
    && negb (existsb is_died os) in
  let ok11 := ok11_prod && list_eqb co_eqb (map fst imm_obs) imm in
  let calls4 := mark_done calls3 0 (map (fun d => fst (fst d)) ds) in
  let m1 := mkm now mx (m_step m) calls4 live1 es3 last2 ex3 (m_prev m) idle
                (m_bad04 m || negb ok04) (m_bad10 m) (m_bad11 m || negb ok11) in
  let m2 := fold_left (fun mm st => check_start c mm live0 freed st) (starts_of os) m1 in
  mkm (m_now m2) (m_maxb m2) (S (m_step m2)) (m_calls m2) (m_live m2) (m_entries m2) (m_last m2)
      (m_expect m2) (m_prev m2) (m_idle m2) (m_bad04 m2) (m_bad10 m2) (m_bad11 m2).

Fixpoint mon_run (c : cfg) (m : mst) (evs : list event) (observed : list (list obs)) : option mst :=
  match evs, observed with
  | [], [] => Some m
  | e :: er, os :: or => mon_run c (mon_step c m e os) er or
  | _, _ => None
  end.

Fixpoint not_done_from (i : nat) (calls : list mcall) : list nat :=
  match calls with
  | [] => []
  | mc :: r => if mc_done mc then not_done_from (S i) r else i :: not_done_from (S i) r
  end.

(* every batch the function was given has ended and the open batch timed out:
   the loop is idle for good, nobody may be left waiting *)
Definition drained (c : cfg) (m : mst) : bool :=
  (length (m_live m) =? 0) && (c_bt c <=? m_idle m)%N.

Definition end_ok04 (c : cfg) (m : mst) (waiting : list nat) : bool :=
  list_eqb Nat.eqb waiting (not_done_from 0 (m_calls m))
  && (if drained c m then length waiting =? 0 else true).

(* items nobody has been given yet, while a slot is free: they must still be
   inside their batch_timeout *)
Definition end_ok10 (c : cfg) (m : mst) : bool :=
  match last_item (m_expect m) with
  | Some x => if length (m_live m) <? c_conc c then (m_now m <? mi_t x + c_bt c)%N else true
  | None => true
  end.

Definition final (cs : case) : option (cfg * mst * list nat) :=
  match cs with
  | BCase c evs observed waiting =>
      match mon_run c (minit c) evs observed with
      | Some m => Some (c, m, waiting)
      | None => None
      end
  end.

(* ---- the basic monitor: the conjuncts that need no specification state -------------
   Per macro step, with [now'] the script clock after the step's event: no TaskDied; every
   completion carries now'; no caller completes twice in the step; every batch is
   non-empty, carries no key twice and does not start in the script's future.
   Proved sound AND complete (Case_Batcher_Basic.v: it accepts every trace of the model,
   for all event lists).  It is a conjunct of all three monitors below. *)
Definition start_basic (now' : N) (st : nat * list (nat * nat) * N) : bool :=
  let '(b, items, t) := st in (1 <=? length items) && nodup_nat (map fst items) && (t <=? now')%N.

Fixpoint basic_run (now : N) (evs : list event) (observed : list (list obs)) : bool :=
  match evs, observed with
  | [], [] => true
  | e :: er, os :: or =>
      let now' := match e with Advance dt => (now + dt)%N | _ => now end in
      negb (existsb is_died os)
      && forallb (fun d => N.eqb (snd d) now') (dones_of os)
      && nodup_nat (map (fun d => fst (fst d)) (dones_of os))
      && forallb (start_basic now') (starts_of os)
      && basic_run now' er or
  | _, _ => false
  end.

Definition ok_basic (cs : case) : bool :=
  match cs with BCase c evs observed _ => basic_run 0%N evs observed end.

Definition ok_C04 (cs : case) : bool :=
  ok_basic cs &&
  match final cs with
  | Some (c, m, w) => negb (m_bad04 m) && end_ok04 c m w
  | None => false
  end.

Definition ok_C10 (cs : case) : bool :=
  ok_basic cs &&
  match final cs with
  | Some (c, m, w) => negb (m_bad10 m) && end_ok10 c m
  | None => false
  end.

Definition ok_C11 (cs : case) : bool :=
  ok_basic cs &&
  match final cs with
  | Some (c, m, w) => negb (m_bad11 m)
  | None => false
  end.

(* ---- counters used by [nontrivial] -------------------------------------- *)

Definition all_obs (cs : case) : list obs := match cs with BCase _ _ o _ => concat o end.
Definition count {A} (f : A -> bool) (l : list A) : nat := length (filter f l).
Definition is_answer (o : obs) : bool :=
  match o with CallerDone _ Cancelled _ => false | CallerDone _ _ _ => true | _ => false end.
Definition is_cancelled (o : obs) : bool :=
  match o with CallerDone _ Cancelled _ => true | _ => false end.
Definition start_size (o : obs) : nat := match o with BatchStart _ i _ => length i | _ => 0 end.
