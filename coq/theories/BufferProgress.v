(* BufferProgress.v — progress statements over event-list continuations (C03
   no_loss_progress, C07 wait_returns) and the event-level reading of "handed to
   the buffer" (C03 only_submitted).

   settle_lemma: from any reachable live state in which the daemon is not parked
   on a slow producer and every queued producer has already ended, the
   continuation  FnOk ; Advance d (d >= timeout) ; FnOk  — "the function
   succeeds for the running and for the next call, and a full timeout passes
   with no new submission" — leaves the daemon idle with an empty queue. *)
From Coq Require Import List Arith NArith Bool Lia ZifyBool ZifyNat ZifyN.
Import ListNotations.
Require Import Aiuti.Buffer Aiuti.BufferCore Aiuti.BufferFlag Aiuti.BufferInv Aiuti.BufferJoin Aiuti.BufferTime
               Aiuti.Case_Buffer Aiuti.BufferQuiet.

Definition Q0 (s : state) : Prop := q s = [] /\ parked (dm s) = true.

Lemma run_func0_Q0 s ins : q s = [] -> Q0 (fst (run_func0 s ins)).
Proof.
  intros Hq. unfold run_func0, Q0. destruct ins; [unfold release|]; cbn; rewrite Hq; auto.
Qed.

Lemma continue_round_Q0 s ins ld : all_fin (ld ++ q s) -> Q0 (fst (continue_round s ins ld)).
Proof.
  intros H. unfold continue_round. destruct (load_all_fin _ H) as (ys & fs & E). rewrite E.
  set (u := unfinished s - length (q s)).
  destruct ((u =? 0) && wants_cancel (waiters (set_q s [] u))).
  - apply run_func0_Q0. destruct (u =? 0); reflexivity.
  - unfold Q0. destruct (u =? 0); cbn; auto.
Qed.

Lemma start_round_Q0 s : all_fin (q s) -> Q0 (fst (start_round s)).
Proof.
  intros H. unfold start_round. destruct (q s) as [|p r] eqn:Eq.
  - unfold Q0; cbn. rewrite Eq. auto.
  - apply continue_round_Q0. cbn. exact H.
Qed.

Definition tail (d : N) : list event := [FnOk; Advance d; FnOk].

(* step 1: the function succeeds for the running call (if any) *)
Lemma settle_step1 s :
  is_dead s = false -> StructOK s -> Calm s -> Q0 (fst (step s FnOk)) /\ is_dead (fst (step s FnOk)) = false.
Proof.
  intros Hd HS [Hp Hq]. split; [|apply (step_alive s FnOk (fun _ => HS) Hd); discriminate].
  unfold step. rewrite Hd. unfold do_fn_end.
  destruct (dm s) eqn:Ed; try discriminate; try (split; [apply (st_q _ HS); rewrite Ed; reflexivity|cbn; rewrite Ed; reflexivity]).
  - match goal with |- context [release ?x] => destruct (release x) as [s2 o1] eqn:E end.
    assert (Hq2 : q s2 = q s) by (unfold release in E; inversion E; reflexivity).
    unfold end_round. pose proof (start_round_Q0 s2) as Q. destruct (start_round s2) as [s3 o2]. apply Q. rewrite Hq2. exact Hq.
  - unfold is_dead in Hd. rewrite Ed in Hd. discriminate.
Qed.

(* step 2: a full timeout passes *)
Lemma settle_step2 T s d :
  TimeOK T s -> (T <= d)%N -> Q0 s ->
  let s' := fst (step s (Advance d)) in
  Q0 s' /\ (forall ins d0, dm s' <> DAwait ins d0).
Proof.
  intros HT Hd [Hq Hp] s'. subst s'. unfold step. destruct (is_dead s) eqn:Hdead.
  - split; [split; assumption|]. intros ins d0 E. unfold is_dead in Hdead. cbn in E. rewrite E in Hdead. discriminate.
  - unfold do_advance. destruct (dm s) as [|ins ld g|ins d0|ins p|ins|] eqn:Ed; try discriminate.
    + split; [split; cbn; rewrite ?Ed; auto|]. cbn. rewrite Ed. discriminate.
    + destruct (t_arm _ _ HT d0) as [_ Hle]; [rewrite Ed; reflexivity|].
      assert (E : (d0 <=? now s + d)%N = true) by lia. rewrite E.
      match goal with |- context [run_func ?a ?b] => set (s0 := a) end.
      assert (Hq0 : q s0 = []) by exact Hq. clearbody s0.
      unfold run_func. destruct ins as [|x r].
      * destruct (release s0) as [s1 o1] eqn:Er.
        assert (Hq1 : q s1 = []) by (unfold release in Er; inversion Er; exact Hq0).
        unfold end_round, start_round. rewrite Hq1. unfold Q0. cbn. rewrite Hq1. split; [split; auto|discriminate].
      * unfold Q0. cbn. rewrite Hq0. split; [split; auto|discriminate].
    + split; [split; cbn; rewrite ?Ed; auto|]. cbn. rewrite Ed. discriminate.
    + unfold is_dead in Hdead. rewrite Ed in Hdead. discriminate.
Qed.

(* step 3: the function succeeds for the call that started meanwhile (if any) *)
Lemma settle_step3 s :
  is_dead s = false -> Q0 s -> (forall ins d0, dm s <> DAwait ins d0) ->
  dm (fst (step s FnOk)) = DIdle /\ q (fst (step s FnOk)) = [].
Proof.
  intros Hd [Hq Hp] Hna. unfold step. rewrite Hd. unfold do_fn_end.
  destruct (dm s) eqn:Ed; try discriminate.
  - cbn. rewrite Ed. auto.
  - destruct (Hna ins d eq_refl).
  - match goal with |- context [release ?x] => destruct (release x) as [s2 o1] eqn:E end.
    assert (Hq2 : q s2 = []) by (unfold release in E; inversion E; exact Hq).
    unfold end_round, start_round. rewrite Hq2. cbn. rewrite Hq2. auto.
  - unfold is_dead in Hd. rewrite Ed in Hd. discriminate.
Qed.

Lemma final_app T evs more : final T (evs ++ more) = fst (run (final T evs) more).
Proof.
  unfold final. rewrite run_app. destruct (run (init T) evs) as [s1 t1]. cbn [fst].
  destruct (run s1 more). reflexivity.
Qed.

Lemma settle_lemma T evs d :
  (T <= d)%N -> let s := final T evs in
  is_dead s = false -> parked (dm s) = true -> all_fin (q s) ->
  let s' := final T (evs ++ tail d) in
  dm s' = DIdle /\ q s' = [] /\ is_dead s' = false.
Proof.
  intros Hd s Hdead Hp Hq s'. subst s'.
  assert (E : final T (evs ++ tail d) = fst (step (fst (step (fst (step s FnOk)) (Advance d))) FnOk)).
  { unfold tail. replace (evs ++ [FnOk; Advance d; FnOk]) with (((evs ++ [FnOk]) ++ [Advance d]) ++ [FnOk])
      by (rewrite <- !app_assoc; reflexivity).
    rewrite !final_snoc. reflexivity. }
  rewrite E.
  destruct (settle_step1 s Hdead (final_struct T evs Hdead) (conj Hp Hq)) as [Q1 D1].
  assert (HT1 : TimeOK T (fst (step s FnOk))) by (apply step_time, final_time).
  destruct (settle_step2 T _ d HT1 Hd Q1) as [Q2 NA].
  assert (HS1 : Struct (fst (step s FnOk))) by (apply step_struct, final_struct).
  assert (D2 : is_dead (fst (step (fst (step s FnOk)) (Advance d))) = false)
    by (apply step_alive; [exact HS1|exact D1|discriminate]).
  destruct (settle_step3 _ D2 Q2 NA) as [A B]. split; [exact A|]. split; [exact B|].
  unfold is_dead. rewrite A. reflexivity.
Qed.

(* the continuation hands nothing new to the buffer *)
Lemma tail_offers T evs d : g_offered (gh (final T (evs ++ tail d))) = g_offered (gh (final T evs)).
Proof.
  unfold tail. replace (evs ++ [FnOk; Advance d; FnOk]) with (((evs ++ [FnOk]) ++ [Advance d]) ++ [FnOk])
    by (rewrite <- !app_assoc; reflexivity).
  rewrite !final_snoc, !offered_step. unfold new_offers.
  repeat match goal with |- context [if ?b then _ else _] => destruct b end; rewrite ?app_nil_r; reflexivity.
Qed.

(* C03 no_loss_progress *)
Lemma no_loss_progress_lemma T evs d :
  (T <= d)%N -> let s := final T evs in
  is_dead s = false -> parked (dm s) = true -> all_fin (q s) ->
  forall x, In x (off (gh s)) -> In x (ok_sets (concat (trace T (evs ++ tail d)))).
Proof.
  intros Hd s Hdead Hp Hq x Hx.
  destruct (settle_lemma T evs d Hd Hdead Hp Hq) as (A & B & C).
  rewrite <- delivered_is_trace.
  pose proof (final_inv T (evs ++ tail d) C) as HC. unfold prods in HC. rewrite A, B in HC. cbn in HC.
  assert (Hx' : In x (off (gh (final T (evs ++ tail d))))) by (unfold off; rewrite tail_offers; exact Hx).
  destruct (c_cons _ _ _ HC x Hx') as [H|[[]|[]]]. exact H.
Qed.

(* ---- "handed to the buffer", read off the event list --------------------------------- *)
Fixpoint offers_from (s : state) (evs : list event) : list (nat * nat) :=
  match evs with
  | [] => []
  | e :: r => new_offers s e ++ offers_from (fst (step s e)) r
  end.

Lemma offered_run evs : forall s,
  g_offered (gh (fst (run s evs))) = g_offered (gh s) ++ offers_from s evs.
Proof.
  induction evs as [|e r IH]; intros s; cbn [run offers_from]; [rewrite app_nil_r; reflexivity|].
  pose proof (offered_step s e) as H. destruct (step s e) as [s1 o]. cbn [fst] in *.
  specialize (IH s1). destruct (run s1 r). cbn [fst] in *. rewrite IH, H, app_assoc. reflexivity.
Qed.

Lemma offered_final T evs : g_offered (gh (final T evs)) = offers_from (init T) evs.
Proof. unfold final. rewrite offered_run. reflexivity. Qed.

(* what [new_offers] can contain: immediate arguments of a Submit / FPut event, or
   the argument of a PYield event *)
Definition ev_hands (e : event) (p x : nat) : Prop :=
  (exists k, (e = Submit p k \/ e = FPut p k) /\ In x (imm_args k)) \/ e = PYield p x.

Lemma new_offers_sound s e p x : In (p, x) (new_offers s e) -> ev_hands e p x.
Proof.
  unfold new_offers, ev_hands. destruct (is_dead s); [intros []|].
  destruct e; try (intros []).
  - destruct (existsb _ _); [intros []|]. intros H. apply in_map_iff in H as (y & E & Hy). inversion E; subst. left; eauto.
  - destruct (open_here s p0); [|intros []]. intros [E|[]]. inversion E; subst. right; reflexivity.
  - destruct (existsb _ _); [intros []|]. intros H. apply in_map_iff in H as (y & E & Hy). inversion E; subst. left; eauto.
Qed.

Lemma offers_from_sound evs : forall s p x,
  In (p, x) (offers_from s evs) -> exists e, In e evs /\ ev_hands e p x.
Proof.
  induction evs as [|e r IH]; intros s p x; cbn [offers_from]; [intros []|].
  intros H. apply in_app_or in H as [H|H].
  - exists e. split; [left; reflexivity|eapply new_offers_sound; eauto].
  - destruct (IH _ _ _ H) as (e' & Hin & He). exists e'. split; [right; exact Hin|exact He].
Qed.

(* C03 only_submitted *)
Lemma only_submitted_lemma T pre e c set t x :
  In (FnStart c set t) (snd (step (final T pre) e)) -> In x set ->
  exists p e', In e' (pre ++ [e]) /\ ev_hands e' p x.
Proof.
  intros Hin Hx.
  destruct (step_post (final T pre) e (final_inv T pre)) as [_ Hs].
  specialize (Hs c set t Hin x Hx). unfold off in Hs. rewrite <- final_snoc, offered_final in Hs.
  apply in_map_iff in Hs as ([p y] & E & Hp). cbn in E. subst y.
  destruct (offers_from_sound _ _ _ _ Hp) as (e' & Hin' & He). eauto.
Qed.

(* ---- statements over reachable states, as used by props/C03.v ------------------------ *)
Lemma no_loss_inv_lemma T evs x :
  let s := final T evs in
  is_dead s = false -> In x (off (gh s)) ->
  In x (ok_sets (concat (trace T evs))) \/ In x (cur_ins (dm s)) \/ In x (pend (prods s)).
Proof.
  intros s Hd Hx. rewrite <- delivered_is_trace. exact (c_cons _ _ _ (final_inv T evs Hd) x Hx).
Qed.

Lemma loaded_held_lemma T evs x :
  let s := final T evs in
  is_dead s = false -> In x (g_loaded (gh s)) ->
  In x (ok_sets (concat (trace T evs))) \/ In x (cur_ins (dm s)).
Proof.
  intros s Hd Hx. rewrite <- delivered_is_trace. exact (c_held _ _ _ (final_inv T evs Hd) x Hx).
Qed.

Lemma handed_is_offers T evs : off (gh (final T evs)) = map snd (offers_from (init T) evs).
Proof. unfold off. rewrite offered_final. reflexivity. Qed.

Lemma foreign_at_least_once_lemma (T : N) (evs : list event) (d : N) :
    own_thread evs = false -> (T <= d)%N -> let s := final T evs in
    is_dead s = false ->
    (forall x, In x (off (gh s)) ->
       In x (ok_sets (concat (trace T evs))) \/ In x (cur_ins (dm s)) \/ In x (pend (prods s))) /\
    (parked (dm s) = true -> all_fin (q s) ->
     forall x, In x (off (gh s)) -> In x (ok_sets (concat (trace T (evs ++ tail d))))).
Proof.
  intros _ Hd s Hl. split.
  - intros x. exact (no_loss_inv_lemma T evs x Hl).
  - exact (no_loss_progress_lemma T evs d Hd Hl).
Qed.
