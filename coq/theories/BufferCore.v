(* BufferCore.v — the conservation invariant of the buffer model (C03):
   every argument handed to the buffer is, at every quiescent point, either
   delivered (in a call that returned without error), or held in the round's
   input set (which is the running call's set while a call runs), or still
   pending in a producer the buffer has not finished iterating.  And nothing
   else is ever held: the function only receives submitted arguments. *)
From Coq Require Import List Arith NArith Bool Lia ZifyBool ZifyNat ZifyN Permutation.
Import ListNotations.
Require Import Aiuti.Buffer.

(* ---- sets as sorted lists ------------------------------------------------ *)
Lemma set_add_in x l y : In y (set_add x l) <-> y = x \/ In y l.
Proof.
  induction l as [|z r IH]; simpl.
  - intuition.
  - destruct (x <? z); [simpl; intuition|]. destruct (x =? z) eqn:E.
    + apply Nat.eqb_eq in E; subst. simpl. intuition.
    + simpl. rewrite IH. intuition.
Qed.

Lemma set_addl_in ys : forall l y, In y (set_addl ys l) <-> In y ys \/ In y l.
Proof.
  unfold set_addl. induction ys as [|x r IH]; intros l y; simpl; [intuition|].
  rewrite IH, set_add_in. intuition.
Qed.

(* ---- producers -------------------------------------------------------------- *)
Definition all_args (a : list act) : list nat := flat_map arg_of a.
Definition pend (ps : list prod) : list nat := flat_map (fun p => all_args (acts p)) ps.
Definition is_AY (a : act) : bool := match a with AY _ => true | _ => false end.

(* a producer's action list is either "open": yields only (none at all for an
   awaitable), or closed; and what `async for` will get out of it is every
   argument it carries *)
Definition wf_prod (p : prod) : Prop :=
  p_yields p = all_args (acts p) /\
  (closed p = false -> forallb is_AY (acts p) = true /\ (single p = true -> acts p = [])).

Lemma all_args_app a b : all_args (a ++ b) = all_args a ++ all_args b.
Proof. unfold all_args. apply flat_map_app. Qed.

Lemma all_args_mapAY xs : all_args (map AY xs) = xs.
Proof. induction xs; simpl; congruence. Qed.

Lemma yields_allAY a : forallb is_AY a = true -> yields_of false a = all_args a.
Proof.
  induction a as [|x r IH]; simpl; [reflexivity|]. destruct x; try discriminate. simpl. intros H. now rewrite IH.
Qed.

Lemma yields_allAY_end a e : forallb is_AY a = true -> (e = AF \/ e = AE) ->
  yields_of false (a ++ [e]) = all_args (a ++ [e]).
Proof.
  intros H He. induction a as [|x r IH]; simpl.
  - destruct He; subst; reflexivity.
  - destruct x; try discriminate. simpl in *. now rewrite IH.
Qed.

Lemma wf_mk_prod p k : wf_prod (mk_prod p k).
Proof.
  unfold wf_prod, p_yields.
  assert (HA : forall xs, forallb is_AY (map AY xs) = true) by (induction xs; simpl; auto).
  destruct k; cbn [mk_prod single acts closed]; split; try discriminate; try (intros _; split; auto).
  all: try (apply yields_allAY_end; [apply HA|destruct (imm_fails _); auto]).
  all: reflexivity.
Qed.

Lemma wf_p_wait p : wf_prod (p_wait p).
Proof. unfold wf_prod, p_wait, p_yields; cbn. split; auto. Qed.

Lemma wf_feed a p : wf_prod p -> closed p = false -> wf_prod (feed a p).
Proof.
  intros [Hy Ho] Hc. destruct (Ho Hc) as [HA Hs]. unfold wf_prod, p_yields in *.
  destruct a; cbn [feed].
  - cbn [single acts closed]. destruct (single p) eqn:Es.
    + rewrite (Hs eq_refl). cbn. split; [reflexivity|discriminate].
    + split.
      * rewrite yields_allAY; [reflexivity|]. rewrite forallb_app, HA. reflexivity.
      * intros _. split; [rewrite forallb_app, HA; reflexivity|discriminate].
  - cbn [single acts closed]. split; [|discriminate]. destruct (single p) eqn:Es.
    + rewrite (Hs eq_refl). reflexivity.
    + apply yields_allAY_end; auto.
  - destruct (single p) eqn:Es.
    + rewrite Es. split; [exact Hy|]. intros _. split; [exact HA|]. intros _. apply Hs. reflexivity.
    + cbn [single acts closed]. split; [|discriminate]. try rewrite Es. apply yields_allAY_end; auto.
Qed.

Lemma wf_feed_if n a p : wf_prod p -> wf_prod (feed_if n a p).
Proof.
  intros H. unfold feed_if. destruct ((pid p =? n) && accepts p) eqn:E; [|exact H].
  apply wf_feed; [exact H|]. unfold accepts in E. destruct (closed p); [|reflexivity].
  rewrite andb_false_r in E. discriminate.
Qed.

Lemma pend_in ps x : In x (pend ps) <-> exists p, In p ps /\ In x (all_args (acts p)).
Proof. unfold pend. rewrite in_flat_map. reflexivity. Qed.

Lemma pend_app a b : pend (a ++ b) = pend a ++ pend b.
Proof. unfold pend. apply flat_map_app. Qed.

(* ---- load_all ------------------------------------------------------------------ *)
Lemma load_all_spec ps : forall rem ys fs,
  load_all ps = (rem, ys, fs) -> (forall p, In p ps -> wf_prod p) ->
  (forall x, In x ys <-> In x (pend ps)) /\ pend rem = [] /\ (forall p, In p rem -> wf_prod p).
Proof.
  induction ps as [|p r IH]; intros rem ys fs E Hwf; cbn [load_all] in E.
  - inversion E; subst. split; [intros x; simpl; tauto|]. split; [reflexivity|]. intros p [].
  - destruct (load_all r) as [[rem0 ys0] fs0] eqn:Er.
    destruct (IH _ _ _ eq_refl (fun p0 H => Hwf p0 (or_intror H))) as (H1 & H2 & H3).
    destruct (Hwf p (or_introl eq_refl)) as [Hy _].
    destruct (p_fin p); inversion E; subst; clear E.
    + split; [|split]; auto. intros x; cbn [pend flat_map]; rewrite !in_app_iff, H1, Hy; reflexivity.
    + split; [|split].
      * intros x; cbn [pend flat_map]; rewrite !in_app_iff, H1, Hy; reflexivity.
      * cbn [pend flat_map p_wait acts all_args]. exact H2.
      * intros p0 [<-|H]; [apply wf_p_wait|auto].
Qed.

(* ---- the invariant --------------------------------------------------------------- *)
Definition off (g : ghost) : list nat := map snd (g_offered g).

Record Core (g : ghost) (ins : list nat) (ps : list prod) : Prop := {
  c_wf : forall p, In p ps -> wf_prod p;
  c_cons : forall x, In x (off g) -> In x (g_delivered g) \/ In x ins \/ In x (pend ps);
  c_ins : incl ins (off g);
  c_pend : incl (pend ps) (off g);
  c_loaded : incl (g_loaded g) (off g);
  c_deliv : incl (g_delivered g) (g_loaded g);
  c_insl : incl ins (g_loaded g);
  c_held : forall x, In x (g_loaded g) -> In x (g_delivered g) \/ In x ins
}.

Lemma Core_perm g ins ps ps' :
  (forall p, In p ps <-> In p ps') -> Core g ins ps -> Core g ins ps'.
Proof.
  intros Hp [H1 H2 H3 H4 H5 H6 H8 H7].
  assert (Hpe : forall x, In x (pend ps) <-> In x (pend ps')).
  { intros x. rewrite !pend_in. split; intros (p & Hin & Hx); exists p; split; auto; apply Hp; auto. }
  constructor; auto.
  - intros p H. apply H1, Hp, H.
  - intros x H. destruct (H2 x H) as [|[|]]; auto. right; right. apply Hpe; auto.
  - intros x H. apply H4, Hpe, H.
Qed.

Lemma Core_load g ins ps1 ps rem ys fs :
  Core g ins (ps1 ++ ps) -> load_all ps = (rem, ys, fs) ->
  Core (gh_load g ys fs) (set_addl ys ins) (ps1 ++ rem).
Proof.
  intros [H1 H2 H3 H4 H5 H6 H8 H7] E.
  destruct (load_all_spec ps rem ys fs E) as (Hy & Hr & Hw).
  { intros p H. apply H1. apply in_or_app; auto. }
  constructor; unfold off in *; cbn [gh_load g_offered g_loaded g_delivered].
  - intros p H. apply in_app_or in H as [H|H]; [apply H1, in_or_app; auto|auto].
  - intros x H. destruct (H2 x H) as [|[|Hp]]; auto.
    + right; left. apply set_addl_in; auto.
    + rewrite pend_app, in_app_iff in Hp. destruct Hp as [Hp|Hp].
      * right; right. rewrite pend_app, in_app_iff; auto.
      * right; left. apply set_addl_in. left. apply Hy; auto.
  - intros x H. apply set_addl_in in H as [H|H]; [|auto]. apply H4. rewrite pend_app, in_app_iff. right. apply Hy; auto.
  - intros x H. rewrite pend_app, Hr, app_nil_r in H. apply H4. rewrite pend_app, in_app_iff; auto.
  - intros x H. apply in_app_or in H as [H|H]; [auto|]. apply H4. rewrite pend_app, in_app_iff. right. apply Hy; auto.
  - intros x H. apply in_or_app. left. auto.
  - intros x H. apply in_or_app. apply set_addl_in in H as [H|H]; auto.
  - intros x H. apply in_app_or in H as [H|H].
    + destruct (H7 x H); auto. right. apply set_addl_in; auto.
    + right. apply set_addl_in; auto.
Qed.

Lemma Core_deliver g ins ps ins' :
  Core g ins ps -> incl ins' ins -> Core (gh_deliver g ins) ins' ps.
Proof.
  intros [H1 H2 H3 H4 H5 H6 H8 H7] Hi.
  constructor; unfold off in *; cbn [gh_deliver g_offered g_loaded g_delivered]; auto.
  - intros x H. destruct (H2 x H) as [|[|]]; auto; left; apply in_or_app; auto.
  - intros x H. apply H3, Hi, H.
  - intros x H. apply in_app_or in H as [H|H]; auto.
  - intros x H. apply H8, Hi, H.
  - intros x H. destruct (H7 x H); left; apply in_or_app; auto.
Qed.

Lemma Core_put g ins ps p k t b :
  Core g ins ps ->
  Core (gh_tie (gh_offer g (map (fun x => (p, x)) (imm_args k)) t) b) ins (ps ++ [mk_prod p k]).
Proof.
  intros [H1 H2 H3 H4 H5 H6 H8 H7].
  assert (Hoff : forall x, In x (map snd (g_offered g ++ map (fun x => (p, x)) (imm_args k))) <->
                           In x (map snd (g_offered g)) \/ In x (imm_args k)).
  { intros x. rewrite map_app, in_app_iff, map_map. cbn [snd]. rewrite map_id. reflexivity. }
  assert (Hnew : forall x, In x (pend [mk_prod p k]) <-> In x (imm_args k)).
  { intros x. cbn [pend flat_map]. rewrite app_nil_r.
    destruct k; cbn [mk_prod acts imm_args]; try (cbn; tauto).
    all: rewrite all_args_app, all_args_mapAY, in_app_iff.
    all: try destruct (imm_fails _); cbn; tauto. }
  constructor; unfold off in *; cbn [gh_tie gh_offer g_offered g_loaded g_delivered]; auto.
  - intros q H. apply in_app_or in H as [H|[<-|[]]]; auto. apply wf_mk_prod.
  - intros x H. apply Hoff in H as [H|H].
    + destruct (H2 x H) as [|[|]]; auto. right; right. rewrite pend_app, in_app_iff; auto.
    + right; right. rewrite pend_app, in_app_iff. right. apply Hnew; auto.
  - intros x H. apply Hoff. left. auto.
  - intros x H. rewrite pend_app, in_app_iff in H. apply Hoff. destruct H as [H|H]; [left; auto|right; apply Hnew; auto].
  - intros x H. apply Hoff. left; auto.
Qed.

(* a scripted action is handed to the open producer(s) with pid n *)
Lemma pend_feed n a ps x :
  In x (pend (map (feed_if n a) ps)) ->
  In x (pend ps) \/ (In x (arg_of a) /\ exists p, In p ps /\ (pid p =? n) && accepts p = true).
Proof.
  rewrite !pend_in. intros (p' & Hin & Hx). apply in_map_iff in Hin as (p & <- & Hin).
  unfold feed_if in Hx. destruct ((pid p =? n) && accepts p) eqn:E.
  - destruct a; cbn [feed acts] in Hx.
    + rewrite all_args_app, in_app_iff in Hx. destruct Hx as [Hx|Hx]; [left; eauto|]. right. split; [exact Hx|eauto].
    + rewrite all_args_app, in_app_iff in Hx. cbn in Hx. destruct Hx as [Hx|[]]. left; eauto.
    + destruct (single p); [left; eauto|]. cbn [acts] in Hx. rewrite all_args_app, in_app_iff in Hx. cbn in Hx. destruct Hx as [Hx|[]]. left; eauto.
  - left; eauto.
Qed.

Lemma pend_feed_keeps n a ps x : In x (pend ps) -> In x (pend (map (feed_if n a) ps)).
Proof.
  rewrite !pend_in. intros (p & Hin & Hx). exists (feed_if n a p). split; [apply in_map; exact Hin|].
  unfold feed_if. destruct ((pid p =? n) && accepts p); [|exact Hx].
  destruct a; cbn [feed acts]; try (rewrite all_args_app, in_app_iff; auto).
  destruct (single p); [exact Hx|]. cbn [acts]. rewrite all_args_app, in_app_iff; auto.
Qed.

Lemma pend_feed_new n x ps :
  (exists p, In p ps /\ (pid p =? n) && accepts p = true) -> In x (pend (map (feed_if n (AY x)) ps)).
Proof.
  intros (p & Hin & E). rewrite pend_in. exists (feed_if n (AY x) p). split; [apply in_map; exact Hin|].
  unfold feed_if. rewrite E. cbn [feed acts]. rewrite all_args_app, in_app_iff. right. cbn. auto.
Qed.

Lemma Core_feed g ins ps n a :
  Core g ins ps -> (exists p, In p ps /\ (pid p =? n) && accepts p = true) ->
  Core (gh_offer1 g (map (fun x => (n, x)) (arg_of a))) ins (map (feed_if n a) ps).
Proof.
  intros [H1 H2 H3 H4 H5 H6 H8 H7] Hex.
  assert (Hoff : forall x, In x (map snd (g_offered g ++ map (fun x => (n, x)) (arg_of a))) <->
                           In x (map snd (g_offered g)) \/ In x (arg_of a)).
  { intros x. rewrite map_app, in_app_iff, map_map. cbn [snd]. rewrite map_id. reflexivity. }
  constructor; unfold off in *; cbn [gh_offer1 g_offered g_loaded g_delivered]; auto.
  - intros p H. apply in_map_iff in H as (p0 & <- & H). apply wf_feed_if. auto.
  - intros x H. apply Hoff in H as [H|H].
    + destruct (H2 x H) as [|[|]]; auto. right; right. apply pend_feed_keeps; auto.
    + right; right. destruct a; cbn in H; try (destruct H; fail). destruct H as [<-|[]]. apply pend_feed_new; auto.
  - intros x H. apply Hoff. left. auto.
  - intros x H. apply Hoff. apply pend_feed in H as [H|[H _]]; auto.
  - intros x H. apply Hoff. left; auto.
Qed.

Lemma Core_ext g g' ins ps :
  g_offered g' = g_offered g -> g_loaded g' = g_loaded g -> g_delivered g' = g_delivered g ->
  Core g ins ps -> Core g' ins ps.
Proof.
  intros E1 E2 E3 [H1 H2 H3 H4 H5 H6 H8 H7]. constructor; unfold off in *; rewrite ?E1, ?E2, ?E3; auto.
Qed.

(* ---- the invariant on states, and what every helper guarantees ----------------
   The walk through the helpers of Buffer.step is done ONCE, for an arbitrary
   predicate P over (ghost history, the round's input set, the producers the
   buffer still holds) that is preserved by the six elementary moves: permute
   the producers, load, deliver, put, feed, touch an unrelated ghost field.
   Core (this file), the counting invariant (exactly-once) and the per-producer
   invariant (wait barrier) are instances. *)
Definition got_of (g : getting) : list prod := match g with GGot p => [p] | _ => [] end.
Definition dprods (d : daemon) : list prod :=
  match d with DGather _ ld g => ld ++ got_of g | DLoadOne _ p => [p] | _ => [] end.
Definition cur_ins (d : daemon) : list nat :=
  match d with DGather i _ _ | DAwait i _ | DLoadOne i _ | DRun i => i | _ => [] end.
Definition prods (s : state) : list prod := q s ++ dprods (dm s).

Definition starts_ok (r : state * list obs) : Prop :=
  forall c set t, In (FnStart c set t) (snd r) -> incl set (off (gh (fst r))).

Lemma no_starts s : starts_ok (s, []).
Proof. intros c set t []. Qed.

Lemma release_facts s :
  let r := release s in
  dm (fst r) = dm s /\ q (fst r) = q s /\ unfinished (fst r) = unfinished s /\
  g_offered (gh (fst r)) = g_offered (gh s) /\ g_loaded (gh (fst r)) = g_loaded (gh s) /\
  g_delivered (gh (fst r)) = g_delivered (gh s) /\
  (forall c set t, ~ In (FnStart c set t) (snd r)) /\ seen (fst r) = seen s.
Proof.
  unfold release; cbn. repeat split. intros c set t H. apply in_map_iff in H as (w & E & _). discriminate.
Qed.

Lemma load_all_one p :
  load_all [p] = if p_fin p then ([], p_yields p ++ [], [pid p]) else ([p_wait p], p_yields p ++ [], []).
Proof. cbn. destruct (p_fin p); reflexivity. Qed.

Lemma has_open_ex n ps : has_open n ps = true -> exists p, In p ps /\ (pid p =? n) && accepts p = true.
Proof. unfold has_open. rewrite existsb_exists. auto. Qed.

Lemma open_here_ex s n : open_here s n = true -> exists p, In p (prods s) /\ (pid p =? n) && accepts p = true.
Proof.
  unfold open_here, prods. intros H. apply orb_prop in H as [H|H].
  - destruct (has_open_ex _ _ H) as (p & Hin & E). exists p. split; [apply in_or_app; auto|exact E].
  - destruct (dm s); try discriminate.
    + apply orb_prop in H as [H|H].
      * destruct (has_open_ex _ _ H) as (p & Hin & E). exists p. split; [|exact E]. cbn. rewrite !in_app_iff. auto.
      * destruct g; try discriminate. destruct (has_open_ex _ _ H) as (p0 & Hin & E). exists p0. split; [|exact E].
        cbn. rewrite !in_app_iff. auto.
    + destruct (has_open_ex _ _ H) as (p0 & Hin & E). exists p0. split; [|exact E]. cbn. rewrite !in_app_iff. auto.
Qed.

(* ---- what is "handed to the buffer": g_offered grows only by the arguments of
        an accepted submission or of a scripted yield accepted by an open producer ---- *)
Definition new_offers (s : state) (e : event) : list (nat * nat) :=
  if is_dead s then [] else
  match e with
  | Submit p k | FPut p k =>
      if existsb (Nat.eqb p) (seen s) then [] else map (fun x => (p, x)) (imm_args k)
  | PYield p x => if open_here s p then [(p, x)] else []
  | _ => []
  end.

Definition keeps_off (s : state) (r : state * list obs) : Prop :=
  g_offered (gh (fst r)) = g_offered (gh s).

Lemma run_func0_off s ins : keeps_off s (run_func0 s ins).
Proof. unfold keeps_off, run_func0. destruct ins; reflexivity. Qed.

Lemma continue_round_off s ins ld : keeps_off s (continue_round s ins ld).
Proof.
  unfold keeps_off, continue_round. destruct (load_all (ld ++ q s)) as [[rem ys] fs].
  destruct (unfinished s - length (q s) =? 0); destruct rem; cbn [andb];
    try destruct (wants_cancel _); try reflexivity; try (rewrite run_func0_off; reflexivity).
Qed.

Lemma start_round_off s : keeps_off s (start_round s).
Proof. unfold keeps_off, start_round. destruct (q s); [reflexivity|]. rewrite continue_round_off. reflexivity. Qed.

Lemma run_func_off s ins : keeps_off s (run_func s ins).
Proof.
  unfold keeps_off, run_func. destruct ins; [|reflexivity].
  destruct (release s) as [s1 o1] eqn:E. unfold end_round.
  pose proof (start_round_off s1) as H. destruct (start_round s1) as [s2 o2]. unfold keeps_off in H; cbn [fst] in *.
  rewrite H. unfold release in E. inversion E; reflexivity.
Qed.

Lemma load_one_off s ins p : keeps_off s (load_one s ins p).
Proof. unfold keeps_off, load_one. destruct (p_fin p); [rewrite continue_round_off|]; reflexivity. Qed.

Lemma after_gather_off s ins g : keeps_off s (after_gather s ins g).
Proof. destruct g; cbn [after_gather]; [reflexivity|apply load_one_off|apply run_func_off|apply run_func_off]. Qed.

Lemma on_put_off s : keeps_off s (on_put s).
Proof.
  unfold on_put. destruct (dm s); try reflexivity.
  - apply start_round_off.
  - destruct g; try reflexivity. destruct (q s); reflexivity.
  - destruct (q s); [reflexivity|]. unfold keeps_off. rewrite load_one_off. reflexivity.
Qed.

Lemma offered_step s e :
  g_offered (gh (fst (step s e))) = g_offered (gh s) ++ new_offers s e.
Proof.
  unfold step, new_offers. destruct (is_dead s); [rewrite app_nil_r; reflexivity|].
  assert (K : forall r, keeps_off s r -> g_offered (gh (fst r)) = g_offered (gh s) ++ []) by (intros r H; rewrite app_nil_r; exact H).
  destruct e.
  - unfold do_put. destruct (existsb (Nat.eqb p) (seen s)); [rewrite app_nil_r; reflexivity|]. rewrite on_put_off. reflexivity.
  - unfold do_feed. destruct (open_here s p); cbn [negb]; [|rewrite app_nil_r; reflexivity].
    destruct (dm s); try reflexivity.
    + destruct (load_all (map (feed_if p (AY x)) ld)) as [[rem ys] fs]. destruct rem; [rewrite after_gather_off|]; reflexivity.
    + destruct ((pid p0 =? p) && accepts p0); [rewrite load_one_off|]; reflexivity.
  - unfold do_feed. destruct (open_here s p); cbn [negb]; [|rewrite app_nil_r; reflexivity].
    destruct (dm s); try reflexivity.
    + destruct (load_all (map (feed_if p AF) ld)) as [[rem ys] fs]. destruct rem; [rewrite after_gather_off|]; reflexivity.
    + destruct ((pid p0 =? p) && accepts p0); [rewrite load_one_off|]; reflexivity.
  - unfold do_feed. destruct (open_here s p); cbn [negb]; [|rewrite app_nil_r; reflexivity].
    destruct (dm s); try reflexivity.
    + destruct (load_all (map (feed_if p AE) ld)) as [[rem ys] fs]. destruct rem; [rewrite after_gather_off|]; reflexivity.
    + destruct ((pid p0 =? p) && accepts p0); [rewrite load_one_off|]; reflexivity.
  - apply K. unfold keeps_off, do_advance. destruct (dm s); try reflexivity.
    + destruct g; try reflexivity. destruct (d <=? now s + dt)%N; reflexivity.
    + destruct (d <=? now s + dt)%N; [|reflexivity].
      match goal with |- context [run_func ?a ?b] => pose proof (run_func_off a b) as H; destruct (run_func a b) end. exact H.
  - apply K. unfold keeps_off, do_wait. destruct (existsb (Nat.eqb w) (wseen s)); [reflexivity|].
    unfold wait_core. match goal with |- context [unfinished ?x =? 0] => destruct (unfinished x =? 0) end; [|reflexivity].
    cbn [dm set_gh set_wseen]. destruct (dm s); try (destruct (evset _); reflexivity).
    + destruct g; try (destruct (evset _); reflexivity). destruct cancel; reflexivity.
    + destruct cancel; [|reflexivity]. rewrite run_func_off. reflexivity.
  - apply K. unfold keeps_off, do_fn_end. destruct (dm s); try reflexivity.
    match goal with |- context [release ?x] => destruct (release x) as [s2 o1] eqn:E end.
    unfold release in E. inversion E; subst. unfold end_round.
    match goal with |- context [start_round ?x] => pose proof (start_round_off x) as H; destruct (start_round x) end. exact H.
  - apply K. unfold keeps_off, do_fn_end. destruct (dm s); try reflexivity.
    pose proof (continue_round_off s ins []) as H. destruct (continue_round s ins []). exact H.
  - rewrite app_nil_r; reflexivity.
  - rewrite app_nil_r; reflexivity.
  - unfold do_put. destruct (existsb (Nat.eqb p) (seen s)); [rewrite app_nil_r; reflexivity|]. rewrite on_put_off. reflexivity.
  - apply K. unfold keeps_off, do_fn_end. destruct (dm s); try reflexivity.
    match goal with |- context [release ?x] => destruct (release x) as [s2 o1] eqn:E end.
    unfold release in E. inversion E; subst.
    match goal with |- context [continue_round ?x ?y ?z] => pose proof (continue_round_off x y z) as H; destruct (continue_round x y z) end. exact H.
Qed.


(* ---- (1) delivered = successful sets of the trace ------------------------------ *)
Definition ok_sets (o : list obs) : list nat :=
  flat_map (fun x => match x with FnEnd _ true set => set | _ => [] end) o.

Definition keeps_del (s : state) (r : state * list obs) : Prop :=
  g_delivered (gh (fst r)) = g_delivered (gh s) /\ ok_sets (snd r) = [].

Lemma ok_sets_app a b : ok_sets (a ++ b) = ok_sets a ++ ok_sets b.
Proof. unfold ok_sets. apply flat_map_app. Qed.

Lemma ok_sets_wrets (ws : list waiter) t k : ok_sets (map (fun w => WaitRet (wid w) t k) ws) = [].
Proof. induction ws; simpl; auto. Qed.

Lemma release_del s : keeps_del s (release s).
Proof. unfold keeps_del, release; cbn. split; [reflexivity|apply ok_sets_wrets]. Qed.

Lemma run_func0_del s ins : keeps_del s (run_func0 s ins).
Proof.
  unfold run_func0. destruct ins; [|split; reflexivity].
  pose proof (release_del s) as H. destruct (release s). exact H.
Qed.

Lemma continue_round_del s ins ld : keeps_del s (continue_round s ins ld).
Proof.
  unfold continue_round. destruct (load_all (ld ++ q s)) as [[rem ys] fs].
  destruct (unfinished s - length (q s) =? 0); destruct rem; cbn [andb];
    try destruct (wants_cancel _); try (split; reflexivity);
    match goal with |- keeps_del _ (run_func0 ?a ?b) => destruct (run_func0_del a b) as [H1 H2]; split; [rewrite H1; reflexivity|exact H2] end.
Qed.

Lemma start_round_del s : keeps_del s (start_round s).
Proof.
  unfold start_round. destruct (q s); [split; reflexivity|].
  match goal with |- keeps_del _ (continue_round ?a ?b ?c) => destruct (continue_round_del a b c) as [H1 H2]; split; [rewrite H1; reflexivity|exact H2] end.
Qed.

Lemma run_func_del s ins : keeps_del s (run_func s ins).
Proof.
  unfold run_func. destruct ins; [|split; reflexivity].
  destruct (release_del s) as [R1 R2]. destruct (release s) as [s1 o1]. unfold end_round.
  destruct (start_round_del s1) as [S1 S2]. destruct (start_round s1) as [s2 o2]. unfold keeps_del. cbn [fst snd] in *.
  split; [rewrite S1, R1; reflexivity|]. rewrite ok_sets_app, R2, S2. reflexivity.
Qed.

Lemma load_one_del s ins p : keeps_del s (load_one s ins p).
Proof.
  unfold load_one. destruct (p_fin p); [|split; reflexivity].
  match goal with |- keeps_del _ (continue_round ?a ?b ?c) => destruct (continue_round_del a b c) as [H1 H2]; split; [rewrite H1; reflexivity|exact H2] end.
Qed.

Lemma after_gather_del s ins g : keeps_del s (after_gather s ins g).
Proof. destruct g; cbn [after_gather]; [split; reflexivity|apply load_one_del|apply run_func_del|apply run_func_del]. Qed.

Lemma on_put_del s : keeps_del s (on_put s).
Proof.
  unfold on_put. destruct (dm s); try (split; reflexivity).
  - apply start_round_del.
  - destruct g; try (split; reflexivity). destruct (q s); split; reflexivity.
  - destruct (q s); [split; reflexivity|].
    match goal with |- keeps_del _ (load_one ?a ?b ?c) => destruct (load_one_del a b c) as [H1 H2]; split; [rewrite H1; reflexivity|exact H2] end.
Qed.

Lemma do_feed_del s n a : keeps_del s (do_feed s n a).
Proof.
  unfold do_feed. destruct (open_here s n); cbn [negb]; [|split; reflexivity].
  destruct (dm s); try (split; reflexivity).
  - destruct (load_all (map (feed_if n a) ld)) as [[rem ys] fs]. destruct rem; [|split; reflexivity].
    match goal with |- keeps_del _ (after_gather ?a ?b ?c) => destruct (after_gather_del a b c) as [H1 H2]; split; [rewrite H1; reflexivity|exact H2] end.
  - destruct ((pid p =? n) && accepts p); [|split; reflexivity].
    match goal with |- keeps_del _ (load_one ?a ?b ?c) => destruct (load_one_del a b c) as [H1 H2]; split; [rewrite H1; reflexivity|exact H2] end.
Qed.

Lemma do_put_del s p k c : keeps_del s (do_put s p k c).
Proof.
  unfold do_put. destruct (existsb (Nat.eqb p) (seen s)); [split; reflexivity|].
  match goal with |- keeps_del _ (on_put ?a) => destruct (on_put_del a) as [H1 H2]; split; [rewrite H1; destruct c; reflexivity|exact H2] end.
Qed.

Lemma do_advance_del s dt : keeps_del s (do_advance s dt).
Proof.
  unfold do_advance. destruct (dm s); try (split; reflexivity).
  - destruct g; try (split; reflexivity). destruct (d <=? now s + dt)%N; split; reflexivity.
  - destruct (d <=? now s + dt)%N; [|split; reflexivity].
    match goal with |- context [run_func ?a ?b] => destruct (run_func_del a b) as [H1 H2]; destruct (run_func a b) end.
    split; [exact H1|exact H2].
Qed.

Lemma do_wait_del s w c : keeps_del s (do_wait s w c).
Proof.
  unfold do_wait. destruct (existsb (Nat.eqb w) (wseen s)); [split; reflexivity|].
  unfold wait_core. match goal with |- context [unfinished ?x =? 0] => destruct (unfinished x =? 0) end; [|split; reflexivity].
  cbn [dm set_gh set_wseen]. destruct (dm s); try (destruct (evset _); split; reflexivity).
  - destruct g; try (destruct (evset _); split; reflexivity). destruct c; split; reflexivity.
  - destruct c; [|split; reflexivity].
    match goal with |- keeps_del _ (run_func ?a ?b) => destruct (run_func_del a b) as [H1 H2]; split; [rewrite H1; reflexivity|exact H2] end.
Qed.



(* ---- waiters: where they come from ------------------------------------------------ *)
Definition wfrom (ws : list waiter) (w0 : waiter) : Prop :=
  exists w1, In w1 ws /\ wid w1 = wid w0 /\ wbefore w1 = wbefore w0.
Definition wsub (ws ws0 : list waiter) : Prop := forall w, In w ws -> wfrom ws0 w.

Lemma wfrom_in ws w : In w ws -> wfrom ws w.
Proof. intros H. exists w. auto. Qed.
Lemma wsub_refl ws : wsub ws ws.
Proof. intros w H. apply wfrom_in, H. Qed.
Lemma wfrom_sub ws ws0 w : wfrom ws w -> wsub ws ws0 -> wfrom ws0 w.
Proof.
  intros (w1 & Hin & E1 & E2) Hs. destruct (Hs w1 Hin) as (w2 & Hin2 & E3 & E4).
  exists w2. split; [exact Hin2|]. split; congruence.
Qed.
Lemma wsub_trans a b c : wsub a b -> wsub b c -> wsub a c.
Proof. intros H1 H2 w Hin. eapply wfrom_sub; eauto. Qed.
Lemma wsub_filter f ws : wsub (filter f ws) ws.
Proof. intros w H. apply filter_In in H as [H _]. apply wfrom_in, H. Qed.
Lemma wsub_pass ws : wsub (join_pass ws) ws.
Proof.
  intros w H. unfold join_pass in H. apply in_map_iff in H as (w1 & <- & Hin). exists w1. auto.
Qed.
Lemma wsub_app_l a b : wsub a (a ++ b).
Proof. intros w H. apply wfrom_in, in_or_app. auto. Qed.

Lemma release_shape s :
  snd (release s) = map (fun w => WaitRet (wid w) (now s) (nok s)) (filter is_onevent (waiters s)) /\
  waiters (fst (release s)) = filter is_joining (waiters s).
Proof. unfold release; cbn. auto. Qed.

Lemma pid_feed_if n a p : pid (feed_if n a p) = pid p.
Proof.
  unfold feed_if. destruct ((pid p =? n) && accepts p); [|reflexivity].
  destruct a; cbn [feed pid]; try reflexivity. destruct (single p); reflexivity.
Qed.

Lemma perm_snoc {A} (p : A) r : Permutation (p :: r) (r ++ [p]).
Proof. apply Permutation_cons_append. Qed.
Lemma perm_mid {A} (a b c : list A) : Permutation ((a ++ b) ++ c) ((a ++ c) ++ b).
Proof. rewrite <- !app_assoc. apply Permutation_app_head, Permutation_app_comm. Qed.

Section Skeleton.
  Variable P : list nat -> ghost -> list nat -> list prod -> Prop.   (* pids used so far, ghost, input set, producers held *)
  Variable fc_ok : bool.     (* may FnOkThenFClear (a foreign clear inside the set/test window) occur? *)
  Hypothesis P_perm : forall sn g ins ps ps', Permutation ps ps' -> P sn g ins ps -> P sn g ins ps'.
  Hypothesis P_load : forall sn g ins ps1 ps rem ys fs,
    P sn g ins (ps1 ++ ps) -> load_all ps = (rem, ys, fs) -> P sn (gh_load g ys fs) (set_addl ys ins) (ps1 ++ rem).
  Hypothesis P_deliver : forall sn g ins ps, P sn g ins ps -> P sn (gh_deliver g ins) [] ps.
  Hypothesis P_deliver_keep : fc_ok = true -> forall sn g ins ps, P sn g ins ps -> P sn (gh_deliver g ins) ins ps.
  Hypothesis P_put : forall sn g ins ps p k t b,
    P sn g ins ps -> existsb (Nat.eqb p) sn = false ->
    P (sn ++ [p]) (gh_tie (gh_offer g (map (fun x => (p, x)) (imm_args k)) t) b) ins (ps ++ [mk_prod p k]).
  Hypothesis P_feed : forall sn g ins ps n a,
    P sn g ins ps -> (exists p, In p ps /\ (pid p =? n) && accepts p = true) ->
    P sn (gh_offer1 g (map (fun x => (n, x)) (arg_of a))) ins (map (feed_if n a) ps).
  Hypothesis P_ext : forall sn g g' ins ps,
    g_offered g' = g_offered g -> g_loaded g' = g_loaded g -> g_delivered g' = g_delivered g ->
    P sn g ins ps -> P sn g' ins ps.
  Hypothesis P_ins : forall sn g ins ps, P sn g ins ps -> incl ins (off g).

  Definition InvP (s : state) : Prop := is_dead s = false -> P (seen s) (gh s) (cur_ins (dm s)) (prods s).
  Definition Post (r : state * list obs) : Prop :=
    is_dead (fst r) = false /\ P (seen (fst r)) (gh (fst r)) (cur_ins (dm (fst r))) (prods (fst r)) /\ starts_ok r.

Lemma run_func0_post s ins : P (seen s) (gh s) ins (q s) -> Post (run_func0 s ins).
Proof.
  intros HC. unfold run_func0. destruct ins as [|x r].
  - pose proof (release_facts s) as F. destruct (release s) as [s1 o]. cbn [fst snd] in F.
    destruct F as (F1 & F2 & F3 & F4 & F5 & F6 & F7 & F8).
    unfold Post; cbn [fst snd]. split; [reflexivity|]. split.
    + unfold prods; cbn. rewrite app_nil_r, F2, F8. eapply P_ext; eauto.
    + intros c set t H. exfalso. eapply F7; eauto.
  - unfold Post; cbn [fst snd]. split; [reflexivity|]. split.
    + unfold prods; cbn. rewrite app_nil_r. exact HC.
    + intros c set t [H|[]]. inversion H; subst. apply (P_ins _ _ _ _ HC).
Qed.

Lemma continue_round_post s ins ld : P (seen s) (gh s) ins (q s ++ ld) -> Post (continue_round s ins ld).
Proof.
  intros HC. unfold continue_round.
  set (u := unfinished s - length (q s)).
  destruct (load_all (ld ++ q s)) as [[rem ys] fs] eqn:El.
  assert (HC1 : P (seen s) (gh_load (gh s) ys fs) (set_addl ys ins) rem).
  { apply (P_load (seen s) (gh s) ins [] (ld ++ q s) rem ys fs); [|exact El].
    cbn [app]. eapply P_perm; [|exact HC]. apply Permutation_app_comm. }
  set (s2 := if u =? 0 then _ else _).
  assert (Hgh : gh s2 = gh s) by (unfold s2; destruct (u =? 0); reflexivity).
  assert (Hq : q s2 = []) by (unfold s2; destruct (u =? 0); reflexivity).
  assert (Hsn : seen s2 = seen s) by (unfold s2; destruct (u =? 0); reflexivity).
  destruct rem as [|p rem].
  - destruct ((u =? 0) && wants_cancel (waiters (set_q s [] u))).
    + apply run_func0_post. cbn [load_gh gh set_gh q seen]. rewrite Hq, Hgh, Hsn. exact HC1.
    + unfold Post; cbn [fst snd]. split; [reflexivity|]. split; [|apply no_starts].
      unfold prods. cbn [load_gh gh set_gh set_dm q dm cur_ins dprods seen]. rewrite Hq, Hgh, Hsn. exact HC1.
  - unfold Post; cbn [fst snd]. split; [reflexivity|]. split; [|apply no_starts].
    unfold prods. cbn [load_gh gh set_gh set_dm q dm cur_ins dprods seen]. rewrite Hq, Hgh, Hsn.
    destruct ((u =? 0) && wants_cancel _); cbn [got_of]; rewrite app_nil_r; exact HC1.
Qed.

Lemma start_round_post s : P (seen s) (gh s) [] (q s) -> Post (start_round s).
Proof.
  intros HC. unfold start_round. destruct (q s) as [|p r] eqn:Eq.
  - unfold Post; cbn [fst snd]. split; [reflexivity|]. split; [|apply no_starts].
    unfold prods; cbn. rewrite Eq. exact HC.
  - apply continue_round_post. cbn [gh set_event set_q q]. eapply P_perm; [|exact HC]. apply perm_snoc.
Qed.

Lemma run_func_post s ins : P (seen s) (gh s) ins (q s) -> Post (run_func s ins).
Proof.
  intros HC. unfold run_func. destruct ins as [|x r].
  - pose proof (release_facts s) as F. destruct (release s) as [s1 o1]. cbn [fst snd] in F.
    destruct F as (F1 & F2 & F3 & F4 & F5 & F6 & F7 & F8).
    assert (HC1 : P (seen s1) (gh s1) [] (q s1)) by (rewrite F2, F8; eapply P_ext; eauto).
    pose proof (start_round_post s1 HC1) as Q. unfold end_round. destruct (start_round s1) as [s2 o2].
    destruct Q as (P1 & P2 & P3). unfold Post, starts_ok in *; cbn [fst snd] in *.
    split; [exact P1|]. split; [exact P2|]. intros c set t Hin. apply in_app_or in Hin as [Hin|Hin]; [exfalso; eapply F7; eauto|eapply P3; eauto].
  - unfold Post; cbn [fst snd]. split; [reflexivity|]. split.
    + unfold prods; cbn. rewrite app_nil_r. exact HC.
    + intros c set t [H|[]]. inversion H; subst. apply (P_ins _ _ _ _ HC).
Qed.

Lemma load_one_post s ins p : P (seen s) (gh s) ins (q s ++ [p]) -> Post (load_one s ins p).
Proof.
  intros HC. unfold load_one.
  pose proof (load_all_one p) as El.
  destruct (p_fin p).
  - pose proof (P_load _ _ _ _ _ _ _ _ HC El) as HC1. rewrite app_nil_r in HC1.
    apply continue_round_post. cbn [load_gh gh set_gh set_q q]. exact HC1.
  - pose proof (P_load _ _ _ _ _ _ _ _ HC El) as HC1. rewrite app_nil_r in HC1.
    unfold Post; cbn [fst snd]. split; [reflexivity|]. split; [|apply no_starts].
    unfold prods. cbn [load_gh gh set_gh set_dm q dm cur_ins dprods]. exact HC1.
Qed.

Lemma after_gather_post s ins g : P (seen s) (gh s) ins (q s ++ got_of g) -> Post (after_gather s ins g).
Proof.
  intros HC. destruct g; cbn [after_gather got_of] in *; rewrite ?app_nil_r in HC.
  - unfold Post; cbn [fst snd]. split; [reflexivity|]. split; [|apply no_starts].
    unfold prods; cbn. rewrite app_nil_r. exact HC.
  - apply load_one_post; exact HC.
  - apply run_func_post; exact HC.
  - apply run_func_post; exact HC.
Qed.


(* ---- what holds whenever a wait() returns --------------------------------------------
   Every WaitRet of a macro step is emitted by [release] (event.set()) on some
   intermediate state sr in which the round's input set is empty (nothing loaded
   is undelivered) and the producers the buffer still holds are exactly those
   queued, q sr; the returning waiter w0 either passed q.join() in this very
   step (then q sr = []), or was already past it when the step began (then it is
   one of the waiters of the state the helper started from, and the queue has
   the same producer ids as then).  P at sr is what instances turn into "all
   arguments of the producers submitted before that wait() are delivered". *)
  Definition rets_left (ws0 : list waiter) (r : state * list obs) : Prop :=
    forall w t n, In (WaitRet w t n) (snd r) ->
      exists sr w0, P (seen sr) (gh sr) [] (q sr) /\ wid w0 = w /\ q sr = [] /\ wfrom ws0 w0 /\
        g_offered (gh sr) = g_offered (gh (fst r)) /\ g_delivered (gh sr) = g_delivered (gh (fst r)).

  Definition rets_ok (ws0 : list waiter) (qp : list nat) (r : state * list obs) : Prop :=
    forall w t n, In (WaitRet w t n) (snd r) ->
      exists sr w0, P (seen sr) (gh sr) [] (q sr) /\ wid w0 = w /\
        ((q sr = [] /\ wfrom ws0 w0) \/ (In w0 ws0 /\ is_onevent w0 = true /\ map pid (q sr) = qp)) /\
        g_offered (gh sr) = g_offered (gh (fst r)) /\ g_delivered (gh sr) = g_delivered (gh (fst r)).

Lemma rets_left_sub ws1 ws0 r : rets_left ws1 r -> wsub ws1 ws0 -> rets_left ws0 r.
Proof.
  intros H Hs w t n Hin. destruct (H w t n Hin) as (sr & w0 & A & B & C & D & E & F).
  exists sr, w0. repeat split; auto. eapply wfrom_sub; eauto.
Qed.

Lemma rets_left_ok ws0 qp r : rets_left ws0 r -> rets_ok ws0 qp r.
Proof.
  intros H w t n Hin. destruct (H w t n Hin) as (sr & w0 & A & B & C & D & E & F).
  exists sr, w0. repeat split; auto.
Qed.

Lemma rets_left_nil ws0 s' : rets_left ws0 (s', []).
Proof. intros w t n []. Qed.
Lemma rets_ok_nil ws0 qp s' : rets_ok ws0 qp (s', []).
Proof. intros w t n []. Qed.

Lemma rets_left_final ws0 s1 s2 o :
  rets_left ws0 (s1, o) -> g_offered (gh s2) = g_offered (gh s1) -> g_delivered (gh s2) = g_delivered (gh s1) ->
  rets_left ws0 (s2, o).
Proof.
  intros H E1 E2 w t n Hin. destruct (H w t n Hin) as (sr & w0 & A & B & C & D & E & F).
  exists sr, w0. cbn [fst] in *. repeat split; auto; congruence.
Qed.
Lemma rets_ok_final ws0 qp s1 s2 o :
  rets_ok ws0 qp (s1, o) -> g_offered (gh s2) = g_offered (gh s1) -> g_delivered (gh s2) = g_delivered (gh s1) ->
  rets_ok ws0 qp (s2, o).
Proof.
  intros H E1 E2 w t n Hin. destruct (H w t n Hin) as (sr & w0 & A & B & C & D & E).
  exists sr, w0. cbn [fst] in *. repeat split; auto; congruence.
Qed.
Lemma rets_ok_app ws0 qp s' o1 o2 : rets_ok ws0 qp (s', o1) -> rets_ok ws0 qp (s', o2) -> rets_ok ws0 qp (s', o1 ++ o2).
Proof. intros H1 H2 w t n Hin. cbn [snd] in Hin. apply in_app_or in Hin as [Hin|Hin]; [apply (H1 w t n Hin)|apply (H2 w t n Hin)]. Qed.

(* the first release of a helper: on the state it was called with *)
Lemma release_rets s s' :
  P (seen s) (gh s) [] (q s) ->
  g_offered (gh s') = g_offered (gh s) -> g_delivered (gh s') = g_delivered (gh s) ->
  rets_ok (waiters s) (map pid (q s)) (s', snd (release s)).
Proof.
  intros HC E1 E2 w t n Hin. cbn [snd] in Hin. destruct (release_shape s) as [Ho _]. rewrite Ho in Hin.
  apply in_map_iff in Hin as (w0 & E & Hin). inversion E; subst. apply filter_In in Hin as [Hin Hon].
  exists s, w0. split; [exact HC|]. split; [reflexivity|]. split; [right; auto|]. cbn [fst]. auto.
Qed.

Lemma run_func0_rets s ins : P (seen s) (gh s) ins (q s) -> q s = [] -> rets_left (waiters s) (run_func0 s ins).
Proof.
  intros HC Hq. unfold run_func0. destruct ins as [|x r].
  - pose proof (release_facts s) as F. pose proof (release_shape s) as [Ho _].
    destruct (release s) as [s1 o]. cbn [fst snd] in *. destruct F as (F1 & F2 & F3 & F4 & F5 & F6 & F7 & F8).
    intros w t n Hin. cbn [snd] in Hin. rewrite Ho in Hin.
    apply in_map_iff in Hin as (w0 & E & Hin). inversion E; subst. apply filter_In in Hin as [Hin _].
    exists s, w0. cbn [fst gh set_dm]. repeat split; auto. apply wfrom_in, Hin.
  - intros w t n [H|[]]. discriminate.
Qed.

Lemma continue_round_rets s ins ld : P (seen s) (gh s) ins (q s ++ ld) -> rets_left (waiters s) (continue_round s ins ld).
Proof.
  intros HC. unfold continue_round.
  set (u := unfinished s - length (q s)).
  destruct (load_all (ld ++ q s)) as [[rem ys] fs] eqn:El.
  assert (HC1 : P (seen s) (gh_load (gh s) ys fs) (set_addl ys ins) rem).
  { apply (P_load (seen s) (gh s) ins [] (ld ++ q s) rem ys fs); [|exact El].
    cbn [app]. eapply P_perm; [|exact HC]. apply Permutation_app_comm. }
  set (s2 := if u =? 0 then _ else _).
  assert (Hgh : gh s2 = gh s) by (unfold s2; destruct (u =? 0); reflexivity).
  assert (Hq : q s2 = []) by (unfold s2; destruct (u =? 0); reflexivity).
  assert (Hsn : seen s2 = seen s) by (unfold s2; destruct (u =? 0); reflexivity).
  assert (Hw : wsub (waiters s2) (waiters s)) by (unfold s2; destruct (u =? 0); cbn; [apply wsub_pass|apply wsub_refl]).
  destruct rem as [|p rem]; [|apply rets_left_nil].
  destruct ((u =? 0) && wants_cancel (waiters (set_q s [] u))); [|apply rets_left_nil].
  eapply rets_left_sub; [apply run_func0_rets|].
  - cbn [load_gh gh set_gh q seen]. rewrite Hq, Hgh, Hsn. exact HC1.
  - cbn. exact Hq.
  - cbn. exact Hw.
Qed.

Lemma start_round_rets s : P (seen s) (gh s) [] (q s) -> rets_left (waiters s) (start_round s).
Proof.
  intros HC. unfold start_round. destruct (q s) as [|p r] eqn:Eq; [apply rets_left_nil|].
  apply (continue_round_rets (set_event (set_q s r (unfinished s - 1)) false) [] [p]).
  cbn [gh set_event set_q q seen]. eapply P_perm; [|exact HC]. apply perm_snoc.
Qed.

Lemma run_func_rets s ins : P (seen s) (gh s) ins (q s) -> rets_ok (waiters s) (map pid (q s)) (run_func s ins).
Proof.
  intros HC. unfold run_func. destruct ins as [|x r].
  - pose proof (release_facts s) as F. pose proof (release_shape s) as [Ho Hw].
    pose proof (release_rets s) as RR.
    destruct (release s) as [s1 o1]. cbn [fst snd] in *. destruct F as (F1 & F2 & F3 & F4 & F5 & F6 & F7 & F8).
    assert (HC1 : P (seen s1) (gh s1) [] (q s1)) by (rewrite F2, F8; eapply P_ext; eauto).
    pose proof (start_round_rets s1 HC1) as Q. unfold end_round.
    pose proof (start_round_off s1) as Ko. destruct (start_round_del s1) as [Kd _].
    destruct (start_round s1) as [s2 o2]. unfold keeps_off in Ko. cbn [fst snd] in *.
    apply rets_ok_app.
    + apply RR; [exact HC|congruence|congruence].
    + apply rets_left_ok. eapply rets_left_sub; [exact Q|]. rewrite Hw. apply wsub_filter.
  - intros w t n [H|[]]. discriminate.
Qed.

Lemma load_one_rets s ins p : P (seen s) (gh s) ins (q s ++ [p]) -> rets_left (waiters s) (load_one s ins p).
Proof.
  intros HC. unfold load_one. pose proof (load_all_one p) as El.
  destruct (p_fin p); [|apply rets_left_nil].
  pose proof (P_load _ _ _ _ _ _ _ _ HC El) as HC1. rewrite app_nil_r in HC1.
  apply (continue_round_rets (set_q (load_gh s (p_yields p) [pid p]) (q s) (unfinished s - 1))).
  cbn [load_gh gh set_gh set_q q seen]. exact HC1.
Qed.

Lemma after_gather_rets s ins g :
  P (seen s) (gh s) ins (q s ++ got_of g) -> rets_ok (waiters s) (map pid (q s)) (after_gather s ins g).
Proof.
  intros HC. destruct g; cbn [after_gather got_of] in *; rewrite ?app_nil_r in HC.
  - apply rets_ok_nil.
  - apply rets_left_ok, load_one_rets; exact HC.
  - apply run_func_rets; exact HC.
  - apply run_func_rets; exact HC.
Qed.

Lemma stay_post s : is_dead s = false -> InvP s -> Post (s, []).
Proof. intros Hd HI. unfold Post; cbn [fst snd]. split; [exact Hd|]. split; [exact (HI Hd)|apply no_starts]. Qed.

Lemma on_put_post s : is_dead s = false -> InvP s -> Post (on_put s).
Proof.
  intros Hd HI. specialize (HI Hd). unfold prods in HI. unfold on_put.
  destruct (dm s) eqn:Ed; cbn [cur_ins dprods] in HI; rewrite ?app_nil_r in HI.
  - apply start_round_post; exact HI.
  - destruct g; try (apply stay_post; [exact Hd|intros _; unfold prods; rewrite Ed; exact HI]).
    destruct (q s) as [|p r] eqn:Eq; [apply stay_post; [exact Hd|intros _; unfold prods; rewrite Ed, Eq; exact HI]|].
    unfold Post; cbn [fst snd]. split; [reflexivity|]. split; [|apply no_starts].
    unfold prods. cbn [gh set_dm set_q q dm cur_ins dprods got_of].
    eapply P_perm; [|exact HI]. cbn [got_of app]. rewrite app_nil_r.
    etransitivity; [apply perm_snoc|]. rewrite <- app_assoc. reflexivity.
  - destruct (q s) as [|p r] eqn:Eq; [apply stay_post; [exact Hd|intros _; unfold prods; rewrite Ed, Eq; exact HI]|].
    apply load_one_post. cbn [gh set_q q]. eapply P_perm; [|exact HI]. apply perm_snoc.
  - apply stay_post; [exact Hd|intros _; unfold prods; rewrite Ed; exact HI].
  - apply stay_post; [exact Hd|intros _; unfold prods; rewrite Ed; rewrite app_nil_r; exact HI].
  - unfold is_dead in Hd. rewrite Ed in Hd. discriminate.
Qed.

Lemma do_put_post s p k c : is_dead s = false -> InvP s -> Post (do_put s p k c).
Proof.
  intros Hd HI. unfold do_put. destruct (existsb (Nat.eqb p) (seen s)) eqn:Efresh; [apply stay_post; assumption|].
  apply on_put_post.
  - destruct c; exact Hd.
  - intros _. specialize (HI Hd). unfold prods in *.
    assert (HC : P (seen s ++ [p]) (gh_tie (gh_offer (gh s) (map (fun x => (p, x)) (imm_args k)) (now s)) (tie_now s))
                      (cur_ins (dm s)) ((q s ++ [mk_prod p k]) ++ dprods (dm s))).
    { eapply P_perm; [|apply P_put; [exact HI|exact Efresh]]. apply perm_mid. }
    destruct c; exact HC.
Qed.

Lemma do_feed_post s n a : is_dead s = false -> InvP s -> Post (do_feed s n a).
Proof.
  intros Hd HI. unfold do_feed. destruct (open_here s n) eqn:Eo; cbn [negb]; [|apply stay_post; assumption].
  specialize (HI Hd). pose proof (P_feed _ _ _ _ n a HI (open_here_ex _ _ Eo)) as HC.
  unfold prods in HC. rewrite map_app in HC.
  destruct (dm s) eqn:Ed; cbn [cur_ins dprods] in HC.
  - unfold Post; cbn [fst snd]. split; [exact Hd|]. split; [|apply no_starts].
    unfold prods; cbn [gh set_gh set_q q dm]. rewrite Ed. exact HC.
  - destruct (load_all (map (feed_if n a) ld)) as [[rem ys] fs] eqn:El.
    rewrite map_app in HC.
    assert (Hg : map (feed_if n a) (got_of g) = got_of (feed_get n a g)) by (destruct g; reflexivity).
    rewrite Hg in HC.
    assert (HC1 : P (seen s) (gh_load (gh_offer1 (gh s) (map (fun x => (n, x)) (arg_of a))) ys fs) (set_addl ys ins)
                       ((map (feed_if n a) (q s) ++ got_of (feed_get n a g)) ++ rem)).
    { eapply P_load; [|exact El]. eapply P_perm; [|exact HC]. rewrite app_assoc. apply perm_mid. }
    destruct rem as [|p rem].
    + apply after_gather_post. cbn [load_gh gh set_gh set_q q]. rewrite app_nil_r in HC1. exact HC1.
    + unfold Post; cbn [fst snd]. split; [reflexivity|]. split; [|apply no_starts].
      unfold prods. cbn [load_gh gh set_gh set_dm set_q q dm cur_ins dprods].
      eapply P_perm; [|exact HC1]. rewrite (app_assoc _ (p :: rem)). apply perm_mid.
  - unfold Post; cbn [fst snd]. split; [exact Hd|]. split; [|apply no_starts].
    unfold prods; cbn [gh set_gh set_q q dm]. rewrite Ed. exact HC.
  - destruct ((pid p =? n) && accepts p) eqn:E.
    + apply load_one_post. cbn [gh set_gh set_q q]. cbn [map] in HC. unfold feed_if in HC at 2. rewrite E in HC. exact HC.
    + unfold Post; cbn [fst snd]. split; [exact Hd|]. split; [|apply no_starts].
      unfold prods; cbn [gh set_gh set_q q dm]. rewrite Ed. cbn [cur_ins dprods].
      cbn [map] in HC. unfold feed_if in HC at 2. rewrite E in HC. exact HC.
  - unfold Post; cbn [fst snd]. split; [exact Hd|]. split; [|apply no_starts].
    unfold prods; cbn [gh set_gh set_q q dm]. rewrite Ed. exact HC.
  - unfold is_dead in Hd. rewrite Ed in Hd. discriminate.
Qed.

Lemma wait_core_post s w c : is_dead s = false -> InvP s -> Post (wait_core s w c).
Proof.
  intros Hd HI. pose proof (HI Hd) as HC. unfold prods in HC. unfold wait_core.
  assert (Stay : forall s', dm s' = dm s -> q s' = q s -> seen s' = seen s ->
                 g_offered (gh s') = g_offered (gh s) -> g_loaded (gh s') = g_loaded (gh s) ->
                 g_delivered (gh s') = g_delivered (gh s) -> forall o, (forall c0 set t, ~ In (FnStart c0 set t) o) -> Post (s', o)).
  { intros s' E1 E2 E0 E3 E4 E5 o Ho. unfold Post; cbn [fst snd]. split; [unfold is_dead; rewrite E1; exact Hd|].
    split; [|intros c0 set t Hin; exfalso; eapply Ho; eauto].
    unfold prods. rewrite E1, E2, E0. eapply P_ext; eauto. }
  assert (No : forall c0 set t, ~ In (FnStart c0 set t) []) by (intros ? ? ? []).
  destruct (unfinished s =? 0); [|apply Stay; auto].
  destruct (dm s) eqn:Ed; cbn [cur_ins dprods] in HC.
  - destruct (evset s); apply Stay; auto. intros c0 set t [H|[]]; discriminate.
  - destruct g; try (destruct (evset s); apply Stay; auto; intros c0 set t [H|[]]; discriminate).
    destruct c; [|apply Stay; auto; cbn; auto].
    unfold Post; cbn [fst snd]. split; [reflexivity|]. split; [|apply no_starts].
    unfold prods. cbn. cbn in HC. exact HC.
  - destruct c; [|apply Stay; auto; cbn; auto].
    apply run_func_post. cbn [gh set_waiters q]. rewrite app_nil_r in HC. exact HC.
  - destruct (evset s); apply Stay; auto. intros c0 set t [H|[]]; discriminate.
  - destruct (evset s); apply Stay; auto. intros c0 set t [H|[]]; discriminate.
  - destruct (evset s); apply Stay; auto. intros c0 set t [H|[]]; discriminate.
Qed.

Lemma do_wait_post s w c : is_dead s = false -> InvP s -> Post (do_wait s w c).
Proof.
  intros Hd HI. unfold do_wait. destruct (existsb (Nat.eqb w) (wseen s)); [apply stay_post; assumption|].
  apply wait_core_post; [exact Hd|]. intros _. specialize (HI Hd). unfold prods in *. cbn.
  eapply P_ext; [| | |exact HI]; reflexivity.
Qed.

Lemma do_advance_post s dt : is_dead s = false -> InvP s -> Post (do_advance s dt).
Proof.
  intros Hd HI. pose proof (HI Hd) as HC. unfold prods in HC. unfold do_advance.
  assert (Stay : forall s', dm s' = dm s -> q s' = q s -> gh s' = gh s -> seen s' = seen s -> Post (s', [])).
  { intros s' E1 E2 E3 E0. unfold Post; cbn [fst snd]. split; [unfold is_dead; rewrite E1; exact Hd|].
    split; [|apply no_starts]. unfold prods. rewrite E1, E2, E3, E0. exact HC. }
  destruct (dm s) as [|ins ld g|ins d|ins p|ins|] eqn:Ed; cbn [cur_ins dprods] in HC; try (apply Stay; cbn; auto).
  - destruct g as [d|p| |]; try (apply Stay; cbn; auto).
    destruct (d <=? now s + dt)%N; [|apply Stay; cbn; auto].
    unfold Post; cbn [fst snd]. split; [reflexivity|]. split; [|apply no_starts].
    unfold prods. cbn. cbn in HC. exact HC.
  - destruct (d <=? now s + dt)%N; [|apply Stay; cbn; auto].
    match goal with |- context [run_func ?a ?b] => pose proof (run_func_post a b) as Q; destruct (run_func a b) as [s1 o] end.
    rewrite app_nil_r in HC. specialize (Q HC). destruct Q as (P1 & P2 & P3).
    unfold Post, starts_ok in *; cbn [fst snd] in *. split; [exact P1|]. split; [exact P2|exact P3].
Qed.

Lemma do_fn_end_post s ok fc : (fc = true -> fc_ok = true) -> is_dead s = false -> InvP s -> Post (do_fn_end s ok fc).
Proof.
  intros Hfc Hd HI. pose proof (HI Hd) as HC. unfold prods in HC. unfold do_fn_end.
  destruct (dm s) eqn:Ed; try (apply stay_post; assumption).
  cbn [cur_ins dprods] in HC. rewrite app_nil_r in HC.
  assert (Cons : forall r o0, Post r -> (forall c set t, ~ In (FnStart c set t) o0) ->
                 Post (let '(s3, o2) := r in (s3, o0 ++ o2))).
  { intros [s3 o2] o0 (P1 & P2 & P3) Ho. unfold Post, starts_ok in *; cbn [fst snd] in *.
    split; [exact P1|]. split; [exact P2|]. intros c set t Hin. apply in_app_or in Hin as [Hin|Hin]; [exfalso; eapply Ho; eauto|eauto]. }
  destruct ok.
  - match goal with |- context [release ?x] => pose proof (release_facts x) as F; destruct (release x) as [s2 o1] end.
    cbn [fst snd] in F. destruct F as (F1 & F2 & F3 & F4 & F5 & F6 & F7 & F8).
    cbn [gh set_gh set_calls q seen] in F2, F4, F5, F6, F8.
    assert (Ho : forall c set t, ~ In (FnStart c set t) ([FnEnd (callno s - 1) true ins] ++ o1)).
    { intros c set t Hin. apply in_app_or in Hin as [[H|[]]|Hin]; [discriminate|eapply F7; eauto]. }
    destruct fc.
    + pose proof (continue_round_post (set_event s2 false) ins []) as Q.
      cbn [gh set_event q seen] in Q. rewrite app_nil_r, F2 in Q.
      assert (HC1 : P (seen s2) (gh s2) ins (q s)).
      { rewrite F8. eapply P_ext; [exact F4|exact F5|exact F6|]. apply P_deliver_keep; [apply Hfc; reflexivity|exact HC]. }
      specialize (Q HC1). specialize (Cons _ _ Q Ho).
      destruct (continue_round (set_event s2 false) ins []) as [s3 o2]. rewrite app_assoc. exact Cons.
    + pose proof (start_round_post s2) as Q. rewrite F2 in Q.
      assert (HC1 : P (seen s2) (gh s2) [] (q s)).
      { rewrite F8. eapply P_ext; [exact F4|exact F5|exact F6|]. apply P_deliver; exact HC. }
      specialize (Q HC1). specialize (Cons _ _ Q Ho). unfold end_round.
      destruct (start_round s2) as [s3 o2]. rewrite app_assoc. exact Cons.
  - pose proof (continue_round_post s ins []) as Q. rewrite app_nil_r in Q. specialize (Q HC).
    assert (Ho : forall c set t, ~ In (FnStart c set t) [FnEnd (callno s - 1) false ins]).
    { intros c set t [H|[]]; discriminate. }
    specialize (Cons _ _ Q Ho). destruct (continue_round s ins []) as [s1 o1]. exact Cons.
Qed.


(* ---- the same, per macro step ---------------------------------------------------- *)
Lemma on_put_rets s : is_dead s = false -> InvP s -> rets_left (waiters s) (on_put s).
Proof.
  intros Hd HI. specialize (HI Hd). unfold prods in HI. unfold on_put.
  destruct (dm s) eqn:Ed; cbn [cur_ins dprods] in HI; rewrite ?app_nil_r in HI; try apply rets_left_nil.
  - apply start_round_rets; exact HI.
  - destruct g; try apply rets_left_nil. destruct (q s); apply rets_left_nil.
  - destruct (q s) as [|p r] eqn:Eq; [apply rets_left_nil|].
    apply (load_one_rets (set_q s r (unfinished s)) ins p). cbn [gh set_q q seen]. eapply P_perm; [|exact HI]. apply perm_snoc.
Qed.

Lemma do_put_rets s p k c : is_dead s = false -> InvP s -> rets_left (waiters s) (do_put s p k c).
Proof.
  intros Hd HI. unfold do_put. destruct (existsb (Nat.eqb p) (seen s)) eqn:Efresh; [apply rets_left_nil|].
  match goal with |- rets_left _ (on_put ?x) => assert (Hw : waiters x = waiters s) by (destruct c; reflexivity);
    rewrite <- Hw; apply on_put_rets end.
  - destruct c; exact Hd.
  - intros _. specialize (HI Hd). unfold prods in *.
    assert (HC : P (seen s ++ [p]) (gh_tie (gh_offer (gh s) (map (fun x => (p, x)) (imm_args k)) (now s)) (tie_now s))
                      (cur_ins (dm s)) ((q s ++ [mk_prod p k]) ++ dprods (dm s))).
    { eapply P_perm; [|apply P_put; [exact HI|exact Efresh]]. apply perm_mid. }
    destruct c; exact HC.
Qed.

Lemma do_feed_rets s n a : is_dead s = false -> InvP s -> rets_ok (waiters s) (map pid (q s)) (do_feed s n a).
Proof.
  intros Hd HI. unfold do_feed. destruct (open_here s n) eqn:Eo; cbn [negb]; [|apply rets_ok_nil].
  specialize (HI Hd). pose proof (P_feed _ _ _ _ n a HI (open_here_ex _ _ Eo)) as HC.
  unfold prods in HC. rewrite map_app in HC.
  assert (Hpq : map pid (map (feed_if n a) (q s)) = map pid (q s)).
  { rewrite map_map. apply map_ext. intros p0. apply pid_feed_if. }
  destruct (dm s) eqn:Ed; cbn [cur_ins dprods] in HC; try apply rets_ok_nil.
  - destruct (load_all (map (feed_if n a) ld)) as [[rem ys] fs] eqn:El.
    rewrite map_app in HC.
    assert (Hg : map (feed_if n a) (got_of g) = got_of (feed_get n a g)) by (destruct g; reflexivity).
    rewrite Hg in HC.
    assert (HC1 : P (seen s) (gh_load (gh_offer1 (gh s) (map (fun x => (n, x)) (arg_of a))) ys fs) (set_addl ys ins)
                       ((map (feed_if n a) (q s) ++ got_of (feed_get n a g)) ++ rem)).
    { eapply P_load; [|exact El]. eapply P_perm; [|exact HC]. rewrite app_assoc. apply perm_mid. }
    destruct rem as [|p rem]; [|apply rets_ok_nil].
    match goal with |- rets_ok _ _ (after_gather ?x ?i ?gg) => pose proof (after_gather_rets x i gg) as Q end.
    cbn [load_gh gh set_gh set_q q seen waiters] in Q. rewrite Hpq in Q. apply Q. rewrite app_nil_r in HC1. exact HC1.
  - destruct ((pid p =? n) && accepts p) eqn:E; [|apply rets_ok_nil].
    apply rets_left_ok.
    match goal with |- rets_left _ (load_one ?x ?i ?pp) => pose proof (load_one_rets x i pp) as Q end.
    cbn [gh set_gh set_q q seen waiters] in Q. apply Q.
    cbn [map] in HC. unfold feed_if in HC at 2. rewrite E in HC. exact HC.
Qed.

Definition new_waiter (s : state) (e : event) : list waiter :=
  match e with Wait w c => [mkw w c OnEvent (seen s)] | _ => [] end.

Definition rets_step (s : state) (e : event) (r : state * list obs) : Prop :=
  forall w t n, In (WaitRet w t n) (snd r) ->
    (exists sr w0, P (seen sr) (gh sr) [] (q sr) /\ wid w0 = w /\
        ((q sr = [] /\ wfrom (waiters s ++ new_waiter s e) w0) \/
         (In w0 (waiters s ++ new_waiter s e) /\ is_onevent w0 = true /\ map pid (q sr) = map pid (q s))) /\
        g_offered (gh sr) = g_offered (gh (fst r)) /\ g_delivered (gh sr) = g_delivered (gh (fst r)))
    \/ (exists c, e = Wait w c /\ evset s = true /\ snd r = [WaitRet w t n]).

Lemma rets_ok_step s e r : rets_ok (waiters s) (map pid (q s)) r -> rets_step s e r.
Proof.
  intros H w t n Hin. left. destruct (H w t n Hin) as (sr & w0 & A & B & C & D & E).
  exists sr, w0. repeat split; auto. destruct C as [[C1 C2]|(C1 & C2 & C3)].
  - left. split; [exact C1|]. eapply wfrom_sub; [exact C2|apply wsub_app_l].
  - right. split; [apply in_or_app; auto|auto].
Qed.

Lemma wait_core_rets s w c :
  is_dead s = false -> InvP s -> rets_step s (Wait w c) (wait_core s w c).
Proof.
  intros Hd HI. pose proof (HI Hd) as HC. unfold prods in HC. unfold wait_core.
  assert (No : forall s', rets_step s (Wait w c) (s', [])) by (intros s' w' t n []).
  destruct (unfinished s =? 0); [|apply No].
  assert (Imm : forall s', evset s = true -> rets_step s (Wait w c) (s', [WaitRet w (now s) (nok s)])).
  { intros s' He w' t n [H|[]]. inversion H; subst. right. exists c. auto. }
  destruct (dm s) eqn:Ed; cbn [cur_ins dprods] in HC; try (destruct (evset s) eqn:Ee; [apply Imm; reflexivity|apply No]).
  - destruct g; try (destruct (evset s) eqn:Ee; [apply Imm; reflexivity|apply No]). destruct c; apply No.
  - destruct c; [|apply No]. rewrite app_nil_r in HC.
    match goal with |- rets_step _ _ (run_func ?x ?i) => pose proof (run_func_rets x i) as Q end.
    cbn [gh set_waiters q seen waiters] in Q. specialize (Q HC).
    intros w' t n Hin. left. destruct (Q w' t n Hin) as (sr & w0 & A & B & C & D & E). exists sr, w0. auto.
Qed.

Lemma do_wait_rets s w c :
  is_dead s = false -> InvP s -> rets_step s (Wait w c) (do_wait s w c).
Proof.
  intros Hd HI. unfold do_wait. destruct (existsb (Nat.eqb w) (wseen s)); [intros w' t n []|].
  set (s' := set_gh (set_wseen s (wseen s ++ [w])) (gh_tie (gh s) (tie_now s))).
  assert (HI' : InvP s').
  { intros _. specialize (HI Hd). unfold prods in *. cbn. eapply P_ext; [| | |exact HI]; reflexivity. }
  pose proof (wait_core_rets s' w c Hd HI') as Q. exact Q.
Qed.

Lemma do_advance_rets s dt : is_dead s = false -> InvP s -> rets_ok (waiters s) (map pid (q s)) (do_advance s dt).
Proof.
  intros Hd HI. pose proof (HI Hd) as HC. unfold prods in HC. unfold do_advance.
  destruct (dm s) as [|ins ld g|ins d|ins p|ins|] eqn:Ed; cbn [cur_ins dprods] in HC; try apply rets_ok_nil.
  - destruct g as [d|p| |]; try apply rets_ok_nil. destruct (d <=? now s + dt)%N; apply rets_ok_nil.
  - destruct (d <=? now s + dt)%N; [|apply rets_ok_nil].
    match goal with |- context [run_func ?a ?b] => pose proof (run_func_rets a b) as Q; destruct (run_func a b) as [s1 o] end.
    rewrite app_nil_r in HC. cbn [gh set_lastfire set_now q seen waiters] in Q. specialize (Q HC).
    eapply rets_ok_final; [exact Q| |]; reflexivity.
Qed.

Lemma do_fn_end_rets s ok fc :
  (fc = true -> fc_ok = true) -> is_dead s = false -> InvP s -> rets_ok (waiters s) (map pid (q s)) (do_fn_end s ok fc).
Proof.
  intros Hfc Hd HI. pose proof (HI Hd) as HC. unfold prods in HC. unfold do_fn_end.
  destruct (dm s) eqn:Ed; try apply rets_ok_nil.
  cbn [cur_ins dprods] in HC. rewrite app_nil_r in HC.
  assert (NoEnd : forall s' c0 b l, rets_ok (waiters s) (map pid (q s)) (s', [FnEnd c0 b l])).
  { intros s' c0 b l w t n [H|[]]. discriminate. }
  destruct ok.
  - set (s1 := set_gh (set_calls s (callno s) (S (nok s))) (gh_deliver (gh s) ins)).
    assert (HC1 : P (seen s1) (gh s1) [] (q s1)) by (cbn; apply P_deliver; exact HC).
    pose proof (release_facts s1) as F. pose proof (release_shape s1) as [Ho Hw]. pose proof (release_rets s1) as RR.
    destruct (release s1) as [s2 o1]. cbn [fst snd] in *. destruct F as (F1 & F2 & F3 & F4 & F5 & F6 & F7 & F8).
    assert (HC2 : P (seen s2) (gh s2) [] (q s2)) by (rewrite F2, F8; eapply P_ext; eauto).
    assert (Hws : wsub (waiters s2) (waiters s)) by (rewrite Hw; apply wsub_filter).
    destruct fc.
    + assert (HCk : P (seen s2) (gh s2) ins (q s2)).
      { rewrite F2, F8. eapply P_ext; [exact F4|exact F5|exact F6|]. cbn. apply P_deliver_keep; [apply Hfc; reflexivity|exact HC]. }
      pose proof (continue_round_rets (set_event s2 false) ins []) as Q. cbn [gh set_event q seen waiters] in Q.
      rewrite app_nil_r in Q. specialize (Q HCk).
      pose proof (continue_round_off (set_event s2 false) ins []) as Ko.
      destruct (continue_round_del (set_event s2 false) ins []) as [Kd _].
      destruct (continue_round (set_event s2 false) ins []) as [s3 o2]. unfold keeps_off in Ko. cbn [fst snd gh set_event] in *.
      apply (rets_ok_app _ _ s3 [FnEnd (callno s - 1) true ins] (o1 ++ o2)); [apply NoEnd|].
      apply rets_ok_app.
      * apply (RR s3 HC1); congruence.
      * apply rets_left_ok. eapply rets_left_sub; [exact Q|exact Hws].
    + unfold end_round. pose proof (start_round_rets s2 HC2) as Q.
      pose proof (start_round_off s2) as Ko. destruct (start_round_del s2) as [Kd _].
      destruct (start_round s2) as [s3 o2]. unfold keeps_off in Ko. cbn [fst snd] in *.
      apply (rets_ok_app _ _ s3 [FnEnd (callno s - 1) true ins] (o1 ++ o2)); [apply NoEnd|].
      apply rets_ok_app.
      * apply (RR s3 HC1); congruence.
      * apply rets_left_ok. eapply rets_left_sub; [exact Q|exact Hws].
  - pose proof (continue_round_rets s ins []) as Q. rewrite app_nil_r in Q. specialize (Q HC).
    destruct (continue_round s ins []) as [s1 o1].
    apply (rets_ok_app _ _ s1 [FnEnd (callno s - 1) false ins] o1); [apply NoEnd|]. apply rets_left_ok. exact Q.
Qed.

Lemma step_rets s e : (e = FnOkThenFClear -> fc_ok = true) -> InvP s -> rets_step s e (step s e).
Proof.
  intros Hfc HI. unfold step. destruct (is_dead s) eqn:Hd; [intros w t n []|].
  destruct e.
  - apply rets_ok_step, rets_left_ok, do_put_rets; assumption.
  - apply rets_ok_step, do_feed_rets; assumption.
  - apply rets_ok_step, do_feed_rets; assumption.
  - apply rets_ok_step, do_feed_rets; assumption.
  - apply rets_ok_step, do_advance_rets; assumption.
  - apply do_wait_rets; assumption.
  - apply rets_ok_step, do_fn_end_rets; try assumption. discriminate.
  - apply rets_ok_step, do_fn_end_rets; try assumption. discriminate.
  - intros w t n [H|[]]. discriminate.
  - intros w t n [].
  - apply rets_ok_step, rets_left_ok, do_put_rets; assumption.
  - apply rets_ok_step, do_fn_end_rets; try assumption. intros _. apply Hfc. reflexivity.
Qed.

(* every macro step preserves the invariant, and every set it hands to the
   function consists of arguments handed to the buffer *)
Lemma step_postP s e :
  (e = FnOkThenFClear -> fc_ok = true) -> InvP s -> InvP (fst (step s e)) /\ starts_ok (step s e).
Proof.
  intros Hfc HI. unfold step. destruct (is_dead s) eqn:Hd.
  - split; [exact HI|apply no_starts].
  - assert (Q : forall r, Post r -> InvP (fst r) /\ starts_ok r) by (intros r (P1 & P2 & P3); split; [intros _; exact P2|exact P3]).
    destruct e.
    + apply Q, do_put_post; assumption.
    + apply Q, do_feed_post; assumption.
    + apply Q, do_feed_post; assumption.
    + apply Q, do_feed_post; assumption.
    + apply Q, do_advance_post; assumption.
    + apply Q, do_wait_post; assumption.
    + apply Q, do_fn_end_post; try assumption. discriminate.
    + apply Q, do_fn_end_post; try assumption. discriminate.
    + split; [intros H; discriminate|]. intros c set t [H|[]]; discriminate.
    + apply Q. unfold Post; cbn [fst snd]. split; [exact Hd|]. split; [|apply no_starts].
      specialize (HI Hd). unfold prods in *. cbn. exact HI.
    + apply Q, do_put_post; assumption.
    + apply Q, do_fn_end_post; try assumption. intros _. apply Hfc. reflexivity.
Qed.

Definition fc_allowed (evs : list event) : Prop := In FnOkThenFClear evs -> fc_ok = true.

Lemma run_invP evs : forall s, fc_allowed evs -> InvP s -> InvP (fst (run s evs)).
Proof.
  induction evs as [|e r IH]; intros s Hfc HI; cbn [run]; [exact HI|].
  destruct (step_postP s e) as [H1 _]; [intros ->; apply Hfc; left; reflexivity|exact HI|].
  destruct (step s e) as [s1 o]. cbn [fst] in H1.
  assert (Hfc' : fc_allowed r) by (intros H; apply Hfc; right; exact H).
  specialize (IH s1 Hfc' H1). destruct (run s1 r). exact IH.
Qed.
End Skeleton.

(* ---- instance: Core ---------------------------------------------------------------- *)
Lemma Core_permP g ins ps ps' : Permutation ps ps' -> Core g ins ps -> Core g ins ps'.
Proof.
  intros Hp. apply Core_perm. intros p. split; [apply Permutation_in; exact Hp|apply Permutation_in, Permutation_sym; exact Hp].
Qed.

Definition Inv (s : state) : Prop := is_dead s = false -> Core (gh s) (cur_ins (dm s)) (prods s).

Lemma step_post s e : Inv s -> Inv (fst (step s e)) /\ starts_ok (step s e).
Proof.
  apply (step_postP (fun _ => Core) true); auto.
  - intros _. exact Core_permP.
  - intros _. exact Core_load.
  - intros _ g ins ps H. apply Core_deliver; [exact H|]. intros x [].
  - intros _ _ g ins ps H. apply Core_deliver; [exact H|apply incl_refl].
  - intros _ g ins ps p k t b H _. apply Core_put; exact H.
  - intros _. exact Core_feed.
  - intros _ g g' ins ps E1 E2 E3 H. eapply Core_ext; eauto.
  - intros _ g ins ps H. apply (c_ins _ _ _ H).
Qed.

Lemma init_inv T : Inv (init T).
Proof. intros _. constructor; cbn; try (intros ? []); try (intros ? ? []). Qed.

(* ---- over runs --------------------------------------------------------------------- *)
Lemma run_inv evs : forall s, Inv s -> Inv (fst (run s evs)).
Proof.
  induction evs as [|e r IH]; intros s HI; cbn [run]; [exact HI|].
  destruct (step_post s e HI) as [H1 _]. destruct (step s e) as [s1 o]. cbn [fst] in H1.
  specialize (IH s1 H1). destruct (run s1 r). exact IH.
Qed.

Lemma final_inv T evs : Inv (final T evs).
Proof. apply run_inv, init_inv. Qed.

Lemma run_snoc evs : forall s e, fst (run s (evs ++ [e])) = fst (step (fst (run s evs)) e).
Proof.
  induction evs as [|x r IH]; intros s e; cbn [app run fst].
  - destruct (step s e); reflexivity.
  - destruct (step s x) as [s1 o]. specialize (IH s1 e).
    destruct (run s1 (r ++ [e])). destruct (run s1 r). exact IH.
Qed.

Lemma final_snoc T evs e : final T (evs ++ [e]) = fst (step (final T evs) e).
Proof. unfold final. apply run_snoc. Qed.
