(* XLoopLive.v — second invariant of the cross-loop model (who waits for whom), the
   loop_in_thread contract and the liveness (no-deadlock) results of C17. *)
From Coq Require Import List Arith NArith Bool Lia.
Import ListNotations.
Require Import Aiuti.XLoop Aiuti.XLoopInv.

Definition m_after_wait (m : mph) : bool := match m with MStop | MJoin | MRet | MEnd => true | _ => false end.
Definition m_after_stop (m : mph) : bool := match m with MJoin | MRet | MEnd => true | _ => false end.
Definition jm_exited (p : jph) : bool := match p with JPost _ _ | JFin | JEnd => true | _ => false end.
Definition jactive (p : jph) : bool := match p with JNone | JFin | JEnd => false | _ => true end.
Definition settled (p : cph) : bool := match p with CPwait | CGot | CDone | COwnDone => true | _ => false end.
Definition runner_tid (t : tid) : bool := match t with TJM | TJ _ | TC _ => true | _ => false end.
Definition xphase (p : cph) : bool := match p with CXchk | CXwait => true | _ => false end.

Record InvB (c : cfg) (s : state) : Prop := {
  x_1 : forall i, (cp s i = CXwait \/ cp s i = COwn \/ exists l, jp s (TJ i) = JRun l) -> aw s i <> AwNew;
  x_2a : forall i, cp s i = CPwait -> jactive (jp s (TJ i)) = true;
  x_2b : forall i, jactive (jp s (TJ i)) = true -> cp s i = CPwait;
  k_0 : forall i, xphase (cp s i) = true -> exists t, xsub s i = Some t /\ runner_tid t = true;
  k_m : forall i, xphase (cp s i) = true -> xsub s i = Some TJM -> exists l, jp s TJM = JRun l;
  k_c : forall i k, xphase (cp s i) = true -> xsub s i = Some (TC k) -> runsb s (TC k) = true;
  s_1 : m_after_stop (mp s) = true -> stopp s = true \/ jm_exited (jp s TJM) = true;
  s_2 : m_after_wait (mp s) = true -> forall i, i < c_n c -> settled (cp s i) = true;
  s_3 : stopp s = true -> mp s = MJoin;
  s_4 : jm_exited (jp s TJM) = true -> m_after_stop (mp s) = true;
  s_5 : mp s = MRet \/ mp s = MEnd -> jp s TJM = JEnd;
  s_6 : jm_exited (jp s TJM) = true -> stopp s = false;
  md_2 : jp s TJM = JNone -> mp s = MNone \/ mp s = M0;
  o_4 : c_mode c = MOwn -> cp s 0 = CDone -> forall i, i < c_n c -> completedb s i = true;
  o_6 : c_mode c = MOwn -> cp s 0 <> CGot /\ cp s 0 <> CXchk /\ cp s 0 <> CXwait;
  j_m : forall f, jp s TJM <> JRel f;
  k_j : forall i k, xsub s i = Some (TJ k) -> jp s (TJ k) <> JNone;
  f_1 : c_mode c = MForever -> forall i, jp s (TJ i) = JNone;
  f_2 : c_mode c = MForever -> mlit (mp s) = false -> forall i, cp s i = CInit;
  f_3 : c_mode c = MForever -> mp s = MLit \/ mp s = MWait \/ mp s = MStop ->
        (exists l, jp s TJM = JRun l) /\ stopp s = false;
  f_5 : c_mode c = MForever -> m_after_wait (mp s) = true -> forall i, i < c_n c -> completedb s i = true;
  f_6 : c_mode c = MForever -> forall i, cp s i <> CPsub /\ cp s i <> CPwait
}.

Lemma InvB_init : forall c, InvB c (init c).
Proof.
  intros c. constructor; simpl; intros; try congruence; auto; try discriminate.
  all: try (destruct H as [?|[?|[? ?]]]; discriminate).
  all: try (destruct (c_mode c); auto; fail).
  all: try (split; discriminate).
  all: try (destruct (c_mode c); simpl in *; try discriminate; destruct H0 as [?|[?|?]]; discriminate).
  all: try (destruct (c_mode c); destruct H; discriminate).
  all: try (repeat split; discriminate).
Qed.

Lemma running_hd : forall c s, Inv c s -> running s = true ->
  exists t, inside s = [t] /\ runsb s t = true /\ runner_tid t = true.
Proof.
  intros c s HI R. unfold running in R. destruct (inside s) as [|t r] eqn:Ei; [discriminate|].
  pose proof (i_1 _ _ HI t) as I1. rewrite Ei in I1. specialize (I1 (or_introl eq_refl)).
  pose proof (i_2 _ _ HI t I1) as I2. rewrite Ei in I2. exists t. repeat split; auto.
  destruct t; simpl in *; auto; discriminate.
Qed.
Ltac gen_hd HI := repeat match goal with
  | G : true = running ?s |- _ => symmetry in G
  | G : running ?s = true |- _ =>
      lazymatch goal with
      | _ : inside s = [_] |- _ => fail
      | _ => let t := fresh "rt" in destruct (running_hd _ _ HI G) as (t & ? & ? & ?)
      end
  end.
Lemma xphase_lt : forall c s i, Inv c s -> xphase (cp s i) = true -> i < c_n c.
Proof.
  intros c s i HI H. destruct (Nat.lt_ge_cases i (c_n c)); auto.
  rewrite (d_c _ _ HI i) in H; auto. discriminate.
Qed.

Lemma runs_jrun : forall c s, Inv c s -> runsb s TJM = true -> exists l, jp s TJM = JRun l.
Proof.
  intros c s HI R. simpl in R. pose proof (n_f _ _ HI TJM) as N.
  destruct (jp s TJM); try discriminate; eauto. contradiction.
Qed.
Lemma completed_not_x : forall s k, completedb s k = true -> xphase (cp s k) = true -> False.
Proof. intros s k. unfold completedb. destruct (cp s k); simpl; congruence. Qed.

Lemma wait_guard_settled : forall c s,
  all_completed c s
  || match c_mode c with MRace => true | _ => false end
     && match inside s with [TJM] => true | _ => false end
     && forallb (completed_or_pwait s) (seq 0 (c_n c)) = true ->
  forall k, k < c_n c -> settled (cp s k) = true.
Proof.
  intros c s G k Hk. apply orb_prop in G as [G|G].
  - pose proof (all_completed_spec _ _ G k Hk) as Q. unfold completedb in Q.
    destruct (cp s k); simpl; auto; discriminate.
  - apply andb_prop in G as [_ G]. rewrite forallb_forall in G. specialize (G k).
    rewrite in_seq in G. specialize (G ltac:(lia)). unfold completed_or_pwait in G.
    destruct (cp s k); simpl; auto; discriminate.
Qed.

Section StepB.
Variables (c : cfg) (s : state).
Hypothesis HI : Inv c s.
Hypothesis HB : InvB c s.

Lemma b_x_1 : forall e s', step c s e = Some s' ->
  forall i, (cp s' i = CXwait \/ cp s' i = COwn \/ exists l, jp s' (TJ i) = JRun l) -> aw s' i <> AwNew.
Proof.
  intros e s' H. pose proof (x_1 _ _ HB) as X1.
  inv_step H; simp2.
  all: try assumption.
  all: intros k Hk; simp2; pose proof (X1 k); dupd; tid_inj; subst; rw_phases; simpl in *; try congruence; auto.
  all: try (match goal with |- context [aw s ?j] => destruct (aw s j) eqn:?; try congruence end).
  all: try (match goal with Hx : _ -> AwNew <> AwNew |- _ => apply Hx end;
            destruct Hk as [?|[?|[? ?]]]; try discriminate; eauto 6; fail).
  all: try (exfalso; destruct Hk as [?|[?|[? ?]]]; discriminate).
Qed.

Ltac gen := intros; simp2; dupd; tid_inj; subst; rw_phases; simpl in *; try congruence; auto.

Lemma b_x_2a : forall e s', step c s e = Some s' -> forall i, cp s' i = CPwait -> jactive (jp s' (TJ i)) = true.
Proof.
  intros e s' H. pose proof (x_2a _ _ HB) as X2a. pose proof (x_2b _ _ HB) as X2b.
  inv_step H; simp2.
  all: try assumption.
  all: intros k Hk; simp2; pose proof (X2a k); pose proof (X2b k); dupd; tid_inj; subst; rw_phases; simpl in *; try congruence; auto.
  all: fwd; try congruence.
  all: try (exfalso; brk; congruence).
  all: try (exfalso; pose proof (n_f _ _ HI TJM) as Nf; rw_phases; exact Nf).
Qed.

Lemma b_x_2b : forall e s', step c s e = Some s' -> forall i, jactive (jp s' (TJ i)) = true -> cp s' i = CPwait.
Proof.
  intros e s' H. pose proof (x_2a _ _ HB) as X2a. pose proof (x_2b _ _ HB) as X2b.
  inv_step H; simp2.
  all: try assumption.
  all: intros k Hk; simp2; pose proof (X2a k); pose proof (X2b k); dupd; tid_inj; subst; rw_phases; simpl in *; try congruence; auto.
  all: fwd; try congruence.
  all: try (exfalso; brk; congruence).
  all: try (exfalso; pose proof (n_f _ _ HI TJM) as Nf; rw_phases; exact Nf).
Qed.

Lemma b_s_3 : forall e s', step c s e = Some s' -> stopp s' = true -> mp s' = MJoin.
Proof.
  intros e s' H. pose proof (s_3 _ _ HB) as S3. pose proof (s_5 _ _ HB) as S5. pose proof (s_6 _ _ HB) as S6.
  inv_step H; simp2.
  all: try assumption.
  all: intros; fwd; rw_phases; simpl in *; try congruence; auto.
  all: try (exfalso; brk; congruence).
  all: try (exfalso; pose proof (n_f _ _ HI TJM) as Nf; rw_phases; exact Nf).
Qed.

Lemma b_s_4 : forall e s', step c s e = Some s' -> jm_exited (jp s' TJM) = true -> m_after_stop (mp s') = true.
Proof.
  intros e s' H. pose proof (s_3 _ _ HB) as S3. pose proof (s_4 _ _ HB) as S4.
  inv_step H; simp2.
  all: try assumption.
  all: intros; dupd; tid_inj; subst; fwd; rw_phases; simpl in *; try congruence; auto.
  all: try (exfalso; brk; congruence).
  all: try (exfalso; pose proof (n_f _ _ HI TJM) as Nf; rw_phases; exact Nf).
Qed.

Lemma b_s_5 : forall e s', step c s e = Some s' -> mp s' = MRet \/ mp s' = MEnd -> jp s' TJM = JEnd.
Proof.
  intros e s' H. pose proof (s_5 _ _ HB) as S5.
  inv_step H; simp2.
  all: try assumption.
  all: intros; dupd; tid_inj; subst; fwd; rw_phases; simpl in *; try congruence; auto.
  all: try (exfalso; brk; congruence).
  all: try (exfalso; pose proof (n_f _ _ HI TJM) as Nf; rw_phases; exact Nf).
Qed.

Lemma b_s_6 : forall e s', step c s e = Some s' -> jm_exited (jp s' TJM) = true -> stopp s' = false.
Proof.
  intros e s' H. pose proof (s_6 _ _ HB) as S6. pose proof (s_4 _ _ HB) as S4.
  inv_step H; simp2.
  all: try assumption.
  all: intros; dupd; tid_inj; subst; fwd; rw_phases; simpl in *; try congruence; auto.
  all: try (exfalso; brk; congruence).
  all: try (exfalso; pose proof (n_f _ _ HI TJM) as Nf; rw_phases; exact Nf).
Qed.

Lemma b_md_2 : forall e s', step c s e = Some s' -> jp s' TJM = JNone -> mp s' = MNone \/ mp s' = M0.
Proof.
  intros e s' H. pose proof (md_2 _ _ HB) as Md2.
  inv_step H; simp2.
  all: try assumption.
  all: intros; dupd; tid_inj; subst; fwd; rw_phases; simpl in *; try congruence; auto.
  all: try (exfalso; brk; congruence).
  all: try (exfalso; pose proof (n_f _ _ HI TJM) as Nf; rw_phases; exact Nf).
Qed.

Lemma b_s_1 : forall e s', step c s e = Some s' -> m_after_stop (mp s') = true -> stopp s' = true \/ jm_exited (jp s' TJM) = true.
Proof.
  intros e s' H. pose proof (s_1 _ _ HB) as S1.
  inv_step H; simp2.
  all: try assumption.
  all: intros; dupd; tid_inj; subst; fwd; rw_phases; simpl in *; try congruence; auto.
  all: try (exfalso; brk; congruence).
  all: try (exfalso; pose proof (n_f _ _ HI TJM) as Nf; rw_phases; exact Nf).
Qed.

Lemma b_k_0 : forall e s', step c s e = Some s' ->
  forall i, xphase (cp s' i) = true -> exists t, xsub s' i = Some t /\ runner_tid t = true.
Proof.
  intros e s' H. pose proof (k_0 _ _ HB) as K0. pose proof (i_1 _ _ HI) as I1.
  inv_step H; simp2.
  all: try assumption.
  all: gen_hd HI.
  all: intros k Hk; simp2; pose proof (K0 k); dupd; tid_inj; subst; rw_phases; simpl in *; try congruence; eauto.
Qed.

Lemma b_k_m : forall e s', step c s e = Some s' ->
  forall i, xphase (cp s' i) = true -> xsub s' i = Some TJM -> exists l, jp s' TJM = JRun l.
Proof.
  intros e s' H. pose proof (k_m _ _ HB) as Km. pose proof (i_1 _ _ HI) as I1.
  pose proof (s_3 _ _ HB) as S3. pose proof (s_2 _ _ HB) as S2. pose proof (d_c _ _ HI) as Dc.
  inv_step H; simp2.
  all: try assumption.
  all: gen_hd HI; gen_unspawned HI.
  all: intros k Hk Hx; simp2; pose proof (Km k); pose proof (xphase_lt _ _ k HI); dupd; tid_inj; subst; rw_phases; simpl in *; try congruence; eauto.
  all: fwd; try (brk; congruence); eauto.
  all: try (injection Hx as Hx; subst; eapply runs_jrun; eauto; fail).
  exfalso. rewrite S3 in S2. specialize (S2 eq_refl k H0).
  destruct (cp s k); simpl in *; discriminate.
Qed.

Lemma b_k_c : forall e s', step c s e = Some s' ->
  forall i k, xphase (cp s' i) = true -> xsub s' i = Some (TC k) -> runsb s' (TC k) = true.
Proof.
  intros e s' H. pose proof (k_c _ _ HB) as Kc. pose proof (i_1 _ _ HI) as I1. pose proof (d_c _ _ HI) as Dc.
  inv_step H; simp2.
  all: try assumption.
  all: gen_hd HI.
  all: unfold runsb in *; intros k k2 Hk Hx; simp2; pose proof (Kc k k2); pose proof (xphase_lt _ _ k HI); dupd; tid_inj; subst; rw_phases; simpl in *; try congruence; eauto.
  all: fwd; try (brk; congruence); eauto.
  all: try (injection Hx as Hx; subst; rw_phases; simpl in *; congruence).
  exfalso. eapply completed_not_x; eauto. eapply others_completed_spec; eauto.
Qed.

Lemma b_s_2 : forall e s', step c s e = Some s' ->
  m_after_wait (mp s') = true -> forall i, i < c_n c -> settled (cp s' i) = true.
Proof.
  intros e s' H. pose proof (s_2 _ _ HB) as S2.
  inv_step H; simp2.
  all: try assumption.
  all: intros Hm k Hk; simp2; try discriminate Hm; try (pose proof (S2 Hm k Hk)); dupd; tid_inj; subst; rw_phases; simpl in *; try congruence; auto.
  eapply wait_guard_settled; eauto.
Qed.

Lemma b_o_4 : forall e s', step c s e = Some s' ->
  c_mode c = MOwn -> cp s' 0 = CDone -> forall i, i < c_n c -> completedb s' i = true.
Proof.
  intros e s' H Em. pose proof (o_4 _ _ HB Em) as O4. unfold completedb in *.
  inv_step H; simp2.
  all: try assumption.
  all: intros Hz k Hk; simp2; dupd; tid_inj; subst; rw_phases; simpl in *; try congruence; auto.
  all: try (pose proof (O4 Hz k Hk); rw_phases; simpl in *; congruence).
  all: fwd.
  all: try (match goal with Hq : ?k < c_n c |- _ => pose proof (O4 k Hq) as Q end; rw_phases; simpl in *; congruence).
  all: try (match goal with G0 : others_completed _ _ _ = true |- _ =>
              eapply (others_completed_spec _ _ _ G0); eauto end).
  all: exfalso.
  - destruct (o_5 _ _ HI Em 0) as (_ & _ & N). congruence.
  - destruct (o_6 _ _ HB Em) as (N & _ & _). congruence.
Qed.

Lemma b_o_6 : forall e s', step c s e = Some s' ->
  c_mode c = MOwn -> cp s' 0 <> CGot /\ cp s' 0 <> CXchk /\ cp s' 0 <> CXwait.
Proof.
  intros e s' H Em. pose proof (o_6 _ _ HB Em) as O6.
  inv_step H; simp2.
  all: try assumption.
  all: try (rewrite Em in *; simpl in *).
  all: dupd; tid_inj; subst; rw_phases; simpl in *; try congruence; auto.
  all: try (repeat split; congruence).
  all: exfalso; try (destruct O6 as (?&?&?); congruence).
  all: try (destruct (o_5 _ _ HI Em 0) as (?&?&?); congruence).
Qed.

Lemma b_j_m : forall e s', step c s e = Some s' -> forall f, jp s' TJM <> JRel f.
Proof.
  intros e s' H. pose proof (j_m _ _ HB) as Jm.
  inv_step H; simp2.
  all: try assumption.
  all: intros f'; specialize (Jm f'); dupd; tid_inj; subst; rw_phases; simpl in *; try congruence; auto.
Qed.

Lemma b_k_j : forall e s', step c s e = Some s' ->
  forall i k, xsub s' i = Some (TJ k) -> jp s' (TJ k) <> JNone.
Proof.
  intros e s' H. pose proof (k_j _ _ HB) as Kj.
  inv_step H; simp2.
  all: try assumption.
  all: gen_hd HI.
  all: intros k k2 Hx; simp2; pose proof (Kj k k2); dupd; tid_inj; subst; rw_phases; simpl in *; try congruence; auto.
  all: injection Hx as Hx; subst rt; simpl in *; intros Q; rewrite Q in *; discriminate.
Qed.

Lemma b_f_2 : forall e s', step c s e = Some s' ->
  c_mode c = MForever -> mlit (mp s') = false -> forall i, cp s' i = CInit.
Proof.
  intros e s' H Em. pose proof (f_2 _ _ HB Em) as F2.
  inv_step H; simp2.
  all: try assumption.
  all: try (rewrite Em in *; simpl in *).
  all: intros Hm k; simp2; try discriminate Hm; dupd; tid_inj; subst; rw_phases; simpl in *; try congruence; auto.
  all: try (pose proof (F2 Hm) as Q; match goal with E : cp s ?j = _ |- _ => specialize (Q j) end; congruence).
Qed.

Lemma b_f_5 : forall e s', step c s e = Some s' ->
  c_mode c = MForever -> m_after_wait (mp s') = true -> forall i, i < c_n c -> completedb s' i = true.
Proof.
  intros e s' H Em. pose proof (f_5 _ _ HB Em) as F5. unfold completedb in *.
  inv_step H; simp2.
  all: try assumption.
  all: try (rewrite Em in *; simpl in *).
  all: intros Hm k Hk; simp2; try discriminate Hm; dupd; tid_inj; subst; rw_phases; simpl in *; try congruence; auto.
  all: try (pose proof (F5 Hm) as Q; match goal with E : cp s ?j = _, Hj : ?j < c_n c |- _ => specialize (Q j Hj) end; rw_phases; simpl in *; congruence).
  rewrite orb_false_r in G. apply (all_completed_spec _ _ G); auto.
Qed.

Lemma b_f_6 : forall e s', step c s e = Some s' ->
  c_mode c = MForever -> forall i, cp s' i <> CPsub /\ cp s' i <> CPwait.
Proof.
  intros e s' H Em. pose proof (f_6 _ _ HB Em) as F6. pose proof (f_2 _ _ HB Em) as F2.
  pose proof (f_3 _ _ HB Em) as F3. pose proof (f_5 _ _ HB Em) as F5. pose proof (i_2 _ _ HI) as I2.
  inv_step H; simp2.
  all: try assumption.
  all: try (rewrite Em in *; simpl in *).
  all: intros k; simp2; pose proof (F6 k); dupd; tid_inj; subst; rw_phases; simpl in *; try congruence; auto.
  all: try (split; congruence).
  all: exfalso.
  - destruct (mlit (mp s)) eqn:Hl; [|specialize (F2 eq_refl i); congruence].
    destruct (mp s) eqn:Emp; simpl in Hl; try discriminate.
    + destruct F3 as [[l Hl'] _]; auto.
      assert (R : runsb s TJM = true) by (simpl; rewrite Hl'; reflexivity).
      apply I2 in R. unfold running in H0. rewrite R in H0. discriminate.
    + destruct F3 as [[l Hl'] _]; auto.
      assert (R : runsb s TJM = true) by (simpl; rewrite Hl'; reflexivity).
      apply I2 in R. unfold running in H0. rewrite R in H0. discriminate.
    + specialize (F5 eq_refl i G). unfold completedb in F5. rewrite E in F5. discriminate.
    + specialize (F5 eq_refl i G). unfold completedb in F5. rewrite E in F5. discriminate.
    + specialize (F5 eq_refl i G). unfold completedb in F5. rewrite E in F5. discriminate.
  - destruct (F6 i). congruence.
Qed.

Lemma b_f_1 : forall e s', step c s e = Some s' ->
  c_mode c = MForever -> forall i, jp s' (TJ i) = JNone.
Proof.
  intros e s' H Em. pose proof (f_1 _ _ HB Em) as F1. pose proof (f_6 _ _ HB Em) as F6.
  inv_step H; simp2.
  all: try assumption.
  all: intros k; simp2; pose proof (F1 k); dupd; tid_inj; subst; rw_phases; simpl in *; try congruence; auto.
  all: try (pose proof (F1 i); congruence).
  all: try (destruct (F6 i); congruence).
Qed.

Lemma b_f_3 : forall e s', step c s e = Some s' ->
  c_mode c = MForever -> mp s' = MLit \/ mp s' = MWait \/ mp s' = MStop ->
  (exists l, jp s' TJM = JRun l) /\ stopp s' = false.
Proof.
  intros e s' H Em. pose proof (f_3 _ _ HB Em) as F3. pose proof (f_1 _ _ HB Em) as F1.
  pose proof (s_3 _ _ HB) as S3.
  inv_step H; simp2.
  all: try assumption.
  all: gen_hd HI.
  all: intros Hm; simp2; dupd; tid_inj; subst; rw_phases; simpl in *; try congruence; auto.
  all: try (exfalso; brk; congruence).
  all: fwd; try (brk; congruence); eauto.
  split.
  - destruct rt; simpl in H1; try discriminate.
    + eapply runs_jrun; eauto.
    + exfalso. simpl in H0. destruct (o_3 _ _ HI i) as [N1 N2]; [left; congruence|].
      destruct (cp s i); try discriminate; congruence.
    + exfalso. simpl in H0. rewrite (F1 i) in H0. discriminate.
  - destruct (stopp s); auto. specialize (S3 eq_refl). discriminate.
Qed.
End StepB.

Lemma InvB_step : forall c s e s', Inv c s -> InvB c s -> step c s e = Some s' -> InvB c s'.
Proof.
  intros c s e s' HI HB H. constructor.
  - eapply b_x_1; eauto.
  - eapply b_x_2a; eauto.
  - eapply b_x_2b; eauto.
  - eapply b_k_0; eauto.
  - eapply b_k_m; eauto.
  - eapply b_k_c; eauto.
  - eapply b_s_1; eauto.
  - eapply b_s_2; eauto.
  - eapply b_s_3; eauto.
  - eapply b_s_4; eauto.
  - eapply b_s_5; eauto.
  - eapply b_s_6; eauto.
  - eapply b_md_2; eauto.
  - eapply b_o_4; eauto.
  - eapply b_o_6; eauto.
  - eapply b_j_m; eauto.
  - eapply b_k_j; eauto.
  - eapply b_f_1; eauto.
  - eapply b_f_2; eauto.
  - eapply b_f_3; eauto.
  - eapply b_f_5; eauto.
  - eapply b_f_6; eauto.
Qed.

Lemma InvAB_reach : forall c s, reachable c s -> Inv c s /\ InvB c s.
Proof.
  intros c. apply reach_ind; [split; [apply Inv_init|apply InvB_init]|].
  intros s e s' _ [HI HB] H. split; [eapply Inv_step|eapply InvB_step]; eauto.
Qed.
