(* BridgeMon.v — the C16 trace monitor (Case_C16.ok / ok_obs) against the model:
   ok_sound      what an accepted observation says, as a readable Prop;
   ok_complete   every finished model run, for every configuration and every
                 schedule, is accepted (no false alarm on traces equal to the model's);
   agree_ok      an implementation trace that the model reproduces (agree) is
                 accepted up to the ticker observation (which the model does not predict). *)
From Coq Require Import List Arith Bool Lia.
Import ListNotations.
Require Import Aiuti.CaseLib Aiuti.Bridge Aiuti.BridgeInv Aiuti.BridgeLive Aiuti.Case_C16.

Lemma nats_eqb_refl l : list_eqb Nat.eqb l l = true.
Proof. apply list_eqb_refl, Nat.eqb_refl. Qed.

Lemma nats_eqb_eq l1 l2 : list_eqb Nat.eqb l1 l2 = true -> l1 = l2.
Proof. apply list_eqb_eq. intros x y H. now apply Nat.eqb_eq. Qed.

Lemma outcome_eqb_refl o : outcome_eqb o o = true.
Proof. destruct o; cbn; [reflexivity|apply Nat.eqb_refl]. Qed.

Lemma outcome_eqb_eq a b : outcome_eqb a b = true -> a = b.
Proof. destruct a, b; cbn; try discriminate; [reflexivity|]. intros H. apply Nat.eqb_eq in H. now subst. Qed.

(* ---- soundness: what acceptance means ------------------------------------------------- *)

Definition obs_spec (c : cfg) (o : fobs) : Prop :=
  o_res o = 0 /\
  o_consumed o = firstn (delivered c) (c_src c) /\
  o_out o = Some (expected_out c) /\
  o_joined o = true /\ o_left o = 0 /\
  (is_async c = true -> c_noniter c = false -> o_starved o = false).

Lemma ok_obs_sound c o : ok_obs c o = true -> obs_spec c o.
Proof.
  unfold ok_obs, obs_spec. intros H.
  apply andb_prop in H as [H H6]. apply andb_prop in H as [H H5]. apply andb_prop in H as [H H4].
  apply andb_prop in H as [H H3]. apply andb_prop in H as [H1 H2].
  apply Nat.eqb_eq in H1. apply nats_eqb_eq in H2. apply Nat.eqb_eq in H5.
  repeat split; try assumption.
  - destruct (o_out o) as [x|]; cbn in *; [|discriminate]. f_equal. now apply outcome_eqb_eq.
  - intros A N. rewrite A, N in H6. cbn in H6. now destruct (o_starved o).
Qed.

Lemma ok_obs_complete_spec c o : obs_spec c o -> ok_obs c o = true.
Proof.
  unfold ok_obs, obs_spec. intros (H1 & H2 & H3 & H4 & H5 & H6).
  rewrite H1, H2, H3, H4, H5. cbn. rewrite nats_eqb_refl, outcome_eqb_refl. cbn.
  destruct (is_async c); cbn; [|reflexivity]. destruct (c_noniter c); cbn; [reflexivity|].
  now rewrite H6.
Qed.

Lemma starved_of_false parks :
  starved_of parks = false -> forall d t, In (d, t) parks -> d <= t + 1.
Proof.
  unfold starved_of. intros H d t I.
  destruct (Nat.le_gt_cases d (t + 1)) as [|L]; [assumption|]. exfalso.
  assert (X : existsb (fun p : nat * nat => S (snd p) <? fst p) parks = true).
  { apply existsb_exists. exists (d, t). split; [assumption|]. cbn [fst snd]. apply Nat.ltb_lt. lia. }
  congruence.
Qed.

(* the statement of C16 on an observed run, in the property's own words *)
Lemma ok_sound_lemma k :
  ok k = true ->
  let c := cfg_of k in let o := obs_of_case k in
  o_res o = 0 /\
  (exists n, o_consumed o = firstn n (c_src c) /\
     (c_fail c = None -> n = length (c_src c) /\ o_out o = Some Stop) /\
     (forall f, c_fail c = Some f -> f <= length (c_src c) -> n = f /\ o_out o = Some (Raised (c_exc c))) /\
     (forall f, c_fail c = Some f -> length (c_src c) < f -> n = length (c_src c) /\ o_out o = Some Stop)) /\
  o_joined o = true /\ o_left o = 0 /\
  (is_async c = true -> c_noniter c = false -> forall d t, In (d, t) (parks_of k) -> d <= t + 1).
Proof.
  unfold ok. intros H. cbn zeta.
  apply ok_obs_sound in H as (H1 & H2 & H3 & H4 & H5 & H6).
  split; [assumption|]. split; [|split; [assumption|split; [assumption|]]].
  - exists (delivered (cfg_of k)). split; [assumption|]. split; [|split].
    + intros F. destruct (spec_none _ F) as [-> E]. now rewrite H3, E.
    + intros f F L. destruct (spec_fail _ f F L) as [-> E]. now rewrite H3, E.
    + intros f F L. destruct (spec_late _ f F L) as [-> E]. now rewrite H3, E.
  - intros A N. apply starved_of_false. specialize (H6 A N). destruct k; exact H6.
Qed.

(* ---- completeness: every finished model run is accepted ---------------------------------- *)

Lemma model_obs_ok c s : Good c s -> is_done s = true -> ok_obs c (model_obs s) = true.
Proof.
  intros G Dn. unfold is_done in Dn. destruct (cst s) as [| | |o|o|] eqn:E; try discriminate.
  destruct (complete_state c s o G E) as [Hc Ho].
  destruct (joined_state c s o G E) as [Ha _].
  apply ok_obs_complete_spec. unfold obs_spec, model_obs, model_outcome. cbn. rewrite E, Ha. cbn.
  repeat split; try assumption; try reflexivity; try congruence.
  intros A N. unfold Good in G. unfold inline in G. rewrite A, N in G. cbn in G. apply G.
Qed.

Lemma ok_complete_lemma c sch :
  is_done (run c sch) = true -> ok_obs c (model_obs (run c sch)) = true.
Proof. apply model_obs_ok, good_run. Qed.

(* ---- agree implies ok (up to the ticker observation) --------------------------------------- *)

Lemma good_iter c f n : (forall s, Good c s -> Good c (f s)) -> forall s, Good c s -> Good c (iter n f s).
Proof. intros Hf. induction n as [|n IH]; intros s G; cbn; [assumption|]. apply IH, Hf, G. Qed.

Lemma good_stepC c s : Good c s -> Good c (stepC c s).
Proof. apply (good_step c s C). Qed.
Lemma good_stepD c s : Good c s -> Good c (stepD c s).
Proof. apply (good_step c s D). Qed.
Lemma good_stepT c s : Good c s -> Good c (stepT c s).
Proof. apply (good_step c s T). Qed.
Lemma good_stepW c s : Good c s -> Good c (stepW c s).
Proof. apply (good_step c s W). Qed.

Lemma good_cons_step c s : Good c s -> Good c (cons_step c s).
Proof. intros G. unfold cons_step. destruct (cst s); try assumption; now apply good_stepC. Qed.

Lemma good_macro c gated limit cdue s : Good c s -> Good c (c_macro c gated limit cdue s).
Proof.
  intros G. unfold c_macro.
  destruct (cst s); try assumption; try (now apply good_stepC).
  - destruct (inline c).
    + destruct gated; [now apply good_stepC|]. apply good_iter; [apply good_stepC|now apply good_stepC].
    + destruct (is_async c); [apply good_stepT|]; now apply good_stepC.
  - destruct (is_async c).
    + assert (G2 : Good c (iter (length (queue (iter (length (ready s)) (stepD c) s)) + 2) (cons_step c)
                                (iter (length (ready s)) (stepD c) s))).
      { apply good_iter; [apply good_cons_step|]. apply good_iter; [apply good_stepD|assumption]. }
      destruct (cdue && (ticks s <? limit)); [now apply good_stepT|assumption].
    + destruct (cst (stepC c s)); try (now apply good_stepC). apply good_stepC. now apply good_stepC.
  - destruct (is_async c).
    + assert (G2 : Good c (iter (length (queue (iter (length (ready s)) (stepD c) s)) + 2) (cons_step c)
                                (iter (length (ready s)) (stepD c) s))).
      { apply good_iter; [apply good_cons_step|]. apply good_iter; [apply good_stepD|assumption]. }
      destruct (cdue && (ticks s <? limit)); [now apply good_stepT|assumption].
    + destruct (cst (stepC c s)); try (now apply good_stepC). apply good_stepC. now apply good_stepC.
Qed.

Lemma good_replay c gated limit tr : forall s, Good c s -> Good c (snd (replay c gated limit s tr)).
Proof.
  induction tr as [|[w g n cen wen cdue wdue] tr IH]; intros s G; cbn; [assumption|].
  destruct w.
  - specialize (IH _ (good_macro c gated limit cdue s G)).
    destruct (replay c gated limit (c_macro c gated limit cdue s) tr). exact IH.
  - specialize (IH _ (good_stepW c s G)).
    destruct (replay c gated limit (stepW c s) tr). exact IH.
  - specialize (IH _ G). destruct (replay c gated limit s tr). exact IH.
Qed.

(* if the model reproduces the implementation's run, the monitor accepts everything it
   checks except possibly the ticker observation *)
Lemma agree_ok_lemma k :
  agree k = true -> ok_obs (cfg_of k) (unstarved (obs_of_case k)) = true.
Proof.
  destruct k as [c g l tr res obsd out joined nleft nw pt nt parks|c g nl res obsd out joined nleft nw pt parks];
    unfold agree, unstarved; cbn [cfg_of obs_of_case o_res o_consumed o_out o_joined o_left].
  - pose proof (good_replay c g l tr (init c) (good_init c)) as G.
    destruct (replay c g l (init c) tr) as [b s]. cbn in G.
    intros H. apply andb_prop in H as [H _].
    apply andb_prop in H as [H _]. apply andb_prop in H as [H _]. apply andb_prop in H as [H _].
    apply andb_prop in H as [H Hleft]. apply andb_prop in H as [H Hjoin]. apply andb_prop in H as [H Hout].
    apply andb_prop in H as [H Hcons]. apply andb_prop in H as [H Hres]. apply andb_prop in H as [_ Hfin].
    unfold all_finished in Hfin. apply andb_prop in Hfin as [Dn _].
    pose proof (model_obs_ok c s G Dn) as M.
    apply ok_obs_sound in M as (M1 & M2 & M3 & M4 & M5 & M6). cbn in *.
    apply ok_obs_complete_spec. unfold obs_spec. cbn.
    apply Nat.eqb_eq in Hres. apply nats_eqb_eq in Hcons. apply Nat.eqb_eq in Hleft.
    apply Bool.eqb_prop in Hjoin.
    repeat split; try assumption; try reflexivity; try congruence.
    rewrite M3 in Hout. destruct out as [x|]; cbn in Hout; [|discriminate]. apply outcome_eqb_eq in Hout. congruence.
  - pose proof (good_run c (canon c)) as G. cbn zeta.
    set (s := run c (canon c)) in *.
    intros H.
    apply andb_prop in H as [H _]. apply andb_prop in H as [H _]. apply andb_prop in H as [H _].
    apply andb_prop in H as [H Hleft]. apply andb_prop in H as [H Hjoin]. apply andb_prop in H as [H Hout].
    apply andb_prop in H as [H Hcons]. apply andb_prop in H as [Dn Hres].
    pose proof (model_obs_ok c s G Dn) as M.
    apply ok_obs_sound in M as (M1 & M2 & M3 & M4 & M5 & M6). cbn in *.
    apply ok_obs_complete_spec. unfold obs_spec. cbn.
    apply Nat.eqb_eq in Hres. apply nats_eqb_eq in Hcons. apply Nat.eqb_eq in Hleft.
    apply Bool.eqb_prop in Hjoin.
    repeat split; try assumption; try reflexivity; try congruence.
    rewrite M3 in Hout. destruct out as [x|]; cbn in Hout; [|discriminate]. apply outcome_eqb_eq in Hout. congruence.
Qed.

(* the canonical schedule finishes every configuration, so the comparison made for
   line-level cases is never vacuous *)
Lemma canon_done c : is_done (run c (canon c)) = true.
Proof.
  unfold canon. apply BridgeLive.bridge_terminates_lemma.
  - apply Forall_forall. intros r H. apply repeat_spec in H. subst r. unfold BridgeLive.fair_round. cbn. tauto.
  - now rewrite repeat_length.
Qed.
