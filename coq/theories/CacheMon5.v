(* CacheMon5.v — the C05 trace monitor (CacheMon.ok_C05) accepts every trace the model accepts. *)
From Coq Require Import List Arith NArith Bool Lia ZifyBool ZifyNat ZifyN.
Import ListNotations.
Require Import Aiuti.Cache Aiuti.CacheLemmas Aiuti.CacheInv Aiuti.CacheInv2 Aiuti.CacheMon Aiuti.CacheOut
               Aiuti.CacheLive.

(* ---- the monitor step, field by field (while the run has not ended) ---- *)
Section Fields.
Variables (tbl : list (nat * nat)) (m : m5) (e : ev).
Hypothesis Hend : ended5 m = false.

Ltac fld := unfold m5_step; rewrite Hend; destruct e; try reflexivity;
  [ unfold m5_start; destruct (started5 m _); reflexivity
  | match goal with w : nat |- _ => destruct w as [|[|[|w]]]; reflexivity end ].

Lemma now5_step : now5 (m5_step tbl m e) = match e with Adv t => t | _ => now5 m end.
Proof. fld. Qed.
Lemma lst5_step : lst5 (m5_step tbl m e) =
  match e with
  | LoopEv t 0 => lset LClosed (lst5 m) t LStop
  | LoopEv t 1 => lset LClosed (lst5 m) t LShut
  | LoopEv t 2 => lset LClosed (lst5 m) t LStop
  | LoopEv t _ => lset LClosed (lst5 m) t LClosed
  | _ => lst5 m
  end.
Proof. fld. Qed.
Lemma stop5_step : stop5 (m5_step tbl m e) =
  match e with
  | LoopEv t 0 | LoopEv t 2 => (t, now5 m) :: stop5 m
  | _ => stop5 m
  end.
Proof. fld. Qed.
Lemma st5_step : st5 (m5_step tbl m e) =
  match e with
  | Get _ c => if started5 m c then st5 m else (c, now5 m) :: st5 m
  | _ => st5 m
  end.
Proof. fld. Qed.
Lemma fin5_step : fin5 (m5_step tbl m e) = match e with Done c _ _ _ => c :: fin5 m | _ => fin5 m end.
Proof. fld. Qed.
Lemma live5_step : live5 (m5_step tbl m e) =
  match e with
  | IStart i c _ => (i, (tbl_key tbl c, tbl_loop tbl c)) :: live5 m
  | IEnd i _ _ => filter (fun x => negb (fst x =? i)) (live5 m)
  | _ => live5 m
  end.
Proof. fld. Qed.
Lemma host5_step : host5 (m5_step tbl m e) =
  match e with
  | IStart _ c _ => (tbl_key tbl c, tbl_loop tbl c) :: host5 m
  | _ => host5 m
  end.
Proof. fld. Qed.
Lemma succ5_step : succ5 (m5_step tbl m e) =
  match e with
  | IEnd i r _ =>
      match r, (match assoc2 (live5 m) i with Some (k, _) => Some k | None => None end) with
      | 0, Some k => k :: succ5 m
      | _, _ => succ5 m
      end
  | _ => succ5 m
  end.
Proof. fld. Qed.
Lemma ended5_step : ended5 (m5_step tbl m e) = match e with End _ => true | _ => false end.
Proof. unfold m5_step; rewrite Hend; destruct e; try (simpl; rewrite ?Hend; reflexivity).
  - unfold m5_start; destruct (started5 m _); simpl; rewrite ?Hend; reflexivity.
  - destruct w as [|[|[|w]]]; simpl; rewrite ?Hend; reflexivity.
Qed.
Lemma ok5_step : ok5 (m5_step tbl m e) =
  match e with
  | LoopEv t 2 =>
      ok5 m && forallb (fun cs => negb (tbl_loop tbl (fst cs) =? t) || mem (fst cs) (fin5 m)) (st5 m)
  | Adv tick => ok5 m && forallb (accounted tbl m tick) (st5 m)
  | End r => ok5 m && (r =? 0)
  | Bad _ => false
  | _ => ok5 m
  end.
Proof. fld. Qed.
End Fields.

Lemma host5_mono tbl m e x : ended5 m = false -> In x (host5 m) -> In x (host5 (m5_step tbl m e)).
Proof. intros H Hx. rewrite host5_step by assumption. destruct e; simpl; auto. Qed.

(* ---- deadtick ---- *)
Definition dt_f (m : m5) (k : nat) (acc : option N) (h : nat * nat) : option N :=
  if fst h =? k then
    match assocN (stop5 m) (snd h) with
    | Some d => match acc with Some a => Some (N.max a d) | None => Some d end
    | None => acc
    end
  else acc.

Lemma dt_some m k hs : forall a, exists a', fold_left (dt_f m k) hs (Some a) = Some a' /\ (a <= a')%N.
Proof.
  induction hs as [|h r IH]; intros a; simpl.
  - exists a. split; auto. lia.
  - unfold dt_f at 2. destruct (fst h =? k); [|apply IH].
    destruct (assocN (stop5 m) (snd h)) as [d|]; [|apply IH].
    destruct (IH (N.max a d)) as (a' & H1 & H2). exists a'. split; auto. lia.
Qed.

Lemma deadtick_ge m k l d : In (k, l) (host5 m) -> assocN (stop5 m) l = Some d ->
  exists d', deadtick m k = Some d' /\ (d <= d')%N.
Proof.
  intros Hin Hd. unfold deadtick. change (fold_left _ (host5 m) None) with (fold_left (dt_f m k) (host5 m) None).
  generalize (@None N) as acc. induction (host5 m) as [|h r IH]; intros acc; [contradiction|].
  simpl. destruct Hin as [-> | Hin]; [|apply IH; assumption].
  unfold dt_f at 2. simpl. rewrite Nat.eqb_refl, Hd.
  destruct acc as [a|].
  - destruct (dt_some m k r (N.max a d)) as (a' & H1 & H2). exists a'. split; auto. lia.
  - apply dt_some.
Qed.

Lemma assoc2_In l i k t : assoc2 l i = Some (k, t) -> In (i, (k, t)) l.
Proof.
  induction l as [|[a b] r IH]; simpl; [discriminate|].
  destruct (Nat.eqb_spec a i); intros H; [injection H as ->; left; congruence|right; auto].
Qed.

(* ---- which key / loop an event belongs to ---- *)
Definition await_le (cr : crec) : option (nat * nat) :=
  match cpc cr with
  | PUnlock (DWait l e) | PXSub l e | PWaitX l e _ _ _ => Some (l, e)
  | PWait e _ => Some (cloop cr, e)
  | _ => None
  end.

Lemma ms_await_le s cr : await_le (mark_started s cr) = await_le cr.
Proof.
  unfold await_le. rewrite ms_loop.
  destruct (mark_started_props s cr) as (_ & _ & _ & [-> | (l & e & dl & xd & -> & ->)]); reflexivity.
Qed.

Lemma await_le_ev cr l e : await_le cr = Some (l, e) -> await_ev (cpc cr) = Some e.
Proof. unfold await_le. destruct (cpc cr) as [| | | | | |[v|e'|l' e']| | | | | | | | | |]; intros H; try discriminate; injection H as <- <-; reflexivity. Qed.

Record EvK (s : state) : Prop := mkEvK {
  kM : forall k l e d dr, marker_at s k = Some (l, e) -> getc s d = Some dr -> own_ev (cpc dr) = Some e ->
       ckey dr = k /\ cloop dr = l;
  kW : forall c cr l e d dr, getc s c = Some cr -> await_le cr = Some (l, e) ->
       getc s d = Some dr -> own_ev (cpc dr) = Some e -> ckey dr = ckey cr /\ cloop dr = l
}.

Section PresK.
Variables (s s' : state) (e : ev).
Hypothesis I : Inv s.
Hypothesis LI : LInv s.
Hypothesis K : EvK s.
Hypothesis T : trans s e s'.
Ltac start := start_ s; rewrite ?ms_await_le in *.

Lemma pres_kM : forall k l e d dr, marker_at s' k = Some (l, e) -> getc s' d = Some dr ->
  own_ev (cpc dr) = Some e -> ckey dr = k /\ cloop dr = l.
Proof.
  pose proof (kM s K) as M. pose proof (iA1 s I) as A1. pose proof (lM s LI) as LM.
  tcases T; intros k0 l0 e0 d dr Hm0 Hg Ho; start.
  all: try solve [ eapply M; eauto ].
  all: mv_simpl; try discriminate; try (injection Ho as <-).
  all: try solve [ eapply M; eauto; oldown ].
  all: proj_norm; rewrite lget_lset in Hm0; destruct (Nat.eqb_spec (ckey cr) k0); try discriminate.
  all: try solve [ eapply M; eauto; oldown ].
  - injection Hm0 as <-. auto.
  - exfalso. apply LM in Hm0. lia.
  - exfalso. injection Hm0 as <- <-. pose proof (A1 _ _ _ Hg Ho). lia.
Qed.

Lemma pres_kW : forall c cr l e d dr, getc s' c = Some cr -> await_le cr = Some (l, e) ->
  getc s' d = Some dr -> own_ev (cpc dr) = Some e -> ckey dr = ckey cr /\ cloop dr = l.
Proof.
  pose proof (kM s K) as M. pose proof (kW s K) as W. pose proof (iA1 s I) as A1. pose proof (lM s LI) as LM.
  pose proof (lW s LI) as LW.
  tcases T; intros c0 cr0 l0 e0 d dr Hg0 Hw Hg Ho; start.
  all: try solve [ eapply W; eauto ].
  all: simpl in Hw.
  all: mv_simpl; try discriminate; try (injection Ho as <-); try (injection Hw as <- <-).
  all: try solve [ eapply W; eauto; oldown ].
  all: try solve [ eapply W; eauto; unfold await_le;
                   match goal with Hc : cpc _ = _ |- _ => rewrite Hc end; try reflexivity; congruence ].
  - eapply M; eauto.
  - exfalso. apply await_le_ev in Hw. pose proof (LW _ _ _ Hg0 Hw). lia.
Qed.

Lemma pres_EvK : EvK s'.
Proof. constructor; [apply pres_kM|apply pres_kW]. Qed.
End PresK.

Lemma EvK_init n tbl : EvK (init n tbl).
Proof.
  constructor; intros.
  - apply init_pc in H0. rewrite H0 in H1. discriminate.
  - apply init_pc in H1. rewrite H1 in H2. discriminate.
Qed.

(* ---- small facts about single transitions ---- *)
Section Origin.
Variables (s s' : state) (e : ev).
Hypothesis T : trans s e s'.
Ltac start := start_ s; rewrite ?ms_await_le, ?ms_done in *.

Lemma nostart_stable : forall c cr, getc s c = Some cr -> cpc cr <> PStart ->
  exists cr', getc s' c = Some cr' /\ cpc cr' <> PStart.
Proof.
  tcases T; intros c' cr' Hg Hp.
  all: try solve [ exists cr'; split; auto ].
  all: try solve [ erewrite getc_set_pc by eassumption;
                   match goal with |- context [if ?a =? ?b then _ else _] => destruct (Nat.eqb_spec a b) end;
                   [ eexists; split; [reflexivity|]; simpl; mv_simpl; discriminate
                   | exists cr'; split; auto ] ].
  - erewrite getc_cancel by eassumption. destruct (Nat.eqb_spec c c').
    + subst. rewrite Hg in H. injection H as <-. eexists. split; [reflexivity|]. exact Hp.
    + eauto.
  - erewrite (getc_map _ (mark_started s)) by reflexivity. rewrite Hg. simpl. eexists. split; [reflexivity|].
    destruct (mark_started_props s cr') as (_ & _ & _ & [-> | (l & e0 & dl & xd & Hc & ->)]); congruence.
Qed.

Lemma done_origin : forall c cr', getc s' c = Some cr' -> is_done (cpc cr') = true ->
  (exists cr, getc s c = Some cr /\ is_done (cpc cr) = true) \/ exists k p t, e = Done c k p t.
Proof.
  tcases T; intros c' cr' Hg Hd; start; simpl in Hd; try discriminate Hd.
  all: try solve [ left; eauto ].
  all: try solve [ right; eauto ].
  all: try solve [ mv_simpl; discriminate ].
Qed.
End Origin.

Lemma get_moves s t c s' : trans s (Get t c) s' -> exists cr', getc s' c = Some cr' /\ cpc cr' <> PStart.
Proof.
  intros T. inversion T; subst.
  all: erewrite getc_set_pc by eassumption; rewrite Nat.eqb_refl; eexists; split; [reflexivity|]; simpl.
  all: unfold probe_pc, reprobe_pc; destruct (cache_at s (ckey cr)); discriminate.
Qed.

Lemma mem_cons x y l : mem x (y :: l) = (x =? y) || mem x l.
Proof. reflexivity. Qed.

(* ---- the bookkeeping part of the simulation ---- *)
Record R5 (m : m5) (s : state) : Prop := mkR5 {
  r1 : now5 m = now s;
  r2 : lst5 m = loops s;
  rE : ended5 m = ended s;
  r3 : forall c t0, In (c, t0) (st5 m) -> exists cr, getc s c = Some cr /\ cpc cr <> PStart;
  r4 : forall c cr, getc s c = Some cr -> is_done (cpc cr) = true -> mem c (fin5 m) = true;
  r6 : forall i ir, nth_error (invs s) i = Some ir -> istat ir = IActive ->
       In (i, (ikey ir, iloop ir)) (live5 m);
  r6' : forall j k l, In (j, (k, l)) (live5 m) -> exists jr, nth_error (invs s) j = Some jr /\ ikey jr = k;
  r8 : forall k, mem k (succ5 m) = true ->
       exists i ir, nth_error (invs s) i = Some ir /\ istat ir = IOk /\ ikey ir = k
}.

Lemma R5_init n tbl : R5 (m5_init n) (init n tbl).
Proof.
  constructor; simpl; auto; try contradiction; try discriminate.
  - intros c cr H Hd. apply init_pc in H. rewrite H in Hd. discriminate.
  - intros i ir H. destruct i; discriminate.
Qed.

Section PresR.
Variables (tbl : list (nat * nat)) (m : m5) (s s' : state) (e : ev).
Hypothesis St : Stat tbl s.
Hypothesis Hend : ended s = false.
Hypothesis R : R5 m s.
Hypothesis T : trans s e s'.

Lemma Hend5 : ended5 m = false.
Proof. rewrite (rE m s R). exact Hend. Qed.

Lemma pres_r1 : now5 (m5_step tbl m e) = now s'.
Proof. rewrite now5_step by exact Hend5. pose proof (r1 m s R). tcases T; simpl; auto. Qed.

Lemma pres_r2 : lst5 (m5_step tbl m e) = loops s'.
Proof. rewrite lst5_step by exact Hend5. pose proof (r2 m s R) as ->. tcases T; simpl; auto. Qed.

Lemma pres_rE : ended5 (m5_step tbl m e) = ended s'.
Proof. rewrite ended5_step by exact Hend5. tcases T; simpl; auto. Qed.

Lemma pres_r3 : forall c t0, In (c, t0) (st5 (m5_step tbl m e)) ->
  exists cr, getc s' c = Some cr /\ cpc cr <> PStart.
Proof.
  intros c t0 Hin. rewrite st5_step in Hin by exact Hend5.
  assert (Old : In (c, t0) (st5 m) -> exists cr, getc s' c = Some cr /\ cpc cr <> PStart).
  { intros Hi. destruct (r3 m s R _ _ Hi) as (cr & Hg & Hp). eapply nostart_stable; eauto. }
  destruct e; auto.
  destruct (started5 m c0); auto. destruct Hin as [Hq | Hi]; auto.
  injection Hq as -> _. eapply get_moves; eauto.
Qed.

Lemma pres_r4 : forall c cr, getc s' c = Some cr -> is_done (cpc cr) = true -> mem c (fin5 (m5_step tbl m e)) = true.
Proof.
  intros c cr Hg Hd. rewrite fin5_step by exact Hend5.
  destruct (done_origin _ _ _ T _ _ Hg Hd) as [(cr0 & Hg0 & Hd0) | (k & p & t & ->)].
  - pose proof (r4 m s R _ _ Hg0 Hd0) as Hm. destruct e; auto. rewrite mem_cons, Hm. apply orb_true_r.
  - rewrite mem_cons, Nat.eqb_refl. reflexivity.
Qed.

Ltac invs_cases Hx :=
  match type of Hx with
  | nth_error (_ ++ [_]) ?j = Some _ =>
      rewrite nth_error_snoc in Hx; destruct (Nat.eqb_spec j (length (invs s)));
      [injection Hx as <-; subst j|]
  | nth_error (lset _ _ ?i _) ?j = Some _ =>
      erewrite nth_error_lset in Hx by (eapply nth_error_Some_lt; eassumption);
      destruct (Nat.eqb_spec i j); [injection Hx as <-; subst|]
  | nth_error (map _ _) ?j = Some _ =>
      let jr0 := fresh "jr0" in let Hj0 := fresh "Hj0" in
      rewrite nth_error_map in Hx; destruct (nth_error (invs s) j) as [jr0|] eqn:Hj0; simpl in Hx;
      [injection Hx as <-|discriminate Hx]
  | _ => idtac
  end.

Lemma pres_r6 : forall i ir, nth_error (invs s') i = Some ir -> istat ir = IActive ->
  In (i, (ikey ir, iloop ir)) (live5 (m5_step tbl m e)).
Proof.
  pose proof (r6 m s R) as R6. rewrite live5_step by exact Hend5.
  tcases T; intros j jr Hj Ha; proj_norm; try solve [simpl; eauto]; invs_cases Hj; simpl in Ha; try discriminate Ha.
  - simpl. left. destruct (stC tbl s St _ _ H) as [-> ->]. reflexivity.
  - right. eauto.
  - apply filter_In. split; [eauto|]. simpl. apply negb_true_iff, Nat.eqb_neq. auto.
  - apply filter_In. split; [eauto|]. simpl. apply negb_true_iff, Nat.eqb_neq. auto.
  - apply filter_In. split; [eauto|]. simpl. apply negb_true_iff, Nat.eqb_neq. auto.
  - unfold abandon in *. destruct (istat jr0) eqn:Hs; simpl in *; try (rewrite Hs in Ha); try discriminate Ha.
    destruct (iloop jr0 =? t); simpl in *; try discriminate Ha. apply R6; auto.
Qed.

Lemma pres_r6' : forall j k l, In (j, (k, l)) (live5 (m5_step tbl m e)) ->
  exists jr, nth_error (invs s') j = Some jr /\ ikey jr = k.
Proof.
  intros j k l Hin. rewrite live5_step in Hin by exact Hend5.
  assert (Old : In (j, (k, l)) (live5 m) -> exists jr, nth_error (invs s') j = Some jr /\ ikey jr = k).
  { intros Hi. destruct (r6' m s R _ _ _ Hi) as (jr & Hj & Hk). clear Hin.
    tcases T; proj_norm; eauto.
    - exists jr. split; auto. rewrite nth_error_app1; auto. eapply nth_error_Some_lt; eauto.
    - erewrite nth_error_lset by (eapply nth_error_Some_lt; eassumption).
      destruct (Nat.eqb_spec i j); eauto. subst. rewrite Hj in H. injection H as <-. eexists; split; [reflexivity|reflexivity].
    - erewrite nth_error_lset by (eapply nth_error_Some_lt; eassumption).
      destruct (Nat.eqb_spec i j); eauto. subst. rewrite Hj in H. injection H as <-. eexists; split; [reflexivity|reflexivity].
    - erewrite nth_error_lset by (eapply nth_error_Some_lt; eassumption).
      destruct (Nat.eqb_spec i j); eauto. subst. rewrite Hj in H. injection H as <-. eexists; split; [reflexivity|reflexivity].
    - rewrite nth_error_map, Hj. simpl. eexists. split; [reflexivity|].
      unfold abandon. destruct (istat jr); auto. destruct (_ =? _); auto. }
  revert Hin Old. tcases T; intros Hin Old; auto.
  - destruct Hin as [Hq | Hi]; auto. injection Hq as <- <- <-. proj_norm.
    rewrite nth_error_snoc, Nat.eqb_refl. eexists. split; [reflexivity|]. simpl.
    destruct (stC tbl s St _ _ H) as [_ ->]. reflexivity.
  - apply filter_In in Hin as [Hi _]. auto.
  - apply filter_In in Hin as [Hi _]. auto.
  - apply filter_In in Hin as [Hi _]. auto.
Qed.

Lemma pres_r8 : forall k, mem k (succ5 (m5_step tbl m e)) = true ->
  exists i ir, nth_error (invs s') i = Some ir /\ istat ir = IOk /\ ikey ir = k.
Proof.
  intros k Hin. rewrite succ5_step in Hin by exact Hend5.
  assert (Old : mem k (succ5 m) = true -> exists i ir, nth_error (invs s') i = Some ir /\ istat ir = IOk /\ ikey ir = k).
  { intros Hi. destruct (r8 m s R _ Hi) as (i & ir & Hj & Hs & Hk). exists i, ir. repeat split; auto.
    eapply invs_stable; eauto. rewrite Hs. reflexivity. }
  revert Hin Old. tcases T; intros Hin Old; auto.
  - destruct (assoc2 (live5 m) i) as [[k0 l0]|] eqn:Ha; auto.
    rewrite mem_cons in Hin. destruct (Nat.eqb_spec k k0); auto. subst k0.
    apply assoc2_In in Ha. destruct (r6' m s R _ _ _ Ha) as (jr & Hj & Hk). rewrite H in Hj. injection Hj as <-.
    exists i. proj_norm. erewrite nth_error_lset by (eapply nth_error_Some_lt; eassumption). rewrite Nat.eqb_refl.
    eexists. split; [reflexivity|]. simpl. auto.
Qed.

Lemma pres_R5 : R5 (m5_step tbl m e) s'.
Proof.
  constructor; [apply pres_r1|apply pres_r2|apply pres_rE|apply pres_r3|apply pres_r4|apply pres_r6
               |apply pres_r6'|apply pres_r8].
Qed.
End PresR.

(* ---- hosts of an event, and the stop ticks of the loops somebody waits on ---- *)
Definition hosted (m : m5) (s : state) (k l e : nat) : Prop :=
  (exists d dr, getc s d = Some dr /\ own_ev (cpc dr) = Some e /\ pre_phase (cpc dr) = true)
  \/ In (k, l) (host5 m).

Record H5 (m : m5) (s : state) : Prop := mkH5 {
  hM : forall k l e, marker_at s k = Some (l, e) -> hosted m s k l e;
  hW : forall c cr l e, getc s c = Some cr -> await_le cr = Some (l, e) -> hosted m s (ckey cr) l e;
  g2 : forall c cr l e, getc s c = Some cr -> (cpc cr = PUnlock (DWait l e) \/ cpc cr = PXSub l e) ->
       alive (lp s l) = true \/ assocN (stop5 m) l = Some (now s);
  g1 : forall c cr l e dl xd xs, getc s c = Some cr -> cpc cr = PWaitX l e dl xd xs ->
       alive (lp s l) = true \/ exists d, assocN (stop5 m) l = Some d /\ (dl <= d + SAFETY)%N
}.

Lemma H5_init n tbl : H5 (m5_init n) (init n tbl).
Proof.
  constructor; intros.
  - unfold marker_at in H. simpl in H. destruct k; discriminate.
  - apply init_pc in H. unfold await_le in H0. rewrite H in H0. discriminate.
  - apply init_pc in H. destruct H0; congruence.
  - apply init_pc in H. congruence.
Qed.

Section PresH.
Variables (tbl : list (nat * nat)) (m : m5) (s s' : state) (e : ev).
Hypothesis I : Inv s.
Hypothesis LI : LInv s.
Hypothesis K : EvK s.
Hypothesis St : Stat tbl s.
Hypothesis Hend : ended s = false.
Hypothesis R : R5 m s.
Hypothesis HH : H5 m s.
Hypothesis T : trans s e s'.
Ltac start := start_ s; rewrite ?ms_await_le, ?ms_done in *.

Let He5 : ended5 m = false := Hend5 m s Hend R.

Lemma hosted_pres k l e0 : hosted m s k l e0 ->
  (forall d dr, getc s d = Some dr -> own_ev (cpc dr) = Some e0 -> ckey dr = k /\ cloop dr = l) ->
  hosted (m5_step tbl m e) s' k l e0.
Proof.
  intros [(d & dr & Hg & Ho & Hp) | Hin] Hk; [|right; apply host5_mono; auto].
  specialize (Hk d dr Hg Ho). destruct Hk as [Hk Hl].
  unfold hosted. rewrite host5_step by exact He5. revert Hg Ho Hp Hk Hl.
  tcases T; intros Hg Ho Hp Hk Hl.
  all: try solve [ left; eexists _, _; repeat split; eauto ].
  all: try solve [
    match goal with Hp0 : pre_phase (cpc ?dr) = true, Hg0 : getc s ?d = Some ?dr, Hx : getc s ?c = Some ?cr |- _ =>
      tryif constr_eq cr dr then fail else
      destruct (Nat.eq_dec c d) as [->|Hn];
      [ rewrite Hg0 in Hx; injection Hx as <-;
        unfold can_probe, rel_pc in *;
        repeat match goal with
               | Hd : _ \/ _ |- _ => destruct Hd
               | Hd : exists _, _ |- _ => destruct Hd
               | Hd : _ /\ _ |- _ => destruct Hd
               end;
        try match goal with Hq : cpc dr = _ |- _ => rewrite Hq in Hp0; simpl in Hp0; try discriminate Hp0 end
      | left; exists d, dr; repeat split; auto;
        erewrite getc_set_pc by eassumption; destruct (Nat.eqb_spec c d); [contradiction|assumption] ]
    end ].
  - (* Rel *)
    destruct (Nat.eq_dec c d) as [->|Hn].
    + rewrite Hg in H. injection H as <-. unfold rel_pc in H3.
      destruct (cpc dr) as [| | | | | |[v|e1|l1 e1]| | | | | | | | | |] eqn:Hq; simpl in Hp; try discriminate Hp; try contradiction.
      subst p. left. eexists d, _. erewrite getc_set_pc by eassumption. rewrite Nat.eqb_refl.
      split; [reflexivity|]. simpl. simpl in Ho. auto.
    + left; exists d, dr; repeat split; auto.
      erewrite getc_set_pc by eassumption; destruct (Nat.eqb_spec c d); [contradiction|assumption].
  - (* IStart *)
    destruct (Nat.eq_dec c d) as [->|Hn].
    + rewrite Hg in H. injection H as <-. right. left.
      destruct (stC tbl s St _ _ Hg) as [<- <-]. congruence.
    + left; exists d, dr; repeat split; auto.
      erewrite getc_set_pc by eassumption; destruct (Nat.eqb_spec c d); [contradiction|assumption].
  - destruct (Nat.eq_dec (icaller ir) d) as [Hq|Hn].
    + rewrite Hq, Hg in H0. injection H0 as <-. rewrite H2 in Hp. discriminate.
    + left; exists d, dr; repeat split; auto.
      erewrite getc_set_pc by eassumption; destruct (Nat.eqb_spec (icaller ir) d); [contradiction|assumption].
  - destruct (Nat.eq_dec (icaller ir) d) as [Hq|Hn].
    + rewrite Hq, Hg in H0. injection H0 as <-. rewrite H2 in Hp. discriminate.
    + left; exists d, dr; repeat split; auto.
      erewrite getc_set_pc by eassumption; destruct (Nat.eqb_spec (icaller ir) d); [contradiction|assumption].
  - destruct (Nat.eq_dec (icaller ir) d) as [Hq|Hn].
    + rewrite Hq, Hg in H0. injection H0 as <-. rewrite H2 in Hp. discriminate.
    + left; exists d, dr; repeat split; auto.
      erewrite getc_set_pc by eassumption; destruct (Nat.eqb_spec (icaller ir) d); [contradiction|assumption].
  - left. destruct (Nat.eq_dec c d) as [->|Hn].
    + rewrite Hg in H. injection H as <-. eexists d, _. erewrite getc_cancel by eassumption.
      rewrite Nat.eqb_refl. split; [reflexivity|]. simpl. auto.
    + exists d, dr. erewrite getc_cancel by eassumption. destruct (Nat.eqb_spec c d); [contradiction|]. auto.
  - left. exists d, (mark_started s dr). erewrite (getc_map _ (mark_started s)) by reflexivity. rewrite Hg.
    rewrite ms_own, ms_pre. auto.
Qed.

Lemma pres_hM : forall k l e0, marker_at s' k = Some (l, e0) -> hosted (m5_step tbl m e) s' k l e0.
Proof.
  intros k l e0 Hm.
  assert (Old : marker_at s k = Some (l, e0) -> hosted (m5_step tbl m e) s' k l e0).
  { intros Hm0. apply hosted_pres; [apply (hM m s HH); auto|]. intros d dr Hg Ho. eapply (kM s K); eauto. }
  revert Hm Old. tcases T; intros Hm0 Old; auto.
  all: proj_norm; rewrite lget_lset in Hm0; destruct (Nat.eqb_spec (ckey cr) k); try discriminate; auto.
  injection Hm0 as <- <-. left. eexists c, _. erewrite getc_set_pc by eassumption. rewrite Nat.eqb_refl.
  split; [reflexivity|]. simpl. auto.
Qed.

Lemma pres_hW : forall c cr l e0, getc s' c = Some cr -> await_le cr = Some (l, e0) ->
  hosted (m5_step tbl m e) s' (ckey cr) l e0.
Proof.
  assert (Old : forall c cr l e0, getc s c = Some cr -> await_le cr = Some (l, e0) ->
                                  hosted (m5_step tbl m e) s' (ckey cr) l e0).
  { intros c cr l e0 Hg Hw. apply hosted_pres; [eapply (hW m s HH); eauto|]. intros d dr Hgd Ho. eapply (kW s K); eauto. }
  assert (OldM : forall k l e0, marker_at s k = Some (l, e0) -> hosted (m5_step tbl m e) s' k l e0).
  { intros k l e0 Hm0. apply hosted_pres; [apply (hM m s HH); auto|]. intros d dr Hg Ho. eapply (kM s K); eauto. }
  revert Old OldM.
  tcases T; intros Old OldM c0 cr0 l0 e0 Hg0 Hw; start.
  all: try solve [ eapply Old; eauto ].
  all: simpl in Hw.
  all: mv_simpl; try discriminate; try (injection Hw as <- <-).
  all: try solve [ eapply (Old _ _ _ _ ltac:(eassumption)); unfold await_le;
                   match goal with Hc : cpc _ = _ |- _ => rewrite Hc end; try reflexivity; congruence ].
  - apply OldM. assumption.
  - change (await_le cr = Some (l0, e0)) in Hw. apply (Old _ _ _ _ H Hw).
Qed.

Lemma pres_g2 : forall c cr l e0, getc s' c = Some cr -> (cpc cr = PUnlock (DWait l e0) \/ cpc cr = PXSub l e0) ->
  alive (lp s' l) = true \/ assocN (stop5 (m5_step tbl m e)) l = Some (now s').
Proof.
  pose proof (g2 m s HH) as G2. pose proof (r1 m s R) as R1. pose proof (iC s I) as C.
  rewrite stop5_step by exact He5.
  tcases T; intros c0 cr0 l0 e0 Hg0 Hp; start; simpl in Hp; proj_norm.
  all: try solve [ eapply G2; eauto ].
  all: mv_simpl; try solve [ destruct Hp; discriminate ].
  - destruct Hp as [Hp|Hp]; [|discriminate]. injection Hp as <- <-. left. assumption.
  - destruct Hp as [Hp|Hp]; [discriminate|]. injection Hp as <- <-. eapply (G2 _ _ _ _ H). left. exact Hpc.
  - rewrite lget_lset. destruct (Nat.eqb_spec t l0); [right; congruence|eapply G2; eauto].
  - rewrite lget_lset. destruct (Nat.eqb_spec t l0); [left; reflexivity|eapply G2; eauto].
  - rewrite lget_lset. destruct (Nat.eqb_spec t l0); [right; congruence|eapply G2; eauto].
  - rewrite lget_lset. destruct (Nat.eqb_spec t l0); [|eapply G2; eauto].
    subst. destruct (G2 _ _ _ _ Hg0 Hp) as [Ha|Ha]; [rewrite H in Ha; discriminate|auto].
  - exfalso. unfold quiescent in H0. destruct (lock s); [discriminate|].
    pose proof (forallb_nth _ _ _ _ H0 Hg1) as Hb. unfold blocked in Hb.
    assert (Hq : cpc (mark_started s cr1) = cpc cr1).
    { destruct (mark_started_props s cr1) as (_ & _ & _ & [Hq | (l & e1 & dl & xd & _ & Hq)]); auto.
      destruct Hp; congruence. }
    rewrite Hq in Hp.
    assert (Hr : run_pc (cpc cr1) = true) by (destruct Hp as [-> | ->]; reflexivity).
    pose proof (C _ _ Hg1 Hr) as Hl. unfold lp in *. rewrite Hl in Hb. destruct Hp as [Hp|Hp]; rewrite Hp in Hb; discriminate.
Qed.

Lemma pres_g1 : forall c cr l e0 dl xd xs, getc s' c = Some cr -> cpc cr = PWaitX l e0 dl xd xs ->
  alive (lp s' l) = true \/ exists d, assocN (stop5 (m5_step tbl m e)) l = Some d /\ (dl <= d + SAFETY)%N.
Proof.
  pose proof (g2 m s HH) as G2. pose proof (g1 m s HH) as G1. pose proof (r1 m s R) as R1.
  pose proof (lT s LI) as LT.
  rewrite stop5_step by exact He5.
  tcases T; intros c0 cr0 l0 e0 dl0 xd0 xs0 Hg0 Hp; start; simpl in Hp; proj_norm.
  all: try solve [ eapply G1; eauto ].
  all: mv_simpl; try discriminate.
  - injection Hp as <- <- <- <- <-.
    destruct (G2 _ _ _ _ H (or_intror H2)) as [Ha|Ha]; [left; exact Ha|right].
    eexists. split; [exact Ha|]. lia.
  - injection Hp as <- <- <- <- <-. eapply G1; eauto.
  - rewrite lget_lset. destruct (Nat.eqb_spec t l0); [|eapply G1; eauto].
    right. eexists. split; [reflexivity|]. rewrite R1. eapply LT; eauto. rewrite Hp. reflexivity.
  - rewrite lget_lset. destruct (Nat.eqb_spec t l0); [left; reflexivity|eapply G1; eauto].
  - rewrite lget_lset. destruct (Nat.eqb_spec t l0); [|eapply G1; eauto].
    right. eexists. split; [reflexivity|]. rewrite R1. eapply LT; eauto. rewrite Hp. reflexivity.
  - rewrite lget_lset. destruct (Nat.eqb_spec t l0); [|eapply G1; eauto].
    subst. destruct (G1 _ _ _ _ _ _ _ Hg0 Hp) as [Ha|Ha]; [rewrite H in Ha; discriminate|auto].
  - destruct (mark_started_props s cr1) as (_ & _ & _ & [Hq | (l & e1 & dl & xd & Hq & Hq')]).
    + rewrite Hq in Hp. eapply G1; eauto.
    + rewrite Hq' in Hp. injection Hp as <- <- <- <- <-. eapply G1; eauto.
Qed.

Lemma pres_H5 : H5 (m5_step tbl m e) s'.
Proof. constructor; [apply pres_hM|apply pres_hW|apply pres_g2|apply pres_g1]. Qed.
End PresH.

(* ---- the checks of the monitor ---- *)
Section Checks.
Variables (tbl : list (nat * nat)) (m : m5) (s : state).
Hypothesis I : Inv s.
Hypothesis I2 : Inv2 s.
Hypothesis LI : LInv s.
Hypothesis K : EvK s.
Hypothesis St : Stat tbl s.
Hypothesis R : R5 m s.
Hypothesis HH : H5 m s.

Lemma running5_lp t : running5 m t = true <-> lp s t = LRun.
Proof.
  unfold running5, lp. rewrite (r2 m s R). destruct (lget LClosed (loops s) t); split; intros; congruence.
Qed.

Lemma strict_ok d dr i e0 : getc s d = Some dr -> cpc dr = PComp i e0 -> lp s (cloop dr) = LRun ->
  negb (mem (ckey dr) (succ5 m))
  && existsb (fun x => (fst (snd x) =? ckey dr) && running5 m (snd (snd x))) (live5 m) = true.
Proof.
  intros Hg Hp Hr. destruct (lI s LI _ _ _ _ Hg Hp) as (ir & Hi & Hc & Hl & _ & Ha). specialize (Ha Hr).
  assert (Hk : ikey ir = ckey dr).
  { rewrite (stI tbl s St _ _ Hi), Hc. destruct (stC tbl s St _ _ Hg) as [_ ->]. reflexivity. }
  apply andb_true_iff. split.
  - apply negb_true_iff. destruct (mem (ckey dr) (succ5 m)) eqn:Hm; auto. exfalso.
    destruct (r8 m s R _ Hm) as (j & jr & Hj & Hjs & Hjk).
    assert (j = i) by (eapply (iK1 s I2 j i jr ir); eauto; congruence).
    subst. rewrite Hi in Hj. injection Hj as <-. congruence.
  - apply existsb_exists. exists (i, (ikey ir, iloop ir)). split; [apply (r6 m s R); auto|]. simpl.
    rewrite Hk, Nat.eqb_refl, Hl. simpl. apply running5_lp. exact Hr.
Qed.

Lemma owner_comp tick dr e0 : own_ev (cpc dr) = Some e0 -> blocked s tick dr = true -> lp s (cloop dr) = LRun ->
  exists i, cpc dr = PComp i e0.
Proof.
  intros Ho Hb Hr. unfold blocked in Hb. rewrite Hr in Hb.
  destruct (cpc dr) as [| | | | | |[v|e1|l1 e1]| | | | | | | | | |]; simpl in Ho; try discriminate; injection Ho as <-; eauto.
Qed.

Lemma owner_shut tick dr e0 : own_ev (cpc dr) = Some e0 -> blocked s tick dr = true -> lp s (cloop dr) = LShut -> False.
Proof.
  intros Ho Hb Hr. unfold blocked in Hb. rewrite Hr in Hb.
  destruct (cpc dr) as [| | | | | |[v|e1|l1 e1]| | | | | | | | | |]; simpl in *; discriminate.
Qed.

Lemma window_ok k l d0 dl tick t0 : In (k, l) (host5 m) -> assocN (stop5 m) l = Some d0 ->
  (dl <= d0 + SAFETY)%N -> (tick <= dl)%N ->
  match deadtick m k with Some d => (tick <=? N.max t0 d + SAFETY)%N | None => false end = true.
Proof.
  intros Hin Ha H1 H2. destruct (deadtick_ge m k l d0 Hin Ha) as (d' & -> & Hd). apply N.leb_le. lia.
Qed.

Lemma dead_hosted k l e0 : hosted m s k l e0 ->
  (forall d dr, getc s d = Some dr -> own_ev (cpc dr) = Some e0 -> cloop dr = l) ->
  alive (lp s l) = false -> In (k, l) (host5 m).
Proof.
  intros [(d & dr & Hg & Ho & Hp) | Hin] Hk Ha; auto. exfalso.
  destruct (pre_phase_own _ Hp) as (e1 & _ & Hr). pose proof (iC s I _ _ Hg Hr) as Hl.
  rewrite (Hk _ _ Hg Ho) in Hl. rewrite Hl in Ha. discriminate.
Qed.

Lemma adv_check tick : quiescent s tick = true -> forallb (accounted tbl m tick) (st5 m) = true.
Proof.
  intros Hq. unfold quiescent in Hq. destruct (lock s); [discriminate|].
  apply forallb_forall. intros [c t0] Hin. unfold accounted. simpl fst. simpl snd.
  destruct (mem c (fin5 m) || mem c (canc5 m) || negb (running5 m (tbl_loop tbl c))) eqn:Hx; [reflexivity|].
  apply orb_false_iff in Hx as [Hx Hrun]. apply orb_false_iff in Hx as [Hfin _].
  apply negb_false_iff in Hrun.
  destruct (r3 m s R _ _ Hin) as (cr & Hg & Hns).
  destruct (stC tbl s St _ _ Hg) as [Hloop Hkey]. rewrite <- Hloop in Hrun. rewrite <- Hkey.
  apply running5_lp in Hrun.
  pose proof (forallb_nth _ _ _ _ Hq Hg) as Hb.
  destruct (blocked_guard _ _ _ Hb) as [_ Hgd]. destruct (Hgd Hrun) as (Hsus & Hc1 & Hc2 & Hc3).
  destruct (cpc cr) as [| | | | | |dd| | i e0 | | | | | e0 dl | l e0 dl xd xs | | o] eqn:Hp; try discriminate Hsus.
  - congruence.
  - (* computing *)
    rewrite (strict_ok c cr i e0 Hg Hp Hrun). reflexivity.
  - (* waiting on the same loop *)
    destruct (Hc2 _ _ eq_refl) as (_ & Hset & _ & _).
    assert (Hw : await_ev (cpc cr) = Some e0) by (rewrite Hp; reflexivity).
    destruct (no_lost_wakeup_state s LI c cr e0 Hg Hw) as [Hs | (d & dr & Hgd' & Ho)]; [congruence|].
    assert (Hle : await_le cr = Some (cloop cr, e0)) by (unfold await_le; rewrite Hp; reflexivity).
    destruct (kW s K _ _ _ _ _ _ Hg Hle Hgd' Ho) as [Hk Hl].
    pose proof (forallb_nth _ _ _ _ Hq Hgd') as Hbd. rewrite <- Hl in Hrun.
    destruct (owner_comp _ _ _ Ho Hbd Hrun) as (i & Hpd).
    rewrite <- Hk. rewrite (strict_ok d dr i e0 Hgd' Hpd Hrun). reflexivity.
  - (* waiting on another loop *)
    destruct (Hc3 _ _ _ _ _ eq_refl) as (_ & -> & Hset & _ & Htick).
    assert (Hw : await_ev (cpc cr) = Some e0) by (rewrite Hp; reflexivity).
    assert (Hle : await_le cr = Some (l, e0)) by (unfold await_le; rewrite Hp; reflexivity).
    destruct (alive (lp s l)) eqn:Hal.
    + destruct Hset as [Hset|Hset]; [|discriminate].
      destruct (no_lost_wakeup_state s LI c cr e0 Hg Hw) as [Hs | (d & dr & Hgd' & Ho)]; [congruence|].
      destruct (kW s K _ _ _ _ _ _ Hg Hle Hgd' Ho) as [Hk Hl].
      pose proof (forallb_nth _ _ _ _ Hq Hgd') as Hbd.
      destruct (alive_cases _ Hal) as [Hlr | Hls]; rewrite <- Hl in *.
      * destruct (owner_comp _ _ _ Ho Hbd Hlr) as (i & Hpd).
        rewrite <- Hk. rewrite (strict_ok d dr i e0 Hgd' Hpd Hlr). reflexivity.
      * exfalso. eapply owner_shut; eauto.
    + assert (Hh : In (ckey cr, l) (host5 m)).
      { apply (dead_hosted (ckey cr) l e0);
          [ exact (hW m s HH _ _ _ _ Hg Hle)
          | intros d dr Hgd' Ho; exact (proj2 (kW s K _ _ _ _ _ _ Hg Hle Hgd' Ho)) | exact Hal ]. }
      destruct (g1 m s HH _ _ _ _ _ _ _ Hg Hp) as [Ha | (d0 & Hd0 & Hdl)]; [congruence|].
      rewrite (window_ok _ _ _ _ _ t0 Hh Hd0 Hdl Htick). apply orb_true_r.
  - (* answered *)
    rewrite (r4 m s R _ _ Hg) in Hfin; [discriminate|]. rewrite Hp. reflexivity.
Qed.

Lemma shutdone_check t : lp s t = LShut ->
  forallb (on_loop t (fun cr => done_or_unstarted (cpc cr))) (callers s) = true ->
  forallb (fun cs => negb (tbl_loop tbl (fst cs) =? t) || mem (fst cs) (fin5 m)) (st5 m) = true.
Proof.
  intros _ Hq. apply forallb_forall. intros [c t0] Hin. simpl.
  destruct (r3 m s R _ _ Hin) as (cr & Hg & Hns).
  destruct (stC tbl s St _ _ Hg) as [Hloop _]. rewrite <- Hloop.
  destruct (Nat.eqb_spec (cloop cr) t) as [Heq|]; [|reflexivity]. simpl.
  pose proof (forallb_nth _ _ _ _ Hq Hg) as Hb. unfold on_loop in Hb. rewrite Heq, Nat.eqb_refl in Hb.
  apply (r4 m s R _ _ Hg). destruct (cpc cr); simpl in *; congruence.
Qed.
End Checks.

Lemma pres_ok5 tbl m s e s' : Inv s -> Inv2 s -> LInv s -> EvK s -> Stat tbl s -> R5 m s -> H5 m s ->
  ended s = false -> trans s e s' -> ok5 m = true -> ok5 (m5_step tbl m e) = true.
Proof.
  intros I I2 LI K St R HH Hend T Hok.
  rewrite ok5_step by (eapply Hend5; eauto). rewrite Hok.
  destruct T; auto.
  - simpl. eapply shutdone_check; eauto.
  - simpl. eapply adv_check; eauto.
Qed.

(* ---- along every accepted event list ---- *)
Record J5 (tbl : list (nat * nat)) (m : m5) (s : state) : Prop := mkJ5 {
  jI : Inv s; jI2 : Inv2 s; jL : LInv s; jK : EvK s; jS : Stat tbl s;
  jR : R5 m s; jH : H5 m s; jOk : ok5 m = true
}.

Lemma J5_init n tbl : J5 tbl (m5_init n) (init n tbl).
Proof.
  constructor.
  - apply Inv_init. - apply Inv2_init. - apply LInv_init. - apply EvK_init. - apply Stat_init.
  - apply R5_init. - apply H5_init. - reflexivity.
Qed.

Lemma J5_step tbl m s e s' : J5 tbl m s -> step s e = Some s' -> J5 tbl (m5_step tbl m e) s'.
Proof.
  intros [I I2 LI K St R HH Hok] Hs. pose proof Hs as Hs0. apply step_trans in Hs0 as [Hend T].
  constructor.
  - eapply pres_Inv1; eauto.
  - exact (pres_Inv2 _ _ _ I I2 T).
  - eapply pres_LInv; eauto.
  - eapply pres_EvK; eauto.
  - eapply pres_Stat1; eauto.
  - eapply pres_R5; eauto.
  - eapply pres_H5; eauto.
  - eapply pres_ok5; eauto.
Qed.

Lemma run_J5 tbl : forall tr s m s', J5 tbl m s -> run s tr = Some s' -> J5 tbl (fold_left (m5_step tbl) tr m) s'.
Proof.
  induction tr as [|e tr IH]; intros s m s' J H; simpl in H.
  - injection H as <-. exact J.
  - destruct (step s e) as [s1|] eqn:Hs; [|discriminate]. simpl.
    eapply IH; [|exact H]. eapply J5_step; eauto.
Qed.

(* every accepted prefix keeps the C05 monitor happy ... *)
Lemma ok_C05_sound_run : forall nloops tbl tr s, run (init nloops tbl) tr = Some s ->
  ok5 (fold_left (m5_step tbl) tr (m5_init nloops)) = true.
Proof. intros n tbl tr s H. eapply jOk. eapply run_J5; [apply J5_init|exact H]. Qed.

(* ... and a complete accepted trace (ended by End 0) satisfies ok_C05 *)
Lemma ok_C05_sound_l : forall nloops tbl tr, accepts nloops tbl tr = true -> ok_C05 nloops tbl tr = true.
Proof.
  intros n tbl tr H. unfold accepts in H. destruct (run (init n tbl) tr) as [s|] eqn:Hr; [|discriminate].
  pose proof (run_J5 tbl tr _ _ _ (J5_init n tbl) Hr) as J. unfold ok_C05.
  rewrite (jOk _ _ _ J), (rE _ _ (jR _ _ _ J)). exact H.
Qed.
