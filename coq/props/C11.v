(* props/C11.v — C11: same-key requests are computed once per retention window,
   then afresh.  ONLY theorem statements about the executable macro-step model
   coq/theories/Batcher.v, each closed by a lemma of BatcherProps.v (invariants in
   BatcherInv.v / BatcherTime.v), with Print Assumptions beneath, and Examples.

   Quantification: ALL configurations ([cfg_ok]: max_batch_size, concurrency >= 1;
   any batch_timeout, any retention_timeout including 0) and ALL event lists —
   the theorems hold with Cancel events as well (C09), although the property only
   asks for lists without them.

   Vocabulary: [ret s] the retention cache (key -> future), [fdone s] the done
   futures with outcome and completion tick, [rtimers s] the armed
   call_later(retention_timeout, cache.pop, key) timers, [g_items s] the requests
   created so far (ghost), [pending_at s k f] = (k, f) is in the open batch, a
   queued batch, or the futs of a running batch. *)
From Coq Require Import List Arith NArith Bool.
Import ListNotations.
Require Import Aiuti.Case_Batcher Aiuti.Case_Batcher_Sound Aiuti.Case_Batcher_Basic Aiuti.BatcherSim Aiuti.Case_Batcher_C11 Aiuti.Case_Batcher_Full Aiuti.Batcher Aiuti.BatcherLimits Aiuti.BatcherTime Aiuti.BatcherInv Aiuti.BatcherProps.

(* No batch ever carries a key twice. *)
Theorem no_dup_key_in_batch :
  forall c evs, cfg_ok c -> Forall ev_ok evs ->
  forall b items t, In (BatchStart b items t) (concat (fst (run c evs))) -> NoDup (map fst items).
Proof. exact no_dup_key_in_batch_lemma. Qed.
Print Assumptions no_dup_key_in_batch.

(* At most one pending request per key exists anywhere in the batcher, it is not
   done, and it is the one the retention cache maps the key to. *)
Theorem pending_key_unique :
  forall c evs, cfg_ok c -> Forall ev_ok evs ->
  let s := snd (run c evs) in
  (forall k f, pending_at s k f -> is_done s f = false /\ lookup (ret s) k = Some f) /\
  (forall k f1 f2, pending_at s k f1 -> pending_at s k f2 -> f1 = f2).
Proof. exact pending_key_unique_lemma. Qed.
Print Assumptions pending_key_unique.

(* The window.  After any event list:
   1. if the cache maps k to f then f is the future of a request for k that is
      pending, or was completed at a tick t with t <= now < t + retention_timeout
      (never a stale entry; with retention 0 only pending ones);
   2. every request that is not done is in the cache under its key;
   3. every request completed less than retention_timeout ago is still in the cache. *)
Theorem retention_window :
  forall c evs, cfg_ok c -> Forall ev_ok evs ->
  let s := snd (run c evs) in
  (forall k f, lookup (ret s) k = Some f ->
     (exists it, In it (g_items s) /\ it_key it = k /\ it_fid it = f) /\
     (is_done s f = false \/ exists o t, lookup (fdone s) f = Some (o, t) /\ (t <= now s < t + c_rt c)%N)) /\
  (forall it, In it (g_items s) -> is_done s (it_fid it) = false -> lookup (ret s) (it_key it) = Some (it_fid it)) /\
  (forall it o t, In it (g_items s) -> lookup (fdone s) (it_fid it) = Some (o, t) -> (now s < t + c_rt c)%N ->
     lookup (ret s) (it_key it) = Some (it_fid it)).
Proof. exact ret_window_lemma. Qed.
Print Assumptions retention_window.

(* Shared inside the window (any state s): a call whose key the cache maps to f adds
   no request (g_items, the future counter and the started batches are unchanged),
   joins f, and — if f is done — is answered at once with f's outcome, the same value
   or the same exception; if f is pending it waits for f (props/C04.v [own_outcome]:
   its outcome is then f's outcome). *)
Theorem shared_in_window :
  forall c s a ko f, lookup (ret s) (key_of a ko) = Some f ->
  let r := step c s (Call a ko) in
  g_items (fst r) = g_items s /\ nfut (fst r) = nfut s /\ g_started (fst r) = g_started s /\
  exists cl, callers (fst r) = callers s ++ [cl] /\ cl_fid cl = f /\ cl_key cl = key_of a ko /\
    match lookup (fdone s) f with
    | Some (o, _) => snd r = [CallerDone (length (callers s)) o (now s)] /\ cl_st cl = Some o
    | None => snd r = [] /\ cl_st cl = None
    end.
Proof. exact shared_in_window_lemma. Qed.
Print Assumptions shared_in_window.

(* Fresh after the window: once every request for k so far was completed at least
   retention_timeout ago (with retention 0: was completed at all), the cache has
   forgotten k ... *)
Theorem fresh_after_window :
  forall c evs k, cfg_ok c -> Forall ev_ok evs ->
  let s := snd (run c evs) in
  (forall it, In it (g_items s) -> it_key it = k ->
     exists o t, lookup (fdone s) (it_fid it) = Some (o, t) /\ (t + c_rt c <= now s)%N) ->
  lookup (ret s) k = None.
Proof. exact fresh_after_window_lemma. Qed.
Print Assumptions fresh_after_window.

(* ... and a call whose key the cache does not hold creates a NEW request with a new
   future (in any state satisfying LInv, i.e. any reachable state), which it waits
   for; by [own_outcome] its outcome is produced by the batch that carries this new
   item, and by [batch_starts_after_arrival] that batch starts at or after the call
   — never the old result. *)
Theorem fresh_call_creates_request :
  forall c s a ko, LInv c s -> lookup (ret s) (key_of a ko) = None ->
  let s' := fst (step c s (Call a ko)) in
  let it := mkitem (key_of a ko) a (nfut s) (now s) (maxb s) in
  g_items s' = g_items s ++ [it] /\ nfut s' = S (nfut s) /\
  exists cl, callers s' = callers s ++ [cl] /\ cl_fid cl = nfut s /\ cl_key cl = key_of a ko /\ cl_st cl = None.
Proof. exact fresh_call_lemma. Qed.
Print Assumptions fresh_call_creates_request.

Theorem batch_starts_after_arrival :
  forall c evs, cfg_ok c -> Forall ev_ok evs ->
  let s := snd (run c evs) in
  forall b its tb it, In (b, its, tb) (g_started s) -> In it its -> (it_t it <= tb)%N.
Proof. exact batch_starts_after_arrival_lemma. Qed.
Print Assumptions batch_starts_after_arrival.

(* Every armed retention timer was armed for the future that is currently cached
   under its key, exactly retention_timeout after that future completed, and is
   still in the future: a timer can only evict the entry it was armed for (no stale
   timer evicts a younger entry) and its pop always finds the key. *)
Theorem ret_timer_sound :
  forall c evs, cfg_ok c -> Forall ev_ok evs ->
  let s := snd (run c evs) in
  forall dl k, In (dl, k) (rtimers s) ->
    exists f o t, lookup (ret s) k = Some f /\ lookup (fdone s) f = Some (o, t) /\
                  dl = (t + c_rt c)%N /\ (now s < dl)%N.
Proof. exact ret_timer_sound_lemma. Qed.
Print Assumptions ret_timer_sound.

(* ... in particular the pop of an armed timer always finds its key. *)
Theorem ret_pop_defined :
  forall c evs, cfg_ok c -> Forall ev_ok evs ->
  let s := snd (run c evs) in
  forall dl k, In (dl, k) (rtimers s) -> lookup (ret s) k <> None.
Proof. exact ret_pop_defined_lemma. Qed.
Print Assumptions ret_pop_defined.

(* The basic sub-monitor [ok_basic] (a conjunct of ok_C04, ok_C10 and ok_C11: per macro
   step no TaskDied, every completion carries the script clock, no caller completes twice,
   every batch is non-empty, carries no key twice and does not start in the script's
   future) is COMPLETE — it accepts the canonical trace of the model for ALL
   configurations and ALL event lists, so it cannot raise a false alarm on a case where
   the implementation agrees with the model — and SOUND. *)
Theorem monitor_basic_complete :
  forall c evs w, cfg_ok c -> Forall ev_ok evs ->
  ok_basic (BCase c evs (map canon (fst (run c evs))) w) = true.
Proof. exact ok_basic_complete. Qed.
Print Assumptions monitor_basic_complete.

Theorem monitor_basic_sound :
  forall c evs observed w, ok_basic (BCase c evs observed w) = true ->
  forall os, In os observed ->
    ~ In TaskDied os /\ NoDup (map (fun d => fst (fst d)) (dones_of os)) /\
    forall b items t, In (BatchStart b items t) os -> 1 <= length items /\ NoDup (map fst items).
Proof. exact ok_basic_sound. Qed.
Print Assumptions monitor_basic_sound.

(* COMPLETENESS of the FULL monitor ok_C11 (all its conjuncts: the basic ones, no key twice in
   a batch, FIFO of the observed batches against the monitor's queue of expected requests,
   immediate answers exactly for calls inside the specified window, outcomes only for pending
   requests by batches started after the request) on event lists without Chain events: for
   every configuration and every such event list — any calls, bursts, repeated keys, time,
   yields in any order, unknown / repeated keys, raises, returns, cancellations, SetMax — the
   monitor accepts the canonical trace of the model.  So on a case where the implementation
   agrees with the model, ok_C11 cannot raise a false alarm; conversely a rejection of an
   implementation trace is a real difference from the model, whose traces satisfy the
   theorems above.  The proof (Case_Batcher_C11.v) is a simulation between the model state and
   the monitor's specification state; its heart is [spec_ret]: the monitor's window
   specification decides exactly like the retention cache.  Chain events (tasks calling again
   in the continuation of their answer) are excluded here; [monitor_complete] below has them. *)
Theorem monitor_complete_nochain :
  forall c evs w, cfg_ok c -> Forall ev_ok evs -> forallb (fun e => negb (is_chain e)) evs = true ->
  ok_C11 (BCase c evs (map canon (fst (run c evs))) w) = true.
Proof. exact ok_C11_complete. Qed.
Print Assumptions monitor_complete_nochain.

(* Completeness of the full monitor ok_C11 on ALL event lists, Chain events included: for
   every configuration and every event list — in addition to the above, tasks that make
   several calls one after the other, each in the continuation of the previous answer
   (answered at once inside the window, or resumed by a batch and calling again in the same
   loop iteration) — the monitor accepts the canonical trace of the model.  The proof
   (Case_Batcher_Full.v) sees every macro step in two phases: the event resolves futures and
   wakes their callers, then the calls of the step (the event's own, or those of the resumed
   tasks) are registered one by one against the monitor's registration of chained calls; the
   order in which resumed tasks call again (the model: by future id; the monitor: by produced
   key in futs order) agrees because the futs of a batch carry ascending future ids. *)
Theorem monitor_complete :
  forall c evs w, cfg_ok c -> Forall ev_ok evs ->
  ok_C11 (BCase c evs (map canon (fst (run c evs))) w) = true.
Proof. exact ok_C11_complete_all. Qed.
Print Assumptions monitor_complete.

(* Soundness of the full monitor, PARTIAL.  ok_C11 (Case_Batcher.v) judges the observed trace
   independently of the model.  Proved: acceptance implies that no observed batch
   carries a key twice.  NOT proved as theorems: the window conjuncts (a call inside the
   specification's window is answered in its own step with the remembered outcome, a
   call outside creates the next expected item) are decided against the monitor's own
   specification of the window; they are tied to the theorems above through [agree]. *)
Theorem monitor_sound_partial :
  forall c evs observed w, ok_C11 (BCase c evs observed w) = true ->
  forall os b items t, In os observed -> In (BatchStart b items t) os -> NoDup (map fst items).
Proof. exact ok_C11_sound. Qed.
Print Assumptions monitor_sound_partial.

(* ---- non-vacuity ------------------------------------------------------------------------- *)

Definition ex_cfg := mkcfg 2 2 10%N 20%N.          (* retention_timeout 20 *)
(* shared while pending (caller 1), inside the window at 29 (caller 2, answered at once),
   fresh at 30 = completion 10 + 20 (caller 3: a new batch) *)
Definition ex_evs :=
  [Call 1 None; Call 1 None; Advance 10; BYield 0 1 (Val 5); Advance 19; Call 1 None; Advance 1; Call 1 None;
   Advance 10; BYield 1 1 (Val 6)].

Example ex_hyps : cfg_ok ex_cfg /\ Forall ev_ok ex_evs.
Proof. split; [split; simpl; auto | repeat constructor]. Qed.

Example ex_trace :
  fst (run ex_cfg ex_evs) =
  [[]; []; [BatchStart 0 [(1, 1)] 10%N]; [CallerDone 0 (Ret 5) 10%N; CallerDone 1 (Ret 5) 10%N]; [];
   [CallerDone 2 (Ret 5) 29%N]; []; []; [BatchStart 1 [(1, 1)] 40%N]; [CallerDone 3 (Ret 6) 40%N]].
Proof. vm_compute. reflexivity. Qed.

(* inside the window the cache holds the key, with an armed timer for tick 30 *)
Example ex_window :
  let s := snd (run ex_cfg (firstn 5 ex_evs)) in
  lookup (ret s) 1 = Some 0 /\ rtimers s = [(30%N, 1)] /\ now s = 29%N.
Proof. vm_compute. repeat split. Qed.

(* after it the key is forgotten: the hypothesis of fresh_after_window holds *)
Example ex_fresh :
  let s := snd (run ex_cfg (firstn 7 ex_evs)) in
  lookup (ret s) 1 = None /\ now s = 30%N /\ fdone s = [(0, (Ret 5, 10%N))].
Proof. vm_compute. repeat split. Qed.

(* retention 0: a task that calls again in the continuation of its answer gets a new request *)
Example ex_chain_rt0 :
  fst (run (mkcfg 2 2 10%N 0%N) [Chain 1 None 1; Advance 10; BYield 0 1 (Val 5); Advance 10; BYield 1 1 (Val 6)]) =
  [[]; [BatchStart 0 [(1, 1)] 10%N]; [CallerDone 0 (Ret 5) 10%N]; [BatchStart 1 [(1, 1)] 20%N]; [CallerDone 1 (Ret 6) 20%N]].
Proof. vm_compute. reflexivity. Qed.

(* the monitor accepts the model's own trace of the example and rejects a batch carrying a key twice *)
Example ex_monitor :
  ok_C11 (BCase ex_cfg ex_evs (map canon (fst (run ex_cfg ex_evs))) (waiting_callers (snd (run ex_cfg ex_evs)))) = true /\
  ok_C11 (BCase ex_cfg [Call 1 None; Call 1 None; Advance 10] [[]; []; [BatchStart 0 [(1, 1); (1, 1)] 10%N]] [0; 1]) = false.
Proof. vm_compute. split; reflexivity. Qed.
