(* props/C20.v — C20: gather_excs reports exactly the failures, in input order,
   after all awaitables finished; raise_first_exc raises the first of them.
   ONLY theorem statements about the model Gather.v, each closed by a lemma of
   GatherInv.v / GatherMon.v, with Print Assumptions beneath.

   Vocabulary (Gather.v): an awaitable [a] has a form (coroutine started by
   gather at tick [tcall] | task | future started at tick 0), a delay and an
   outcome [aout a] = Ret | Raise c e (exception object e of class c);
   [end_of tcall a] is the tick at which it completes.  [inst c only] is
   isinstance(exception of class c, only): ANY boolean relation (so every class
   hierarchy, incl. BaseException-only branches and multiple inheritance).
   [expected inst only aws] = the e_i with outcome_i = Raise c_i e_i and
   inst c_i only, in the order of [aws].  asyncio.gather is a machine [grun]
   that receives child completions in the order of a schedule (list of
   (tick, child index)) and sets its outer future when its counter reaches the
   number of children. *)
From Coq Require Import List NArith Bool Permutation.
Import ListNotations.
Require Import Aiuti.Gather Aiuti.GatherInv Aiuti.Case_C20 Aiuti.GatherMon Aiuti.GatherSound.

(* gather_excs always terminates, at the tick the last awaitable completes (or
   the tick of the call if that is later / there is none), and yields exactly
   the failures that are instances of [only], in INPUT order. *)
Theorem gather_excs_spec :
  forall (inst : cls -> cls -> bool) (aws : list aw) (only : cls) (tcall : N),
    gather_excs inst aws only tcall = Some (tdone tcall aws, expected inst only aws).
Proof. exact gather_excs_lemma. Qed.
Print Assumptions gather_excs_spec.

(* what "exactly the failures that are instances of only" means, element-wise *)
Theorem expected_membership :
  forall inst only aws e,
    In e (expected inst only aws) <->
    exists a c, In a aws /\ aout a = Raise c e /\ inst c only = true.
Proof. exact expected_in. Qed.
Print Assumptions expected_membership.

(* input order is compositional (the yields of aws1 ++ aws2 are those of aws1
   followed by those of aws2) and there is at most one yield per awaitable *)
Theorem expected_compositional :
  forall inst only aws1 aws2,
    expected inst only (aws1 ++ aws2) = expected inst only aws1 ++ expected inst only aws2.
Proof. exact expected_app. Qed.
Print Assumptions expected_compositional.

Theorem at_most_one_yield_per_awaitable :
  forall inst only aws, (length (expected inst only aws) <= length aws)%nat.
Proof. exact expected_length. Qed.
Print Assumptions at_most_one_yield_per_awaitable.

(* Input order, not finishing order: for EVERY order in which the children
   complete (any list of events in which each child index occurs exactly once,
   whatever the ticks), the yields are the same list. *)
Theorem order_independent_of_finishing_order :
  forall inst aws only tcall (sched : list (N * nat)),
    Permutation (map snd sched) (seq 0 (length aws)) ->
    gather_excs_sched inst aws only tcall sched =
      Some (maxl (map fst sched) tcall, expected inst only aws).
Proof. exact gather_excs_sched_lemma. Qed.
Print Assumptions order_independent_of_finishing_order.

(* ... in particular changing (e.g. permuting) delays, forms or the tick of the
   call, with the same outcomes in the same positions, never changes the yields *)
Theorem order_independent_of_delays :
  forall inst only aws aws' tcall tcall',
    map aout aws = map aout aws' ->
    option_map snd (gather_excs inst aws only tcall) = option_map snd (gather_excs inst aws' only tcall').
Proof.
  intros inst only aws aws' tcall tcall' H. rewrite !gather_excs_lemma. simpl.
  now rewrite (expected_outcomes inst only aws aws' H).
Qed.
Print Assumptions order_independent_of_delays.

(* Run to completion: every awaitable occurs in the completion log (exactly
   [length aws] entries: none skipped, none cancelled, none twice) with its own
   end tick, and that tick is not later than the tick of the yields. *)
Theorem all_completed_before_first_yield :
  forall aws tcall,
    let s := grun aws tcall (schedule tcall aws) in
    length (clog s) = length aws /\
    forall i a, nth_error aws i = Some a ->
      In (i, end_of tcall a) (clog s) /\ (end_of tcall a <= tdone tcall aws)%N /\ (tcall <= tdone tcall aws)%N.
Proof. exact all_completed_lemma. Qed.
Print Assumptions all_completed_before_first_yield.

(* raise_first_exc raises the first expected exception (Some e) or returns
   None, at the same tick *)
Theorem raise_first_spec :
  forall inst aws only tcall,
    raise_first_exc inst aws only tcall = Some (tdone tcall aws, hd_error (expected inst only aws)).
Proof. exact raise_first_lemma. Qed.
Print Assumptions raise_first_spec.

(* The trace monitor used on the implementation's observations accepts every
   trace of the model (for the forest instance of isinstance used by the cases) *)
Theorem monitor_accepts_model :
  forall rm h only tcall aws, ok (Case rm h only tcall aws (model_trace rm h only tcall aws)) = true.
Proof. exact monitor_accepts_model_lemma. Qed.
Print Assumptions monitor_accepts_model.

(* ---- run to completion, whatever the others do ------------------------------ *)
(* A failure of one awaitable never cancels or skips another, for EVERY order in
   which the children complete: at the end every child's result slot holds ITS
   OWN scripted outcome, the completion log is exactly the schedule (each child
   once, at its own tick — the machine has no transition that cancels a child),
   and the outer future carries the outcomes in input order. *)
Theorem each_completes_with_its_own_outcome :
  forall aws tcall (sched : list (N * nat)),
    Permutation (map snd sched) (seq 0 (length aws)) ->
    let s := grun aws tcall sched in
    (forall i a, nth_error aws i = Some a -> res s i = Some (aout a)) /\
    clog s = map (fun ev => (snd ev, fst ev)) sched /\
    outer s = Some (maxl (map fst sched) tcall, map (fun a => Some (aout a)) aws).
Proof. exact own_outcome_lemma. Qed.
Print Assumptions each_completes_with_its_own_outcome.

(* ... and who completes when does not depend on anybody's outcome: turning any
   returns into failures (of any class) or back leaves the completion log
   unchanged *)
Theorem completion_log_independent_of_outcomes :
  forall tcall aws aws',
    map aform aws = map aform aws' -> map adelay aws = map adelay aws' ->
    clog (grun aws tcall (schedule tcall aws)) = clog (grun aws' tcall (schedule tcall aws')).
Proof. exact clog_independent_of_outcomes. Qed.
Print Assumptions completion_log_independent_of_outcomes.

(* ---- isinstance over the class forest ------------------------------------------ *)
(* [Ancestor h c a]: a is c or is reached from c by following parents.  The
   executable test [isinst h] used by the cases (a walk with fuel = number of
   classes) is exactly that relation, for EVERY parent list (a chain that reaches
   a reaches it within that many steps: pigeonhole). *)
Theorem isinstance_is_ancestor :
  forall h c a, isinst h c a = true <-> Ancestor h c a.
Proof. exact isinst_ancestor. Qed.
Print Assumptions isinstance_is_ancestor.

(* raise_first_exc with `only` ranging over the hierarchy: it raises e iff e is
   the exception of the FIRST awaitable (input order) that fails with a class
   having `only` as itself-or-ancestor — earlier failures of other branches
   (e.g. a BaseException-only class when only = Exception) are passed over —,
   and returns None iff no failure is an instance of `only`. *)
Theorem raise_first_over_hierarchy :
  forall h aws only tcall,
    (forall e, raise_first_exc (isinst h) aws only tcall = Some (tdone tcall aws, Some e) <->
       exists pre a c post, aws = pre ++ a :: post /\ aout a = Raise c e /\ Ancestor h c only /\
         forall a' c' e', In a' pre -> aout a' = Raise c' e' -> ~ Ancestor h c' only) /\
    (raise_first_exc (isinst h) aws only tcall = Some (tdone tcall aws, None) <->
       forall a c e, In a aws -> aout a = Raise c e -> ~ Ancestor h c only).
Proof. exact raise_first_hierarchy_lemma. Qed.
Print Assumptions raise_first_over_hierarchy.

(* ---- the monitor decides the property on the OBSERVED trace alone -------------
   (no model involved).  [observed_ok rm h only aws o] (GatherSound.v) says, about
   one observed run o = (completion record per awaitable, yields, how the
   consumer ended):
     * there is one completion record per awaitable, each of kind "ran to
       completion" (not pending, not cancelled) at a tick not later than the tick
       at which the consumer was told the end / got the exception;
     * with sel = the exceptions of the awaitables that raise a class having
       `only` as itself-or-ancestor, in INPUT order ([Selected], unique):
       gather_excs: the generator ended normally, the yielded exceptions are
       exactly sel in that order, and at every yield every awaitable had already
       completed (tick-wise and by the count taken at that moment);
       raise_first_exc: it raised the first of sel, or returned None when sel is
       empty.
   [monitor_sound]: whatever the implementation did, if the monitor accepts its
   trace then that trace satisfies the statement; [monitor_sound_converse]: the
   monitor rejects nothing that satisfies it. *)
Theorem monitor_sound :
  forall rm h only tcall aws o,
    ok (Case rm h only tcall aws o) = true -> observed_ok rm h only aws o.
Proof. intros rm h only tcall aws o. apply (ok_iff_observed_ok rm h only tcall aws o). Qed.
Print Assumptions monitor_sound.

Theorem monitor_sound_converse :
  forall rm h only tcall aws o,
    observed_ok rm h only aws o -> ok (Case rm h only tcall aws o) = true.
Proof. intros rm h only tcall aws o. apply (ok_iff_observed_ok rm h only tcall aws o). Qed.
Print Assumptions monitor_sound_converse.

(* the model's own trace satisfies that statement, for all inputs: the property,
   in the relational vocabulary, about the executable model *)
Theorem model_satisfies_statement :
  forall rm h only tcall aws, observed_ok rm h only aws (model_trace rm h only tcall aws).
Proof. exact model_observed_ok. Qed.
Print Assumptions model_satisfies_statement.

(* "exactly": the selected list is determined by the input *)
Theorem selected_unique :
  forall h only aws ys ys', Selected h only aws ys -> Selected h only aws ys' -> ys = ys'.
Proof. exact selected_unique_lemma. Qed.
Print Assumptions selected_unique.

(* ---- non-vacuity ---------------------------------------------------------- *)
(* forest: 0 BaseException, 1 Exception, 2 EBase(1), 3 ESub(2), 4 EOther(1), 5 BOnly(0) *)
Definition h6 : hier := [None; Some 0; Some 1; Some 2; Some 1; Some 0].

(* four failing awaitables finishing in REVERSE input order plus one returning:
   the yields are in input order, subclass included, unrelated and
   BaseException-only excluded; all five completed by tick 5 *)
Example gather_example :
  let aws := [mkaw Coro 4 (Raise 3 1); mkaw Coro 3 (Raise 4 2); mkaw Task 5 Ret;
              mkaw Coro 1 (Raise 2 4); mkaw Fut 0 (Raise 5 5)] in
  gather_excs (isinst h6) aws 2 1 = Some (5%N, [1; 4]) /\
  map snd (schedule 1 aws) = [4; 3; 1; 0; 2] /\
  raise_first_exc (isinst h6) aws 5 1 = Some (5%N, Some 5) /\
  raise_first_exc (isinst h6) [mkaw Coro 1 Ret] 0 1 = Some (2%N, None) /\
  isinst h6 3 1 = true /\ isinst h6 5 1 = false /\ isinst h6 5 0 = true.
Proof. vm_compute. repeat split. Qed.

(* the monitor rejects: finishing order instead of input order; a cancelled
   awaitable; a yield before everything completed *)
Example monitor_rejects :
  let aws := [mkaw Coro 2 (Raise 2 1); mkaw Coro 1 (Raise 2 2)] in
  ok (Case false h6 1 0 aws (mkobs [(1, 2%N); (1, 1%N)] [(1, 2%N, 2); (2, 2%N, 2)] (1, 0, 2%N))) = true /\
  ok (Case false h6 1 0 aws (mkobs [(1, 2%N); (1, 1%N)] [(2, 2%N, 2); (1, 2%N, 2)] (1, 0, 2%N))) = false /\
  ok (Case false h6 1 0 aws (mkobs [(2, 1%N); (1, 1%N)] [(2, 1%N, 1)] (1, 0, 1%N))) = false /\
  ok (Case false h6 1 0 aws (mkobs [(1, 2%N); (1, 1%N)] [(1, 1%N, 1); (2, 2%N, 2)] (1, 0, 2%N))) = false.
Proof. vm_compute. repeat split. Qed.

(* the ancestor relation on the forest of the examples: class 3 (ESub) is an
   instance of 1 (Exception) via 2, class 5 (BOnly) is not, but of 0 *)
Example forest_example :
  Ancestor h6 3 1 /\ ~ Ancestor h6 5 1 /\ Ancestor h6 5 0.
Proof.
  repeat split.
  - eapply Anc_up; [reflexivity|]. eapply Anc_up; [reflexivity|]. constructor.
  - intros H. apply isinstance_is_ancestor in H. discriminate.
  - eapply Anc_up; [reflexivity|]. constructor.
Qed.

(* raise_first_exc over the hierarchy, BaseException-only branch: the first
   failure is of class 5 (BOnly): passed over under only = 1 (Exception), where
   the later ESub failure is raised; raised under only = 0 (BaseException) and
   under only = 5; nothing is raised under only = 4 (an unrelated class) *)
Example raise_first_hierarchy_example :
  let aws := [mkaw Coro 3 (Raise 5 1); mkaw Coro 1 Ret; mkaw Coro 2 (Raise 3 3)] in
  raise_first_exc (isinst h6) aws 1 0 = Some (3%N, Some 3) /\
  raise_first_exc (isinst h6) aws 0 0 = Some (3%N, Some 1) /\
  raise_first_exc (isinst h6) aws 5 0 = Some (3%N, Some 1) /\
  raise_first_exc (isinst h6) aws 4 0 = Some (3%N, None) /\
  clog (grun aws 0 (schedule 0 aws)) = [(1, 1%N); (2, 2%N); (0, 3%N)].
Proof. vm_compute. repeat split. Qed.

(* the readable statement itself on concrete observations (via the two monitor
   theorems): the input-order trace satisfies it, the finishing-order one does not *)
Example observed_ok_example :
  let aws := [mkaw Coro 2 (Raise 2 1); mkaw Coro 1 (Raise 2 2)] in
  observed_ok false h6 1 aws (mkobs [(1, 2%N); (1, 1%N)] [(1, 2%N, 2); (2, 2%N, 2)] (1, 0, 2%N)) /\
  ~ observed_ok false h6 1 aws (mkobs [(1, 2%N); (1, 1%N)] [(2, 2%N, 2); (1, 2%N, 2)] (1, 0, 2%N)) /\
  ~ observed_ok false h6 1 aws (mkobs [(2, 1%N); (1, 1%N)] [(2, 1%N, 1)] (1, 0, 1%N)).
Proof.
  cbv zeta. split; [|split].
  - apply (monitor_sound false h6 1 0%N). reflexivity.
  - intros H. apply (monitor_sound_converse false h6 1 0%N) in H. discriminate.
  - intros H. apply (monitor_sound_converse false h6 1 0%N) in H. discriminate.
Qed.
