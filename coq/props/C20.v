(* props/C20.v — C20: gather_excs reports exactly the failures, in input order,
   after all awaitables finished; raise_first_exc raises the first of them.
   ONLY theorem statements about the model Gather.v, each closed by a lemma of
   GatherInv.v / GatherMon.v, with Print Assumptions beneath.

   Vocabulary (Gather.v): an awaitable [a] has a form (coroutine started by
   gather at tick [tcall] | task | future started at tick 0), a delay and an
   outcome [aout a] = Ret | Raise c e (exception object e of class c);
   [end_of tcall a] is the tick at which it completes.  [inst c only] is
   isinstance(exception of class c, only): ANY boolean relation (so every class
   hierarchy, incl. BaseException-only branches and multiple inheritance).
   [expected inst only aws] = the e_i with outcome_i = Raise c_i e_i and
   inst c_i only, in the order of [aws].  asyncio.gather is a machine [grun]
   that receives child completions in the order of a schedule (list of
   (tick, child index)) and sets its outer future when its counter reaches the
   number of children. *)
From Coq Require Import List NArith Bool Permutation.
Import ListNotations.
Require Import Aiuti.Gather Aiuti.GatherInv Aiuti.Case_C20 Aiuti.GatherMon.

(* gather_excs always terminates, at the tick the last awaitable completes (or
   the tick of the call if that is later / there is none), and yields exactly
   the failures that are instances of [only], in INPUT order. *)
Theorem gather_excs_spec :
  forall (inst : cls -> cls -> bool) (aws : list aw) (only : cls) (tcall : N),
    gather_excs inst aws only tcall = Some (tdone tcall aws, expected inst only aws).
Proof. exact gather_excs_lemma. Qed.
Print Assumptions gather_excs_spec.

(* what "exactly the failures that are instances of only" means, element-wise *)
Theorem expected_membership :
  forall inst only aws e,
    In e (expected inst only aws) <->
    exists a c, In a aws /\ aout a = Raise c e /\ inst c only = true.
Proof. exact expected_in. Qed.
Print Assumptions expected_membership.

(* Input order, not finishing order: for EVERY order in which the children
   complete (any list of events in which each child index occurs exactly once,
   whatever the ticks), the yields are the same list. *)
Theorem order_independent_of_finishing_order :
  forall inst aws only tcall (sched : list (N * nat)),
    Permutation (map snd sched) (seq 0 (length aws)) ->
    gather_excs_sched inst aws only tcall sched =
      Some (maxl (map fst sched) tcall, expected inst only aws).
Proof. exact gather_excs_sched_lemma. Qed.
Print Assumptions order_independent_of_finishing_order.

(* ... in particular changing (e.g. permuting) delays, forms or the tick of the
   call, with the same outcomes in the same positions, never changes the yields *)
Theorem order_independent_of_delays :
  forall inst only aws aws' tcall tcall',
    map aout aws = map aout aws' ->
    option_map snd (gather_excs inst aws only tcall) = option_map snd (gather_excs inst aws' only tcall').
Proof.
  intros inst only aws aws' tcall tcall' H. rewrite !gather_excs_lemma. simpl.
  now rewrite (expected_outcomes inst only aws aws' H).
Qed.
Print Assumptions order_independent_of_delays.

(* Run to completion: every awaitable occurs in the completion log (exactly
   [length aws] entries: none skipped, none cancelled, none twice) with its own
   end tick, and that tick is not later than the tick of the yields. *)
Theorem all_completed_before_first_yield :
  forall aws tcall,
    let s := grun aws tcall (schedule tcall aws) in
    length (clog s) = length aws /\
    forall i a, nth_error aws i = Some a ->
      In (i, end_of tcall a) (clog s) /\ (end_of tcall a <= tdone tcall aws)%N /\ (tcall <= tdone tcall aws)%N.
Proof. exact all_completed_lemma. Qed.
Print Assumptions all_completed_before_first_yield.

(* raise_first_exc raises the first expected exception (Some e) or returns
   None, at the same tick *)
Theorem raise_first_spec :
  forall inst aws only tcall,
    raise_first_exc inst aws only tcall = Some (tdone tcall aws, hd_error (expected inst only aws)).
Proof. exact raise_first_lemma. Qed.
Print Assumptions raise_first_spec.

(* The trace monitor used on the implementation's observations accepts every
   trace of the model (for the forest instance of isinstance used by the cases) *)
Theorem monitor_accepts_model :
  forall rm h only tcall aws, ok (Case rm h only tcall aws (model_trace rm h only tcall aws)) = true.
Proof. exact monitor_accepts_model_lemma. Qed.
Print Assumptions monitor_accepts_model.

(* ---- non-vacuity ---------------------------------------------------------- *)
(* forest: 0 BaseException, 1 Exception, 2 EBase(1), 3 ESub(2), 4 EOther(1), 5 BOnly(0) *)
Definition h6 : hier := [None; Some 0; Some 1; Some 2; Some 1; Some 0].

(* four failing awaitables finishing in REVERSE input order plus one returning:
   the yields are in input order, subclass included, unrelated and
   BaseException-only excluded; all five completed by tick 5 *)
Example gather_example :
  let aws := [mkaw Coro 4 (Raise 3 1); mkaw Coro 3 (Raise 4 2); mkaw Task 5 Ret;
              mkaw Coro 1 (Raise 2 4); mkaw Fut 0 (Raise 5 5)] in
  gather_excs (isinst h6) aws 2 1 = Some (5%N, [1; 4]) /\
  map snd (schedule 1 aws) = [4; 3; 1; 0; 2] /\
  raise_first_exc (isinst h6) aws 5 1 = Some (5%N, Some 5) /\
  raise_first_exc (isinst h6) [mkaw Coro 1 Ret] 0 1 = Some (2%N, None) /\
  isinst h6 3 1 = true /\ isinst h6 5 1 = false /\ isinst h6 5 0 = true.
Proof. vm_compute. repeat split. Qed.

(* the monitor rejects: finishing order instead of input order; a cancelled
   awaitable; a yield before everything completed *)
Example monitor_rejects :
  let aws := [mkaw Coro 2 (Raise 2 1); mkaw Coro 1 (Raise 2 2)] in
  ok (Case false h6 1 0 aws (mkobs [(1, 2%N); (1, 1%N)] [(1, 2%N, 2); (2, 2%N, 2)] (1, 0, 2%N))) = true /\
  ok (Case false h6 1 0 aws (mkobs [(1, 2%N); (1, 1%N)] [(2, 2%N, 2); (1, 2%N, 2)] (1, 0, 2%N))) = false /\
  ok (Case false h6 1 0 aws (mkobs [(2, 1%N); (1, 1%N)] [(2, 1%N, 1)] (1, 0, 1%N))) = false /\
  ok (Case false h6 1 0 aws (mkobs [(1, 2%N); (1, 1%N)] [(1, 1%N, 1); (2, 2%N, 2)] (1, 0, 2%N))) = false.
Proof. vm_compute. repeat split. Qed.
