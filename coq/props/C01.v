(* C01 — threadsafe_async_cache is single-flight.  Theorem statements only; the lemmas live in
   theories/CacheInv.v / CacheInv2.v (inductive invariants Inv, Inv2) over the model
   theories/Cache.v, which is the very model the correspondence check runs against the traces of
   the real code (Case_Cache.agree = "the observed trace is a run of Cache.step").
   All statements quantify over EVERY event list the model accepts: any number of loops,
   callers and keys, any interleaving of the gated primitives, any loop life-cycle events,
   cancellations, failures and clock advances. *)
From Coq Require Import List Arith NArith Bool.
Import ListNotations.
Require Aiuti.Keys.
Require Import Aiuti.CacheSeq.   (* first: its store relation `Rel` must not shadow the event `Rel` *)
Require Import Aiuti.Cache Aiuti.CacheLemmas Aiuti.CacheInv Aiuti.CacheInv2 Aiuti.CacheMon Aiuti.CacheMon1.
Require Import Aiuti.CacheMonSpec Aiuti.CacheUnfixed.

(* In every reachable state at most one invocation per key has status IActive.  IActive = started,
   not ended, and its loop has never stopped running since (an invocation left pending on a loop
   that stopped is IAband from that moment, exactly as the property says). *)
Theorem single_flight :
  forall nloops tbl tr s, run (init nloops tbl) tr = Some s ->
  forall i j ir jr,
    nth_error (invs s) i = Some ir -> nth_error (invs s) j = Some jr ->
    istat ir = IActive -> istat jr = IActive -> ikey ir = ikey jr -> i = j.
Proof. exact single_flight_lemma. Qed.
Print Assumptions single_flight.

(* Once an invocation i has returned successfully (event IEnd i 0), in the rest of ANY accepted
   trace: the wrapped function is never started again for that key (no IStart by a caller whose key
   is i's key), and every caller of that key that returns a value afterwards returns i's result.
   (Values are invocation ids; tbl is the caller table: caller id -> (loop, key); the cache mapping
   retains entries: the model has no eviction event.) *)
Theorem no_reinvoke_after_success :
  forall nloops tbl pre i t post s,
    run (init nloops tbl) (pre ++ IEnd i 0 t :: post) = Some s ->
    exists ir, nth_error (invs s) i = Some ir /\ istat ir = IOk
      /\ (forall j c tj, In (IStart j c tj) post -> snd (lget (0, 0) tbl c) <> ikey ir)
      /\ (forall c v tv, In (Done c 0 v tv) post -> snd (lget (0, 0) tbl c) = ikey ir -> v = i).
Proof. exact no_reinvoke_lemma. Qed.
Print Assumptions no_reinvoke_after_success.

(* State form of the same: a successful invocation of a key excludes, in every reachable state,
   any other invocation of that key that is in progress or successful. *)
Theorem success_unique :
  forall nloops tbl tr s, run (init nloops tbl) tr = Some s ->
  forall i j ir jr,
    nth_error (invs s) i = Some ir -> nth_error (invs s) j = Some jr ->
    istat ir = IOk -> ikey jr = ikey ir -> (istat jr = IActive \/ istat jr = IOk) -> i = j.
Proof. exact success_unique_lemma. Qed.
Print Assumptions success_unique.

(* Monitor soundness: the trace monitor ok_C01 that the check evaluates on every trace observed
   from the real code (no two invocations of one key overlapping on running loops, no start after a
   success, every returned value is THE successful result of the caller's key) accepts every trace
   the model can produce — and every accepted prefix. *)
Theorem ok_C01_sound :
  forall nloops tbl tr, accepts nloops tbl tr = true -> ok_C01 tbl tr = true.
Proof. exact ok_C01_sound_l. Qed.
Print Assumptions ok_C01_sound.

Theorem ok_C01_sound_prefix :
  forall nloops tbl tr s, run (init nloops tbl) tr = Some s -> ok_C01 tbl tr = true.
Proof. exact ok_C01_sound_run. Qed.
Print Assumptions ok_C01_sound_prefix.

(* CONVERSE direction: what "the monitor accepted a trace" means for that trace ALONE, without any
   reference to the model.  Since the check evaluates ok_C01 on the trace observed from the REAL
   code, these three theorems say what every accepted implementation trace satisfies.
   (tbl: caller id -> (loop, key).)

   No overlap: between two starts of the wrapped function for one key, the earlier invocation has
   ended, or its loop has stopped running / finished its shutdown run (from which moment it counts
   as ended, as the property says). *)
Theorem ok_C01_implies_no_overlap :
  forall tbl tr, ok_C01 tbl tr = true ->
  forall pre i c t mid j c' t' post,
    tr = pre ++ IStart i c t :: mid ++ IStart j c' t' :: post ->
    tbl_key tbl c = tbl_key tbl c' ->
    (exists r t2, In (IEnd i r t2) mid) \/ In (LoopEv (tbl_loop tbl c) 0) mid \/
    In (LoopEv (tbl_loop tbl c) 2) mid.
Proof. exact ok_C01_no_overlap. Qed.
Print Assumptions ok_C01_implies_no_overlap.

(* After a success: once invocation i (started by c0, its latest start) has returned successfully,
   the wrapped function is never started again for c0's key and every value returned later to a
   caller of that key is i's result. *)
Theorem ok_C01_implies_no_reinvoke :
  forall tbl tr, ok_C01 tbl tr = true ->
  forall p1 i c0 t0 p2 t post,
    tr = p1 ++ IStart i c0 t0 :: p2 ++ IEnd i 0 t :: post ->
    (forall c1 t1, ~ In (IStart i c1 t1) p2) ->
    (forall j c' t', In (IStart j c' t') post -> tbl_key tbl c' <> tbl_key tbl c0) /\
    (forall c' v tv, In (Done c' 0 v tv) post -> tbl_key tbl c' = tbl_key tbl c0 -> v = i).
Proof. exact ok_C01_after_success. Qed.
Print Assumptions ok_C01_implies_no_reinvoke.

(* Every returned value is the result of an invocation for the caller's key that was started and
   ended successfully before. *)
Theorem ok_C01_implies_ret_is_success :
  forall tbl tr, ok_C01 tbl tr = true ->
  forall pre c v tv post, tr = pre ++ Done c 0 v tv :: post ->
    exists q1 c0 t0 q2 t1 q3,
      pre = q1 ++ IStart v c0 t0 :: q2 ++ IEnd v 0 t1 :: q3 /\
      (forall c1 t', ~ In (IStart v c1 t') q2) /\
      tbl_key tbl c0 = tbl_key tbl c.
Proof. exact ok_C01_ret_is_success. Qed.
Print Assumptions ok_C01_implies_ret_is_success.

(* The defect F1, kept documented in Coq: WITHOUT the repair fac37d0 (the finally block removes the
   in-flight marker unconditionally; CacheUnfixed.stepU false true, which differs from the model
   only in that step) the schedule of DESIGN 6/F1 — loop 0 stops with its computation pending,
   caller 1 takes over, loop 0 is shut down, caller 2 arrives — reaches a state with two
   invocations of one key active at once on running loops, and the monitor rejects that trace.
   The witness is the trace recorded from /repo with the fix reverted. *)
Theorem single_flight_refuted_without_fix1 :
  exists tr u i j ir jr,
    runU false true (initU 3 tbl_F1) tr = Some u
    /\ nth_error (invs (ust u)) i = Some ir /\ nth_error (invs (ust u)) j = Some jr
    /\ i <> j /\ istat ir = IActive /\ istat jr = IActive /\ ikey ir = ikey jr
    /\ ok_C01 tbl_F1 tr = false.
Proof. exact single_flight_refuted_without_fix1_l. Qed.
Print Assumptions single_flight_refuted_without_fix1.

(* LINK TO C14.  In the sequential regime of C14 (one loop, the calls run one after the other; key ids
   ks) the concurrent model IS C14's sequential cache (Keys.v, retaining user mapping): the model
   accepts the sequential run, the same calls invoke the wrapped function in both models, and the
   value returned here (an invocation id v) and the tag returned there (a call index t) denote the
   same invocation: the v-th invocation of the run was performed by call t.  So C14's theorems
   about keys and C01/C06's about concurrency are about one and the same object.
   (CacheSeq.seq_call_cache_spec is the analogue of C14's seq_call_spec from any idle state.) *)
Theorem seq_run_accepted :
  forall ks, accepts 1 (map (fun k => (0, k)) ks) (seq_trace ks ++ [LoopEv 0 0; End 0]) = true.
Proof. exact seq_accepts. Qed.
Print Assumptions seq_run_accepted.

Theorem seq_call_refines_keys :
  forall ks,
    map fst (seq_outcomes ks) =
    map (fun o => fst (fst o))
        (Keys.run Keys.spec_expr Keys.IfNotNone (Keys.KUser None) false
                  (map (fun k => Keys.Call (Keys.mksig [k] [])) ks))
    /\ Forall2 (fun o ob => nth_error (miss_tags (krun ks)) (snd o) = Some (snd (fst ob)))
               (seq_outcomes ks) (krun ks).
Proof. exact (fun ks => conj (CacheSeq.seq_call_refines_keys ks) (seq_same_invocation ks)). Qed.
Print Assumptions seq_call_refines_keys.

(* The same link for the DEFAULT dict (cache=None: Keys.KDefault, the decorator's private store). *)
Theorem seq_call_refines_keys_default :
  forall ks,
    map fst (seq_outcomes ks) =
    map (fun o => fst (fst o))
        (Keys.run Keys.spec_expr Keys.IfNotNone Keys.KDefault false
                  (map (fun k => Keys.Call (Keys.mksig [k] [])) ks))
    /\ Forall2 (fun o ob => nth_error (miss_tags (krun_default ks)) (snd o) = Some (snd (fst ob)))
               (seq_outcomes ks) (krun_default ks).
Proof.
  exact (fun ks => conj (CacheSeq.seq_call_refines_keys_default ks) (seq_same_invocation_default ks)).
Qed.
Print Assumptions seq_call_refines_keys_default.

(* the monitor is not trivially true: it rejects two overlapping invocations of one key, an
   invocation after a success, and a returned value that is not the successful result *)
Example ok_C01_rejects :
  ok_C01 [(0,0); (1,0)] [IStart 0 0 0%N; IStart 1 1 0%N] = false
  /\ ok_C01 [(0,0); (1,0)] [IStart 0 0 0%N; IEnd 0 0 1%N; IStart 1 1 1%N] = false
  /\ ok_C01 [(0,0); (1,0)] [IStart 0 0 0%N; IEnd 0 0 1%N; Done 1 0 5 1%N] = false
  /\ ok_C01 [(0,0); (1,0)] [IStart 0 0 0%N; LoopEv 0 0; IStart 1 1 0%N] = true.
Proof. vm_compute. repeat split; reflexivity. Qed.

(* non-vacuity: a run of two loops in which caller 0 (loop 0) is computing key 0 and caller 1
   (loop 1) has decided to wait for it: one IActive invocation exists *)
Example single_flight_nonvacuous :
  exists s, run (init 2 [(0,0); (1,0)])
                [Get 0 0; Miss 0 0; Acq 0 0; Get 0 0; Miss 0 0; Rel 0 0; IStart 0 0 0%N;
                 Get 1 1; Miss 1 1; Acq 1 1; Get 1 1; Miss 1 1; Rel 1 1; XSub 1 1] = Some s
            /\ map istat (invs s) = [IActive].
Proof. eexists. split; [vm_compute; reflexivity | reflexivity]. Qed.

(* non-vacuity of no_reinvoke_after_success: an accepted trace of the required shape whose tail
   contains a caller of the same key that returns the one result *)
Example no_reinvoke_nonvacuous :
  accepts 2 [(0,0); (1,0)]
    ([Get 0 0; Miss 0 0; Acq 0 0; Get 0 0; Miss 0 0; Rel 0 0; IStart 0 0 0%N;
      Get 1 1; Miss 1 1; Acq 1 1; Get 1 1; Miss 1 1; Rel 1 1; XSub 1 1; Adv 5%N]
     ++ IEnd 0 0 5%N ::
     [SetC 0 0; Acq 0 0; Rel 0 0; Done 0 0 0 5%N; Proxy 0 1 0; Get 1 1; Done 1 0 0 5%N;
      LoopEv 0 0; LoopEv 1 0; End 0]) = true.
Proof. vm_compute. reflexivity. Qed.
