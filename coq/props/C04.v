(* props/C04.v — placeholder while the proofs are being written *)
Require Import Aiuti.Batcher.
