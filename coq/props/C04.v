(* props/C04.v — C04: the batcher returns to each caller exactly its own outcome,
   and always answers.  ONLY theorem statements about the executable macro-step
   model coq/theories/Batcher.v ([run c evs] = (observations per macro step, final
   state)), each closed by a lemma of BatcherProps.v (invariants in BatcherInv.v),
   with Print Assumptions beneath, and non-vacuity Examples at the end.

   Quantification: ALL configurations with max_batch_size >= 1 and
   max_concurrent_batches >= 1 ([cfg_ok]) and ALL event lists: calls, bursts,
   chained calls (a task calling again in the continuation of its answer), time,
   batch-function yields (any key, any order, values and Exception values,
   repeated and unknown keys) / raises / returns, SetMax (>= 1, [ev_ok]).  For
   C04 the lists contain no [Cancel] ([no_cancel evs := forall i, ~ In (Cancel i) evs]);
   props/C09.v lifts that.

   Vocabulary (BatcherInv.v / BatcherProps.v):
   [blog_of b (g_blog s)]  the effective events of the batch function of batch b
                           (ghost log; appended by BYield/BRaise/BFinish of a running b);
   [produced l ks k o]     log l decides outcome o for key k: l = pre ++ ev :: post, k is
                           not yielded in pre, and ev is: the yield (k, Val v) for Ret v; the
                           yield (k, ExcVal e) for YieldedExc e; the raise of e for RaisedExc e;
                           the return for Missing; a yield of a key that is not in the batch
                           (ks) or was already yielded, for ProtocolErr (the KeyError of
                           futs.pop, delivered like a batch failure).  Never for Cancelled/LibExc;
   [outcome_from_batch s cl o]  the item carrying cl's future (same key, same future) is in
                           a started batch b and [produced (log of b) (keys of b) (key of cl) o]. *)
From Coq Require Import List Arith NArith Bool.
Import ListNotations.
Require Import Aiuti.Case_Batcher Aiuti.Case_Batcher_Sound Aiuti.Case_Batcher_Basic Aiuti.BatcherSim Aiuti.Case_Batcher_C04 Aiuti.Case_Batcher_Full Aiuti.Case_Batcher_Sound04 Aiuti.Batcher Aiuti.BatcherLimits Aiuti.BatcherTime Aiuti.BatcherInv Aiuti.BatcherProps.

(* Each caller gets exactly its own outcome.  If the trace says caller i completed
   with outcome o, then caller i's key is the key of its call, the item that carries
   its future was handed to the batch function in exactly one batch, and o is what
   that batch's function produced FOR THAT KEY: the first value yielded for the key
   is returned, a yielded Exception value is raised, an exception raised by the
   batch function reaches it only while its key was still unanswered, a batch that
   returns without the key gives Missing — never a value or exception yielded for
   another key, whatever the order of the yields.  (o = Cancelled and LibExc are
   impossible without Cancel events.) *)
Theorem own_outcome :
  forall c evs, cfg_ok c -> Forall ev_ok evs -> no_cancel evs ->
  forall i o t, In (CallerDone i o t) (concat (fst (run c evs))) ->
  let s := snd (run c evs) in
  exists cl, nth_error (callers s) i = Some cl /\ cl_st cl = Some o /\
             cl_key cl = key_of (cl_arg cl) (cl_ko cl) /\ outcome_from_batch s cl o.
Proof. exact own_outcome_nocancel_lemma. Qed.
Print Assumptions own_outcome.

(* "the batch that carried the item of c's future" is unique: two started batches
   holding items of the same future are the same batch (and the same item). *)
Theorem batch_of_unique :
  forall c evs, cfg_ok c -> Forall ev_ok evs ->
  let s := snd (run c evs) in
  forall e1 e2 it1 it2, In e1 (g_started s) -> In e2 (g_started s) -> In it1 (st_items e1) -> In it2 (st_items e2) ->
    it_fid it1 = it_fid it2 -> e1 = e2 /\ it1 = it2.
Proof. exact batch_of_unique_lemma. Qed.
Print Assumptions batch_of_unique.

(* Always answered, part 1 (state invariant, after any event list): a caller that is
   still waiting waits for a future that is pending, and the item of that future is in
   the open batch, in a batch queued on the semaphore, or in a running batch whose futs
   still maps the caller's key to that future — nobody waits for something the batcher
   has lost track of. *)
Theorem always_answered_inv :
  forall c evs, cfg_ok c -> Forall ev_ok evs ->
  let s := snd (run c evs) in
  forall cl, In cl (callers s) -> cl_st cl = None ->
    is_done s (cl_fid cl) = false /\
    exists it, In it (g_items s) /\ it_key it = cl_key cl /\ it_fid it = cl_fid cl /\ located s it.
Proof. exact always_answered_inv_lemma. Qed.
Print Assumptions always_answered_inv.

(* Always answered, part 2: when the batch function of a running batch b returns
   (BFinish) or raises (BRaise), every item of b is answered in that very step and no
   caller of b is left waiting.  Together with props/C10.v [dispatch_deadline] (an item
   reaches a batch by last-arrival + batch_timeout, a batch starts when a slot frees)
   this is "always answers", provided the batch function itself ends — the
   environment's obligation. *)
Theorem batch_end_answers :
  forall c evs b e, cfg_ok c -> Forall ev_ok evs -> (e = BFinish b \/ exists x, e = BRaise b x) ->
  let s := snd (run c evs) in
  forall B, find_batch s b = Some B ->
  let s' := snd (run c (evs ++ [e])) in
  (forall it, In it (b_items B) -> is_done s' (it_fid it) = true) /\
  (forall cl it, In cl (callers s') -> In it (b_items B) -> cl_fid cl = it_fid it -> cl_st cl <> None).
Proof. exact batch_end_answers_lemma. Qed.
Print Assumptions batch_end_answers.

(* No background task of the batcher ever ends with an exception. *)
Theorem no_task_died :
  forall c evs, cfg_ok c -> Forall ev_ok evs -> ~ In TaskDied (concat (fst (run c evs))).
Proof. exact no_task_died_lemma. Qed.
Print Assumptions no_task_died.

(* The basic sub-monitor [ok_basic] (a conjunct of ok_C04, ok_C10 and ok_C11: per macro
   step no TaskDied, every completion carries the script clock, no caller completes twice,
   every batch is non-empty, carries no key twice and does not start in the script's
   future) is COMPLETE — it accepts the canonical trace of the model for ALL
   configurations and ALL event lists, so it cannot raise a false alarm on a case where
   the implementation agrees with the model — and SOUND. *)
Theorem monitor_basic_complete :
  forall c evs w, cfg_ok c -> Forall ev_ok evs ->
  ok_basic (BCase c evs (map canon (fst (run c evs))) w) = true.
Proof. exact ok_basic_complete. Qed.
Print Assumptions monitor_basic_complete.

Theorem monitor_basic_sound :
  forall c evs observed w, ok_basic (BCase c evs observed w) = true ->
  forall os, In os observed ->
    ~ In TaskDied os /\ NoDup (map (fun d => fst (fst d)) (dones_of os)) /\
    forall b items t, In (BatchStart b items t) os -> 1 <= length items /\ NoDup (map fst items).
Proof. exact ok_basic_sound. Qed.
Print Assumptions monitor_basic_sound.

(* COMPLETENESS of the FULL monitor ok_C04 — the basic conjuncts, late answers = exactly the
   outcomes the script makes the batch function produce for the waiting callers' keys in
   that step, immediate answers = the latest outcome produced for the key, Cancelled only
   for the caller a Cancel names, and the final rule (the list of callers still waiting is
   the monitor's; nobody waits once every batch ended and batch_timeout elapsed since the
   last call) — on event lists without Chain events, for batch_timeout > 0: the monitor
   accepts the canonical trace of the model together with the model's waiting list, for
   every configuration and every such event list.  Proof: Case_Batcher_C04.v, on top of the
   simulation of Case_Batcher_C11.v.  Chain events are excluded here; [monitor_complete] below has them. *)
Theorem monitor_complete_nochain :
  forall c evs, cfg_ok c -> (0 < c_bt c)%N -> Forall ev_ok evs ->
  forallb (fun e => negb (is_chain e)) evs = true ->
  ok_C04 (BCase c evs (map canon (fst (run c evs))) (waiting_callers (snd (run c evs)))) = true.
Proof. exact ok_C04_complete. Qed.
Print Assumptions monitor_complete_nochain.

(* COMPLETENESS of the FULL monitor ok_C04 on ALL event lists, Chain events included
   (batch_timeout > 0): tasks that make several calls one after the other — answered at once
   inside the window, or resumed by a batch and calling again in the same loop iteration —
   are covered: the monitor accepts the canonical trace of the model together with the model's
   waiting list, for every configuration and every event list.  In particular the late
   answers, the immediate answers of the calls made by resumed tasks (checked against the
   latest outcome produced for the key, including the outcomes produced in the same step),
   and the idle rule (a resumed task that calls again resets the idle time) are what the
   model does.  Proof: Case_Batcher_Full.v. *)
Theorem monitor_complete :
  forall c evs, cfg_ok c -> (0 < c_bt c)%N -> Forall ev_ok evs ->
  ok_C04 (BCase c evs (map canon (fst (run c evs))) (waiting_callers (snd (run c evs)))) = true.
Proof. exact ok_C04_complete_all. Qed.
Print Assumptions monitor_complete.

(* Model-free SOUNDNESS of the state-dependent conjuncts of ok_C04 (no model involved: script and
   observed trace only; [m] below is the monitor state before the step, computed from them):
   if ok_C04 accepts, then at every macro step every completion of a caller that was already
   waiting is justified by the script — the event is the Cancel of that caller (Cancelled), or a
   batch-function event of a batch that was OBSERVED to start and still owes the caller's key,
   and the outcome is exactly what that event produces for that key (yield of this key: the
   yielded value / Exception; yield of a key the batch does not owe: ProtocolErr; raise: that
   exception; return: Missing).  So an accepted trace never gives a waiting caller what was
   yielded for another key, and never completes a caller without cause.
   PARTIAL: this theorem is about callers that were already waiting; a call answered in the step
   in which it was made is the subject of [monitor_sound_imm] below; WHETHER a call may be
   answered at once (only inside the retention window) is ok_C11's conjunct, not ok_C04's. *)
Theorem monitor_sound_late_partial :
  forall c evs observed w, ok_C04 (BCase c evs observed w) = true ->
  all_steps late_justified c (minit c) evs observed.
Proof. exact ok_C04_sound_late. Qed.
Print Assumptions monitor_sound_late_partial.

(* ... and the immediate answers (model-free as well): if ok_C04 accepts, then at every macro step
   every completion of a call made in that very step — a call of the step's event, or a call a
   resumed task makes in the continuation of its answer — carries the LATEST outcome the script
   made the batch function produce for that call's key, the outcomes produced by this step's own
   event included ([step_last]: this step's productions in front of the earlier ones; the key is
   the one the monitor registered for that caller id, [step_calls]).  So an accepted trace never
   answers a call at once with a stale or foreign outcome. *)
Theorem monitor_sound_imm :
  forall c evs observed w, ok_C04 (BCase c evs observed w) = true ->
  all_steps (imm_justified c) c (minit c) evs observed.
Proof. exact ok_C04_sound_imm. Qed.
Print Assumptions monitor_sound_imm.

(* ... and the final rule: the observed waiting list is exactly the callers without an observed
   completion, and it is empty once every observed batch was ended by the script and
   batch_timeout elapsed since the last call (no hang). *)
Theorem monitor_sound_end :
  forall c evs observed w, ok_C04 (BCase c evs observed w) = true ->
  exists m, mon_run c (minit c) evs observed = Some m /\ w = not_done_from 0 (m_calls m) /\
            (m_live m = [] -> (c_bt c <= m_idle m)%N -> w = []).
Proof. exact ok_C04_sound_end. Qed.
Print Assumptions monitor_sound_end.

(* Soundness of the full monitor, PARTIAL.  The trace monitor ok_C04 (Case_Batcher.v) that judges
   the implementation's observed trace is independent of the model.  Proved here:
   acceptance implies that no TaskDied was observed and that no caller completes
   twice within a macro step.  NOT proved as a theorem (full statement: "ok_C04 accepts
   iff the observed trace satisfies own_outcome/always_answered read on the script"):
   the conjuncts that compare each completion with the outcome the script makes the
   batch function produce for the caller's key (late_expected / imm_ok04) and the
   final no-Hang rule are decided by the monitor's own specification state; they are
   tied to the theorems above through the correspondence [agree] on every case. *)
Theorem monitor_sound_partial :
  forall c evs observed w, ok_C04 (BCase c evs observed w) = true ->
  forall os, In os observed -> ~ In TaskDied os /\ NoDup (map (fun d => fst (fst d)) (dones_of os)).
Proof. exact ok_C04_sound. Qed.
Print Assumptions monitor_sound_partial.

(* ---- non-vacuity ------------------------------------------------------------------- *)

Definition ex_cfg := mkcfg 3 1 10%N 0%N.
(* keys 0,1,2 in one batch; yields in reverse order: 2 -> value 7, 0 -> Exception 1, then
   the function returns without key 1; a second batch raises *)
Definition ex_evs :=
  [Burst [(0, None); (1, None); (2, None); (3, None)];
   BYield 0 2 (Val 7); BYield 0 0 (ExcVal 1); BFinish 0; Advance 11; BRaise 1 2].

Example ex_hyps : cfg_ok ex_cfg /\ Forall ev_ok ex_evs /\ no_cancel ex_evs.
Proof.
  split; [split; simpl; auto|]. split; [repeat constructor|].
  intros i H. simpl in H. repeat (destruct H as [H|H]; [discriminate|]). exact H.
Qed.

Example ex_trace :
  map (filter is_done_obs) (fst (run ex_cfg ex_evs)) =
  [[]; [CallerDone 2 (Ret 7) 0%N]; [CallerDone 0 (YieldedExc 1) 0%N]; [CallerDone 1 Missing 0%N]; [];
   [CallerDone 3 (RaisedExc 2) 11%N]].
Proof. vm_compute. reflexivity. Qed.

(* a waiting caller whose item is in a running batch (hypotheses of always_answered_inv) *)
Example ex_waiting :
  let s := snd (run ex_cfg (firstn 2 ex_evs)) in
  exists cl, In cl (callers s) /\ cl_st cl = None /\ cl_key cl = 1 /\ length (running s) = 1.
Proof. vm_compute. eexists. split; [right; left; reflexivity|]. repeat split. Qed.

(* batch_end_answers applies: batch 0 is running before the BFinish *)
Example ex_end : exists B, find_batch (snd (run ex_cfg (firstn 3 ex_evs))) 0 = Some B /\ length (b_items B) = 3.
Proof. vm_compute. eexists. split; reflexivity. Qed.

(* a repeated key: everybody still unanswered gets the KeyError (ProtocolErr) *)
Example ex_protocol :
  map (filter is_done_obs) (fst (run ex_cfg [Burst [(0, None); (1, None); (2, None)]; BYield 0 1 (Val 7); BYield 0 1 (Val 8)])) =
  [[]; [CallerDone 1 (Ret 7) 0%N]; [CallerDone 0 ProtocolErr 0%N; CallerDone 2 ProtocolErr 0%N]].
Proof. vm_compute. reflexivity. Qed.

(* the monitor accepts the model's own trace of the example and rejects a trace with a TaskDied *)
Example ex_monitor :
  ok_C04 (BCase ex_cfg ex_evs (map canon (fst (run ex_cfg ex_evs))) (waiting_callers (snd (run ex_cfg ex_evs)))) = true /\
  ok_C04 (BCase ex_cfg [Call 1 None] [[TaskDied]] [0]) = false.
Proof. vm_compute. split; reflexivity. Qed.
