(* props/C07.v — C07: wait() is a true barrier and always returns; shutdown
   terminates.  ONLY theorem statements about the executable model Buffer.v (the
   model the correspondence check runs against /repo), each closed by a lemma of
   BufferWait.v / BufferReturn.v / BufferFlag.v / BufferJoin.v / BufferMon*.v, with
   Print Assumptions beneath, and non-vacuity Examples at the end.

   Vocabulary.  [trace T evs]: per external event, what the harness observes
   (FnStart callno set tick / FnEnd callno ok set / WaitRet w tick n / DaemonEnded).
   [final T evs]: the model state after the events; [seen s] = the producer ids
   submitted so far (by Submit from the loop's thread, or by the foreign FPut),
   [wseen s] = the wait ids used so far.  [g_offered (gh s)]: every (producer id,
   argument) handed to the buffer so far; [ok_sets tr]: the arguments of the
   calls of tr that returned without error.  Event lists are arbitrary. *)
From Coq Require Import List Arith NArith Bool.
Import ListNotations.
Require Import Aiuti.Buffer Aiuti.BufferCore Aiuti.BufferFlag Aiuti.BufferInv Aiuti.BufferJoin
               Aiuti.BufferQuiet Aiuti.BufferProgress Aiuti.BufferWait Aiuti.BufferReturn Aiuti.Case_Buffer
               Aiuti.Case_C07 Aiuti.BufferMon Aiuti.BufferMonSound Aiuti.BufferMon7.

(* The barrier.  For EVERY history evs and next event e: if WaitRet w is observed
   in the macro step of e, then the history contains the (accepted, i.e. live
   buffer and unused id) event  Wait w c  that called this wait(), and every
   argument handed to the buffer — at any time up to and including this step —
   by a producer that had been submitted before that Wait event (own thread:
   Submit; foreign thread: its FPut) is in a call that returned without error
   before the end of this step.  (Producers that never produced anything —
   empty, failed — impose nothing.) *)
Theorem wait_barrier :
  forall (T : N) (evs : list event) (e : event) (w : nat) (t : N) (n : nat),
    In (WaitRet w t n) (snd (step (final T evs) e)) ->
    exists pre c post,
      evs ++ [e] = pre ++ Wait w c :: post /\ is_dead (final T pre) = false /\
      existsb (Nat.eqb w) (wseen (final T pre)) = false /\
      forall p x, In p (seen (final T pre)) -> In (p, x) (g_offered (gh (final T (evs ++ [e])))) ->
                  In x (ok_sets (concat (trace T (evs ++ [e])))).
Proof. exact wait_barrier_lemma. Qed.
Print Assumptions wait_barrier.

(* The accepted Wait event of a wait id is unique (a wait id is accepted once), so
   the same holds for EVERY decomposition of the history at an accepted Wait w. *)
Theorem wait_barrier_every_decomposition :
  forall (T : N) (evs : list event) (e : event) (w : nat) (t : N) (n : nat),
    In (WaitRet w t n) (snd (step (final T evs) e)) ->
    forall pre c post,
      evs ++ [e] = pre ++ Wait w c :: post -> is_dead (final T pre) = false ->
      existsb (Nat.eqb w) (wseen (final T pre)) = false ->
      forall p x, In p (seen (final T pre)) -> In (p, x) (g_offered (gh (final T (evs ++ [e])))) ->
                  In x (ok_sets (concat (trace T (evs ++ [e])))).
Proof. exact wait_barrier_forall. Qed.
Print Assumptions wait_barrier_every_decomposition.

(* Behind it, the completion flag: whenever the event is set at a quiescent point,
   the daemon is idle, the queue is empty and everything handed to the buffer
   so far, by any thread, has been delivered in a call that returned without error. *)
Theorem flag_means_all_delivered :
  forall (T : N) (evs : list event),
    let s := final T evs in
    is_dead s = false -> evset s = true ->
    dm s = DIdle /\ q s = [] /\ forall x, In x (off (gh s)) -> In x (g_delivered (gh s)).
Proof. exact flag_means_delivered. Qed.
Print Assumptions flag_means_all_delivered.

(* ... and the join counter: unfinished (what q.join() waits for) = queued
   producers + 1 while a producer returned by the timed read is still being
   loaded; the queue is empty whenever the daemon is parked on q.get(); a task is
   still inside q.join() only while unfinished > 0. *)
Theorem join_counter :
  forall (T : N) (evs : list event),
    let s := final T evs in
    is_dead s = false ->
    unfinished s = length (q s) + extra (dm s) /\
    (q_empty_stage (dm s) = true -> q s = []) /\
    (unfinished s = 0 -> forall w, In w (waiters s) -> wstate w = OnEvent).
Proof. exact join_counter_lemma. Qed.
Print Assumptions join_counter.

(* wait() returns (progress form).  In every history without a bare foreign
   event.clear() that is never followed by its put (no FClear; FPut and
   FnOkThenFClear are allowed): from ANY reachable live state in which the daemon
   is not parked on a slow producer and every queued producer has ended or
   failed — e.g. after the script closed the open producers — the continuation
       FnOk ; Advance d (d >= timeout) ; FnOk
   ("the function succeeds for the running and the next call, a full timeout
   passes") makes EVERY task that is inside wait() return: cancel=True and
   cancel=False alike, however many concurrent waiters, whatever empty / failed
   producers and failed calls came before. *)
Theorem wait_returns :
  forall (T : N) (evs : list event) (d : N),
    ~ In FClear evs -> (T <= d)%N -> let s := final T evs in
    is_dead s = false -> parked (dm s) = true -> all_fin (q s) ->
    forall w0, In w0 (waiters s) ->
      exists t n, In (WaitRet (wid w0) t n) (concat (snd (run s (tail d)))).
Proof. exact wait_returns_lemma. Qed.
Print Assumptions wait_returns.

(* In such histories, whenever the daemon is idle the flag is set and nobody is
   inside wait(): a wait() on an idle buffer returns in the same step. *)
Theorem idle_means_flag_set :
  forall (T : N) (evs : list event),
    ~ In FClear evs ->
    let s := final T evs in
    (dm s = DIdle -> evset s = true) /\ (evset s = true -> waiters s = []).
Proof. exact final_IE. Qed.
Print Assumptions idle_means_flag_set.

(* wait(cancel=True) on a buffer whose quiet timer is armed (everything loaded,
   something to deliver) starts the call in the same macro step, at the current
   tick — no Advance needed; wait(cancel=False) starts nothing. *)
Theorem wait_cancel_flushes_now :
  forall (T : N) (evs : list event) ins d w,
    let s := final T evs in
    dm s = DAwait ins d -> ins <> [] -> existsb (Nat.eqb w) (wseen s) = false ->
    snd (step s (Wait w true)) = [FnStart (callno s) ins (now s)] /\
    snd (step s (Wait w false)) = [].
Proof. exact wait_cancel_lemma. Qed.
Print Assumptions wait_cancel_flushes_now.

(* Shutdown terminates.  Whatever happened before (any stage: idle, gathering,
   timer armed, loading one producer, function running) and whatever is scripted
   afterwards: cancelling the daemon task ends it — DaemonEnded is observed in
   the Shutdown step (or had been, if an earlier Shutdown already ended it) —
   and NOTHING is observed in any later step: no call of the function, no
   WaitRet. *)
Theorem shutdown_terminates :
  forall (T : N) (evs rest : list event),
    exists o,
      trace T (evs ++ Shutdown :: rest) = trace T evs ++ o :: map (fun _ => []) rest /\
      (o = [DaemonEnded] \/ (o = [] /\ In DaemonEnded (concat (trace T evs)))) /\
      is_dead (final T (evs ++ [Shutdown])) = true.
Proof. exact shutdown_lemma. Qed.
Print Assumptions shutdown_terminates.

(* The trace monitor used on implementation traces is Case_C07.ok = ok_shut && ok_walk.
   Its shutdown part is COMPLETE: it accepts the model's own trace of every event
   list (no false alarm where implementation and model agree) ... *)
Theorem shutdown_monitor_complete :
  forall (T : N) (evs : list event), ok_shut (Case T evs (trace T evs)) = true.
Proof. exact shut_ok_complete. Qed.
Print Assumptions shutdown_monitor_complete.

(* ... and SOUND, independently of the model: in any (input, observed trace) it
   accepts, no DaemonEnded is observed as long as no Shutdown was scripted; the
   step of the first Shutdown shows exactly [DaemonEnded]; every later step shows
   nothing at all. *)
Theorem shutdown_monitor_sound :
  forall (evs : list event) (obss : list (list obs)),
    shut_ok evs obss = true ->
    (~ In Shutdown evs -> length obss = length evs /\ forall o, In o obss -> has_ended o = false) /\
    (forall pre post, evs = pre ++ Shutdown :: post -> ~ In Shutdown pre ->
       exists opre, obss = opre ++ [DaemonEnded] :: map (fun _ => []) post /\ length opre = length pre /\
                    forall o, In o opre -> has_ended o = false).
Proof. exact shut_ok_sound. Qed.
Print Assumptions shutdown_monitor_sound.

(* The walk part of the monitor, read MODEL-FREE.  [C7.barrier D od w n] says: the script D contains
   the accepted event Wait w; every argument the script D handed over through a producer submitted
   before that Wait is in [ok_sets od] (a call that ended well earlier in the trace); none of those
   producers is still open; n = number of successful calls in od.  Whenever the walk accepts an
   (input script, observed trace) pair: one trace entry per event, no Hang; at EVERY observed
   WaitRet w _ n the barrier statement holds for the script up to that step and the observations
   before it; and if the script lets the buffer settle with no foreign clear pending, every accepted
   wait() of the script has a WaitRet in the trace. *)
Theorem walk_monitor_sound :
  forall (T : N) (evs : list event) (observed : list (list obs)),
    Case_C07.ok_walk (Case T evs observed) = true ->
    length evs = length observed /\ ~ In Hang (concat observed) /\
    (forall epre e epost opre o1 w t n o2 opost,
       evs = epre ++ e :: epost -> observed = opre ++ (o1 ++ WaitRet w t n :: o2) :: opost -> length epre = length opre ->
       C7.barrier (epre ++ [e]) (concat opre ++ o1) w n) /\
    (settled_waits T evs = true ->
       forall pre c post w, evs = pre ++ Wait w c :: post -> wait_accepted (trk_run trk0 pre) w = true ->
         exists t n, In (WaitRet w t n) (concat observed)).
Proof. exact C7.c07_walk_sound. Qed.
Print Assumptions walk_monitor_sound.

(* COMPLETENESS of the whole monitor.  For EVERY timeout and EVERY event list (all producer kinds, producer
   failures, function outcomes, waits with and without cancel, shutdown at any point, foreign halves) the
   trace monitor Case_C07.ok = ok_shut && ok_walk accepts the model's own trace — including, at every
   WaitRet, the barrier check against the input tracker (everything handed over through the producers
   submitted before that wait() is in a call that ended well; none of them is still open; the success
   count is right), "no call starts after shutdown", and "settled tail with no bare foreign clear
   pending => no wait() is left without its WaitRet".  So on any case where the implementation's trace
   equals the model's trace the monitor cannot raise an alarm. *)
Theorem monitor_complete :
  forall (T : N) (evs : list event), Case_C07.ok (Case T evs (trace T evs)) = true.
Proof. exact M7.c07_monitor_complete. Qed.
Print Assumptions monitor_complete.

(* Two facts of the model behind it.  (1) When a wait() returns, no producer submitted before that
   wait() is still open — in the sense of the INPUT tracker (what the script has closed), not only of
   the model's own bookkeeping. *)
Theorem returned_wait_producers_closed :
  forall (T : N) (evs : list event) (e : event) (w : nat) (t : N) (n : nat),
    In (WaitRet w t n) (snd (step (final T evs) e)) ->
    forall pre c post,
      evs ++ [e] = pre ++ Wait w c :: post -> is_dead (final T pre) = false ->
      existsb (Nat.eqb w) (wseen (final T pre)) = false ->
      forall p, In p (seen (final T pre)) -> is_open p (trk_run trk0 (evs ++ [e])) = false.
Proof. exact notopen_lemma. Qed.
Print Assumptions returned_wait_producers_closed.

(* (2) If the script lets the buffer settle (every asynchronous producer closed, then
   FnOk; Advance d>=T; FnOk, no Shutdown) and no bare foreign clear is pending before that tail,
   nobody is left inside wait(). *)
Theorem settled_means_no_waiter :
  forall (T : N) (evs : list event),
    settled_waits T evs = true -> is_dead (final T evs) = false /\ waiters (final T evs) = [].
Proof. exact M7.settled_no_waiters. Qed.
Print Assumptions settled_means_no_waiter.

Theorem monitor_implies_shutdown_part : forall c, Case_C07.ok c = true -> ok_shut c = true.
Proof. exact ok_implies_shut. Qed.
Print Assumptions monitor_implies_shutdown_part.

(* ---- non-vacuity ---------------------------------------------------------------------- *)

(* barrier: a wait() issued while the function runs, with a submission queued
   before it: it returns only after the SECOND call (which carries that
   submission) has succeeded; a later wait() returns with it *)
Example barrier_example :
  let evs := [Submit 0 (Plain 1); Advance 8; Submit 1 (Plain 2); Wait 0 false; FnOk; Wait 1 true] in
  trace 8 (evs ++ [FnOk]) =
    [[]; [FnStart 0 [1] 8%N]; []; []; [FnEnd 0 true [1]]; [FnStart 1 [2] 8%N];
     [FnEnd 1 true [2]; WaitRet 0 8%N 2; WaitRet 1 8%N 2]] /\
  seen (final 8 [Submit 0 (Plain 1); Advance 8; Submit 1 (Plain 2)]) = [0; 1] /\
  ok_sets (concat (trace 8 (evs ++ [FnOk]))) = [1; 2].
Proof. vm_compute. repeat split; reflexivity. Qed.

(* wait_returns: three concurrent waiters (cancel and not), an empty producer, a
   failing awaitable, a slow async producer that is then closed, a failing call *)
Example wait_returns_example :
  let evs := [Submit 0 (SyncList []); Wait 0 false; Submit 1 Aw; Submit 2 Async; Wait 1 true; PYield 2 5;
              PFail 1; Advance 9; Wait 2 false; PEnd 2; FnFail] in
  let s := final 8 evs in
  ~ In FClear evs /\ is_dead s = false /\ parked (dm s) = true /\ q s = [] /\
  map wid (waiters s) = [0; 1; 2] /\
  concat (snd (run s (tail 8))) =
    [FnStart 1 [5] 17%N; FnEnd 1 true [5]; WaitRet 0 17%N 1; WaitRet 1 17%N 1; WaitRet 2 17%N 1].
Proof.
  vm_compute. split; [intros H; repeat (destruct H as [H|H]; [discriminate|]); exact H|].
  repeat split; reflexivity.
Qed.

(* the hypothesis "no bare foreign clear" of wait_returns is needed: after a
   foreign event.clear() with no put behind it, a wait() legitimately blocks *)
Example bare_clear_blocks :
  let evs := [FClear; Wait 0 true] in
  let s := final 8 evs in
  dm s = DIdle /\ evset s = false /\ map wid (waiters s) = [0] /\ concat (snd (run s (tail 8))) = [].
Proof. vm_compute. repeat split; reflexivity. Qed.

(* forced flush *)
Example flush_example :
  let s := final 8 [Submit 0 (Plain 1); Advance 3] in
  dm s = DAwait [1] 8%N /\ snd (step s (Wait 0 true)) = [FnStart 0 [1] 3%N] /\ snd (step s (Wait 0 false)) = [].
Proof. vm_compute. repeat split; reflexivity. Qed.

(* shutdown at every stage: idle, gathering (slow producer), timer armed,
   loading one, function running, waiter inside wait() *)
Example shutdown_stages :
  let after evs := concat (trace 8 (evs ++ [Shutdown; Advance 100; FnOk; Submit 9 (Plain 9); Advance 100])) in
  dm (final 8 []) = DIdle /\ after [] = [DaemonEnded] /\
  (exists i l g, dm (final 8 [Submit 0 Async]) = DGather i l g) /\ after [Submit 0 Async] = [DaemonEnded] /\
  (exists i d, dm (final 8 [Submit 0 (Plain 1)]) = DAwait i d) /\ after [Submit 0 (Plain 1)] = [DaemonEnded] /\
  (exists i p, dm (final 8 [Submit 0 (Plain 1); Submit 1 Async]) = DLoadOne i p) /\
     after [Submit 0 (Plain 1); Submit 1 Async] = [DaemonEnded] /\
  (exists i, dm (final 8 [Submit 0 (Plain 1); Advance 8]) = DRun i) /\
     after [Submit 0 (Plain 1); Advance 8] = [FnStart 0 [1] 8%N; DaemonEnded] /\
  after [Submit 0 (Plain 1); Advance 8; Wait 0 true] = [FnStart 0 [1] 8%N; DaemonEnded].
Proof. vm_compute. repeat split; try reflexivity; eauto. Qed.

(* the shutdown sub-monitor rejects a call after the shutdown, a missing DaemonEnded, a premature one *)
Example shutdown_monitor_rejects :
  shut_ok [Submit 0 (Plain 1); Shutdown; Advance 9] [[]; [DaemonEnded]; [FnStart 0 [1] 8%N]] = false /\
  shut_ok [Submit 0 (Plain 1); Shutdown] [[]; []] = false /\
  shut_ok [Submit 0 (Plain 1); Advance 9] [[]; [DaemonEnded]] = false /\
  shut_ok [Submit 0 (Plain 1); Shutdown; Advance 9] [[]; [DaemonEnded]; []] = true.
Proof. vm_compute. repeat split; reflexivity. Qed.
