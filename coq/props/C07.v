(* props/C07.v — theorem statements (being filled in). *)
From Coq Require Import List NArith Bool.
Import ListNotations.
Require Import Aiuti.Buffer.
