(* props/C15.v — C15: the decorator-with-options forms configure exactly like
   the direct forms; an async_background_batcher function gets one independent
   batcher per event loop.  ONLY theorem statements, each closed by a lemma of
   OptionsInv.v, with Print Assumptions beneath.

   [decorators] is NOT written by hand: gen/T_Options.v is regenerated on every
   run from the AST of aiuti/asyncio.py (parameter lists, the functools.partial
   of each `if func is None` branch, the constructor call / store selection of
   each direct branch).  The theorems about it are decided by vm_compute over
   those generated lists: the domain — the options that exist in the source —
   is finite and fully enumerated, so this is a proof, not a sample. *)
From Coq Require Import List Bool String NArith.
Import ListNotations.
Require Import Aiuti.Options Aiuti.OptionsInv AiutiGen.T_Options.
Require Import Aiuti.Case_C15 Aiuti.OptionsMon Aiuti.OptionsRef Aiuti.OptionsRefInv Aiuti.OptionsRefBat Aiuti.OptionsRefRet.

(* Every option a decorator accepts is re-bound under its own name by the
   `@deco(opt=...)` form, applied under its own name by the direct form, and is
   a parameter of the class that is configured. *)
Theorem options_forwarded : forall (d : deco) (o : string),
  In d decorators -> In o (accepted d) ->
  In (o, o) (rebound d) /\ In (o, o) (applied d) /\ In o (ctor_params d).
Proof. apply table_forwarded. vm_compute. reflexivity. Qed.
Print Assumptions options_forwarded.

(* ... and the options the property names exist: cache; timeout;
   max_batch_size, max_concurrent_batches, batch_timeout, retention_timeout
   (so the theorem above is not about an empty list). *)
Theorem documented_options_accepted : forall name opts o,
  In (name, opts) documented -> In o opts ->
  exists d, In d decorators /\ dname d = name /\ In o (accepted d).
Proof. apply documentedb_sound. vm_compute. reflexivity. Qed.
Print Assumptions documented_options_accepted.

(* Per-loop registry (asyncio.py:933-950) as a product: the state of a decorated
   function is loop -> its own object.  For ANY single-object step function
   [sstep] (in the correspondence: the batcher semantics Options.bstep), any
   number of loops, any interleaving of events addressed to them, loops being
   closed and new ones created:
   (1) an event addressed to loop l changes no other loop's object;
   (2) the object of loop l is exactly the single object produced by the events
       addressed to l (since l was last closed) — independent batching. *)
Theorem per_loop_independent :
  forall (St E : Type) (sinit : St) (sstep : St -> E -> St),
    (forall (r : reg St) (l l' : nat) (p : pev E),
        (p = Close l \/ exists x, p = On l x) -> l <> l' ->
        assoc l' (live (pstep St E sinit sstep r p)) = assoc l' (live r)) /\
    (forall (evs : list (pev E)) (l : nat),
        assoc l (live (prun St E sinit sstep evs)) =
        option_map (fun a => fold_left sstep a sinit) (addressed E l evs)).
Proof.
  intros St E sinit sstep. split.
  - apply pstep_frame.
  - apply registry_component.
Qed.
Print Assumptions per_loop_independent.

(* ---- the trace monitor Case_C15.ok and the reference semantics ------------------ *)

(* COMPLETENESS (no false alarm): whenever the three forms produce the trace of the reference
   semantics, the monitor accepts — for every timeout and every buffer script that hands each
   argument to the buffer at most once (buf_wf; the driver numbers the arguments) ... *)
Theorem monitor_complete_buffer : forall (t : option N) (sc : list bufev),
  buf_wf sc = true ->
  let m := buf_trace t sc in ok (CBuffer t sc m m m) = true.
Proof. exact buffer_complete. Qed.
Print Assumptions monitor_complete_buffer.

(* ... for EVERY batcher configuration (options given or defaulted, degenerate values included)
   and EVERY script of calls, batch-function returns and pauses ... *)
Theorem monitor_complete_batcher : forall (cfg : ocfg) (sc : list bev),
  let m := trace_of (brun (resolve cfg) sc) in ok (CBatcher cfg sc m m m 0) = true.
Proof. exact batcher_complete. Qed.
Print Assumptions monitor_complete_batcher.

(* ... and for every configuration and every plan over any number of loops in which a closed loop
   is not used again (plan_wf): observed = the per-loop components of the product model
   (loops_obs), solo = each loop's own part of the plan run alone on ONE batcher (loops_solo). *)
Theorem monitor_complete_loops : forall (cfg : ocfg) (plan : list lev),
  plan_wf plan = true ->
  ok (CLoops cfg plan (loops_obs cfg plan) (loops_solo cfg plan) 0) = true.
Proof. exact loops_complete. Qed.
Print Assumptions monitor_complete_loops.

(* SOUNDNESS (what an accepted implementation trace says; no model involved).
   Buffer: the three forms flushed at the same instants the same sets of arguments; every flush is
   non-empty, all its arguments were submitted, and it happened exactly [timeout] after the last
   of those submissions. *)
Theorem monitor_sound_buffer : forall t sc d1 d2 d3,
  ok (CBuffer t sc d1 d2 d3) = true ->
  let T := match t with Some v => v | None => buf_default_timeout end in
  same_flushes d1 d2 /\ same_flushes d3 d2 /\
  forall tf args, In (tf, args) d2 ->
    args <> [] /\
    exists a_last t_last,
      In a_last args /\ submitted_at sc a_last t_last /\
      (forall a, In a args -> exists ta, submitted_at sc a ta /\ (ta <= t_last)%N) /\
      tf = (t_last + T)%N.
Proof. exact buffer_sound. Qed.
Print Assumptions monitor_sound_buffer.

(* Batcher: the three forms' traces are EQUAL; no batch-function call on a foreign loop; every batch
   has between 1 and max_batch_size keys (max 1 max_batch_size: see Case_C15.batcher_sane), all of
   them submitted by the script; there is one answer slot per call, and every answered caller was
   answered by a batch that contains its key. *)
Theorem monitor_sound_batcher : forall cfg sc d1 d2 d3 cross,
  ok (CBatcher cfg sc d1 d2 d3 cross) = true ->
  d1 = d2 /\ d3 = d2 /\ cross = 0 /\
  (forall t ks, In (t, ks) (fst d2) ->
     1 <= List.length ks <= Nat.max 1 (cB (resolve cfg)) /\ forall k, In k ks -> In k (call_keys sc)) /\
  List.length (snd d2) = List.length (call_keys sc) /\
  (forall i k t b, nth_error (call_keys sc) i = Some k -> nth_error (snd d2) i = Some (Some (t, b)) ->
     exists t' ks, nth_error (fst d2) b = Some (t', ks) /\ In k ks).
Proof. exact batcher_sound. Qed.
Print Assumptions monitor_sound_batcher.

(* Loops: every loop's trace is exactly the trace of that loop's own part of the plan run alone
   ("its own independent batching"), and is sane with respect to that loop's own keys. *)
Theorem monitor_sound_loops : forall cfg plan observed solo cross,
  ok (CLoops cfg plan observed solo cross) = true ->
  cross = 0 /\ List.length observed = List.length solo /\
  forall l tr, In (l, tr) observed ->
    assoc l solo = Some tr /\
    (forall t ks, In (t, ks) (fst tr) ->
       1 <= List.length ks <= Nat.max 1 (cB (resolve cfg)) /\ forall k, In k ks -> In k (keys_on l plan)) /\
    List.length (snd tr) = List.length (keys_on l plan) /\
    (forall i k t b, nth_error (keys_on l plan) i = Some k -> nth_error (snd tr) i = Some (Some (t, b)) ->
       exists t' ks, nth_error (fst tr) b = Some (t', ks) /\ In k ks).
Proof. exact loops_sound. Qed.
Print Assumptions monitor_sound_loops.

(* ONE options-form decorator object applied to TWO functions (buffer_until_timeout(timeout=...),
   async_background_batcher(...)): completeness — when each function's trace, in both forms, is the
   reference trace of that function's own part of the script, the monitor accepts; soundness — an
   accepted case says that per function the options form equals the direct wrapping and passes the
   single-object monitor (monitor_sound_buffer / monitor_sound_batcher apply) for that function's
   own submissions / keys: each function has a buffer / batcher of its own. *)
Theorem monitor_complete_reuse :
  (forall (t : option N) (sc : list bufev2),
     buf_wf (bproj 0 sc) = true -> buf_wf (bproj 1 sc) = true ->
     let m0 := buf_trace t (bproj 0 sc) in let m1 := buf_trace t (bproj 1 sc) in
     ok (CBuffer2 t sc m0 m0 m1 m1) = true) /\
  (forall (cfg : ocfg) (sc : list bev2),
     let m0 := trace_of (brun (resolve cfg) (cproj 0 sc)) in
     let m1 := trace_of (brun (resolve cfg) (cproj 1 sc)) in
     ok (CBatcher2 cfg sc m0 m0 m1 m1) = true).
Proof. split; [exact buffer2_complete | exact batcher2_complete]. Qed.
Print Assumptions monitor_complete_reuse.

Theorem monitor_sound_reuse :
  (forall t sc d0 e0 d1 e1, ok (CBuffer2 t sc d0 e0 d1 e1) = true ->
     same_flushes d0 e0 /\ same_flushes d1 e1 /\
     ok (CBuffer t (bproj 0 sc) e0 e0 e0) = true /\ ok (CBuffer t (bproj 1 sc) e1 e1 e1) = true) /\
  (forall cfg sc d0 e0 d1 e1, ok (CBatcher2 cfg sc d0 e0 d1 e1) = true ->
     d0 = e0 /\ d1 = e1 /\
     ok (CBatcher cfg (cproj 0 sc) e0 e0 e0 0) = true /\ ok (CBatcher cfg (cproj 1 sc) e1 e1 e1 0) = true).
Proof. exact reuse_sound. Qed.
Print Assumptions monitor_sound_reuse.

(* Forms-only cases (degenerate option values such as 0, outside the reference semantics' class):
   the monitor accepts exactly when the direct, decorator-with-options and class forms produced the
   same trace (and no batch-function call landed on a foreign loop). *)
Theorem monitor_forms_only :
  (forall d1 d2 d3, ok (CFormsBuf d1 d2 d3) = true -> same_flushes d1 d2 /\ same_flushes d3 d2) /\
  (forall d1 d2 d3 cross, ok (CFormsBat d1 d2 d3 cross) = true <-> d1 = d2 /\ d3 = d2 /\ cross = 0) /\
  (forall m, ok (CFormsBuf m m m) = true).
Proof. exact forms_only. Qed.
Print Assumptions monitor_forms_only.

(* ---- the small reference semantics against the full component models ------------ *)

(* BUFFER.  For EVERY timeout and EVERY script of submissions and pauses: run the full buffer
   model (Buffer.v: daemon states, queue, join counter, event, waiters — the model of C03/C07/C08)
   on the translated script — Sub a -> Submit p (Plain a) with a fresh producer id p, BAdv dt ->
   Advance dt followed by FnOk when the advance started the function (the harness' function
   returns at once); OptionsRef.buf_translate.  Its calls of the buffered function (instant, set of
   arguments) are exactly the flushes of Options.buf_run: same instants, and each call receives
   the set (as_set: strictly sorted, duplicates merged) of the arguments buf_run lists.
   Time unit: Buffer.v mentions no concrete duration, so its clock is counted in fifths of a tick here. *)
Theorem buffer_reference_refines_full_model : forall (T : N) (sc : list bufev),
  full_flushes T sc = map (fun f => (fst f, as_set (snd f))) (buf_run T sc 0%N None).
Proof. exact buffer_refines. Qed.
Print Assumptions buffer_reference_refines_full_model.

(* BATCHER.  For EVERY configuration (max_batch_size, max_concurrent_batches, batch_timeout,
   retention_timeout — zero or not) and EVERY script of calls (same key in flight shared, retained
   results answered at once), batch-function returns and pauses: the batch starts (instant, keys) of
   the full batcher model (Batcher.v: queue collector, semaphore, futures, retention cache and its
   call_later timers, callers, Batcher.advance walking the deadlines with fuel — the model of
   C04/C09/C10/C11) on the translated script (OptionsRef.translate: BCall k -> Call k None;
   BFin b -> BYield b key (Val b) for every item of the running batch b, then BFinish b;
   Adv dt -> Advance dt) are exactly those of Options.brun.
   By simulation relations between the two state spaces (OptionsRefBat.Rs for retention_timeout = 0,
   OptionsRefRet.Rs2 with retained results and armed timers for retention_timeout > 0).
   Not part of this statement: the per-caller answers (instant, batch index); they, and the starts
   again, are compared by vm_compute on every batcher / loops case of every run
   (Case_C15.ref_batcher_agree).
   Time unit: Batcher.v mentions no concrete duration; its clock is counted in fifths of a tick here. *)
Theorem batcher_reference_refines_full_model : forall (c : bcfg) (sc : list bev),
  full_starts c sc = starts (brun c sc).
Proof. exact batcher_refines. Qed.
Print Assumptions batcher_reference_refines_full_model.

(* ---- non-vacuity ----------------------------------------------------------- *)
Example batcher_refines_example :
  let c := mkcfg 2 1 25%N 0%N in
  let sc := [BCall 1; BCall 2; BCall 3; Adv 10%N; BCall 1; Adv 30%N; BCall 4; Adv 100%N] in
  fin_free sc = true /\
  translate c sc = [B.Call 1 None; B.Call 2 None; B.Call 3 None; B.Advance 10%N; B.Call 1 None;
                    B.Advance 30%N; B.Call 4 None; B.Advance 100%N] /\
  full_starts c sc = [(0%N, [1; 2])] /\ waitq (brun c sc) = [[(3, 2)]; [(4, 3)]].
Proof. vm_compute. repeat split. Qed.

Example batcher_refines_ret0_example :
  let c := mkcfg 2 1 25%N 0%N in
  let sc := [BCall 1; BCall 2; BCall 3; BCall 1; Adv 30%N; BFin 0; BCall 1; Adv 5%N; BFin 1; Adv 100%N; BFin 2] in
  translate c sc = [B.Call 1 None; B.Call 2 None; B.Call 3 None; B.Call 1 None; B.Advance 30%N;
                    B.BYield 0 1 (B.Val 0); B.BYield 0 2 (B.Val 0); B.BFinish 0; B.Call 1 None; B.Advance 5%N;
                    B.BYield 1 3 (B.Val 1); B.BFinish 1; B.Advance 100%N; B.BYield 2 1 (B.Val 2); B.BFinish 2] /\
  full_starts c sc = [(0%N, [1; 2]); (30%N, [3]); (55%N, [1])] /\
  full_trace c sc = (trace_of (brun c sc), false).
Proof. vm_compute. repeat split. Qed.

Example batcher_refines_retention_example :
  let c := mkcfg 2 1 25%N 40%N in
  let sc := [BCall 1; BCall 2; Adv 3%N; BFin 0; Adv 10%N; BCall 1; BCall 3; Adv 35%N; BCall 1; Adv 30%N; BFin 1;
             Adv 100%N; BFin 2] in
  full_starts c sc = [(0%N, [1; 2]); (38%N, [3]); (78%N, [1])] /\
  full_trace c sc = (trace_of (brun c sc), false) /\
  snd (trace_of (brun c sc)) = [Some (3%N, 0); Some (3%N, 0); Some (13%N, 0); Some (78%N, 1); Some (178%N, 2)].
Proof. vm_compute. repeat split. Qed.

Example buffer_refines_example :
  let sc := [Sub 4; BAdv 10%N; Sub 1; BAdv 25%N; Sub 2; Sub 1; BAdv 10000%N] in
  buf_translate 15%N sc =
    [F.Submit 0 (F.Plain 4); F.Advance 10%N; F.Submit 1 (F.Plain 1); F.Advance 25%N; F.FnOk;
     F.Submit 2 (F.Plain 2); F.Submit 3 (F.Plain 1); F.Advance 10000%N; F.FnOk] /\
  full_flushes 15%N sc = [(25%N, [1; 4]); (50%N, [1; 2])] /\
  buf_run 15%N sc 0%N None = [(25%N, [4; 1]); (50%N, [2; 1])].
Proof. vm_compute. repeat split. Qed.

(* well-formed scripts / plans exist and produce non-trivial accepted cases; the side conditions
   are needed: with an argument submitted twice the monitor's "last submission" is not defined by
   the script alone and it rejects the reference trace *)
Example buf_wf_example :
  let sc := [Sub 0; BAdv 10%N; Sub 1; BAdv 25%N; Sub 2; BAdv 10000%N] in
  buf_wf sc = true /\ buf_trace (Some 15%N) sc = [(25%N, [0; 1]); (50%N, [2])].
Proof. vm_compute. split; reflexivity. Qed.

Example buf_wf_needed :
  let sc := [Sub 0; BAdv 10%N; Sub 0; BAdv 10000%N] in
  buf_wf sc = false /\ (let m := buf_trace (Some 15%N) sc in ok (CBuffer (Some 15%N) sc m m m)) = false.
Proof. vm_compute. split; reflexivity. Qed.

Example batcher_complete_example :
  let cfg := mkocfg (Some 2) (Some 1) None (Some 50%N) in
  let sc := [BCall 1; BCall 2; BCall 3; BCall 1; Adv 300%N; BFin 0; Adv 10%N; BCall 1; BFin 1; Adv 100%N] in
  trace_of (brun (resolve cfg) sc) =
  ([(0%N, [1; 2]); (300%N, [3])],
   [Some (300%N, 0); Some (300%N, 0); Some (310%N, 1); Some (300%N, 0); Some (310%N, 0)]).
Proof. vm_compute. reflexivity. Qed.

(* max_batch_size = 0: the reference semantics (and the library) hands over singletons *)
Example batcher_zero_size_example :
  trace_of (brun (resolve (mkocfg (Some 0) None None None)) [BCall 1; BCall 2]) =
  ([(0%N, [1]); (0%N, [2])], [None; None]).
Proof. vm_compute. reflexivity. Qed.

Example reuse_example :
  let sc := [BCall2 0 1; BCall2 1 1; BCall2 0 2; Adv2 300%N; BFin2 1 0; BFin2 0 0] in
  cproj 1 sc = [BCall 1; Adv 300%N; BFin 0] /\
  trace_of (brun (resolve (mkocfg (Some 2) None None None)) (cproj 0 sc)) = ([(0%N, [1; 2])], [Some (300%N, 0); Some (300%N, 0)]) /\
  trace_of (brun (resolve (mkocfg (Some 2) None None None)) (cproj 1 sc)) = ([(256%N, [1])], [Some (300%N, 0)]).
Proof. vm_compute. repeat split. Qed.

Example plan_wf_example :
  let plan := [LSeg 0 [BCall 1; BCall 2]; LSeg 1 [BCall 1]; LSeg 0 [BFin 0]; LClose 0;
               LSeg 2 [BCall 1; BCall 2; BFin 0]; LSeg 1 [Adv 300%N]] in
  let cfg := mkocfg (Some 2) None None None in
  plan_wf plan = true /\
  loops_obs cfg plan = [(1, ([(256%N, [1])], [None])); (2, ([(0%N, [1; 2])], [Some (0%N, 0); Some (0%N, 0)]));
                        (0, ([(0%N, [1; 2])], [Some (0%N, 0); Some (0%N, 0)]))] /\
  loops_solo cfg plan = loops_obs cfg plan /\
  plan_wf (plan ++ [LSeg 0 [BCall 1]]) = false.
Proof. vm_compute. repeat split. Qed.

Example decorators_nonempty :
  map dname decorators = ["threadsafe_async_cache"; "buffer_until_timeout"; "async_background_batcher"]%string /\
  map (fun d => List.length (accepted d)) decorators = [1; 1; 4].
Proof. vm_compute. split; reflexivity. Qed.

(* three loops, interleaved, one closed and replaced: loop 0 and loop 2 each
   batch [1;2] on their own, loop 1 is unaffected by both *)
Example per_loop_example :
  let c := mkcfg 2 5 25 0 in
  let evs := [On 0 (BCall 1); On 1 (BCall 1); On 0 (BCall 2); On 1 (Adv 10%N); Close 0;
              On 2 (BCall 1); On 2 (BCall 2); On 1 (Adv 20%N)] in
  let r := prun bst bev binit (bstep c) evs in
  option_map starts (assoc 2 (live r)) = Some [(0%N, [1; 2])] /\
  option_map starts (assoc 1 (live r)) = Some [(25%N, [1])] /\
  assoc 0 (live r) = None /\ option_map starts (assoc 0 (archive r)) = Some [(0%N, [1; 2])] /\
  addressed bev 1 evs = Some [BCall 1; Adv 10%N; Adv 20%N].
Proof. vm_compute. repeat split. Qed.
