(* props/C15.v — C15: the decorator-with-options forms configure exactly like
   the direct forms; an async_background_batcher function gets one independent
   batcher per event loop.  ONLY theorem statements, each closed by a lemma of
   OptionsInv.v, with Print Assumptions beneath.

   [decorators] is NOT written by hand: gen/T_Options.v is regenerated on every
   run from the AST of aiuti/asyncio.py (parameter lists, the functools.partial
   of each `if func is None` branch, the constructor call / store selection of
   each direct branch).  The theorems about it are decided by vm_compute over
   those generated lists: the domain — the options that exist in the source —
   is finite and fully enumerated, so this is a proof, not a sample. *)
From Coq Require Import List Bool String NArith.
Import ListNotations.
Require Import Aiuti.Options Aiuti.OptionsInv AiutiGen.T_Options.

(* Every option a decorator accepts is re-bound under its own name by the
   `@deco(opt=...)` form, applied under its own name by the direct form, and is
   a parameter of the class that is configured. *)
Theorem options_forwarded : forall (d : deco) (o : string),
  In d decorators -> In o (accepted d) ->
  In (o, o) (rebound d) /\ In (o, o) (applied d) /\ In o (ctor_params d).
Proof. apply table_forwarded. vm_compute. reflexivity. Qed.
Print Assumptions options_forwarded.

(* ... and the options the property names exist: cache; timeout;
   max_batch_size, max_concurrent_batches, batch_timeout, retention_timeout
   (so the theorem above is not about an empty list). *)
Theorem documented_options_accepted : forall name opts o,
  In (name, opts) documented -> In o opts ->
  exists d, In d decorators /\ dname d = name /\ In o (accepted d).
Proof. apply documentedb_sound. vm_compute. reflexivity. Qed.
Print Assumptions documented_options_accepted.

(* Per-loop registry (asyncio.py:933-950) as a product: the state of a decorated
   function is loop -> its own object.  For ANY single-object step function
   [sstep] (in the correspondence: the batcher semantics Options.bstep), any
   number of loops, any interleaving of events addressed to them, loops being
   closed and new ones created:
   (1) an event addressed to loop l changes no other loop's object;
   (2) the object of loop l is exactly the single object produced by the events
       addressed to l (since l was last closed) — independent batching. *)
Theorem per_loop_independent :
  forall (St E : Type) (sinit : St) (sstep : St -> E -> St),
    (forall (r : reg St) (l l' : nat) (p : pev E),
        (p = Close l \/ exists x, p = On l x) -> l <> l' ->
        assoc l' (live (pstep St E sinit sstep r p)) = assoc l' (live r)) /\
    (forall (evs : list (pev E)) (l : nat),
        assoc l (live (prun St E sinit sstep evs)) =
        option_map (fun a => fold_left sstep a sinit) (addressed E l evs)).
Proof.
  intros St E sinit sstep. split.
  - apply pstep_frame.
  - apply registry_component.
Qed.
Print Assumptions per_loop_independent.

(* ---- non-vacuity ----------------------------------------------------------- *)
Example decorators_nonempty :
  map dname decorators = ["threadsafe_async_cache"; "buffer_until_timeout"; "async_background_batcher"]%string /\
  map (fun d => List.length (accepted d)) decorators = [1; 1; 4].
Proof. vm_compute. split; reflexivity. Qed.

(* three loops, interleaved, one closed and replaced: loop 0 and loop 2 each
   batch [1;2] on their own, loop 1 is unaffected by both *)
Example per_loop_example :
  let c := mkcfg 2 5 25 0 in
  let evs := [On 0 (BCall 1); On 1 (BCall 1); On 0 (BCall 2); On 1 (Adv 10%N); Close 0;
              On 2 (BCall 1); On 2 (BCall 2); On 1 (Adv 20%N)] in
  let r := prun bst bev binit (bstep c) evs in
  option_map starts (assoc 2 (live r)) = Some [(0%N, [1; 2])] /\
  option_map starts (assoc 1 (live r)) = Some [(25%N, [1])] /\
  assoc 0 (live r) = None /\ option_map starts (assoc 0 (archive r)) = Some [(0%N, [1; 2])] /\
  addressed bev 1 evs = Some [BCall 1; Adv 10%N; Adv 20%N].
Proof. vm_compute. repeat split. Qed.
