(* props/C18.v — C18: split partitions its input, lazily, evaluating each element
   once; exhaust.  ONLY theorem statements about the model Iter.v, each closed by
   a lemma of IterInv.v, with Print Assumptions beneath. *)
From Coq Require Import List Permutation Bool.
Import ListNotations.
Require Import Aiuti.Iter Aiuti.IterInv Aiuti.Case_C18 Aiuti.Case_C18_Sound Aiuti.Case_C18_Complete.

(* For every source xs, condition stream cs and every order [ops] of next() calls
   on the two iterators (any interleaving, any abandoning): what side sd yielded
   is a prefix of "the elements whose condition is truthy (L) / falsy (R), in
   source order", and once that side reported StopIteration it is all of them. *)
Theorem split_partition :
  forall (callable : bool) (xs : list nat) (cs : list bool),
    (callable = true -> length cs = length xs) -> forall ops : list side,
    match run callable xs cs ops init with
    | (os, _) =>
        forall sd,
          (exists k, yields sd ops os = selk xs cs (want sd) k) /\
          (exists tl, sel xs cs (want sd) = yields sd ops os ++ tl) /\
          (stopped sd ops os = true -> yields sd ops os = sel xs cs (want sd))
    end.
Proof. exact split_partition_lemma. Qed.
Print Assumptions split_partition.

(* ... and those two lists together are exactly the first min(|xs|,|cs|)
   elements of the source (a partition) *)
Theorem split_outputs_partition_source :
  forall xs cs,
    Permutation (sel xs cs true ++ sel xs cs false)
                (firstn (Nat.min (length xs) (length cs)) xs).
Proof. exact sel_partition. Qed.
Print Assumptions split_outputs_partition_source.

(* ... with nothing duplicated or dropped (the lengths add up), and an element
   appears on some side iff it is in that source prefix *)
Theorem split_outputs_lengths :
  forall xs cs,
    length (sel xs cs true) + length (sel xs cs false) = Nat.min (length xs) (length cs).
Proof. exact sel_lengths. Qed.
Print Assumptions split_outputs_lengths.

Theorem split_outputs_membership :
  forall xs cs x,
    In x (firstn (Nat.min (length xs) (length cs)) xs) <->
    In x (sel xs cs true) \/ In x (sel xs cs false).
Proof. exact sel_membership. Qed.
Print Assumptions split_outputs_membership.

(* The source is pulled once per element, in order, never past its end; a
   callable condition is evaluated exactly once per element, in order, and only
   on elements already pulled (b <= n); an iterable condition is pulled once per
   element, in order. *)
Theorem pred_and_source_once :
  forall (callable : bool) (xs : list nat) (cs : list bool),
    (callable = true -> length cs = length xs) -> forall ops : list side,
    let s' := snd (run callable xs cs ops init) in
    plog s' = seq 0 (n s') /\ n s' <= length xs /\
    elog s' = seq 0 (b s') /\ b s' <= n s' \/ callable = false /\
    plog s' = seq 0 (n s') /\ n s' <= length xs /\ elog s' = seq 0 (b s') /\ b s' <= length cs.
Proof. exact logs_lemma. Qed.
Print Assumptions pred_and_source_once.

(* Laziness: the source is never advanced beyond the cursor of the furthest
   consumer. *)
Theorem pull_lazy :
  forall (callable : bool) (xs : list nat) (cs : list bool),
    (callable = true -> length cs = length xs) -> forall ops : list side,
    let s' := snd (run callable xs cs ops init) in n s' = Nat.max (d1 s') (d2 s').
Proof. exact lazy_lemma. Qed.
Print Assumptions pull_lazy.

(* exhaust pulls every element exactly once, in order, then sees one stop *)
Theorem exhaust_spec : forall xs, exhaust xs = (seq 0 (length xs), 1).
Proof. exact exhaust_lemma. Qed.
Print Assumptions exhaust_spec.

(* The trace monitor used on implementation traces (Case_C18.ok) decides the
   property: any observed trace it accepts satisfies the partition statement,
   pulls each source element once in order, never past the end, and evaluates
   the condition once per element in order — independently of the model. *)
Theorem monitor_sound :
  forall callable xs cs ops observed pl el,
    ok (CSplit callable xs cs ops observed pl el) = true ->
    (forall sd,
       (exists tl, sel xs cs (want sd) = yields sd ops observed ++ tl) /\
       (stopped sd ops observed = true -> yields sd ops observed = sel xs cs (want sd))) /\
    pl = seq 0 (last_pulls observed) /\ length pl <= length xs /\
    el = seq 0 (last_evals observed).
Proof. exact ok_sound. Qed.
Print Assumptions monitor_sound.

(* ... and it accepts every trace the model can produce, for all inputs: so on
   any case where the implementation's trace equals the model's, the monitor
   cannot raise a false alarm. *)
Theorem monitor_complete :
  forall callable xs cs, (callable = true -> length cs = length xs) -> forall ops,
    ok (CSplit callable xs cs ops (fst (run callable xs cs ops init))
               (plog (snd (run callable xs cs ops init)))
               (elog (snd (run callable xs cs ops init)))) = true.
Proof. exact ok_complete. Qed.
Print Assumptions monitor_complete.

(* Non-vacuity: a concrete interleaved run that yields on both sides, stops on
   both, with a condition shorter than the source. *)
Example split_example :
  let '(os, s) := run false [7; 8; 9; 7] [true; false; true] [R; L; L; R; L; R] init in
  yields L [R; L; L; R; L; R] os = [7; 9] /\ yields R [R; L; L; R; L; R] os = [8] /\
  stopped L [R; L; L; R; L; R] os = true /\ stopped R [R; L; L; R; L; R] os = true /\
  plog s = [0; 1; 2; 3] /\ elog s = [0; 1; 2].
Proof. vm_compute. repeat split. Qed.
