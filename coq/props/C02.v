(* props/C02.v — placeholder while the proofs are being written. *)
Require Import Aiuti.FLock.
