(* props/C02.v — C02: FileLock gives mutual exclusion across threads, objects and
   processes.  ONLY theorem statements about the executable model FLock.v (the one
   the correspondence check replays on the schedules the real class just ran), each
   closed by a lemma of FLockMutex.v (invariants: FLockInv.v, FLockTL.v, FLockFD.v),
   with Print Assumptions beneath.

   Reading aid.  [init_cfg ocfg tcfg fl] = any objects (process, reentrant?, constructor
   timeout) on the one lock path, any threads (process, program of acquire / acquire_ctx
   / with / release / release(force) calls with blocking / non-blocking / timed
   arguments), any OSError script.  [run s evs] applies ANY list of events: [EStep t]
   = thread t executes its pending gated primitive (a disabled choice stutters),
   [EAdv n] = the clock moves, [ECrash p] = process p dies (the kernel closes its
   descriptors).  [inside_b s t] = t's process is alive and t's latest successful
   acquire / acquire_ctx / with-entry has not been released by t yet.
   [viol s = false] = the property's contract held during the run: no thread called
   release on a lock held by ANOTHER thread, and threads only use objects of their
   own process ("releasing another thread's lock is outside the contract").        *)
From Coq Require Import List Arith NArith Bool.
Import ListNotations.
Require Import Aiuti.FLock Aiuti.FLockInv Aiuti.FLockTL Aiuti.FLockFD Aiuti.FLockMutex Aiuti.FLockContract Aiuti.FLockMon Aiuti.FLockExact Aiuti.FLockExec Aiuti.FLockCrash.
Require Aiuti.Case_C02.

(* At most one thread is inside, whatever the configuration, the fault script and
   the schedule — including schedules with crashes (used again by C13).  Threads of
   one object, of different objects, of different processes alike. *)
Theorem mutex_threads_objects_procs :
  forall (ocfg : list (pid * bool * tmo)) (tcfg : list (pid * list call))
         (fl : list (skind * nat * bool)) (evs : list ev) (t1 t2 : tid),
    let s := run (init_cfg ocfg tcfg fl) evs in
    viol s = false -> inside_b s t1 = true -> inside_b s t2 = true -> t1 = t2.
Proof. exact mutex_lemma. Qed.
Print Assumptions mutex_threads_objects_procs.

(* A contender that is inside stays the holder until it releases: no event of
   anybody else (a step of another thread of any process, the clock, the crash of
   another process) ends its tenure — afterwards it is still inside, its object
   still records the descriptor that carries the kernel lock, and it still owns the
   object's thread lock. *)
Theorem holder_until_release :
  forall ocfg tcfg fl evs e t o,
    let s := run (init_cfg ocfg tcfg fl) evs in
    let s' := apply s e in
    viol s' = false -> foreign s t e ->
    inside_b s t = true -> In o (t_cs (thr s t)) ->
    inside_b s' t = true /\ In o (t_cs (thr s' t)) /\
    exists d, o_fd (objs s' o) = Some d /\ holder s' = Some d /\ o_own (objs s' o) = Some t.
Proof. exact holder_until_release_lemma. Qed.
Print Assumptions holder_until_release.

(* The contract as a STATIC, decidable condition on the configuration: [cfg_ok]
   (FLockContract.v) = every thread program, started with empty hands, releases only
   objects it holds at that point on both outcomes of every acquire ([prog_ok], an
   inductive predicate decided by [prog_okb]), and mentions only objects of the
   thread's own process.  Such programs never leave the contract, on any schedule,
   fault script or crash pattern ... *)
Theorem contract_static :
  forall ocfg tcfg, cfg_ok ocfg tcfg = true ->
  forall fl evs, viol (run (init_cfg ocfg tcfg fl) evs) = false.
Proof. exact contract_static_lemma. Qed.
Print Assumptions contract_static.

(* ... hence mutual exclusion holds for them with no hypothesis on the run. *)
Theorem mutex_for_contract_respecting_programs :
  forall ocfg tcfg, cfg_ok ocfg tcfg = true ->
  forall fl evs t1 t2,
    let s := run (init_cfg ocfg tcfg fl) evs in
    inside_b s t1 = true -> inside_b s t2 = true -> t1 = t2.
Proof. exact mutex_static_lemma. Qed.
Print Assumptions mutex_for_contract_respecting_programs.

(* The trace monitor used on implementation traces (Case_C02.ok: every log entry reports at
   most one thread inside, exactly one on entry and none left on exit, the object locked;
   and the log is self-consistent as a sequence of enter / exit events) accepts every trace
   the model can produce within the contract, for ALL configurations, fault scripts, programs
   and controller traces of steps, clock advances AND process crashes (the scheduled runs keep
   all threads in process 0: its crash ends the log, any other crash changes nobody's status):
   on any case where the implementation's occupancy log equals the model's, the monitor
   cannot raise a false alarm. *)
Theorem monitor_complete :
  forall cfg fl progs trace r0 o0 f0 e0 k0,
    let '(g, rs, oc, fin, ec, vi) := Case_C02.model_trace (Case_C02.CSched cfg fl progs trace r0 o0 f0 e0 k0) in
    vi = false -> Case_C02.ok (Case_C02.CSched cfg fl progs trace rs oc fin ec 0) = true.
Proof. exact monitor_complete_lemma. Qed.
Print Assumptions monitor_complete.

(* Model-free soundness: what acceptance means for an OBSERVED log.  If the monitor accepts a
   case (and the run was inside the contract), then no kernel/table mismatch was seen, and at
   NO point of the observed occupancy log are two holders inside: the set of threads inside
   after any prefix of the log — computed from the enter / exit events alone, not from the
   harness' counter — has no duplicates and at most one element. *)
Theorem monitor_sound :
  forall cfg fl progs trace results occ final endcode km,
    Case_C02.ok (Case_C02.CSched cfg fl progs trace results occ final endcode km) = true ->
    km = 0 /\
    (snd (Case_C02.model_trace (Case_C02.CSched cfg fl progs trace results occ final endcode km)) = false ->
     forall k, NoDup (inside_after (firstn k occ)) /\ length (inside_after (firstn k occ)) <= 1).
Proof. exact monitor_sound_C02_lemma. Qed.
Print Assumptions monitor_sound.

(* The same for the line-level runs (Case_C02.CLine: every source line of aiuti/filelock.py is a
   scheduling point; no model replay).  If the monitor accepts such a case whose programs respect
   the contract in its static form, then at no point of the observed log are two holders inside,
   and when all threads had finished with, by the log, nobody inside, every object reported
   is_locked = False and the fresh non-blocking acquire of the probe succeeded. *)
Theorem monitor_sound_line :
  forall cfg progs results occ endcode locked_end probe km,
    Case_C02.ok (Case_C02.CLine cfg progs results occ endcode locked_end probe km) = true ->
    km = 0 /\
    (Case_C02.progs_ok progs = true ->
     (forall k, NoDup (inside_after (firstn k occ)) /\ length (inside_after (firstn k occ)) <= 1) /\
     (endcode = 0 -> inside_after occ = [] -> (forall b, In b locked_end -> b = false) /\ probe = true)).
Proof. exact monitor_sound_line_lemma. Qed.
Print Assumptions monitor_sound_line.

(* The model side of the end-of-run clause of the line-level monitor.  For every configuration, fault
   script and event list (every interleaving at the model's granularity, crashes included) inside the
   contract: whenever every thread is idle with nobody inside, every object is exactly as freshly
   constructed as far as locking goes (no descriptor recorded = is_locked False, thread lock free, counter
   and depth 0) and the kernel lock is free; hence an idle thread of a live process obtains the lock with
   its first attempt, any flavour.  Proved from the exact-accounting invariant EX (FLockExact.v: inside the
   contract the RLock depth and the lock counter of an object are exactly what its owner's thread-local
   state accounts for, and a recorded descriptor implies a positive counter; EX_step). *)
Theorem quiescent_clean :
  forall ocfg tcfg fl evs,
    let s := run (init_cfg ocfg tcfg fl) evs in
    viol s = false ->
    (forall t, t_pc (thr s t) = PIdle /\ t_cs (thr s t) = []) ->
    (forall o, o_fd (objs s o) = None /\ o_own (objs s o) = None /\ o_cnt (objs s o) = 0 /\ o_dep (objs s o) = 0) /\
    holder s = None.
Proof. exact quiescent_clean_lemma. Qed.
Print Assumptions quiescent_clean.

Theorem quiescent_acquirable :
  forall ocfg tcfg fl evs tF oF m blk tm poll skip fuel,
    let s := run (init_cfg ocfg tcfg fl) evs in
    viol s = false ->
    (forall t, t_pc (thr s t) = PIdle /\ t_cs (thr s t) = []) ->
    dead s (t_proc (thr s tF)) = false -> o_proc (objs s oF) = t_proc (thr s tF) ->
    faulty s KOpen = false -> faulty s KLock = false -> 4 <= fuel ->
    snd (do_call fuel s tF (CAcq oF m blk tm poll skip)) = RTrue.
Proof. exact quiescent_acquirable_lemma. Qed.
Print Assumptions quiescent_acquirable.

(* The contract hypothesis is needed (and so is not vacuous): if a thread that holds
   nothing releases a plain (non-reentrant) lock that another thread holds, two
   threads end up inside. *)
Definition acq (o : oid) : call := CAcq o MPlain true TNone 2%N 1.
Theorem mutex_refuted_outside_contract :
  exists ocfg tcfg fl evs t1 t2,
    let s := run (init_cfg ocfg tcfg fl) evs in
    viol s = true /\ inside_b s t1 = true /\ inside_b s t2 = true /\ t1 <> t2.
Proof.
  exists [(0, false, TNeg)], [(0, [acq 0]); (0, [CRel 0 false]); (0, [acq 0])], [],
         [EStep 0; EStep 0; EStep 0; EStep 0; EStep 1; EStep 1; EStep 1; EStep 1;
          EStep 2; EStep 2; EStep 2; EStep 2], 0, 2.
  vm_compute. repeat split. discriminate.
Qed.
Print Assumptions mutex_refuted_outside_contract.

(* Non-vacuity: two processes, one object each (a plain one; a reentrant one with a
   constructor timeout used through `with`), an OSError on the 4th open.  After the
   prefix, thread 0 is inside and thread 1's with-statement has timed out after
   polling (contract respected); later process 0 crashes and thread 1 gets in twice
   (reentrant). *)
Definition ex_ocfg : list (pid * bool * tmo) := [(0, false, TNeg); (1, true, TVal 4%N)].
Definition ex_tcfg : list (pid * list call) :=
   [(0, [acq 0; CRel 0 false]);
    (1, [CAcq 1 MWith true TNone 2%N 1; CRel 1 false; CAcq 1 MPlain false TNone 2%N 2;
         CAcq 1 MPlain true TNone 2%N 0; CRel 1 true])].
Definition ex_cfg := init_cfg ex_ocfg ex_tcfg [(KOpen, 3, false)].
Example cfg_ok_example : cfg_ok ex_ocfg ex_tcfg = true.
Proof. vm_compute. reflexivity. Qed.
Definition ex_prefix :=
  [EStep 0; EStep 0; EStep 0; EStep 0; EStep 1; EStep 1; EStep 1; EStep 1; EStep 1; EAdv 2;
   EStep 1; EStep 1; EStep 1; EStep 1; EAdv 4; EStep 1; EStep 1; EStep 1; EStep 1; EAdv 6;
   EStep 1; EStep 1; EStep 1; EStep 1; EStep 1].
Example monitor_example_rejects :
  Case_C02.ok (Case_C02.CSched [] [] [] [] [] [(0, true, 1, true); (1, true, 2, true)] [] 0 0) = false /\
  Case_C02.ok (Case_C02.CSched [] [] [] [] [] [(0, true, 1, true); (0, false, 0, true); (1, true, 1, true)] [] 0 0) = true.
Proof. vm_compute. split; reflexivity. Qed.
Example mutex_example_contended :
  let s := run ex_cfg ex_prefix in
  viol s = false /\ inside_b s 0 = true /\ inside_b s 1 = false /\ t_res (thr s 1) = [RTimeout].
Proof. vm_compute. repeat split. Qed.
Example mutex_example_after_crash :
  let s := run ex_cfg (ex_prefix ++ [ECrash 0; EStep 0; EStep 1; EStep 1; EStep 1; EStep 1; EStep 1; EStep 1]) in
  viol s = false /\ inside_b s 0 = false /\ inside_b s 1 = true /\ t_cs (thr s 1) = [1; 1].
Proof. vm_compute. repeat split. Qed.
Example holder_until_release_example :
  let s := run ex_cfg (firstn 8 ex_prefix) in
  foreign s 0 (EStep 1) /\ inside_b s 0 = true /\ In 0 (t_cs (thr s 0)) /\ viol (apply s (EStep 1)) = false.
Proof. vm_compute. repeat split; auto. discriminate. Qed.
