(* props/C17.v — C17: cross-loop awaiting is transparent, runs on the target loop, and
   completes (ensure_aw / run_aw_threadsafe / loop_in_thread / the per-loop lock table,
   aiuti/asyncio.py).  ONLY theorem statements about the executable model XLoop.v
   (the validator the correspondence check runs on every observed log), each closed by a
   lemma of XLoopSafe.v / XLoopProg.v / XLoopK1.v, with Print Assumptions beneath.

   [run c evs = Some s] : the model accepts the log [evs] (one entry per visible operation:
   lock, table, loop, pool and caller operations) from the initial state of scenario [c]
   and ends in state [s].  All statements quantify over ALL accepted logs, i.e. over all
   schedules of any number of callers with any scripts, forms and mode. *)
From Coq Require Import List NArith Bool.
Import ListNotations.
Require Import Aiuti.XLoop Aiuti.XLoopInv Aiuti.XLoopSafe Aiuti.XLoopLive Aiuti.XLoopProg Aiuti.XLoopK1
               Aiuti.XLoopTerm Aiuti.Case_C17 Aiuti.Case_C17_Complete Aiuti.Case_C17_Sound.

(* The target loop is never run by two threads at once: at any time at most one thread is
   inside L.run_forever; a pool thread that runs L (ensure_aw's borrower or loop_in_thread's
   forever-thread) holds the per-loop lock of L's table entry while it does; every entry
   into run_forever found the loop idle (k = 0 threads inside), and no pool job ever ended
   with the "already running" RuntimeError. *)
Theorem one_runner :
  forall c evs s, run c evs = Some s ->
    length (inside s) <= 1 /\
    (forall t, In t (inside s) -> pool_thread t -> exists l, tbl s = Some l /\ owner s l = Some t) /\
    (forall t k, In (t, OEnter k) evs -> k = 0) /\
    (forall t, match jp s t with JBad _ | JPost _ true | JRel true => False | _ => True end).
Proof. exact one_runner_lemma. Qed.
Print Assumptions one_runner.

(* Double-checked creation: Lock() is called at most once for L, and every lock the table
   ever returned / every non-creation lock any thread ever acquired is that one lock. *)
Theorem lock_unique :
  forall c evs s, run c evs = Some s ->
    count_mk evs <= 1 /\
    exists L, forall t l,
      In (t, OMklock l) evs \/ In (t, OTbl (Some l)) evs \/ (In (t, OAcq l) evs /\ l <> 0) -> l = L.
Proof. exact lock_unique_lemma. Qed.
Print Assumptions lock_unique.

(* Transparency: whenever ensure_aw returns or raises in some thread with outcome o for
   caller index i, the thread is caller i's, and o is exactly the scripted outcome of ITS OWN
   awaitable (same value identity / same exception identity, [expected c i]) — unless the
   target is closed, in which case it is the library's RuntimeError and nothing else. *)
Theorem result_transparent :
  forall c evs s, run c evs = Some s ->
    forall t i o, In (t, ODone i o) evs ->
      t = TC i /\ i < c_n c /\
      match c_mode c with MClosed => o = (KLibRT, 0) | _ => o = expected c i end.
Proof. exact result_transparent_lemma. Qed.
Print Assumptions result_transparent.

(* closed target: every completed caller got RuntimeError; open target: none did *)
Theorem closed_target_raises :
  forall c evs s, run c evs = Some s ->
    forall t i o, In (t, ODone i o) evs ->
      (c_mode c = MClosed -> o = (KLibRT, 0)) /\ (c_mode c <> MClosed -> fst o <> KLibRT).
Proof.
  intros c evs s H t i o Hin.
  destruct (result_transparent_lemma c evs s H t i o Hin) as (_ & _ & Ho).
  split; intros Hm.
  - now rewrite Hm in Ho.
  - destruct (c_mode c); try congruence; subst o; unfold expected; destruct (s_raise _); discriminate.
Qed.
Print Assumptions closed_target_raises.

(* Every step of every awaitable (its first and its last step) is executed on the target
   loop (the flag observed from inside the awaitable is true) by the thread that is, at that
   moment, the one and only thread inside L.run_forever. *)
Theorem evaluated_on_target :
  forall c pre t o post s, run c (pre ++ (t, o) :: post) = Some s ->
    (exists i b, o = OStart i b \/ o = OFin i b) ->
    (exists i, o = OStart i true \/ o = OFin i true) /\
    exists s0, run c pre = Some s0 /\ inside s0 = [t].
Proof. exact evaluated_on_target_lemma. Qed.
Print Assumptions evaluated_on_target.

(* loop_in_thread, target running via loop_in_thread (mode MForever): it returns only while the
   forever-thread is inside L; stop() returns only when that thread's job has ended and
   nobody runs L.  In every mode: stop() returns only after the forever-job ended and the
   forever-thread is not inside L, and what it reports about is_running is the truth. *)
Theorem loop_in_thread_contract :
  forall c pre e post s, run c (pre ++ e :: post) = Some s ->
    exists s0, run c pre = Some s0 /\
      (forall b, e = (TM, OLitret b) -> c_mode c = MForever -> b = true /\ inside s0 = [TJM]) /\
      (forall r j, e = (TM, OStopret r j) ->
         j = true /\ jp s0 TJM = JEnd /\ ~ In TJM (inside s0) /\ r = running s0 /\
         (c_mode c = MForever -> r = false /\ inside s0 = [])).
Proof.
  intros c pre e post s H. apply run_split in H as (s0 & s1 & H0 & H1 & _).
  exists s0. split; auto.
  destruct (InvAB_reach c s0) as [HI HB]; [now exists pre|].
  split.
  - intros b -> Em. eapply litret_forever; eauto.
  - intros r j ->. eapply stopret_contract; eauto.
Qed.
Print Assumptions loop_in_thread_contract.

(* ... and in every mode (also when callers race with loop_in_thread): it returns right
   after, in its own program order, an is_running() check that answered true, and every
   is_running() that answered true was asked while some thread was inside L. *)
Theorem loop_in_thread_returns_after_running :
  forall c pre b post s, run c (pre ++ (TM, OLitret b) :: post) = Some s ->
    last_tm pre = Some (OChk true) /\
    forall pre1 t post1, pre = pre1 ++ (t, OChk true) :: post1 ->
      exists s1, run c pre1 = Some s1 /\ running s1 = true.
Proof.
  intros c pre b post s H. apply run_split in H as (s0 & s1 & H0 & H1 & _). split.
  - eapply lit_after_chk; eauto. simpl in H1. unfold step_m in H1. destruct (mp s0); try discriminate. reflexivity.
  - intros pre1 t post1 ->. apply run_split in H0 as (s2 & s3 & A & B & _).
    exists s2. split; auto. eapply chk_true_running; eauto.
Qed.
Print Assumptions loop_in_thread_returns_after_running.

(* ---- liveness, in no-deadlock form ---------------------------------------------------
   [penabled c s] = the operations enabled in s other than loop_in_thread's fruitless spin
   ("is_running() = false").  "Caller i completes" = its ensure_aw returned or raised. *)

(* target is the caller's own loop: whenever some caller has not completed, something can happen *)
Theorem completes_own :
  forall c evs s, run c evs = Some s -> c_mode c = MOwn ->
    forall i, i < c_n c -> completedb s i = false -> penabled c s <> [].
Proof. intros c evs s H Em. eapply completes_mode; eauto. Qed.
Print Assumptions completes_own.

(* target kept running by loop_in_thread until every caller is done *)
Theorem completes_forever :
  forall c evs s, run c evs = Some s -> c_mode c = MForever ->
    forall i, i < c_n c -> completedb s i = false -> penabled c s <> [].
Proof. intros c evs s H Em. eapply completes_mode; eauto. Qed.
Print Assumptions completes_forever.

(* every caller so far took the borrow path (nobody saw L "running"): the callers
   serialise on the per-loop lock and none of them is ever stuck — in any mode *)
Theorem completes_borrow :
  forall c evs s, run c evs = Some s -> (forall i, xsub s i = None) ->
    forall i, i < c_n c -> completedb s i = false -> penabled c s <> [].
Proof. exact completes_borrow_lemma. Qed.
Print Assumptions completes_borrow.

(* THE FULL LIVENESS STATEMENT OF THE PROPERTY would be
     forall c evs s, run c evs = Some s ->
       forall i, i < c_n c -> completedb s i = false -> penabled c s <> [].
   It is FALSE of the faithful model (and of the code: known finding K1).  Witness, by
   computation: two callers, idle target; caller 1 sees L "running" only because caller 0's
   pool thread borrowed it, schedules its awaitable there; caller 0's awaitable finishes
   first, run_until_complete returns, L is idle again; caller 1 has not completed and NO
   operation at all is possible any more (forall e, step = None). *)
Theorem stranded_refuted :
  exists c evs s, run c evs = Some s /\ c_mode c = MIdle /\
    (exists i, i < c_n c /\ completedb s i = false) /\ (forall e, step c s e = None).
Proof. exact stranded_lemma. Qed.
Print Assumptions stranded_refuted.

Theorem liveness_refuted :
  ~ (forall c evs s, run c evs = Some s ->
       forall i, i < c_n c -> completedb s i = false -> penabled c s <> []).
Proof. exact liveness_unconditional_false. Qed.
Print Assumptions liveness_refuted.

(* ... and it holds, in every mode and for any number of callers, under the one hypothesis
   that excludes K1's scenario class: no caller's is_running() check ever answered true
   while a BORROWER (an ensure_aw pool thread TJ k) was the thread inside L
   ([xsub s i] is set, by step_c at caller i's OChk true, to the thread inside L then —
   see xsub_records_runner below). *)
Theorem completes_unless_submitted_to_borrowed_loop :
  forall c evs s, run c evs = Some s -> no_foreign_submit_to_borrowed_loop s ->
    forall i, i < c_n c -> completedb s i = false -> penabled c s <> [].
Proof. exact progress_log. Qed.
Print Assumptions completes_unless_submitted_to_borrowed_loop.

(* No livelock: along ANY accepted log the number of operations other than loop_in_thread's
   spin (is_running() = false, sleep(0)) is at most 21 * #callers + 19 (every such operation
   strictly increases a bounded potential).  So an execution that keeps taking non-spin
   operations ends after boundedly many of them ... *)
Theorem bounded_work :
  forall c evs s, run c evs = Some s -> work evs <= 21 * c_n c + 19.
Proof. exact work_le. Qed.
Print Assumptions bounded_work.

(* ... and where it ends — no non-spin operation enabled — every caller has completed,
   provided nobody scheduled on a borrowed loop (always so in the own / loop_in_thread /
   closed modes).  Together: ensure_aw calls complete, unless the loop_in_thread spin itself
   never ends or K1's scenario occurs. *)
Theorem quiescent_means_completed :
  forall c evs s, run c evs = Some s -> no_foreign_submit_to_borrowed_loop s ->
    penabled c s = [] -> forall i, i < c_n c -> completedb s i = true.
Proof.
  intros c evs s H NK Hq i Hi. destruct (completedb s i) eqn:E; auto.
  exfalso. exact (progress_log c evs s H NK i Hi E Hq).
Qed.
Print Assumptions quiescent_means_completed.

Theorem xsub_records_runner :
  forall c s i b s', step c s (TC i, OChk b) = Some s' ->
    b = running s /\ (b = true -> xsub s' i = hd_error (inside s)) /\ (b = false -> xsub s' i = xsub s i).
Proof. exact xsub_meaning. Qed.
Print Assumptions xsub_records_runner.

(* "nothing enabled" really means that no operation whatsoever is accepted *)
Theorem enabled_is_complete :
  forall c s e s', step c s e = Some s' -> In e (enabled c s).
Proof.
  intros c s e s' H. unfold enabled. apply filter_In. split; [eapply cands_complete; eauto|].
  unfold accepts1. now rewrite H.
Qed.
Print Assumptions enabled_is_complete.

(* The trace monitor used on implementation traces (Case_C17.mon_tags / ok) is COMPLETE for
   the safety part: on any case whose log the model accepts (with no dead harness thread),
   it raises none of the safety tags — the only tags possible are the two "stuck" ones —
   and when the run ended normally it raises no tag at all (ok = true).  In race mode this
   needs the flag reported at loop_in_thread's return to be true in the log (the model allows
   a borrower to leave between the successful is_running() and the return; the code has no
   visible operation there, and the monitor deliberately flags a false flag). *)
Theorem monitor_complete :
  forall k : case,
    model_accepts k = true -> k_texc k = 0 ->
    (k_mode k <> MRace \/ forall b, In (TM, OLitret b) (k_log k) -> b = true) ->
    (k_res k = 0 -> ok k = true) /\
    (forall t, In t (mon_tags k) -> t = T_stuck_k1 \/ t = T_stuck_other).
Proof. exact monitor_complete_lemma. Qed.
Print Assumptions monitor_complete.

(* ... and SOUND, independently of the model: if the monitor accepts an observed case, then
   the run ended normally, no harness thread died, every caller completed, and at EVERY
   position of the observed log (with [ins_of]/[done_of]/[lock_of]/[owners_of] = the threads
   inside L, the callers already done, the lock created for L, the lock holders, as recorded by
   the log's own enter/exit, done, mklock, acq/rel entries before that position):
   an entry into run_forever found nobody inside (and a pool thread entering held a loop
   lock); locks are not acquired while held, the loop lock is not released from inside;
   Lock() for L only when none existed, the table only returns that lock; every awaitable
   step was on the target loop by a thread inside it; every completion is the first one of
   that caller and carries its own scripted outcome (closed: RuntimeError); loop_in_thread
   returned with the loop running; stop returned with the job ended and the forever-thread
   outside; nobody blocked on a concurrent future. *)
Theorem monitor_sound :
  forall k : case, ok k = true ->
    k_res k = 0 /\ k_texc k = 0 /\
    (forall i, i < c_n (cfg_of k) -> In i (done_of (cfg_of k) (k_log k))) /\
    (forall pre e post, k_log k = pre ++ e :: post -> event_ok (cfg_of k) pre e).
Proof. exact monitor_sound_lemma. Qed.
Print Assumptions monitor_sound.

(* ---- non-vacuity --------------------------------------------------------------------- *)

(* an accepted log in which two callers complete, one through a borrowed loop and one queued
   on the per-loop lock (hypotheses of one_runner .. evaluated_on_target, completes_borrow) *)
Definition ex_cfg : cfg := mk_cfg MIdle [(false, None, FCoro); (true, Some 5%N, FTask)].
Definition ex_log : list event :=
  [ (TC 0, OBegin); (TC 0, OChk false); (TC 0, OSubmit (TJ 0)); (TC 1, OBegin); (TC 1, OChk false);
    (TC 1, OSubmit (TJ 1)); (TJ 0, OTbl None); (TJ 1, OTbl None); (TJ 0, OAcq 0); (TJ 0, OTbl None);
    (TJ 0, OMklock 1); (TJ 0, ORel 0); (TJ 1, OAcq 0); (TJ 1, OTbl (Some 1)); (TJ 1, ORel 0);
    (TJ 0, OAcq 1); (TJ 0, OEnter 0); (TJ 0, OStart 1 true); (TJ 0, OStart 0 true); (TJ 0, OFin 0 true);
    (TJ 0, OExit); (TJ 0, ORel 1); (TJ 1, OAcq 1); (TJ 0, ODlv 0); (TJ 0, OJobend); (TC 0, ODone 0 (KRet, 0));
    (TJ 1, OEnter 0); (TClk, OAdv 5%N); (TJ 1, OFin 1 true); (TJ 1, OExit); (TJ 1, ORel 1); (TJ 1, ODlv 1);
    (TJ 1, OJobend); (TC 1, ODone 1 (KExc, 1)) ].
Example ex_accepted :
  match run ex_cfg ex_log with
  | Some s => all_ended ex_cfg s = true /\ (forall i, i < 2 -> xsub s i = None)
  | None => False
  end.
Proof. vm_compute. split; [reflexivity|]. intros [|[|i]] H; reflexivity. Qed.

(* loop_in_thread mode: a log through litret / stop (hypotheses of loop_in_thread_contract, completes_forever) *)
Definition ex2_cfg : cfg := mk_cfg MForever [(false, Some 5%N, FCoro)].
Definition ex2_log : list event :=
  [ (TM, OSubmit TJM); (TM, OChk false); (TJM, OTbl None); (TJM, OAcq 0); (TJM, OTbl None); (TJM, OMklock 1);
    (TJM, ORel 0); (TJM, OAcq 1); (TM, OSleep); (TM, OChk false); (TJM, OEnter 0); (TM, OSleep); (TM, OChk true);
    (TM, OLitret true); (TC 0, OBegin); (TC 0, OChk true); (TC 0, OCst); (TJM, OStart 0 true); (TClk, OAdv 5%N);
    (TJM, OFin 0 true); (TJM, ODlv 0); (TC 0, ODone 0 (KRet, 0)); (TM, OWait); (TM, OCst); (TJM, OExit);
    (TJM, ORel 1); (TJM, OJobend); (TM, OJoin); (TM, OStopret false true) ].
Example ex2_accepted :
  match run ex2_cfg ex2_log with Some s => all_ended ex2_cfg s = true | None => False end.
Proof. vm_compute. reflexivity. Qed.

(* the own-loop and the closed-target scenarios *)
Example ex3_accepted :
  match run (mk_cfg MOwn [(false, None, FCoro); (true, None, FCoro)])
            [ (TC 0, OBegin); (TC 0, OEnter 0); (TC 1, OBegin); (TC 1, OChk true); (TC 1, OCst);
              (TC 0, OStart 0 true); (TC 0, OFin 0 true); (TC 0, ODone 0 (KRet, 0));
              (TC 0, OStart 1 true); (TC 0, OFin 1 true); (TC 0, ODlv 1); (TC 1, ODone 1 (KExc, 1)); (TC 0, OExit) ]
  with Some s => all_ended (mk_cfg MOwn [(false, None, FCoro); (true, None, FCoro)]) s = true | None => False end.
Proof. vm_compute. reflexivity. Qed.
Example ex4_accepted :
  run (mk_cfg MClosed [(false, None, FCoro)]) [(TC 0, OBegin); (TC 0, OChk false); (TC 0, ODone 0 (KLibRT, 0))] <> None.
Proof. vm_compute. discriminate. Qed.

(* the model rejects what the property forbids: a second runner, a second lock, a foreign outcome *)
Example ex_rejects_second_runner :
  run ex_cfg (firstn 17 ex_log ++ [(TJ 1, OAcq 1)]) = None /\
  run ex_cfg (firstn 17 ex_log ++ [(TJ 1, OEnter 1)]) = None.
Proof. vm_compute. split; reflexivity. Qed.
Example ex_rejects_second_lock :
  run ex_cfg (firstn 13 ex_log ++ [(TJ 1, OTbl None)]) = None /\
  run ex_cfg (firstn 13 ex_log ++ [(TJ 1, OMklock 2)]) = None.
Proof. vm_compute. split; reflexivity. Qed.
Example ex_rejects_foreign_outcome :
  run ex_cfg (firstn 25 ex_log ++ [(TC 0, ODone 0 (KExc, 1))]) = None.
Proof. vm_compute. reflexivity. Qed.

(* the K1 state satisfies everything except the hypothesis of the conditional liveness theorem *)
Example k1_breaks_only_the_hypothesis :
  exists s, run k1_cfg k1_log = Some s /\ xsub s 1 = Some (TJ 0) /\ enabled k1_cfg s = [].
Proof. destruct k1_witness as (s & A & _ & _ & _ & B & _ & C). exists s. auto. Qed.

(* the monitor: an accepted and a rejected observation *)
Example monitor_accepts_ex :
  ok (mkcase MIdle [(false, None, FCoro); (true, Some 5%N, FTask)] ex_log 0 0 []) = true /\
  agree (mkcase MIdle [(false, None, FCoro); (true, Some 5%N, FTask)] ex_log 0 0 []) = true.
Proof. vm_compute. split; reflexivity. Qed.
Example monitor_rejects_ex :
  (* two runners / two locks / foreign outcome / K1 stuck / other stuck *)
  mon_tags (mkcase MIdle [(false, None, FCoro); (false, None, FCoro)]
              [(TJ 0, OAcq 1); (TJ 0, OEnter 0); (TJ 1, OMklock 1); (TJ 1, OMklock 2); (TJ 1, OAcq 2); (TJ 1, OEnter 1);
               (TC 0, ODone 0 (KRet, 1))] 1 0 []) = [1; 3; 4; 11] /\
  mon_tags (mkcase MIdle [(false, Some 5%N, FCoro); (false, Some 50%N, FCoro)] k1_log 1 0 []) = [T_stuck_k1].
Proof. vm_compute. split; reflexivity. Qed.
