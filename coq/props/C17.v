(* props/C17.v — C17: cross-loop awaiting.  (statements are being added; see XLoopInv.v) *)
From Coq Require Import List NArith Bool.
Import ListNotations.
Require Import Aiuti.XLoop Aiuti.Case_C17.

Example model_runs : run (mk_cfg MClosed [(false, None, FCoro)]) [(TC 0, OBegin); (TC 0, OChk false); (TC 0, ODone 0 (KLibRT, 0))] <> None.
Proof. vm_compute. discriminate. Qed.
