(* props/C19.v — C19: parse_to_dict matches its model, splits once, never
   evaluates code.  ONLY theorem statements about the model Parse.v, each closed
   by a lemma of ParseInv.v, with Print Assumptions beneath.

   Vocabulary (Parse.v): strings are lists of character codes; objects are
   [OStr s] or opaque non-strings [OVal vid kcls hashable]; the parser in force
   (ast.literal_eval or a custom callable) is an ORACLE
   [parse : str -> option obj], None = it raised anything.  Items are
   [IStr s] ('key<sep>value' strings) or [IPair k v] (pairs; a mapping arrives
   as the list of its .items()).  [parse_to_dict parse sep pk items] returns
   [Ok dict] (insertion ordered association list) or the error of the first
   failing item.  All theorems hold for EVERY oracle, separator, parse_keys
   flag and item list; where [sep <> []] is needed it is stated. *)
From Coq Require Import List Bool.
Import ListNotations.
Require Import Aiuti.Parse Aiuti.ParseInv Aiuti.ParseSrc Aiuti.Case_C19 Aiuti.ParseMon Aiuti.ParseSound.
Require AiutiGen.T_ParseDefaults.

(* -- the source has the syntactic shape the model was written for ------------
   (regenerated from /repo's AST on every run by harness/c19_translate.py:
   default parser is ast.literal_eval bound by "import ast", split(sep, 1),
   try_parse guards on isinstance(x, str) and has a bare except, keys are parsed
   iff parse_keys, mappings go through .items(), dict(map(parse_pair, items))) *)
Theorem source_shape_as_modelled : T_ParseDefaults.facts = modelled_facts.
Proof. reflexivity. Qed.
Print Assumptions source_shape_as_modelled.

(* -- splitting happens at the first occurrence only -------------------------- *)
(* split_once returns (k, v) exactly when s = k ++ sep ++ v and no other
   decomposition of s around sep has a shorter key part *)
Theorem split_first_only :
  forall sep s k v,
    split_once sep s = Some (k, v) <->
    s = k ++ sep ++ v /\ forall k' v', s = k' ++ sep ++ v' -> length k <= length k'.
Proof. exact split_once_first. Qed.
Print Assumptions split_first_only.

(* ... and fails exactly when sep is not a substring of s *)
Theorem split_none :
  forall sep s, split_once sep s = None <-> ~ exists k v, s = k ++ sep ++ v.
Proof. exact split_once_none. Qed.
Print Assumptions split_none.

(* -- the result is the dictionary of the parsed pairs / the first error ------
   [bad it]: a string item that does not split (no separator), or an item whose
   parsed key is unhashable.  [pairs_of items] = the parsed (key, value) of each
   item where, by definition of parse_pair / parse_tuple / try_parse:
     pair (IStr s)    = (tp_k (OStr k), tp (OStr v))   if split_once sep s = Some (k, v)
     pair (IPair k v) = (tp_k k, tp v)
     tp (OStr s) = match parse s with Some o => o | None => OStr s end,  tp (OVal ..) = OVal ..
     tp_k = if parse_keys then tp else id.                                       *)
Theorem parse_model_spec :
  forall parse sep pk items,
    ((forall it, In it items -> bad parse sep pk it = false) ->
       parse_to_dict parse sep pk items = Ok (dict_of (pairs_of parse sep pk items) [])) /\
    (forall good it rest,
       items = good ++ it :: rest ->
       (forall g, In g good -> bad parse sep pk g = false) -> bad parse sep pk it = true ->
       parse_to_dict parse sep pk items = err_of parse sep pk (length good) it) /\
    ((exists d, parse_to_dict parse sep pk items = Ok d) <->
       (forall it, In it items -> bad parse sep pk it = false)).
Proof.
  intros parse sep pk items. repeat split.
  - intros H. now apply build_good.
  - intros good it rest -> Hg Hb. unfold parse_to_dict. now rewrite build_bad.
  - apply build_ok_iff.
  - apply build_ok_iff.
Qed.
Print Assumptions parse_model_spec.

(* the unfolding used above, as equations (so the comment is checked) *)
Theorem pair_equations :
  forall parse sep pk,
    (forall s k v, sep <> [] -> split_once sep s = Some (k, v) ->
       parse_pair parse sep pk (IStr s) =
       Some (if pk then try_parse parse (OStr k) else OStr k, try_parse parse (OStr v))) /\
    (forall s, split_py sep s = None -> parse_pair parse sep pk (IStr s) = None) /\
    (forall k v, parse_pair parse sep pk (IPair k v) =
       Some (if pk then try_parse parse k else k, try_parse parse v)) /\
    (forall s, try_parse parse (OStr s) = match parse s with Some o => o | None => OStr s end) /\
    (forall vid c h, try_parse parse (OVal vid c h) = OVal vid c h).
Proof.
  intros parse sep pk. repeat split.
  - intros s k v Hsep H. unfold parse_pair, kv_of, split_py, parse_tuple.
    destruct sep; [congruence|]. rewrite H. destruct pk; reflexivity.
  - intros s H. unfold parse_pair, kv_of. now rewrite H.
  - intros k v. unfold parse_pair, kv_of, parse_tuple. destruct pk; reflexivity.
Qed.
Print Assumptions pair_equations.

(* dictionary semantics of the result: looking a key up gives the value of the
   LAST pair with an equal key; the keys are the FIRST occurrences, in order,
   pairwise different under == *)
Theorem dict_last_value_wins :
  forall ps k, dict_get (dict_of ps []) k = last_of k ps None.
Proof. intros. apply dict_last_wins_gen. Qed.
Print Assumptions dict_last_value_wins.

Theorem dict_first_key_kept :
  forall ps, map fst (dict_of ps []) = keys_of ps [] /\ keys_distinct (keys_of ps []).
Proof.
  intros ps. split; [apply (dict_keys_gen ps [])|]. apply keys_of_distinct. exact I.
Qed.
Print Assumptions dict_first_key_kept.

(* -- the three input shapes agree ------------------------------------------------
   for (key, value) string pairs whose joined form splits back at the intended
   place, 'key<sep>value' strings and pairs (= the .items() of a mapping) give the
   same result, error cases included *)
Theorem shapes_agree :
  forall parse sep pk (m : list (str * str)),
    sep <> [] ->
    (forall k v, In (k, v) m -> split_once sep (k ++ sep ++ v) = Some (k, v)) ->
    parse_to_dict parse sep pk (map (joined sep) m) = parse_to_dict parse sep pk (map as_pair m).
Proof. exact shapes_agree_lemma. Qed.
Print Assumptions shapes_agree.

(* for one-character separators it suffices that no key contains it *)
Theorem shapes_agree_char :
  forall parse c pk (m : list (str * str)),
    (forall k v, In (k, v) m -> ~ In c k) ->
    parse_to_dict parse [c] pk (map (joined [c]) m) = parse_to_dict parse [c] pk (map as_pair m).
Proof.
  intros parse c pk m H. apply shapes_agree_lemma; [discriminate|].
  intros k v Hin. apply split_once_char. eapply H; eauto.
Qed.
Print Assumptions shapes_agree_char.

(* -- string content matters only through the oracle and the split ---------------
   two oracles that agree on the strings in the call log give the same result;
   non-strings never reach the oracle (pair_equations); an oracle that rejects
   everything makes parse_to_dict a pure re-pairing *)
Theorem only_parse_touches_strings :
  forall sep pk (p p' : str -> option obj) items,
    (forall s, In s (calls p sep pk items) -> p s = p' s) ->
    parse_to_dict p sep pk items = parse_to_dict p' sep pk items.
Proof. intros. unfold parse_to_dict. now apply build_parse_ext. Qed.
Print Assumptions only_parse_touches_strings.

Theorem no_literal_pure_repairing :
  forall sep pk it, parse_pair (fun _ => None) sep pk it = kv_of sep it.
Proof. exact parse_pair_none. Qed.
Print Assumptions no_literal_pure_repairing.

(* -- the monitor run on the implementation's observations ------------------------
   (an independently written reference: first occurrence found by position,
   dictionary stated as first keys / last values, parser call log) accepts
   every trace of the model, for every oracle table *)
Theorem monitor_accepts_model :
  forall sep pk custom t items,
    ok (Case sep pk custom t items (parse_to_dict (lookup t) sep pk items)
             (calls (lookup t) sep pk items) 0) = true.
Proof. exact monitor_accepts_model_lemma. Qed.
Print Assumptions monitor_accepts_model.

(* -- the monitor decides the property on the OBSERVATION alone --------------------
   (no model involved).  [observed_ok t sep pk custom items ores olog trip]
   (ParseSound.v) is a relational statement about one observed run: the input,
   the oracle table t (what the parser in force returned / that it raised, on
   every string that can reach it), the returned dict or error [ores], the
   custom parser's call log [olog] and the tripwire count [trip]:
     * trip = 0: no name lookup, call or attribute access was evaluated;
     * [KV it k v]: a string item stands for (k, v) with s = k ++ sep ++ v cut at
       the FIRST occurrence of the non-empty separator (no decomposition has a
       shorter key part); a pair item for its two components;
     * [Lit x y]: a string becomes what the table says the parser returned, is
       kept when the parser raised; a non-string is untouched;
       [ParsedPair it (k', v')]: v' = Lit of the value, k' = Lit of the key iff
       parse_keys, else the key itself;
     * (a) if some item is a string without the separator ([NoSep]) or has an
       unhashable parsed key, the FIRST such item decides: ores = ErrNotKV
       <its index> (the ValueError naming that item) / ErrUnhashable, and all
       items before it are fine;
       (b) otherwise ores = Ok d where d is built by inserting the parsed pairs
       in order ([Built]/[Insert]: a key equal to an existing one keeps the
       first key object and its position and replaces the value, otherwise the
       pair is appended);
     * custom parser: it was called exactly on the string keys (iff parse_keys)
       and string values of the items, in order, up to and including the first
       failing item when that one could be split ([CallsOf]).
   [monitor_sound]: if the monitor accepts an implementation trace, the trace
   satisfies this statement; [monitor_sound_converse]: it rejects nothing that
   satisfies it. *)
Theorem monitor_sound :
  forall sep pk custom t items ores olog trip,
    ok (Case sep pk custom t items ores olog trip) = true ->
    observed_ok t sep pk custom items ores olog trip.
Proof. intros. now apply ok_sound. Qed.
Print Assumptions monitor_sound.

Theorem monitor_sound_converse :
  forall sep pk custom t items ores olog trip,
    observed_ok t sep pk custom items ores olog trip ->
    ok (Case sep pk custom t items ores olog trip) = true.
Proof. intros. now apply ok_complete. Qed.
Print Assumptions monitor_sound_converse.

(* the relations of that statement are what the model computes: the parsed pair
   of an item, "not like KEY<sep>VALUE", and the insertion-built dictionary (so
   dict_last_value_wins / dict_first_key_kept speak about [Built] too) *)
Theorem statement_relations_are_the_model :
  forall t sep pk,
    (forall it kv, ParsedPair t sep pk it kv <-> parse_pair (lookup t) sep pk it = Some kv) /\
    (forall it, NoSep sep it <-> parse_pair (lookup t) sep pk it = None) /\
    (forall ps d, Built ps [] d <-> d = dict_of ps []).
Proof.
  intros t sep pk. repeat split.
  - intros H. rewrite <- ref_pair_eq. now apply parsed_spec.
  - intros H. apply (parsed_spec t sep pk). now rewrite ref_pair_eq.
  - intros H. rewrite <- ref_pair_eq. now apply nosep_ref_pair.
  - intros H. apply (nosep_ref_pair t sep pk). now rewrite ref_pair_eq.
  - apply built_spec.
  - apply built_spec.
Qed.
Print Assumptions statement_relations_are_the_model.

(* the model's own trace satisfies that statement, for every table, separator,
   parse_keys flag and item list: the property, in the relational vocabulary,
   about the executable model *)
Theorem model_satisfies_statement :
  forall sep pk custom t items,
    observed_ok t sep pk custom items (parse_to_dict (lookup t) sep pk items)
                (calls (lookup t) sep pk items) 0.
Proof. exact model_observed_ok. Qed.
Print Assumptions model_satisfies_statement.

(* as deciders the monitor and the comparison with the model coincide: an
   observation is accepted iff it is the model's trace (the TypeError of an
   unhashable key does not say which item; res_eqb ignores that index) *)
Theorem monitor_is_model_comparison : forall c, ok c = agree c.
Proof. exact ok_eq_agree. Qed.
Print Assumptions monitor_is_model_comparison.

(* ---- non-vacuity ------------------------------------------------------------ *)
(* codes: a=97 b=98 c=99 '='=61 '1'=49 '2'=50 '.'=46 '0'=48 *)
Definition ex_table : table :=
  [([49], Some (OVal 0 0 true));            (* '1'   -> 1   *)
   ([49; 46; 48], Some (OVal 1 0 true));    (* '1.0' -> 1.0 (== 1) *)
   ([50], Some (OVal 2 1 true));            (* '2'   -> 2   *)
   ([97], None); ([98], None); ([98; 61; 99], None)].

(* 'a=b=c' splits at the first '=' only; '1' and '1.0' collapse to the first key
   object with the last value; a string without '=' is the error, by index *)
Example parse_example :
  parse_to_dict (lookup ex_table) [61] true
    [IStr [97; 61; 98; 61; 99]; IStr [49; 61; 97]; IPair (OStr [49; 46; 48]) (OStr [50])]
  = Ok [(OStr [97], OStr [98; 61; 99]); (OVal 0 0 true, OVal 2 1 true)] /\
  parse_to_dict (lookup ex_table) [61] false [IStr [49; 61; 50]] = Ok [(OStr [49], OVal 2 1 true)] /\
  parse_to_dict (lookup ex_table) [61] true [IStr [49; 61; 50]; IStr [97]; IStr [98]] = ErrNotKV 1 /\
  bad (lookup ex_table) [61] true (IStr [97]) = true /\ bad (lookup ex_table) [61] true (IStr [49; 61; 50]) = false.
Proof. vm_compute. repeat split. Qed.

(* why shapes_agree needs the first-occurrence hypothesis: k = "a", sep = "aa":
   the joined string "a"+"aa"+"b" splits as ("", "ab") *)
Example shapes_hypothesis_needed :
  split_once [97; 97] ([97] ++ [97; 97] ++ [98]) = Some ([], [97; 98]).
Proof. reflexivity. Qed.


(* the monitor rejects: a split at the LAST occurrence, an evaluated tripwire,
   a parsed key although parse_keys is off *)
Example monitor_rejects :
  let t := ex_table in
  ok (Case [61] true false t [IStr [97; 61; 98; 61; 99]] (Ok [(OStr [97], OStr [98; 61; 99])]) [] 0) = true /\
  ok (Case [61] true false t [IStr [97; 61; 98; 61; 99]] (Ok [(OStr [97; 61; 98], OStr [99])]) [] 0) = false /\
  ok (Case [61] true false t [IStr [97; 61; 98; 61; 99]] (Ok [(OStr [97], OStr [98; 61; 99])]) [] 1) = false /\
  ok (Case [61] false false t [IStr [49; 61; 50]] (Ok [(OVal 0 0 true, OVal 2 1 true)]) [] 0) = false.
Proof. vm_compute. repeat split. Qed.

(* the readable statement itself on concrete observations (via the two monitor
   theorems): 'a=b=c' cut at the first '=' satisfies it; cut at the last, a
   tripwire hit, or a wrong error index do not *)
Example observed_ok_example :
  let t := ex_table in
  observed_ok t [61] true false [IStr [97; 61; 98; 61; 99]] (Ok [(OStr [97], OStr [98; 61; 99])]) [] 0 /\
  ~ observed_ok t [61] true false [IStr [97; 61; 98; 61; 99]] (Ok [(OStr [97; 61; 98], OStr [99])]) [] 0 /\
  ~ observed_ok t [61] true false [IStr [97; 61; 98; 61; 99]] (Ok [(OStr [97], OStr [98; 61; 99])]) [] 1 /\
  observed_ok t [61] true false [IStr [49; 61; 50]; IStr [97]; IStr [98]] (ErrNotKV 1) [] 0 /\
  ~ observed_ok t [61] true false [IStr [49; 61; 50]; IStr [97]; IStr [98]] (ErrNotKV 2) [] 0.
Proof.
  cbv zeta. split; [|split; [|split; [|split]]].
  - apply monitor_sound. reflexivity.
  - intros H. apply monitor_sound_converse in H. discriminate.
  - intros H. apply monitor_sound_converse in H. discriminate.
  - apply monitor_sound. reflexivity.
  - intros H. apply monitor_sound_converse in H. discriminate.
Qed.

(* the insertion relation on a concrete list: 1 and 1.0 are equal keys — the first
   key object stays, the last value wins *)
Example built_example :
  Built [(OVal 0 0 true, OStr [97]); (OStr [97], OStr [98]); (OVal 1 0 true, OStr [99])] []
        [(OVal 0 0 true, OStr [99]); (OStr [97], OStr [98])].
Proof. apply built_spec. reflexivity. Qed.
