(* props/C08.v — C08: debounce — one non-overlapping, non-empty call per quiet
   period.  ONLY theorem statements about the executable model Buffer.v (the
   model the correspondence check runs against /repo), each closed by a lemma
   of BufferInv.v / BufferJoin.v / BufferTime.v / BufferQuiet.v, with
   Print Assumptions beneath, and non-vacuity Examples at the end.

   Vocabulary.  [trace T evs] is the list, one entry per external event, of what
   the harness observes in that macro step when the buffer has timeout T (ticks):
   FnStart callno set tick / FnEnd callno ok set / WaitRet / DaemonEnded.
   [final T evs] is the model state after the events.  Event lists are
   arbitrary: any producers (immediate, awaitable, async iterable, failing),
   any Advance, wait(cancel=..) calls, function outcomes, shutdown and the
   foreign-thread halves of _put. *)
From Coq Require Import List NArith Bool.
Import ListNotations.
Require Import Aiuti.Buffer Aiuti.BufferInv Aiuti.BufferJoin Aiuti.BufferTime Aiuti.BufferQuiet
               Aiuti.Case_Buffer Aiuti.Case_C08 Aiuti.BufferMon8 Aiuti.BufferMon8B.

(* For EVERY event list, in the flattened trace:
   (a) every call of the wrapped function gets a non-empty set;
   (b) between the start of a call and the start of any later call lies the end
       (FnEnd, ok or failed) of that very call — calls never overlap;
   (c) calls are numbered consecutively from 0 (the k-th FnStart carries k). *)
Theorem serial_nonempty :
  forall (T : N) (evs : list event),
    let tr := concat (trace T evs) in
    (forall pre c set t rest, tr = pre ++ FnStart c set t :: rest -> set <> []) /\
    (forall pre c set t mid c' set' t' rest,
        tr = pre ++ FnStart c set t :: mid ++ FnStart c' set' t' :: rest ->
        exists ok set_end, In (FnEnd c ok set_end) mid) /\
    (forall pre c set t rest, tr = pre ++ FnStart c set t :: rest -> c = n_starts pre).
Proof. exact serial_nonempty_readable. Qed.
Print Assumptions serial_nonempty.

(* The trace monitor used on implementation traces is Case_C08.ok = ok_serial && ok_walk.
   Its serial part (the automaton Case_Buffer.serial on the flattened trace) is
   COMPLETE: it accepts the model's own trace of every event list — so on any case
   where the implementation's trace equals the model's it cannot raise a false
   alarm ... *)
Theorem serial_monitor_complete :
  forall (T : N) (evs : list event), ok_serial (Case T evs (trace T evs)) = true.
Proof. exact ok_serial_complete. Qed.
Print Assumptions serial_monitor_complete.

(* ... and SOUND, independently of the model: any observed trace it accepts (in
   particular any the whole monitor accepts) has non-empty sets, never a second
   FnStart before the FnEnd of the previous call, and consecutive call numbers. *)
Theorem serial_monitor_sound :
  forall (T : N) (evs : list event) (observed : list (list obs)),
    ok_serial (Case T evs observed) = true ->
    let tr := concat observed in
    (forall pre c set t rest, tr = pre ++ FnStart c set t :: rest -> set <> []) /\
    (forall pre c set t mid c' set' t' rest,
        tr = pre ++ FnStart c set t :: mid ++ FnStart c' set' t' :: rest ->
        exists ok set_end, In (FnEnd c ok set_end) mid) /\
    (forall pre c set t rest, tr = pre ++ FnStart c set t :: rest -> c = n_starts pre).
Proof. exact ok_serial_sound. Qed.
Print Assumptions serial_monitor_sound.

(* COMPLETENESS of the whole monitor.  For EVERY timeout and EVERY event list (any producers, waits,
   failures, shutdown, foreign halves), the trace monitor Case_C08.ok — serial part AND the timed walk
   (not-early, exact clean burst, not-late: a call that is not a forced flush starts no later than [timeout]
   after the later of the latest submission and the end of the previous call — so the retry of kept arguments
   after any number of failed calls comes after ONE timeout —, DaemonEnded only in the step of a scripted Shutdown, forced-flush bookkeeping, tie accounting) — accepts the model's own
   trace.  So on any case where the implementation's trace equals the model's trace the monitor cannot
   raise an alarm: a rejection always means that the implementation differs from the model. *)
Theorem monitor_complete :
  forall (T : N) (evs : list event), Case_C08.ok (Case T evs (trace T evs)) = true.
Proof. exact c08_monitor_complete. Qed.
Print Assumptions monitor_complete.

Theorem monitor_implies_serial : forall c, Case_C08.ok c = true -> ok_serial c = true.
Proof. exact ok_implies_serial. Qed.
Print Assumptions monitor_implies_serial.

(* Debounce.  Take ANY reachable state in which the daemon is idle (parked on the
   first q.get() of a round) and nobody is inside wait().  Submit a burst of
   producers whose arguments are immediately available (plain call, map() of a
   list, map() of an iterator incl. one that fails part-way), with fresh ids,
   the first after any delay g0, each further one LESS than [timeout] after its
   predecessor, and then let at least [timeout] pass.  Then nothing at all is
   observed while the burst lasts, and the final Advance shows exactly one call,
   number [callno], whose set is the whole burst, starting exactly [timeout]
   after the last arrival (when the burst carried no argument at all — only
   empty producers — there is no call). *)
Theorem debounce_single_call_at_timeout :
  forall (T : N) (evs : list event) (g0 : N) (p0 : nat) (k0 : pkind) (rest : list item) (d : N),
    (0 < T)%N ->
    let s := final T evs in
    dm s = DIdle -> waiters s = [] ->
    is_imm k0 = true -> existsb (Nat.eqb p0) (seen s) = false ->
    burst_ok T (seen s ++ [p0]) rest -> (T <= d)%N ->
    let b := (g0, p0, k0) :: rest in
    snd (run s (burst_events b ++ [Advance d])) =
    quiet (length (burst_events b)) ++
    [call_obs (callno s) (set_addl (burst_args b) []) (now s + burst_span b + T)].
Proof. exact debounce_reachable. Qed.
Print Assumptions debounce_single_call_at_timeout.

(* Why a call can start at all, for EVERY event list and every next event e:
   a FnStart observed at tick t in the macro step of e lies within that step's
   time span, and
     - either the quiet timer fired: t is at least [timeout] after the latest
       accepted submission (g_lastsub, characterised by lastsub_is_latest_submission),
     - or a flush was forced: some task inside wait(cancel=True) has not
       returned yet, or e itself is such a wait(),
     - or the daemon had been kept waiting by a slow producer after the timer
       fired / after the timed read was cancelled (only possible with
       awaitable / async-iterable producers). *)
Theorem call_start_cause :
  forall (T : N) (evs : list event) (e : event) c set t,
    let s := final T evs in
    In (FnStart c set t) (snd (step s e)) ->
    (now s <= t <= now (fst (step s e)))%N /\
    ((g_lastsub (gh (fst (step s e))) + T <= t)%N \/
     forcedw s \/ (exists w, e = Wait w true) \/ kept_waiting (dm s)).
Proof. exact call_start_cause_lemma. Qed.
Print Assumptions call_start_cause.

(* not_early.  With immediately available producers only (plain / map; any
   Advance, wait(), function outcomes, shutdown): a call that starts without a
   forced flush starts at least [timeout] after the latest submission. *)
Theorem not_early :
  forall (T : N) (evs : list event) (e : event) c set t,
    imm_only (evs ++ [e]) = true ->
    let s := final T evs in
    In (FnStart c set t) (snd (step s e)) ->
    (g_lastsub (gh (fst (step s e))) + T <= t)%N \/
    forcedw s \/ (exists w, e = Wait w true).
Proof. exact not_early_lemma. Qed.
Print Assumptions not_early.

(* The ghost g_lastsub used above is exactly "the instant of the latest accepted
   submission": a step changes it only when the event is a Submit / FPut with an
   unused producer id on a live buffer, and then sets it to the current tick. *)
Theorem lastsub_is_latest_submission :
  forall (T : N) (evs : list event) (e : event),
    let s := final T evs in
    g_lastsub (gh (fst (step s e))) = if accepted_submit s e then now s else g_lastsub (gh s).
Proof. exact lastsub_final. Qed.
Print Assumptions lastsub_is_latest_submission.

(* Behind the timing statements: whenever the quiet timer is armed, its deadline
   is at least [timeout] after the latest submission and at most [timeout] ahead. *)
Theorem armed_deadline_bounds :
  forall (T : N) (evs : list event) d,
    let s := final T evs in
    armed_deadline (dm s) = Some d ->
    (g_lastsub (gh s) + T <= d /\ d <= now s + T)%N /\ tmo s = T.
Proof. exact armed_bounds_final. Qed.
Print Assumptions armed_deadline_bounds.

(* ---- non-vacuity ------------------------------------------------------------- *)

(* a reachable idle state (after a first call has completed) and a burst of three
   producers — a plain call, a two-element list, an iterator failing after one
   element — with gaps 3, 7, 0 below the timeout 8: silence, then one call with
   all four arguments at 30 + 3 + 7 + 0 + 8 = 48 *)
Example debounce_example :
  let evs := [Submit 0 (Plain 9); Advance 30; FnOk] in
  let s := final 8 evs in
  dm s = DIdle /\ waiters s = [] /\ callno s = 1 /\ now s = 30%N /\
  burst_ok 8 (seen s ++ [1]) [(7%N, 2, SyncList [5; 4]); (0%N, 3, SyncIter [6; 1] (Some 1))] /\
  snd (run s (burst_events [(3%N, 1, Plain 7); (7%N, 2, SyncList [5; 4]); (0%N, 3, SyncIter [6; 1] (Some 1))]
              ++ [Advance 8])) =
  [[]; []; []; []; []; []; [FnStart 1 [4; 5; 6; 7] 48%N]].
Proof. vm_compute. repeat split; reflexivity. Qed.

(* the timer case of not_early / call_start_cause *)
Example not_early_timer_example :
  let evs := [Submit 0 (Plain 1); Advance 5; Submit 1 (Plain 2)] in
  imm_only (evs ++ [Advance 20]) = true /\
  snd (step (final 8 evs) (Advance 20)) = [FnStart 0 [1; 2] 13%N] /\
  g_lastsub (gh (fst (step (final 8 evs) (Advance 20)))) = 5%N.
Proof. vm_compute. repeat split; reflexivity. Qed.

(* the forced-flush disjunct is needed: wait(cancel=True) starts the call at once *)
Example forced_flush_example :
  let evs := [Submit 0 (Plain 1); Advance 5] in
  snd (step (final 8 evs) (Wait 0 true)) = [FnStart 0 [1] 5%N] /\
  snd (step (final 8 evs) (Wait 0 false)) = [].
Proof. vm_compute. split; reflexivity. Qed.

(* ... also when the wait() was issued earlier, while the previous call was running *)
Example forced_flush_pending_example :
  let evs := [Submit 0 (Plain 1); Advance 8; Submit 1 (Plain 2); Wait 0 true] in
  snd (step (final 8 evs) FnOk) = [FnEnd 0 true [1]; FnStart 1 [2] 8%N] /\
  exists w, In w (waiters (final 8 evs)) /\ wcancel w = true.
Proof. vm_compute. split; [reflexivity|]. eexists. split; [left; reflexivity|reflexivity]. Qed.

(* the kept-waiting disjunct is needed: the timer fires while an async producer is
   slow, a later submission arrives, the producer ends: the call starts less
   than a timeout after that submission (which stays queued for the next call) *)
Example kept_waiting_example :
  let evs := [Submit 0 Async; PYield 0 1; Advance 9; Submit 1 (Plain 2)] in
  snd (step (final 8 evs) (PEnd 0)) = [FnStart 0 [1] 9%N] /\
  g_lastsub (gh (final 8 evs)) = 9%N /\
  dm (final 8 evs) = DGather [1] [mkprod 0 false false []] GTimedOut.
Proof. vm_compute. repeat split; reflexivity. Qed.

(* serial: a run with a failing call, a retry and an arrival under the running call *)
Example serial_example :
  concat (trace 8 [Submit 0 (Plain 1); Advance 8; Submit 1 (Plain 2); FnFail; Advance 8; FnOk]) =
  [FnStart 0 [1] 8%N; FnEnd 0 false [1]; FnStart 1 [1; 2] 16%N; FnEnd 1 true [1; 2]].
Proof. vm_compute. reflexivity. Qed.

(* the monitor automaton rejects overlapping calls, empty sets, wrong numbers *)
Example serial_rejects :
  serial false 0 [FnStart 0 [1] 8%N; FnStart 1 [2] 9%N] = None /\
  serial false 0 [FnStart 0 [] 8%N] = None /\
  serial false 0 [FnStart 1 [1] 8%N] = None /\
  serial false 0 [FnStart 0 [1] 8%N; FnEnd 0 true [1]; FnStart 1 [2] 9%N] = Some (true, 2).
Proof. vm_compute. repeat split; reflexivity. Qed.

(* the quiet period stays [timeout] after failed calls: kept arguments are offered again one timeout after
   each failure, and a burst arriving after two failures is delivered one timeout after its last arrival *)
Example retry_after_failures :
  trace 8 [Submit 0 (Plain 1); Advance 8; FnFail; Advance 8; FnFail; Advance 3; Submit 1 (Plain 2); Advance 8; FnOk] =
  [[]; [FnStart 0 [1] 8%N]; [FnEnd 0 false [1]]; [FnStart 1 [1] 16%N]; [FnEnd 1 false [1]]; [];
   []; [FnStart 2 [1; 2] 27%N]; [FnEnd 2 true [1; 2]]].
Proof. vm_compute. reflexivity. Qed.

(* ... and the walk part of the monitor rejects a retry that backs off (2 x timeout after the second failure),
   while it accepts the retry after one timeout *)
Example late_retry_rejected :
  let evs := [Submit 0 (Plain 1); Advance 8; FnFail; Advance 8; FnFail; Advance 8; Advance 8; FnOk] in
  ok_walk (Case 8 evs [[]; [FnStart 0 [1] 8%N]; [FnEnd 0 false [1]]; [FnStart 1 [1] 16%N]; [FnEnd 1 false [1]];
                       []; [FnStart 2 [1] 32%N]; [FnEnd 2 true [1]]]) = false /\
  ok_walk (Case 8 evs [[]; [FnStart 0 [1] 8%N]; [FnEnd 0 false [1]]; [FnStart 1 [1] 16%N]; [FnEnd 1 false [1]];
                       [FnStart 2 [1] 24%N]; []; [FnEnd 2 true [1]]]) = true.
Proof. vm_compute. split; reflexivity. Qed.

(* the daemon ends only by a scripted Shutdown: a daemon found ended after a failed call (killed by the failure,
   so that the kept arguments are never offered again) is rejected by the walk *)
Example dead_daemon_rejected :
  ok_walk (Case 8 [Submit 0 (Plain 1); Advance 8; FnFail]
                  [[]; [FnStart 0 [1] 8%N]; [FnEnd 0 false [1]; DaemonEnded]]) = false /\
  ok_walk (Case 8 [Submit 0 (Plain 1); Advance 8; Shutdown]
                  [[]; [FnStart 0 [1] 8%N]; [DaemonEnded]]) = true.
Proof. vm_compute. split; reflexivity. Qed.
