(* C05 — cached calls always terminate, promptly, even if the computing loop dies.
   Theorem statements only; the lemmas live in theories/CacheLive.v (invariant LInv, carried along
   CacheInv.Inv) over the executable model theories/Cache.v — the very model the correspondence
   check replays against the traces of the real code (Case_Cache.agree).

   LEVEL: partial.  "Every call terminates under every fair interleaving" is a liveness statement
   over infinite schedules.  It is decomposed into the safety-shaped theorems below, each
   quantified over ALL accepted event lists (any number of loops, callers, keys, any interleaving
   of the gated primitives, loop life-cycle events, cancellations, failures, clock advances):

     no_lost_wakeup      a waiter never waits for an event that nobody is going to set;
     owner_can_finish    the owner's way to the `finally` block that sets the event contains no wait
                         except for the lock and for the user computation, and that block sets it;
     prompt              once the event is set every waiter's resume step is enabled and the clock
                         cannot move before it is taken (same virtual tick, not +60 s);
     rescue_within_60    a wait lasts at most 61440 ticks (60 s), the clock cannot jump over the
                         deadline, the time-out step is enabled at the deadline, and the next
                         `decide` of a caller that finds a dead computing loop takes the key over;
     no_deadlock         while some call on a live loop is unfinished, some step other than the
                         environment's End / loop life-cycle events is enabled;
     retry_measure       no spinning: retries <= ended invocations + proxy results + closed loops +
                         time-outs, and every time-out costs 61440 ticks;
     bounded_work        the number of library events is bounded by the environment's events;
     maximal_trace_*     a trace after which the library is stuck, with every invocation ended, has
                         every started call on a live loop answered (or a timed wait still running);
     ok_C05_sound        every trace the model accepts satisfies the trace monitor that judges the
                         traces of the real code (no hang, prompt answers, rescue within 60 s).

   run_terminates / fair_run_terminates / fair_prompt (CacheFair.v) then give termination and
   promptness over infinite runs with the environment obligations and fairness as explicit hypotheses.

   ASSUMED (explicit hypotheses of those theorems, not provable about the real system): the
   environment obligations E1 (each invocation on a running loop ends or is cancelled) and E3
   (life-cycle activity is finite), and that the OS scheduler and the clock are weakly fair
   (= the run is infinite, never stuck, and its clock keeps moving).  fair_run_terminates uses the
   standard-library axiom Classical_Prop.classic; every other theorem is axiom-free. *)
From Coq Require Import List Arith NArith Bool.
Import ListNotations.
Require Import Aiuti.Cache Aiuti.CacheLemmas Aiuti.CacheInv Aiuti.CacheLive Aiuti.CacheMon Aiuti.CacheMon5 Aiuti.CacheMon5Spec Aiuti.CacheRetry Aiuti.CacheWork Aiuti.CacheFair.

(* own_ev p = Some e: the caller at pc p created event e in its Decide and has not yet run the
   `finally` block that sets it (pcs PUnlock (DComp e), PInvoke e, PComp _ e, PPublish _ e, PFinLock e _). *)

(* NO LOST WAKE-UP.  In every reachable state, for every caller c that has decided to wait for the
   event e of loop l (still under the lock, about to submit the cross-loop wait, waiting on its own
   loop, or waiting through the proxy on loop l): e is already set, or some OTHER caller d is still
   between its Decide and its Fin for e, i.e. somebody is still going to set it. *)
Theorem no_lost_wakeup :
  forall nloops tbl tr s, run (init nloops tbl) tr = Some s ->
  forall c cr l e, getc s c = Some cr ->
    (cpc cr = PUnlock (DWait l e) \/ cpc cr = PXSub l e \/ (exists dl, cpc cr = PWait e dl)
     \/ (exists dl xd xs, cpc cr = PWaitX l e dl xd xs)) ->
    isset s e = true \/ exists d dr, getc s d = Some dr /\ own_ev (cpc dr) = Some e /\ d <> c.
Proof. exact no_lost_wakeup_run. Qed.
Print Assumptions no_lost_wakeup.

(* THE OWNER CAN FINISH.  (enabled s ev := exists s', step s ev = Some s'.)
   In every reachable state, for the owner d of an event e on a loop that is running or being shut
   down, the next step of d's program is accepted by the model unless d is waiting for the lock or
   for its own invocation of the user function:
     leaving the with-block (Rel), entering the user function (IStart), storing the result (SetC)
     are enabled outright; the `finally` block (Acq at PFinLock) is enabled as soon as the lock is
     free; while the user function runs (PComp) the environment may end it: as cancelled when d
     was cancelled (even if its loop stopped meanwhile: invocation status IAband), with a result or
     an exception when d is uncancelled on a loop that never stopped.
   So on the owner's way Decide -> Fin there is no wait on anything but the lock and the user
   computation.  And Fin does what no_lost_wakeup promises: the accepted Acq at PFinLock e o sets e
   (under the lock) and moves d to PFinUnlock o. *)
Theorem owner_can_finish :
  forall nloops tbl tr s, run (init nloops tbl) tr = Some s ->
  forall d dr e, getc s d = Some dr -> own_ev (cpc dr) = Some e -> alive (lp s (cloop dr)) = true ->
    match cpc dr with
    | PUnlock (DComp _) => enabled s (Rel (cloop dr) d)
    | PInvoke _ => enabled s (IStart (length (invs s)) d (now s))
    | PComp i _ =>
        if ccanc dr then enabled s (IEnd i 2 (now s))
        else lp s (cloop dr) = LRun -> enabled s (IEnd i 0 (now s)) /\ enabled s (IEnd i 1 (now s))
    | PPublish _ _ => enabled s (SetC (cloop dr) d)
    | PFinLock _ _ => lock s = None -> enabled s (Acq (cloop dr) d)
    | _ => True
    end
    /\ (forall o s', cpc dr = PFinLock e o -> step s (Acq (cloop dr) d) = Some s' ->
          isset s' e = true /\ exists dr', getc s' d = Some dr' /\ cpc dr' = PFinUnlock o).
Proof. exact owner_can_finish_run. Qed.
Print Assumptions owner_can_finish.

(* PROMPT.  In every reachable state s:
   (a) time cannot pass over a wake-up: if the clock event Adv t is accepted then the lock is free
       and every caller on a RUNNING loop is parked (PStart, PDone, an uncancelled computation, or
       an uncancelled wait) and, if it waits, its event is NOT set (for a cross-loop wait: not set
       or the computing loop is dead, and the proxy has not finished) and its deadline is ahead;
       every caller on a loop in its SHUTDOWN run is unstarted or done (a started, unfinished call
       on such a loop always stops the clock: the shutdown run cancels and finishes it at once);
   (b) the wake-up steps are enabled and cost no time: for an uncancelled caller c on a running
       loop, waiting on its own loop for an event that is set, Get (the wait returning and the
       re-probe) is accepted; waiting across loops for an event that is set on a live loop l, the
       proxy completion on l followed by Get is accepted; with a finished proxy Get is accepted;
       the clock reads the same afterwards.
   Together: after Fin has set the event, every waiter on a running loop resumes in the same
   virtual tick — not after the 60 s safety time-out. *)
Theorem prompt :
  forall nloops tbl tr s, run (init nloops tbl) tr = Some s ->
  (forall t s', step s (Adv t) = Some s' ->
     lock s = None /\ (now s <= t)%N /\
     forall c cr, getc s c = Some cr ->
       (lp s (cloop cr) = LShut -> done_or_unstarted (cpc cr) = true)
       /\ (lp s (cloop cr) = LRun ->
           suspended (cpc cr) = true
           /\ (forall i e, cpc cr = PComp i e -> ccanc cr = false)
           /\ (forall e dl, cpc cr = PWait e dl ->
                 ccanc cr = false /\ isset s e = false /\ (now s < dl)%N /\ (t <= dl)%N)
           /\ (forall l e dl xd xs, cpc cr = PWaitX l e dl xd xs ->
                 ccanc cr = false /\ xd = None /\ (isset s e = false \/ alive (lp s l) = false)
                 /\ (now s < dl)%N /\ (t <= dl)%N)))
  /\ (forall c cr, getc s c = Some cr -> ccanc cr = false -> lp s (cloop cr) = LRun ->
        (forall e dl, cpc cr = PWait e dl -> isset s e = true ->
           exists s1, step s (Get (cloop cr) c) = Some s1 /\ now s1 = now s)
        /\ (forall l e dl xs, cpc cr = PWaitX l e dl None xs -> isset s e = true -> alive (lp s l) = true ->
              exists s2, run s [Proxy l c 0; Get (cloop cr) c] = Some s2 /\ now s2 = now s)
        /\ (forall l e dl r xs, cpc cr = PWaitX l e dl (Some r) xs ->
              exists s1, step s (Get (cloop cr) c) = Some s1 /\ now s1 = now s)).
Proof. exact prompt_run. Qed.
Print Assumptions prompt.

(* RESCUE WITHIN 60 s.  In every reachable state s, for every caller c:
   (a) if c waits with deadline dl then dl <= now + 61440 ticks (the deadline is the tick at which
       the wait began + 60 s, and the clock only grows); if c is uncancelled on a running loop and
       the deadline has come, the time-out step Get (next round of the while-loop) is accepted; and
       the clock can never jump over the deadline of a waiter on a live loop;
   (b) the dead-loop rule: when c, under the lock, reads the marker of its key and there is none
       or its loop is neither running nor being shut down, the step is accepted and c takes the
       key over: it owns a fresh unset event, the marker names c's loop, c goes on to compute;
   (c) a cross-loop wait submitted to a closed loop fails at once and c re-probes (RuntimeError path). *)
Theorem rescue_within_60 :
  forall nloops tbl tr s, run (init nloops tbl) tr = Some s ->
  forall c cr, getc s c = Some cr ->
  (forall dl, ((exists e, cpc cr = PWait e dl) \/ (exists l e xd xs, cpc cr = PWaitX l e dl xd xs)) ->
     (dl <= now s + SAFETY)%N
     /\ (ccanc cr = false -> lp s (cloop cr) = LRun -> (dl <= now s)%N ->
         exists s1, step s (Get (cloop cr) c) = Some s1 /\ now s1 = now s)
     /\ (alive (lp s (cloop cr)) = true -> forall t s', step s (Adv t) = Some s' -> (t <= dl)%N))
  /\ (lp s (cloop cr) = LRun -> cpc cr = PMiss2 ->
      (marker_at s (ckey cr) = None
       \/ exists l e, marker_at s (ckey cr) = Some (l, e) /\ alive (lp s l) = false) ->
      exists s1 cr1, step s (Miss (cloop cr) c) = Some s1 /\ getc s1 c = Some cr1
                     /\ cpc cr1 = PUnlock (DComp (length (evset s)))
                     /\ marker_at s1 (ckey cr) = Some (cloop cr, length (evset s))
                     /\ isset s1 (length (evset s)) = false)
  /\ (forall l e, lp s (cloop cr) = LRun -> cpc cr = PXSub l e -> lp s l = LClosed ->
      step s (XSub (cloop cr) c) = Some (set_pc s c cr PProbe)).
Proof. exact rescue_within_60_run. Qed.
Print Assumptions rescue_within_60.

(* NO DEADLOCK.  In every reachable state in which some caller on a loop that is running or being
   shut down has started and not finished its call (pc neither PStart nor PDone), the model accepts
   a PROGRESS event: a gated step of some thread (Get Miss Acq Rel SetC XSub), the start or the end
   of an invocation of the user function (IStart / IEnd — "each invocation finishes or is
   cancelled" is the property's assumption), a call completing (Done), a proxy wait completing
   (Proxy), a clock advance to a STRICTLY later tick (Adv t with now < t: nothing else can move and
   t is the earliest deadline of a waiter on a live loop), or — only for a loop in its shutdown run
   (LShut) — the shutdown cancelling a not yet cancelled task parked on that loop (Cancel).
   Never counted: End, loop life-cycle events, a cancellation on a running loop, a clock event that
   does not move the clock.  This is CacheLive.progress_event.
   Deviation from DESIGN 5.5 (kept visible): DESIGN lists "a thread step, an environment completion
   of an Active invocation, or an Advance"; the statement without the Cancel clause is FALSE of the
   model: an uncancelled computation or wait parked on a loop in its shutdown run stops the clock
   (Cache.blocked is false for every started, unfinished call on an LShut loop) and, since Get and
   IEnd 0/1 need a running loop / an uncancelled caller, can only be moved by the shutdown's own
   cancellation of its task — which is what asyncio's shutdown run does
   (Example c05_shutdown_needs_cancel). *)
Theorem no_deadlock :
  forall nloops tbl tr s, run (init nloops tbl) tr = Some s ->
  forall c cr, getc s c = Some cr -> alive (lp s (cloop cr)) = true ->
    done_or_unstarted (cpc cr) = false ->
    exists e s', step s e = Some s' /\ progress_event s e = true.
Proof. exact no_deadlock_run. Qed.
Print Assumptions no_deadlock.

(* NO SPINNING (retry_measure).  A *retry* of caller c is a further round of its `while True` loop:
   an accepted `Get _ c` at pc PProbe (back from run_coroutine_threadsafe on a closed loop), PWait or
   PWaitX (woken, proxy answered, or timed out); the counters are computed along the run from the
   pre-state of each accepted event (CacheRetry.count_run; no change to the model).  Along EVERY
   accepted event list the number of retries of c is at most
     (invocations ended so far) + (proxy results delivered to c) + (loops closed) + (c's time-outs)
   and every time-out of c is paid for by 61440 ticks of virtual time:  time-outs * 61440 <= now.
   So a caller cannot go round the loop without an invocation ending, a proxy answering, a loop
   being closed, or 60 virtual seconds passing. *)
Theorem retry_measure :
  forall n tbl tr s c, run (init n tbl) tr = Some s ->
    retries c (init n tbl) tr <= n_iend tr + n_proxy c tr + n_close tr + timeouts c (init n tbl) tr
    /\ (N.of_nat (timeouts c (init n tbl) tr) * SAFETY <= now s)%N.
Proof. exact CacheRetry.retry_measure. Qed.
Print Assumptions retry_measure.

(* BOUNDED WORK.  Library events = Get Miss Acq Rel SetC XSub IStart Done and a proxy wait answering
   True (Proxy _ _ 0); environment events = IEnd, Cancel, LoopEv, Adv, End and a proxy wait being
   cancelled by its loop's shutdown (Proxy _ _ 1/2).  In EVERY accepted trace the number of library
   events (n_lib) is bounded by the number of callers and the environment's events:
     n_lib <= 11 * callers + 8 * (callers * (#IEnd + #loops closed) + #cancelled proxies + time-outs)
   and every time-out of a caller is paid for by 61440 ticks of the clock.  (11 = a first round
   including the computing path, 8 = one further round of the while-loop.)  So the library can take
   only finitely many steps between two environment events: it cannot spin. *)
Theorem bounded_work :
  forall n tbl tr s, run (init n tbl) tr = Some s ->
    n_lib tr <= length tbl * 11
                + 8 * (length tbl * (n_iend tr + n_close tr) + n_proxy_cancel_all tr + total_timeouts n tbl tr)
    /\ (forall c, (N.of_nat (timeouts c (init n tbl) tr) * SAFETY <= now s)%N).
Proof. exact CacheWork.bounded_work. Qed.
Print Assumptions bounded_work.

(* MAXIMAL TRACES.  Take any accepted finite trace after which the library is stuck (no library
   event and no proxy result is accepted), in which the environment has ended every invocation it
   started (no IEnd is accepted) and no shutdown run is half-way.  Then every call on a live loop
   that was started is answered — or it sits in a timed wait whose deadline lies ahead, and the
   clock can move towards it (so the trace is not maximal for the clock).  With bounded_work and
   no_deadlock this is the termination argument; what is left on paper is only "a fair scheduler
   (and a clock that keeps running) produces such a maximal trace".
   (The variant with the hypothesis "Adv is not accepted" would be vacuous: once everybody is
   answered the model always lets the clock run.) *)
Theorem maximal_trace_done_or_timer :
  forall n tbl tr s, run (init n tbl) tr = Some s ->
    (forall e, lib_or_proxy e = true -> step s e = None) ->
    (forall i r t, step s (IEnd i r t) = None) ->
    (forall t, lp s t <> LShut) ->
    forall c cr, getc s c = Some cr -> alive (lp s (cloop cr)) = true ->
      done_or_unstarted (cpc cr) = true
      \/ exists dl t s', waits_until cr dl /\ (now s < t)%N /\ (t <= dl)%N /\ step s (Adv t) = Some s'.
Proof. exact CacheWork.maximal_trace_done_or_timer. Qed.
Print Assumptions maximal_trace_done_or_timer.

(* ... and if moreover no caller on a running loop is inside a timed wait, every started call on a
   live loop is answered. *)
Theorem maximal_trace_all_done :
  forall n tbl tr s, run (init n tbl) tr = Some s ->
    (forall e, lib_or_proxy e = true -> step s e = None) ->
    (forall i r t, step s (IEnd i r t) = None) ->
    (forall t, lp s t <> LShut) ->
    (forall c cr, getc s c = Some cr -> lp s (cloop cr) = LRun -> dl_of (cpc cr) = None) ->
    forall c cr, getc s c = Some cr -> alive (lp s (cloop cr)) = true -> done_or_unstarted (cpc cr) = true.
Proof. exact CacheWork.maximal_trace_all_done. Qed.
Print Assumptions maximal_trace_all_done.

(* FINITE WORK, THEN DONE — the closest statement to the property's "every call finishes".
   Split any accepted trace as tr1 ++ tr2 where tr2 is a stretch in which only the library moves
   (no IEnd, Cancel, loop event, clock move, cancelled proxy).  Then
   (1) that stretch is SHORT: the library events of tr1 plus the whole length of tr2 are bounded by
       the number of callers and the environment's events in tr1 (+ time-outs, each paid for by
       61440 ticks of the clock): the library cannot go on for ever on its own;
   (2) and when the stretch cannot be extended (no library event / proxy result is accepted any
       more), the environment has ended every invocation and no shutdown run is half-way, then every
       call on a live loop that was started is answered, or it sits in a timed wait whose deadline is
       ahead and towards which the clock can move.
   So between two moves of the environment the library does a bounded amount of work and is never
   stuck with an unanswered call; only "the scheduler is fair and the clock keeps running" is left. *)
Theorem finite_work_then_done :
  forall n tbl tr1 tr2 s, run (init n tbl) (tr1 ++ tr2) = Some s ->
    (forall e, In e tr2 -> lib_event e = true) ->
    n_lib tr1 + length tr2 <=
      length tbl * 11 + 8 * (length tbl * (n_iend tr1 + n_close tr1) + n_proxy_cancel_all tr1
                             + total_timeouts n tbl (tr1 ++ tr2))
    /\ (forall c, (N.of_nat (timeouts c (init n tbl) (tr1 ++ tr2)) * SAFETY <= now s)%N)
    /\ ((forall e, lib_or_proxy e = true -> step s e = None) ->
        (forall i r t, step s (IEnd i r t) = None) ->
        (forall t, lp s t <> LShut) ->
        forall c cr, getc s c = Some cr -> alive (lp s (cloop cr)) = true ->
          done_or_unstarted (cpc cr) = true
          \/ exists dl t s', waits_until cr dl /\ (now s < t)%N /\ (t <= dl)%N /\ step s (Adv t) = Some s').
Proof. exact CacheWork.finite_work_then_done. Qed.
Print Assumptions finite_work_then_done.

(* TERMINATION OVER INFINITE RUNS (CacheFair.v).  A run is r : nat -> ev; accepted_run says every
   finite prefix is accepted by the model (so the run never gets stuck and never ends: finite stuck
   runs are covered by maximal_trace_* above); st nl tbl r n is the state after n events.
   Environment obligations, as the property states them:
     E1  every invocation that is active at some position (started, its loop never stopped) is no
         longer active at a later position (it returned, raised, was cancelled, or its loop stopped);
     E2  the clock diverges (for every T it eventually shows at least T);
     E3  life-cycle activity is finite: from some position on there is no Cancel, no loop event and no
         proxy cancelled by a shutdown, and at that position no loop is in its shutdown run.
   THEOREM (constructive, no axiom): in every such run, every call that has started and whose loop is
   running at every position is eventually answered (PDone o: a value, its own exception or its own
   cancellation by outcome_trichotomy of C06).
   Library fairness does not appear as a hypothesis: in this model the clock is urgent (Adv is only
   accepted when no library step is pending), so "the run is infinite and its clock diverges" already
   forces every pending library step to be taken; an unfair scheduler can only produce a finite stuck
   run or a run whose clock stops, and both are excluded by the hypotheses. *)
Theorem run_terminates :
  forall nl tbl r, accepted_run nl tbl r -> fair_env nl tbl r ->
  forall c n0 cr0, getc (st nl tbl r n0) c = Some cr0 -> cpc cr0 <> PStart ->
    (forall n cr, getc (st nl tbl r n) c = Some cr -> lp (st nl tbl r n) (cloop cr) = LRun) ->
    exists m cr o, getc (st nl tbl r m) c = Some cr /\ cpc cr = PDone o.
Proof. exact CacheFair.run_terminates. Qed.
Print Assumptions run_terminates.

(* The same with the clock obligation weakened to WEAK FAIRNESS OF THE CLOCK (fair_env_weak: if from
   some position on a strictly later Adv is enabled whenever the clock is below T, then the clock
   reaches T) and with weak fairness of the library per caller as an explicit hypothesis
   (lib_weak_fair: a caller that continuously has an enabled library step eventually takes one;
   the proof does not need it, see above).  Divergence of the clock is DERIVED (bounded_work: only
   finitely many library events fit between environment events, #IEnd <= #callers).
   This theorem uses the standard-library axiom Classical_Prop.classic (excluded middle) — the only
   axiom in this file, listed in ALLOWED_AXIOMS / TRUSTED of harness/props/C05.py — to negate "the
   clock reaches T" and for "a bounded monotone sequence of naturals is eventually constant".
   What remains ASSUMED about the real system: the environment obligations E1, E3, and that the OS
   scheduler and the clock are (weakly) fair. *)
Theorem fair_run_terminates :
  forall nl tbl r, accepted_run nl tbl r -> fair_env_weak nl tbl r -> lib_weak_fair nl tbl r ->
  forall c n0 cr0, getc (st nl tbl r n0) c = Some cr0 -> cpc cr0 <> PStart ->
    (forall n cr, getc (st nl tbl r n) c = Some cr -> lp (st nl tbl r n) (cloop cr) = LRun) ->
    exists m cr o, getc (st nl tbl r m) c = Some cr /\ cpc cr = PDone o.
Proof. exact CacheFair.fair_run_terminates. Qed.
Print Assumptions fair_run_terminates.

(* PROMPTNESS AS AN EVENTUALITY BOUNDED IN VIRTUAL TIME (constructive).  In an accepted infinite run
   whose clock diverges: a waiter whose wait is over at position n (same loop: its event is set;
   cross loop: its proxy has answered, or the event is set and the computing loop is alive), whose
   own loop is running at every position (and, for a cross-loop wait, whose computing loop stays
   alive), resumes (Get) — or is answered Cancelled if it was cancelled meanwhile — at a position
   m >= n at which the clock still shows the same tick: "as soon as the computation ends rather than
   after the 60-second safety timeout". *)
Theorem fair_prompt :
  forall nl tbl r, accepted_run nl tbl r ->
  (forall n T, exists m, n <= m /\ (T <= now (st nl tbl r m))%N) ->
  forall n c cr, getc (st nl tbl r n) c = Some cr -> urgent (st nl tbl r n) cr ->
    (forall m cr', getc (st nl tbl r m) c = Some cr' -> lp (st nl tbl r m) (cloop cr') = LRun) ->
    (forall l e dl xd xs, cpc cr = PWaitX l e dl xd xs -> forall m, alive (lp (st nl tbl r m) l) = true) ->
    exists m, n <= m /\ now (st nl tbl r m) = now (st nl tbl r n) /\ resume_ev c (r m) = true.
Proof. exact CacheFair.fair_prompt. Qed.
Print Assumptions fair_prompt.

(* non-vacuity: the two-loop run of c05_trace (without its End) followed by Adv 1, Adv 2, ... for ever
   is accepted at every prefix, satisfies fair_env(_weak) and lib_weak_fair, both callers start *)
Example fair_hypotheses_satisfiable :
  accepted_run 2 demo_tbl demo_run /\ fair_env_weak 2 demo_tbl demo_run /\ lib_weak_fair 2 demo_tbl demo_run
  /\ (exists cr0, getc (st 2 demo_tbl demo_run 1) 0 = Some cr0 /\ cpc cr0 <> PStart)
  /\ (exists cr1, getc (st 2 demo_tbl demo_run 8) 1 = Some cr1 /\ cpc cr1 <> PStart).
Proof. exact demo_hypotheses. Qed.

(* MONITOR SOUNDNESS.  The trace monitor ok_C05 that the check evaluates on every trace observed
   from the real code — the run ends with End 0 (no deadlock, no step bound = spinning, no hang);
   when a loop's shutdown run is over every started call of that loop has been answered; and
   whenever the clock moves, every started, unanswered, uncancelled call c of key k on a loop that
   never stopped running is accounted for: either no invocation of k has succeeded yet and one is
   in progress on a running loop (c is legitimately waiting for it or performing it: "prompt" — a
   waiter is answered in the very tick in which the computation ends, a failed computation is
   followed by a recomputation in the same tick, nobody waits for nothing), or some loop that
   hosted an invocation of k stopped running at tick d and the clock does not pass
   max(first tick of c, d) + 61440 (c may be stuck behind the dead loop, but only for the 60 s
   safety window: "rescue") — accepts every trace the model can produce. *)
Theorem ok_C05_sound :
  forall nloops tbl tr, accepts nloops tbl tr = true -> ok_C05 nloops tbl tr = true.
Proof. exact ok_C05_sound_l. Qed.
Print Assumptions ok_C05_sound.

(* CONVERSE direction: what "the monitor accepted a trace" means for that trace ALONE (no model).
   The check evaluates ok_C05 on the trace observed from the REAL code, so every accepted
   implementation trace satisfies the following.  Trace-only vocabulary (CacheMon5Spec.v):
     clock pre            tick of the last Adv in pre (0 if none);
     pending tbl n pre c  c was started in pre (a Get of c), has no Done and no Cancel in pre, and its
                          loop (a valid loop index) has no life-cycle event in pre (never stopped);
     in_flight tbl pre k  some IStart i c' of key k in pre has no IEnd after it and the loop of c' has
                          no life-cycle event in pre (an invocation of k is in progress on a running loop);
     succeeded tbl pre k  some invocation of key k (key of its latest IStart) has its IEnd i 0 in pre;
     first_tick pre c t1  t1 is the clock just before c's first Get;
     host_died tbl pre k d   some loop that hosted an invocation of k stopped running or finished its
                          shutdown run, for the last time when the clock showed d.

   The run ended with "every thread finished": no deadlock, no step bound (spinning), no hang. *)
Theorem ok_C05_implies_ends_with_End0 :
  forall n tbl tr, ok_C05 n tbl tr = true ->
  (exists pre, tr = pre ++ [End 0] /\ (forall r, ~ In (End r) pre)) /\ (forall b, ~ In (Bad b) tr).
Proof. exact (fun n tbl tr H => conj (ok_C05_ends_with_End0 n tbl tr H) (ok_C05_no_bad n tbl tr H)). Qed.
Print Assumptions ok_C05_implies_ends_with_End0.

(* When a loop's shutdown run is over, every call of that loop that had started has been answered. *)
Theorem ok_C05_implies_shutdown_answers :
  forall n tbl tr, ok_C05 n tbl tr = true ->
  forall pre t post, tr = pre ++ LoopEv t 2 :: post ->
  forall t0 c, In (Get t0 c) pre -> tbl_loop tbl c = t -> exists k p tk, In (Done c k p tk) pre.
Proof. exact ok_C05_shutdown_answers. Qed.
Print Assumptions ok_C05_implies_shutdown_answers.

(* PROMPT.  While no loop that hosted the key has stopped, the clock can only move past a pending
   call if no invocation of its key has succeeded yet and one is genuinely in progress on a running
   loop.  Hence a waiter is answered in the very tick in which the computation ends (the next Adv
   would otherwise find it pending with the key succeeded / nothing in flight), a failed or cancelled
   computation is followed by a recomputation in the same tick, and nobody waits for nothing — never
   "after the 60-second safety timeout". *)
Theorem ok_C05_implies_prompt :
  forall n tbl tr, ok_C05 n tbl tr = true ->
  forall pre tick post, tr = pre ++ Adv tick :: post ->
  forall c, pending tbl n pre c ->
    (forall i c' t', In (IStart i c' t') pre -> tbl_key tbl c' = tbl_key tbl c ->
       ~ In (LoopEv (tbl_loop tbl c') 0) pre /\ ~ In (LoopEv (tbl_loop tbl c') 2) pre) ->
    ~ succeeded tbl pre (tbl_key tbl c) /\ in_flight tbl pre (tbl_key tbl c).
Proof. exact ok_C05_prompt. Qed.
Print Assumptions ok_C05_implies_prompt.

(* RESCUE.  A pending call on a running loop with nothing of its key in progress on a running loop
   (or whose key has already succeeded) is only possible behind a dead computing loop, and then the
   clock is at most 61440 ticks (60 s) past the later of the call's own first tick and the last
   death of a loop that hosted its key: callers recover within the safety window instead of
   waiting or spinning for ever. *)
Theorem ok_C05_implies_rescue :
  forall n tbl tr, ok_C05 n tbl tr = true ->
  forall pre tick post, tr = pre ++ Adv tick :: post ->
  forall c, pending tbl n pre c ->
    (~ in_flight tbl pre (tbl_key tbl c) \/ succeeded tbl pre (tbl_key tbl c)) ->
    exists t1 d, first_tick pre c t1 /\ host_died tbl pre (tbl_key tbl c) d
                 /\ (tick <= N.max t1 d + 61440)%N.
Proof. exact ok_C05_rescue. Qed.
Print Assumptions ok_C05_implies_rescue.

(* the monitor is not trivially true: it rejects a run that ends in a deadlock, a waiter that is
   answered only at the 60 s timeout although the computation on a running loop ended at tick 5
   (lost wake-up), and a waiter that is still waiting behind a dead loop after the safety window *)
Example ok_C05_rejects :
  ok_C05 1 [(0,0)] [Get 0 0; End 1] = false
  /\ ok_C05 2 [(0,0); (1,0)]
        [Get 0 0; IStart 0 0 0%N; Get 1 1; Adv 5%N; IEnd 0 0 5%N; Done 0 0 0 5%N;
         Adv 61440%N; Get 1 1; Done 1 0 0 61440%N; LoopEv 0 0; LoopEv 1 0; End 0] = false
  /\ ok_C05 2 [(0,0); (1,0)]
        [Get 0 0; IStart 0 0 0%N; Get 1 1; LoopEv 0 0; Adv 61440%N; Adv 61441%N] = false
  /\ ok_C05 2 [(0,0); (1,0)]
        [Get 0 0; IStart 0 0 0%N; Get 1 1; Adv 5%N; IEnd 0 0 5%N; Done 0 0 0 5%N; Done 1 0 0 5%N;
         LoopEv 0 0; LoopEv 1 0; End 0] = true.
Proof. vm_compute. repeat split; reflexivity. Qed.

(* ---- non-vacuity ---- *)
Definition c05_trace : list ev :=
  [Get 0 0; Miss 0 0; Acq 0 0; Get 0 0; Miss 0 0; Rel 0 0; IStart 0 0 0%N;
   Get 1 1; Miss 1 1; Acq 1 1; Get 1 1; Miss 1 1; Rel 1 1; XSub 1 1; Adv 5%N;
   IEnd 0 0 5%N; SetC 0 0; Acq 0 0; Rel 0 0; Done 0 0 0 5%N; Proxy 0 1 0; Get 1 1; Done 1 0 0 5%N;
   LoopEv 0 0; LoopEv 1 0; End 0].

(* the whole run (caller 0 computes key 0 on loop 0, caller 1 waits for it from loop 1) is accepted *)
Example c05_trace_accepted : accepts 2 [(0,0); (1,0)] c05_trace = true.
Proof. vm_compute. reflexivity. Qed.

(* after caller 0's Fin: a cross-loop waiter whose event is set, on live loops — the hypotheses of
   no_lost_wakeup and of prompt (b) are satisfiable, and the wake-up happens in tick 5 *)
Example c05_waiter_with_set_event :
  exists s cr, run (init 2 [(0,0); (1,0)]) (firstn 18 c05_trace) = Some s
    /\ getc s 1 = Some cr /\ cpc cr = PWaitX 0 0 61440%N None true /\ ccanc cr = false
    /\ isset s 0 = true /\ lp s 1 = LRun /\ alive (lp s 0) = true /\ now s = 5%N
    /\ exists s2, run s [Rel 0 0; Proxy 0 1 0; Get 1 1] = Some s2 /\ now s2 = 5%N.
Proof. eexists. eexists. split; [vm_compute; reflexivity|]. vm_compute. repeat split. eexists. split; reflexivity. Qed.

(* before the computation ends: the waiter's event is unset and owned by caller 0 (the right-hand
   alternative of no_lost_wakeup), and the clock event is accepted (hypothesis of prompt (a)) *)
Example c05_adv_enabled :
  exists s cr0 s', run (init 2 [(0,0); (1,0)]) (firstn 14 c05_trace) = Some s
    /\ isset s 0 = false /\ getc s 0 = Some cr0 /\ own_ev (cpc cr0) = Some 0
    /\ step s (Adv 5%N) = Some s'.
Proof. eexists. eexists. eexists. split; [vm_compute; reflexivity|]. vm_compute. repeat split. Qed.

(* the owner on its way to Fin (hypothesis of owner_can_finish), and a state in which the only
   progress event is the clock (hypothesis and the Adv alternative of no_deadlock) *)
Example c05_owner_midway :
  exists s cr0, run (init 2 [(0,0); (1,0)]) (firstn 16 c05_trace) = Some s
    /\ getc s 0 = Some cr0 /\ cpc cr0 = PPublish 0 0 /\ lp s 0 = LRun /\ isset s 0 = false.
Proof. eexists. eexists. split; [vm_compute; reflexivity|]. vm_compute. repeat split. Qed.

(* the computing loop 0 stops mid-computation: nothing can move but the clock, which is accepted
   up to the waiter's deadline (the Adv alternative of no_deadlock, rescue_within_60 (a)); at the
   deadline caller 1 times out, re-probes, and its Decide finds loop 0 dead and takes the key over
   with the fresh event 1 (rescue_within_60 (b)) *)
Example c05_rescue_after_loop_death :
  exists s s1 cr1,
    run (init 2 [(0,0); (1,0)])
        [Get 0 0; Miss 0 0; Acq 0 0; Get 0 0; Miss 0 0; Rel 0 0; IStart 0 0 0%N;
         Get 1 1; Miss 1 1; Acq 1 1; Get 1 1; Miss 1 1; Rel 1 1; XSub 1 1; LoopEv 0 0] = Some s
    /\ progress_event s (Adv 61440%N) = true /\ step s (Adv 61441%N) = None
    /\ run s [Adv 61440%N; Get 1 1; Miss 1 1; Acq 1 1; Get 1 1; Miss 1 1] = Some s1
    /\ getc s1 1 = Some cr1 /\ cpc cr1 = PUnlock (DComp 1) /\ marker_at s1 0 = Some (1, 1)
    /\ now s1 = 61440%N.
Proof.
  eexists. eexists. eexists. split; [vm_compute; reflexivity|]. vm_compute. repeat split.
Qed.

(* why no_deadlock counts the shutdown's Cancel: callers 0 and 1 share loop 0; the loop stops and
   enters its shutdown run while 0 computes and 1 waits; 0 is cancelled and its Fin sets the event.
   Now the uncancelled waiter 1 is parked on a loop that is no longer running with its event set:
   the clock refuses to move, the wait cannot return (Get needs a running loop), the call cannot
   end — the one thing the model accepts for caller 1 is the shutdown cancelling its task. *)
Example c05_shutdown_needs_cancel :
  exists s, run (init 1 [(0,0); (0,0)])
                [Get 0 0; Miss 0 0; Acq 0 0; Get 0 0; Miss 0 0; Rel 0 0; IStart 0 0 0%N;
                 Get 0 1; Miss 0 1; Acq 0 1; Get 0 1; Miss 0 1; Rel 0 1; LoopEv 0 0; LoopEv 0 1;
                 Cancel 0 0%N; IEnd 0 2 0%N; Acq 0 0; Rel 0 0; Done 0 2 0 0%N] = Some s
    /\ (forall t, step s (Adv t) = None) /\ (forall t, step s (Get t 1) = None)
    /\ (forall k p t, step s (Done 1 k p t) = None) /\ (forall t r, step s (Proxy t 1 r) = None)
    /\ exists s', step s (Cancel 1 0%N) = Some s' /\ progress_event s (Cancel 1 0%N) = true.
Proof.
  eexists. split; [vm_compute; reflexivity|]. repeat split.
  - intros t. unfold step, guard, quiescent; simpl. destruct (0 <=? t)%N; reflexivity.
  - intros [|t]; reflexivity.
  - intros k p t. unfold step; simpl. destruct (t =? 0)%N; reflexivity.
  - eexists. split; vm_compute; reflexivity.
Qed.
