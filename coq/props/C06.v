(* C06 — threadsafe_async_cache: a caller sees only its own outcome; failures and cancellations are
   neither cached nor shared.  Theorem statements only; the lemmas live in theories/CacheOut.v
   (invariant Out + simulation with the trace monitor) on top of theories/CacheInv.v, all over the
   executable model theories/Cache.v — the very model the correspondence check runs against the
   traces of the real code (Case_Cache.agree) — and the trace monitor CacheMon.ok_C06 that the
   harness evaluates on the traces of the real code.

   Reading aid.  Values are invocation ids ([cache_at s k = Some i]: the result of invocation i is
   cached under k).  A caller record cr has a key [ckey cr], a program counter [cpc cr]
   ([PDone o]: the call has ended with outcome o = ORet v | OExc i | OCanc) and a flag [ccanc cr]
   that is set by exactly one transition: the environment event [Cancel c].  An invocation record
   has the key, the caller that performed it and a status IActive | IAband | IOk | IExc | ICanc. *)
From Coq Require Import List Arith NArith Bool.
Import ListNotations.
Require Import Aiuti.Cache Aiuti.CacheLemmas Aiuti.CacheInv Aiuti.CacheMon Aiuti.CacheOut.
Require Import Aiuti.CacheMonSpec Aiuti.CacheUnfixed.

(* For EVERY event list the model accepts (any number of loops, callers, keys, any interleaving,
   any loop life cycle, cancellations, failures, clock advances) and every caller c whose call has
   ended with outcome o, exactly one of three things holds:
     ORet v : v is an invocation of the wrapped function that ended successfully and was made for
              this caller's key (the cached/computed value of its key);
     OExc i : i is an invocation that THIS VERY caller performed and that raised;
     OCanc  : the environment cancelled this caller's own task.
   There is no fourth kind of outcome in the model (see no_lib_exc below for the trace view). *)
Theorem outcome_trichotomy :
  forall nloops tbl tr s, run (init nloops tbl) tr = Some s ->
  forall c cr o, getc s c = Some cr -> cpc cr = PDone o ->
    match o with
    | ORet v => exists ir, nth_error (invs s) v = Some ir /\ istat ir = IOk /\ ikey ir = ckey cr
    | OExc i => exists ir, nth_error (invs s) i = Some ir /\ icaller ir = c /\ istat ir = IExc
    | OCanc => ccanc cr = true
    end.
Proof. exact outcome_trichotomy_l. Qed.
Print Assumptions outcome_trichotomy.

(* In any state whatsoever, an enabled "call ends" event has kind 0 (Ret), 1 (UserExc) or
   2 (Cancelled); kind 3 (LibExc: KeyError from the bookkeeping, RuntimeError of a closed loop,
   a foreign CancelledError ...) is never enabled. *)
Theorem no_lib_exc :
  forall s c kind p t s', step s (Done c kind p t) = Some s' -> kind <= 2.
Proof. exact no_lib_exc_l. Qed.
Print Assumptions no_lib_exc.

(* A caller whose call has ended cannot end a second time ... *)
Theorem done_once :
  forall s c cr o kind p t, getc s c = Some cr -> cpc cr = PDone o -> step s (Done c kind p t) = None.
Proof. exact done_once_l. Qed.
Print Assumptions done_once.

(* ... and its outcome is never replaced, whatever happens afterwards. *)
Theorem outcome_final :
  forall tr s s' c cr o, run s tr = Some s' -> getc s c = Some cr -> cpc cr = PDone o ->
  exists cr', getc s' c = Some cr' /\ cpc cr' = PDone o.
Proof. exact outcome_final_l. Qed.
Print Assumptions outcome_final.

(* Failures are not cached.  From every reachable state: if a step changes the cache entry of a
   key k at all, the step is the cache store (SetC) of some caller, and the new entry is an
   invocation for key k that ended successfully.  So neither a raising nor a cancelled computation,
   nor any cancellation, timeout, loop shutdown or clock advance ever writes or removes an entry. *)
Theorem failure_not_cached :
  forall nloops tbl tr s, run (init nloops tbl) tr = Some s ->
  forall e s' k, step s e = Some s' -> cache_at s' k <> cache_at s k ->
  exists t c i, e = SetC t c /\ cache_at s' k = Some i /\
    exists ir, nth_error (invs s') i = Some ir /\ istat ir = IOk /\ ikey ir = k.
Proof. exact failure_not_cached_l. Qed.
Print Assumptions failure_not_cached.

(* The end of an invocation — in particular a failed (r = 1) or cancelled (r = 2) one — leaves the
   whole cache as it was. *)
Theorem failed_invocation_leaves_cache :
  forall s i r t s', step s (IEnd i r t) = Some s' -> cache s' = cache s.
Proof. exact failed_invocation_leaves_cache_l. Qed.
Print Assumptions failed_invocation_leaves_cache.

(* Cancelling caller c only sets c's own cancellation flag: every other caller's record, the cache,
   the markers, the events, the lock, the loops, the invocations and the clock are untouched. *)
Theorem cancel_isolated :
  forall s c t s', step s (Cancel c t) = Some s' ->
  (forall c', c' <> c -> getc s' c' = getc s c')
  /\ (exists cr, getc s c = Some cr /\ getc s' c = Some (mkC (cloop cr) (ckey cr) (cpc cr) true))
  /\ cache s' = cache s /\ marker s' = marker s /\ evset s' = evset s /\ lock s' = lock s
  /\ loops s' = loops s /\ invs s' = invs s /\ now s' = now s.
Proof. exact cancel_isolated_l. Qed.
Print Assumptions cancel_isolated.

(* A caller that is waiting for somebody else's computation (same loop: PWait, other loop: PWaitX)
   can end only as Cancelled, only if the environment cancelled it, and doing so changes nothing
   but its own program counter: the computation it was waiting for, the marker, the event, the
   cache, the lock and every other caller are untouched. *)
Theorem cancelled_waiter_touches_nothing :
  forall s c cr kind p t s',
  getc s c = Some cr ->
  ((exists e dl, cpc cr = PWait e dl) \/ (exists l e dl xd xs, cpc cr = PWaitX l e dl xd xs)) ->
  step s (Done c kind p t) = Some s' ->
  kind = 2 /\ p = 0 /\ ccanc cr = true
  /\ getc s' c = Some (mkC (cloop cr) (ckey cr) (PDone OCanc) true)
  /\ (forall c', c' <> c -> getc s' c' = getc s c')
  /\ cache s' = cache s /\ marker s' = marker s /\ evset s' = evset s /\ lock s' = lock s
  /\ loops s' = loops s /\ invs s' = invs s /\ now s' = now s.
Proof. exact cancelled_waiter_touches_nothing_l. Qed.
Print Assumptions cancelled_waiter_touches_nothing.

(* Monitor soundness: every complete trace the model accepts satisfies the C06 trace monitor that
   the harness evaluates on the traces of the real code (no LibExc outcome, no second outcome, Ret
   only of a successful invocation of the caller's key, UserExc only of an own raising invocation,
   Cancelled only after an environment Cancel of that caller, no proxy ending with an exception).
   Hence "model accepts the implementation's trace" (correspondence) implies "monitor accepts it";
   a monitor alarm on a trace is a genuine departure from the model. *)
Theorem ok_C06_sound :
  forall nloops tbl tr, accepts nloops tbl tr = true -> ok_C06 tbl tr = true.
Proof. exact ok_C06_sound_l. Qed.
Print Assumptions ok_C06_sound.

(* The same for every accepted PREFIX (runs that have not ended yet). *)
Theorem ok_C06_sound_prefix :
  forall nloops tbl tr s, run (init nloops tbl) tr = Some s -> ok_C06 tbl tr = true.
Proof. exact ok_C06_sound_run. Qed.
Print Assumptions ok_C06_sound_prefix.

(* CONVERSE direction: what "the monitor accepted a trace" means for that trace ALONE (no model).
   The check evaluates ok_C06 on the trace observed from the REAL code, so every accepted
   implementation trace satisfies the following.  (tbl: caller id -> (loop, key).)

   No caller ever sees an exception of the cache's own bookkeeping or of another loop's shutdown
   (kind >= 3 = LibExc), the driver classified every event, no proxy wait ended with an exception. *)
Theorem ok_C06_implies_no_lib_exc :
  forall tbl tr, ok_C06 tbl tr = true ->
  (forall c kind p t, In (Done c kind p t) tr -> kind <= 2)
  /\ (forall code, ~ In (Bad code) tr) /\ (forall t c r, In (Proxy t c r) tr -> r < 3).
Proof.
  exact (fun tbl tr H => conj (ok_C06_no_lib_exc tbl tr H)
                              (conj (ok_C06_no_bad tbl tr H) (ok_C06_proxy_ok tbl tr H))).
Qed.
Print Assumptions ok_C06_implies_no_lib_exc.

(* Exactly one outcome per call. *)
Theorem ok_C06_implies_once :
  forall tbl tr, ok_C06 tbl tr = true ->
  forall pre c k1 p1 t1 mid k2 p2 t2 post,
    tr = pre ++ Done c k1 p1 t1 :: mid ++ Done c k2 p2 t2 :: post -> False.
Proof. exact ok_C06_once. Qed.
Print Assumptions ok_C06_implies_once.

(* A returned value v is the result of an invocation for the caller's key whose latest start and
   successful end lie before the return. *)
Theorem ok_C06_implies_ret :
  forall tbl tr, ok_C06 tbl tr = true ->
  forall pre c v t post, tr = pre ++ Done c 0 v t :: post ->
    exists q1 c' t1 q2 t2 q3,
      pre = q1 ++ IStart v c' t1 :: q2 ++ IEnd v 0 t2 :: q3 /\
      (forall c1 t', ~ In (IStart v c1 t') q2) /\
      (forall c1 t', ~ In (IStart v c1 t') q3) /\
      (forall r' t', ~ In (IEnd v r' t') q3) /\
      tbl_key tbl c' = tbl_key tbl c.
Proof. exact ok_C06_ret. Qed.
Print Assumptions ok_C06_implies_ret.

(* A user exception i delivered to caller c was raised by an invocation that THIS caller performed
   (started by c, ended with a raise, both before). *)
Theorem ok_C06_implies_own_exception :
  forall tbl tr, ok_C06 tbl tr = true ->
  forall pre c i t post, tr = pre ++ Done c 1 i t :: post ->
    exists q1 t1 q2 t2 q3,
      pre = q1 ++ IStart i c t1 :: q2 ++ IEnd i 1 t2 :: q3 /\
      (forall c1 t', ~ In (IStart i c1 t') q2) /\
      (forall c1 t', ~ In (IStart i c1 t') q3) /\
      (forall r' t', ~ In (IEnd i r' t') q3).
Proof. exact ok_C06_userexc. Qed.
Print Assumptions ok_C06_implies_own_exception.

(* A call ends Cancelled only if the environment cancelled this very caller before. *)
Theorem ok_C06_implies_own_cancel :
  forall tbl tr, ok_C06 tbl tr = true ->
  forall pre c p t post, tr = pre ++ Done c 2 p t :: post -> exists t1, In (Cancel c t1) pre.
Proof. exact ok_C06_cancelled. Qed.
Print Assumptions ok_C06_implies_own_cancel.

(* The defects F1 and F2/F2b, kept documented in Coq (CacheUnfixed.stepU fix1 fix2 differs from the
   model only in the steps the repairs changed; stepU true true is the model).  Witnesses = the
   traces recorded from /repo with the fix commits reverted, scenarios F1 and F2 of DESIGN 6.
   Without fac37d0: caller 2 ends with the bookkeeping KeyError (Done 2 3 0), the repaired model
   rejects the trace and so do the monitors. *)
Theorem keyerror_refuted_without_fix1 :
  acceptsU false true 3 tbl_F1 tr_F1 = true
  /\ In (Done 2 3 0 80%N) tr_F1
  /\ accepts 3 tbl_F1 tr_F1 = false
  /\ ok_C06 tbl_F1 tr_F1 = false /\ ok_C01 tbl_F1 tr_F1 = false.
Proof. exact keyerror_refuted_without_fix1_l. Qed.
Print Assumptions keyerror_refuted_without_fix1.

(* Without a5d23b7 / 205824d: caller 1, waiting cross-loop while loop 0 shuts down, ends Cancelled
   although no Cancel 1 occurs anywhere in the trace. *)
Theorem foreign_cancel_refuted_without_fix2 :
  acceptsU true false 2 tbl_F2 tr_F2 = true
  /\ In (Done 1 2 0 200%N) tr_F2 /\ (forall t, ~ In (Cancel 1 t) tr_F2)
  /\ accepts 2 tbl_F2 tr_F2 = false
  /\ ok_C06 tbl_F2 tr_F2 = false.
Proof. exact foreign_cancel_refuted_without_fix2_l. Qed.
Print Assumptions foreign_cancel_refuted_without_fix2.

(* with both repairs the variant is the model itself *)
Theorem unfixed_variant_is_model_when_fixed :
  forall tr u, kerr u = [] -> runU true true u tr = lift [] (run (ust u) tr).
Proof. exact runU_fixed. Qed.
Print Assumptions unfixed_variant_is_model_when_fixed.

(* ---- non-vacuity ---- *)
(* one loop, two callers of key 0: caller 0 computes and the function raises; nothing is cached,
   caller 0 ends with its own exception, caller 1 computes afresh and returns the new value *)
Definition tr_fail : list ev :=
  [Get 0 0; Miss 0 0; Acq 0 0; Get 0 0; Miss 0 0; Rel 0 0; IStart 0 0 0%N; IEnd 0 1 0%N;
   Acq 0 0; Rel 0 0; Done 0 1 0 0%N;
   Get 0 1; Miss 0 1; Acq 0 1; Get 0 1; Miss 0 1; Rel 0 1; IStart 1 1 0%N; IEnd 1 0 0%N;
   SetC 0 1; Acq 0 1; Rel 0 1; Done 1 0 1 0%N; LoopEv 0 0; End 0].

Example fail_then_recompute :
  accepts 1 [(0,0); (0,0)] tr_fail = true
  /\ option_map (fun s => (map cpc (callers s), cache s, map istat (invs s)))
                (run (init 1 [(0,0); (0,0)]) tr_fail)
     = Some ([PDone (OExc 0); PDone (ORet 1)], [Some 1], [IExc; IOk]).
Proof. split; vm_compute; reflexivity. Qed.

(* caller 1 waits for caller 0's computation and is cancelled: it ends Cancelled, caller 0 is not
   disturbed and returns its value *)
Definition tr_cancel_waiter : list ev :=
  [Get 0 0; Miss 0 0; Acq 0 0; Get 0 0; Miss 0 0; Rel 0 0; IStart 0 0 0%N;
   Get 0 1; Miss 0 1; Acq 0 1; Get 0 1; Miss 0 1; Rel 0 1; Cancel 1 0%N; Done 1 2 0 0%N;
   IEnd 0 0 0%N; SetC 0 0; Acq 0 0; Rel 0 0; Done 0 0 0 0%N; LoopEv 0 0; End 0].

Example cancel_waiter :
  accepts 1 [(0,0); (0,0)] tr_cancel_waiter = true
  /\ option_map (fun s => (map cpc (callers s), map ccanc (callers s), cache s, map istat (invs s)))
                (run (init 1 [(0,0); (0,0)]) tr_cancel_waiter)
     = Some ([PDone (ORet 0); PDone OCanc], [false; true], [Some 0], [IOk]).
Proof. split; vm_compute; reflexivity. Qed.

(* the computing caller 0 is cancelled while caller 1 waits: nothing is cached, caller 1 is neither
   cancelled nor failed but computes afresh and returns *)
Definition tr_cancel_computer : list ev :=
  [Get 0 0; Miss 0 0; Acq 0 0; Get 0 0; Miss 0 0; Rel 0 0; IStart 0 0 0%N;
   Get 0 1; Miss 0 1; Acq 0 1; Get 0 1; Miss 0 1; Rel 0 1; Cancel 0 0%N; IEnd 0 2 0%N;
   Acq 0 0; Rel 0 0; Done 0 2 0 0%N;
   Get 0 1; Miss 0 1; Acq 0 1; Get 0 1; Miss 0 1; Rel 0 1; IStart 1 1 0%N; IEnd 1 0 0%N;
   SetC 0 1; Acq 0 1; Rel 0 1; Done 1 0 1 0%N; LoopEv 0 0; End 0].

Example cancel_computer :
  accepts 1 [(0,0); (0,0)] tr_cancel_computer = true
  /\ option_map (fun s => (map cpc (callers s), map ccanc (callers s), cache s, map istat (invs s)))
                (run (init 1 [(0,0); (0,0)]) tr_cancel_computer)
     = Some ([PDone OCanc; PDone (ORet 1)], [true; false], [Some 1], [ICanc; IOk]).
Proof. split; vm_compute; reflexivity. Qed.

(* the monitor accepts these traces ... *)
Example monitor_accepts :
  ok_C06 [(0,0); (0,0)] tr_fail = true /\ ok_C06 [(0,0); (0,0)] tr_cancel_waiter = true
  /\ ok_C06 [(0,0); (0,0)] tr_cancel_computer = true.
Proof. repeat split; vm_compute; reflexivity. Qed.

(* ... and rejects a LibExc outcome, an exception observed by a caller that did not perform the
   raising invocation, a Cancelled outcome of a caller nobody cancelled, and a second outcome *)
Example monitor_rejects :
  ok_C06 [(0,0)] [Get 0 0; Done 0 3 0 0%N] = false
  /\ ok_C06 [(0,0); (0,0)]
       [Get 0 0; Miss 0 0; Acq 0 0; Get 0 0; Miss 0 0; Rel 0 0; IStart 0 0 0%N; IEnd 0 1 0%N;
        Acq 0 0; Rel 0 0; Done 0 1 0 0%N; Get 0 1; Done 1 1 0 0%N] = false
  /\ ok_C06 [(0,0)] [Get 0 0; Done 0 2 0 0%N] = false
  /\ ok_C06 [(0,0)] [Get 0 0; Cancel 0 0%N; Done 0 2 0 0%N; Done 0 2 0 0%N] = false.
Proof. repeat split; vm_compute; reflexivity. Qed.
