(* props/C10.v — placeholder while the proofs are being written *)
Require Import Aiuti.Batcher.
