(* props/C10.v — C10: batches respect size and concurrency limits, FIFO order and
   the batch timeout.  ONLY theorem statements about the executable macro-step
   model coq/theories/Batcher.v ([run c evs] = (trace per macro step, final
   state)), each closed by a lemma of BatcherLimits.v / BatcherTime.v, with
   Print Assumptions beneath, and non-vacuity Examples at the end.

   Quantification: ALL configurations with max_batch_size >= 1 and
   max_concurrent_batches >= 1 ([cfg_ok]) and ALL event lists (calls, bursts,
   time advances, batch-function yields / raises / returns, caller cancellations,
   max_batch_size mutations to values >= 1 ([ev_ok])).  No bound on anything.

   Ghost history used in the statements (fields of the model state that no
   transition ever reads): g_items = the item-creating calls in arrival order
   (each stamped with its arrival tick it_t and the max_batch_size in force then,
   it_max); g_started = (batch id, items, start tick) per invocation of the batch
   function; g_spawn = (items, spawn tick) per _process_batch task created by the
   collector.  [trace_starts_are_g_started] ties g_started to the observable
   BatchStart events, which is what the harness compares with the real code. *)
From Coq Require Import List Arith NArith Bool.
Import ListNotations.
Require Import Aiuti.Case_Batcher Aiuti.Case_Batcher_Sound Aiuti.Case_Batcher_Basic Aiuti.BatcherSim Aiuti.Case_Batcher_C10 Aiuti.Case_Batcher_Full Aiuti.Case_Batcher_Sound04 Aiuti.Case_Batcher_Sound10 Aiuti.Batcher Aiuti.BatcherLimits Aiuti.BatcherTime Aiuti.BatcherOrder.

(* Every batch handed to the batch function is non-empty and no larger than
   lim = the largest max_batch_size that was in force when one of its items
   arrived.  (When max_batch_size is lowered while a batch is being collected the
   open batch may exceed the NEW limit — the model shows it, the docs allow the
   mutation; see [Example lowered_limit_example].) *)
Theorem size_bound :
  forall c evs, cfg_ok c -> Forall ev_ok evs ->
  forall b items t, In (BatchStart b items t) (concat (fst (run c evs))) ->
  exists its, In (b, its, t) (g_started (snd (run c evs))) /\ items = map ka its /\
              1 <= length items /\ length items <= lim_of its.
Proof. exact size_bound_lemma. Qed.
Print Assumptions size_bound.

(* Without SetMax events: 1 <= |batch| <= max_batch_size. *)
Theorem size_bound_const :
  forall c evs, cfg_ok c -> forallb (fun e => negb (has_setmax e)) evs = true ->
  forall b items t, In (BatchStart b items t) (concat (fst (run c evs))) ->
  1 <= length items <= c_maxb c.
Proof. exact size_bound_const_lemma. Qed.
Print Assumptions size_bound_const.

(* After any event list: at most max_concurrent_batches executions of the batch
   function are in progress (free slots + running = max_concurrent_batches), and
   a spawned batch is kept waiting only while all slots are taken. *)
Theorem conc_bound :
  forall c evs, cfg_ok c -> Forall ev_ok evs ->
  let s := snd (run c evs) in
  length (running s) <= c_conc c /\ free s + length (running s) = c_conc c /\
  (waiting s <> [] -> length (running s) = c_conc c).
Proof. exact conc_bound_lemma. Qed.
Print Assumptions conc_bound.

(* FIFO within and across batches: the (key, arg) pairs of all BatchStarts of the
   trace, concatenated in trace order, followed by the batches still queued on the
   semaphore and by the open batch, are exactly the item-creating calls in
   arrival order. *)
Theorem fifo :
  forall c evs, cfg_ok c -> Forall ev_ok evs ->
  let tr := fst (run c evs) in let s := snd (run c evs) in
  flat_map items_of_start (filter is_start (concat tr))
    ++ map ka (concat (waiting s)) ++ map ka (coll_items s)
  = map ka (g_items s).
Proof. exact fifo_lemma. Qed.
Print Assumptions fifo.

(* The BatchStart events of the trace are exactly the ghost log g_started (so the
   statements about g_started / g_spawn are statements about what is observed). *)
Theorem trace_starts_are_g_started :
  forall c evs,
  filter is_start (concat (fst (run c evs))) = map start_obs (g_started (snd (run c evs))).
Proof. exact trace_starts. Qed.
Print Assumptions trace_starts_are_g_started.

(* Calls share the open batch until it is full: in any state satisfying the
   invariant [LInv] (every reachable state does, [reachable_LInv]) with an open
   batch [its], a call with a key that is not being remembered joins [its] — the
   batch stays open with its deadline re-armed to now + batch_timeout while it is
   below max_batch_size, and is handed over with the new item the moment it
   reaches max_batch_size.  No second batch is opened while one is open. *)
Theorem share_until_full :
  forall c s its dl a ko,
  LInv c s -> coll s = Some (its, dl) -> lookup (ret s) (key_of a ko) = None ->
  let s' := fst (step c s (Call a ko)) in
  let it := mkitem (key_of a ko) a (nfut s) (now s) (maxb s) in
  (length its + 1 < maxb s -> coll s' = Some (its ++ [it], (now s + c_bt c)%N) /\ handed s' = handed s) /\
  (maxb s <= length its + 1 -> coll s' = None /\ handed s' = handed s ++ (its ++ [it])).
Proof. exact share_until_full_lemma. Qed.
Print Assumptions share_until_full.

Theorem reachable_LInv :
  forall c evs, cfg_ok c -> Forall ev_ok evs -> LInv c (snd (run c evs)).
Proof. exact reachable_LInv_lemma. Qed.
Print Assumptions reachable_LInv.

(* The batch timeout.  After any event list, with s the state reached:
   1. the open batch's deadline is (arrival of its last item) + batch_timeout, and
      the clock has not passed it (has not reached it when batch_timeout > 0):
      an item never sits in the collector beyond last-arrival + batch_timeout;
   2. every item that is not in the open batch is in a spawned batch;
   3. every batch was spawned at the arrival of its last item if that item filled
      it (limit in force at that arrival), otherwise exactly batch_timeout after
      that arrival — in any case no later than last arrival + batch_timeout;
      and no item of the batch arrived after its last item;
   4. spawn order = start order: the i-th spawned batch is the i-th invocation of
      the batch function, never started before it was spawned; the spawned batches
      not yet started are exactly the semaphore queue, in spawn order;
   5. a spawned batch waits only while max_concurrent_batches batches are running.
   [start_at_spawn_or_release] adds: a batch starts in the very step (and at the
   very instant) it was spawned, or in the step that ends another batch. *)
Theorem dispatch_deadline :
  forall c evs, cfg_ok c -> Forall ev_ok evs ->
  let s := snd (run c evs) in
  (forall its dl, coll s = Some (its, dl) ->
     exists x, last_of its x /\ dl = (it_t x + c_bt c)%N /\ (now s <= dl)%N /\ ((0 < c_bt c)%N -> (now s < dl)%N)) /\
  (forall it, In it (g_items s) -> In it (coll_items s) \/ exists its sp, In (its, sp) (g_spawn s) /\ In it its) /\
  (forall its sp, In (its, sp) (g_spawn s) ->
     exists x, last_of its x /\ sp = spawn_due c its x /\ (it_t x <= sp <= it_t x + c_bt c)%N /\ (sp <= now s)%N) /\
  map fst (g_spawn s) = map st_items (g_started s) ++ waiting s /\
  (forall i its sp b its' t, nth_error (g_spawn s) i = Some (its, sp) -> nth_error (g_started s) i = Some (b, its', t) ->
     its' = its /\ (sp <= t)%N) /\
  (waiting s <> [] -> free s = 0 /\ length (running s) = c_conc c).
Proof. exact dispatch_deadline_lemma. Qed.
Print Assumptions dispatch_deadline.

(* "Calls arriving less than batch_timeout apart share a batch until it is full":
   a batch is closed only because it is full or its batch_timeout expired.  After any
   event list: (1) every item of a LATER batch and (2) every item of the open batch
   arrived at or after the spawn instant sp1 of an earlier batch its1; and (3) if its1
   was not full when its last item x arrived, sp1 = arrival of x + batch_timeout.  So a
   call arriving less than batch_timeout after x, while the batch of x is not full,
   is never put into a different batch. *)
Theorem split_only_when_full_or_timed_out :
  forall c evs, cfg_ok c -> Forall ev_ok evs ->
  let s := snd (run c evs) in
  (forall pre its1 sp1 post its2 sp2 y,
     g_spawn s = pre ++ (its1, sp1) :: post -> In (its2, sp2) post -> In y its2 -> (sp1 <= it_t y)%N) /\
  (forall its1 sp1 y, In (its1, sp1) (g_spawn s) -> In y (coll_items s) -> (sp1 <= it_t y)%N) /\
  (forall its1 sp1 x, In (its1, sp1) (g_spawn s) -> last_of its1 x -> length its1 < it_max x ->
     sp1 = (it_t x + c_bt c)%N).
Proof. exact split_only_when_full_or_timed_out_lemma. Qed.
Print Assumptions split_only_when_full_or_timed_out.

(* Why a batch starts when it does — for ANY state s and event e: a BatchStart
   emitted by the macro step is for a batch that was spawned in this same step at
   this same instant t (slot free at once), or e is a batch-function event
   (BYield / BRaise / BFinish — the only events that end a batch and free a slot)
   and the batch is the head of the semaphore queue, started now. *)
Theorem start_at_spawn_or_release :
  forall c s e b items t,
  In (BatchStart b items t) (snd (step c s e)) ->
  exists its, items = map ka its /\
    ((exists nsp, g_spawn (fst (step c s e)) = g_spawn s ++ nsp /\ In (its, t) nsp) \/
     (is_batch_event e = true /\ exists ws, waiting s = its :: ws /\ t = now s /\ b = nbid s)).
Proof. exact start_cause_lemma. Qed.
Print Assumptions start_at_spawn_or_release.

(* The model clock is exact and [advance] never runs out of fuel, for every event
   list: so "now" in the statements above is the sum of the Advance events, and no
   theorem needs a fuel hypothesis. *)
Theorem clock_exact :
  forall c evs, fuel_out (snd (run c evs)) = false /\ now (snd (run c evs)) = total_adv evs.
Proof. exact clock_exact_lemma. Qed.
Print Assumptions clock_exact.

(* The basic sub-monitor [ok_basic] (a conjunct of ok_C04, ok_C10 and ok_C11: per macro
   step no TaskDied, every completion carries the script clock, no caller completes twice,
   every batch is non-empty, carries no key twice and does not start in the script's
   future) is COMPLETE — it accepts the canonical trace of the model for ALL
   configurations and ALL event lists, so it cannot raise a false alarm on a case where
   the implementation agrees with the model — and SOUND. *)
Theorem monitor_basic_complete :
  forall c evs w, cfg_ok c -> Forall ev_ok evs ->
  ok_basic (BCase c evs (map canon (fst (run c evs))) w) = true.
Proof. exact ok_basic_complete. Qed.
Print Assumptions monitor_basic_complete.

Theorem monitor_basic_sound :
  forall c evs observed w, ok_basic (BCase c evs observed w) = true ->
  forall os, In os observed ->
    ~ In TaskDied os /\ NoDup (map (fun d => fst (fst d)) (dones_of os)) /\
    forall b items t, In (BatchStart b items t) os -> 1 <= length items /\ NoDup (map fst items).
Proof. exact ok_basic_sound. Qed.
Print Assumptions monitor_basic_sound.

(* COMPLETENESS of the FULL monitor ok_C10 — every conjunct: FIFO against the queue of
   expected requests, 1 <= n <= lim, split only when the previous batch was full or timed
   out, inside a batch < batch_timeout apart and not full, start tick = spawn tick or (slot
   freed by this step's event while all slots were busy), at most max_concurrent_batches
   live, no start in the future, open requests still inside their timeout at the end — on
   event lists without Chain events and for batch_timeout > 0: the monitor accepts the
   canonical trace of the model, for every configuration and every such event list.  The
   model-side facts are exactly the theorems above (LInv, Fifo, TInv, OInv) plus WB
   (BatcherWithin.v); the proof (Case_Batcher_C10.v) extends the simulation of
   Case_Batcher_C11.v.  Chain events are excluded here; [monitor_complete] below has them. *)
Theorem monitor_complete_nochain :
  forall c evs w, cfg_ok c -> (0 < c_bt c)%N -> Forall ev_ok evs ->
  forallb (fun e => negb (is_chain e)) evs = true ->
  ok_C10 (BCase c evs (map canon (fst (run c evs))) w) = true.
Proof. exact ok_C10_complete. Qed.
Print Assumptions monitor_complete_nochain.

(* COMPLETENESS of the FULL monitor ok_C10 on ALL event lists, Chain events included
   (batch_timeout > 0): also when resumed tasks call again inside a batch-function event —
   their requests join the open batch at that instant with the limit then in force, may
   fill it and make it start in the same step (start tick = spawn tick, also when the
   event is a yield, which frees no slot) — the monitor accepts the canonical trace of the
   model, for every configuration and every event list.  Proof: Case_Batcher_Full.v. *)
Theorem monitor_complete :
  forall c evs w, cfg_ok c -> (0 < c_bt c)%N -> Forall ev_ok evs ->
  ok_C10 (BCase c evs (map canon (fst (run c evs))) w) = true.
Proof. exact ok_C10_complete_all. Qed.
Print Assumptions monitor_complete.

(* Model-free SOUNDNESS of the state-dependent conjuncts of ok_C10 (script and observed trace
   only): if ok_C10 accepts, then at every macro step every observed BatchStart — judged in the
   monitor state after this step's calls were registered ([pre_starts]), batch after batch —
   is exactly the first n requests of the queue of expected requests (FIFO; they are consumed),
   with 1 <= n <= the largest limit in force when one of them arrived; the previous batch was
   full or this batch's first request arrived >= batch_timeout after its last one; consecutive
   requests of the batch arrived < batch_timeout apart and the batch was not full before its
   last request; the start tick is >= sp and equals sp unless this step's event ended a batch
   while all slots were busy (sp = last arrival if that filled the batch, else + batch_timeout);
   at most max_concurrent_batches observed batches are live; the start is not in the future.
   PARTIAL: the queue of expected requests is the monitor's (the item-creating calls according
   to the window specification of ok_C11, with arrival tick and limit taken from the script);
   the final rule (open requests still inside their timeout) is not restated. *)
Theorem monitor_sound_starts_partial :
  forall c evs observed w, ok_C10 (BCase c evs observed w) = true ->
  all_steps (starts_justified c) c (minit c) evs observed.
Proof. exact ok_C10_sound_starts. Qed.
Print Assumptions monitor_sound_starts_partial.

(* Soundness of the full monitor, PARTIAL.  ok_C10 (Case_Batcher.v) judges the observed trace
   independently of the model.  Proved: acceptance implies every observed batch is
   non-empty.  NOT proved as theorems: the FIFO / size-limit / deadline / concurrency
   conjuncts of check_start are decided against the monitor's own specification queue
   (m_expect) and live list; they are tied to the theorems above through [agree]. *)
Theorem monitor_sound_partial :
  forall c evs observed w, ok_C10 (BCase c evs observed w) = true ->
  forall os b items t, In os observed -> In (BatchStart b items t) os -> 1 <= length items.
Proof. exact ok_C10_sound. Qed.
Print Assumptions monitor_sound_partial.

(* ---- non-vacuity --------------------------------------------------------------- *)

Definition ex_cfg := mkcfg 2 1 10%N 0%N.      (* max_batch_size 2, one slot, batch_timeout 10 *)
Definition ex_evs :=
  [Call 1 None; Advance 9; Call 2 None; Call 3 None; Advance 10; Call 4 None; BFinish 0; Advance 10; BFinish 1].

Example ex_hyps : cfg_ok ex_cfg /\ Forall ev_ok ex_evs /\ forallb (fun e => negb (has_setmax e)) ex_evs = true.
Proof. repeat split; try (unfold ex_cfg; simpl; auto); repeat constructor. Qed.

(* calls at 0 and 9 fill batch 0 at tick 9 (started at once); call 3 times out at 19
   and queues behind batch 0 (one slot); call 4 opens a new batch; finishing batch 0
   starts batch 1 at 19; batch 2 is spawned at 29 and starts when batch 1 ends *)
Example ex_trace :
  map (filter is_start) (fst (run ex_cfg ex_evs)) =
  [[]; []; [BatchStart 0 [(1, 1); (2, 2)] 9%N]; []; []; []; [BatchStart 1 [(3, 3)] 19%N]; []; [BatchStart 2 [(4, 4)] 29%N]].
Proof. vm_compute. reflexivity. Qed.

Example ex_spawns :
  map snd (g_spawn (snd (run ex_cfg ex_evs))) = [9%N; 19%N; 29%N] /\
  map (fun x => snd x) (g_started (snd (run ex_cfg ex_evs))) = [9%N; 19%N; 29%N].
Proof. vm_compute. split; reflexivity. Qed.

(* a state with an open batch, a queued batch and a running batch at once *)
Example ex_mid :
  let s := snd (run ex_cfg (firstn 6 ex_evs)) in
  coll_items s <> [] /\ waiting s <> [] /\ length (running s) = 1 /\ free s = 0.
Proof. vm_compute. repeat split; discriminate. Qed.

(* share_until_full's hypotheses are satisfiable in a reachable state *)
Example ex_share :
  let s := snd (run (mkcfg 3 1 10%N 0%N) [Call 1 None]) in
  exists its dl, coll s = Some (its, dl) /\ lookup (ret s) (key_of 2 None) = None /\ length its + 1 < maxb s.
Proof. vm_compute. eexists _, _. split; [reflexivity|]. split; [reflexivity|]. repeat constructor. Qed.

(* max_batch_size lowered during collection: the open batch of 2 exceeds the new limit 1, within lim = 3 *)
Example lowered_limit_example :
  fst (run (mkcfg 3 1 10%N 0%N) [Call 1 None; Call 2 None; SetMax 1; Advance 10]) =
  [[]; []; []; [BatchStart 0 [(1, 1); (2, 2)] 10%N]].
Proof. vm_compute. reflexivity. Qed.

(* the monitor accepts the model's own trace of the example and rejects an empty batch *)
Example ex_monitor :
  ok_C10 (BCase ex_cfg ex_evs (map canon (fst (run ex_cfg ex_evs))) (waiting_callers (snd (run ex_cfg ex_evs)))) = true /\
  ok_C10 (BCase ex_cfg [Call 1 None; Advance 10] [[]; [BatchStart 0 [] 10%N]] [0]) = false.
Proof. vm_compute. split; reflexivity. Qed.
