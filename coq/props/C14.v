(* props/C14.v — C14: cache keys of threadsafe_async_cache.
   ONLY theorem statements, each closed by a lemma of KeysInv.v, with
   Print Assumptions beneath.

   [key_expr] and [cache_init] are NOT written by hand: gen/T_KeyExpr.v is
   regenerated on every run from the AST of aiuti/asyncio.py (the statement
   `key = args, frozenset(kwargs.items())` and the statement
   `_cache = cache if cache is not None else {}`), so these theorems are about
   what the source says now.  Values are Python-equality classes (Keys.v). *)
From Coq Require Import List Bool Permutation.
Import ListNotations.
Require Import Aiuti.Keys Aiuti.KeysInv Aiuti.Case_C14 Aiuti.KeysMon Aiuti.KeysMonN AiutiGen.T_KeyExpr.

(* The translated key expression has the accepted shape (decided by
   computation on the generated, finite expression). *)
Theorem key_expr_is_good : good key_expr = true.
Proof. vm_compute. reflexivity. Qed.
Print Assumptions key_expr_is_good.

(* Two calls have equal keys exactly when their positional arguments are equal
   in order and their keyword arguments are equal as sets of (name, value)
   pairs — for all signatures, of any length. *)
Theorem key_eq_iff : forall s1 s2 : sig,
  key_eqb (eval_key key_expr s1) (eval_key key_expr s2) = true <->
  pos s1 = pos s2 /\ (forall n c, In (n, c) (kw s1) <-> In (n, c) (kw s2)).
Proof. exact (key_eq_iff_good key_expr key_expr_is_good). Qed.
Print Assumptions key_eq_iff.

(* keyword order is irrelevant *)
Theorem kw_perm_invariant : forall s1 s2 : sig,
  pos s1 = pos s2 -> Permutation (kw s1) (kw s2) ->
  key_eqb (eval_key key_expr s1) (eval_key key_expr s2) = true.
Proof. exact (kw_perm_good key_expr key_expr_is_good). Qed.
Print Assumptions kw_perm_invariant.

(* "as passed": passing an object positionally (first) or as keyword n, all
   other arguments being the same, never shares *)
Theorem positional_vs_keyword_distinct : forall (c : cls) (n : name) p k,
  key_eqb (eval_key key_expr (mksig (c :: p) k)) (eval_key key_expr (mksig p ((n, c) :: k))) = false.
Proof. exact (pos_vs_kw_good key_expr key_expr_is_good). Qed.
Print Assumptions positional_vs_keyword_distinct.

(* Sequential cache, any mapping kind (decorator's dict, user dict /
   MutableMapping, lru.LRU(n)), pre-populated or not, from ANY state: a call
   invokes the wrapped function iff the store in use has no entry for its key;
   then it stores the result (unless the mapping has capacity 0); it returns
   the value the store holds for the key afterwards. *)
Theorem seq_call_spec : forall kind prefill (s : sig) (st : cst),
  let step := step key_expr cache_init kind prefill in
  let active := active cache_init kind prefill in
  match kfind (eval_key key_expr s) (active st) with
  | None => exists st' c, step (Call s) st = (st', (1, cnt st, c)) /\
              (eff_cap cache_init kind prefill <> Some 0 ->
               kfind (eval_key key_expr s) (active st') = Some (eval_key key_expr s, cnt st))
  | Some en => exists st' c, step (Call s) st = (st', (0, snd en, c)) /\
              kfind (eval_key key_expr s) (active st') = Some en
  end.
Proof. intros kind prefill. exact (seq_call_spec_lemma key_expr cache_init kind prefill). Qed.
Print Assumptions seq_call_spec.

(* After ANY history [pre] of calls and evictions, a call either computes its
   own value (tag = its own position) or receives a value that was computed by
   an earlier call with the same arguments: calls that differ in any argument
   never receive each other's results. *)
Theorem distinct_never_share : forall kind prefill (pre : list ev) (s : sig),
  match step key_expr cache_init kind prefill (Call s) (state_after key_expr cache_init kind prefill pre) with
  | (_, (ninv, r, _)) =>
      (ninv = 1 /\ r = length pre) \/
      (ninv = 0 /\ exists s', nth_error pre r = Some (Call s') /\ sig_equiv s' s)
  end.
Proof. intros kind prefill. exact (distinct_never_share_lemma key_expr key_expr_is_good cache_init kind prefill). Qed.
Print Assumptions distinct_never_share.

(* With a retaining store (unbounded, no eviction in the history) a call is
   served from the cache iff an earlier call had the same arguments. *)
Theorem same_args_share : forall kind prefill (pre : list ev) (s : sig),
  eff_cap cache_init kind prefill = None -> no_evict pre ->
  match step key_expr cache_init kind prefill (Call s) (state_after key_expr cache_init kind prefill pre) with
  | (_, (ninv, _, _)) => ninv = 0 <-> exists s', In (Call s') pre /\ sig_equiv s' s
  end.
Proof. intros kind prefill. exact (same_args_share_lemma key_expr key_expr_is_good cache_init kind prefill). Qed.
Print Assumptions same_args_share.

(* A caller-supplied mapping (any capacity >= 1), any history; if the mapping
   holds an entry for the key of s and the harness evicts it, then of the next
   two calls with s exactly the first one recomputes (and both return that
   fresh value). *)
Theorem evict_one_recompute : forall cap prefill (pre : list ev) (s : sig) en,
  cap <> Some 0 ->
  kfind (eval_key key_expr s) (user (state_after key_expr cache_init (KUser cap) prefill pre)) = Some en ->
  exists c1 c2 c3 st',
    exec key_expr cache_init (KUser cap) prefill [Evict (snd en); Call s; Call s]
         (state_after key_expr cache_init (KUser cap) prefill pre) =
    ([(0, 0, c1); (1, S (length pre), c2); (0, S (length pre), c3)], st').
Proof.
  intros cap prefill pre s en Hc.
  apply (evict_one_recompute_lemma key_expr cache_init (KUser cap) prefill pre s en);
    [reflexivity | exact Hc].
Qed.
Print Assumptions evict_one_recompute.

(* The caller-supplied mapping is the store — also when it is empty (falsy) at
   decoration time — and nothing is ever kept in a dict of the decorator. *)
Theorem only_store_is_user_mapping : forall cap prefill (evs : list ev),
  use_user cache_init (KUser cap) prefill = true /\
  priv (state_after key_expr cache_init (KUser cap) prefill evs) = [].
Proof.
  intros cap prefill evs. split; [reflexivity|].
  apply (only_user_store key_expr cache_init (KUser cap) prefill); reflexivity.
Qed.
Print Assumptions only_store_is_user_mapping.

(* The trace monitor of the correspondence (Case_C14.ok, which decides the
   property on an observed trace from the property text alone) accepts every
   trace of the model, for every mapping kind and every history.  Excluded:
   histories of more than 99 events against a pre-populated mapping (tag 99 is
   reserved for the foreign entry; the driver never generates them). *)
Theorem monitor_accepts_model : forall kind prefill (evs : list ev),
  (prefill = true -> length evs <= prefill_tag) ->
  Case_C14.ok (C14 kind prefill evs (run key_expr cache_init kind prefill evs)) = true.
Proof. intros kind prefill. exact (mon_accepts_model key_expr key_expr_is_good kind prefill). Qed.
Print Assumptions monitor_accepts_model.

(* The same for the second monitor (wrapped functions returning identity-less
   values such as None, 0, '', False, where only the number of invocations per
   call is observable): for every retaining store and every history of calls
   it accepts the model's invocation counts — i.e. in the model a call invokes
   the function iff no earlier call had the same arguments, also when the
   cached value is None or falsy. *)
Theorem monitor_n_accepts_model : forall kind (evs : list ev),
  Case_C14.ok (C14N kind evs (map ninv_of (run key_expr cache_init kind false evs))) = true.
Proof. intros kind. exact (mon_n_accepts_model key_expr key_expr_is_good kind). Qed.
Print Assumptions monitor_n_accepts_model.

(* ---- non-vacuity --------------------------------------------------------- *)

(* f(1, x='a', y=(1,2)) and f(1.0, y=(1,2), x='a') have equal keys;
   f(1) / f(x=1) and f(1, 'a') / f('a', 1) do not *)
Example keys_example :
  key_eqb (eval_key key_expr (mksig [0] [(0, 1); (1, 2)])) (eval_key key_expr (mksig [0] [(1, 2); (0, 1)])) = true /\
  key_eqb (eval_key key_expr (mksig [0] [])) (eval_key key_expr (mksig [] [(0, 0)])) = false /\
  key_eqb (eval_key key_expr (mksig [0; 1] [])) (eval_key key_expr (mksig [1; 0] [])) = false.
Proof. vm_compute. repeat split. Qed.

(* the hypotheses of same_args_share / evict_one_recompute are satisfiable by
   non-trivial histories: LRU(2), five events, an entry present then evicted *)
Example evict_example :
  let pre := [Call (mksig [0] []); Call (mksig [1] [(0, 2)]); Call (mksig [0] [])] in
  kfind (eval_key key_expr (mksig [1] [(0, 2)])) (user (state_after key_expr cache_init (KUser (Some 2)) false pre))
    = Some (eval_key key_expr (mksig [1] [(0, 2)]), 1) /\
  run key_expr cache_init (KUser (Some 2)) false
      (pre ++ [Evict 1; Call (mksig [1] [(0, 2)]); Call (mksig [1] [(0, 2)])]) =
  [(1, 0, [0]); (1, 1, [1; 0]); (0, 0, [0; 1]); (0, 0, [0]); (1, 4, [4; 0]); (0, 4, [4; 0])].
Proof. vm_compute. split; reflexivity. Qed.

(* mon_n is not trivially true: it rejects a trace in which the third, equal call recomputes *)
Example monitor_n_rejects :
  Case_C14.ok (C14N KDefault [Call (mksig [0] []); Call (mksig [1] []); Call (mksig [0] [])] [1; 1; 1]) = false /\
  Case_C14.ok (C14N KDefault [Call (mksig [0] []); Call (mksig [1] []); Call (mksig [0] [])] [1; 1; 0]) = true.
Proof. vm_compute. split; reflexivity. Qed.

Example retaining_example :
  eff_cap cache_init (KUser None) true = None /\ eff_cap cache_init KDefault false = None /\
  no_evict [Call (mksig [0] []); Call (mksig [] [(0, 0)])].
Proof.
  repeat split. intros v [H|[H|[]]]; discriminate.
Qed.
