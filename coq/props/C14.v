(* props/C14.v — C14: cache keys of threadsafe_async_cache.
   ONLY theorem statements, each closed by a lemma of KeysInv.v, with
   Print Assumptions beneath.

   [key_expr] and [cache_init] are NOT written by hand: gen/T_KeyExpr.v is
   regenerated on every run from the AST of aiuti/asyncio.py (the statement
   `key = args, frozenset(kwargs.items())` and the statement
   `_cache = cache if cache is not None else {}`), so these theorems are about
   what the source says now.  Values are Python-equality classes (Keys.v). *)
From Coq Require Import List Bool Arith Lia Permutation.
Import ListNotations.
Require Import Aiuti.Keys Aiuti.KeysInv Aiuti.Case_C14 Aiuti.KeysMon Aiuti.KeysMonN Aiuti.KeysSound AiutiGen.T_KeyExpr.

(* The translated key expression has the accepted shape (decided by
   computation on the generated, finite expression). *)
Theorem key_expr_is_good : good key_expr = true.
Proof. vm_compute. reflexivity. Qed.
Print Assumptions key_expr_is_good.

(* Two calls have equal keys exactly when their positional arguments are equal
   in order and their keyword arguments are equal as sets of (name, value)
   pairs — for all signatures, of any length. *)
Theorem key_eq_iff : forall s1 s2 : sig,
  key_eqb (eval_key key_expr s1) (eval_key key_expr s2) = true <->
  pos s1 = pos s2 /\ (forall n c, In (n, c) (kw s1) <-> In (n, c) (kw s2)).
Proof. exact (key_eq_iff_good key_expr key_expr_is_good). Qed.
Print Assumptions key_eq_iff.

(* keyword order is irrelevant *)
Theorem kw_perm_invariant : forall s1 s2 : sig,
  pos s1 = pos s2 -> Permutation (kw s1) (kw s2) ->
  key_eqb (eval_key key_expr s1) (eval_key key_expr s2) = true.
Proof. exact (kw_perm_good key_expr key_expr_is_good). Qed.
Print Assumptions kw_perm_invariant.

(* "as passed": passing an object positionally (first) or as keyword n, all
   other arguments being the same, never shares *)
Theorem positional_vs_keyword_distinct : forall (c : cls) (n : name) p k,
  key_eqb (eval_key key_expr (mksig (c :: p) k)) (eval_key key_expr (mksig p ((n, c) :: k))) = false.
Proof. exact (pos_vs_kw_good key_expr key_expr_is_good). Qed.
Print Assumptions positional_vs_keyword_distinct.

(* Sequential cache, any mapping kind (decorator's dict, user dict /
   MutableMapping, lru.LRU(n)), pre-populated or not, from ANY state: a call
   invokes the wrapped function iff the store in use has no entry for its key;
   then it stores the result (unless the mapping has capacity 0); it returns
   the value the store holds for the key afterwards. *)
Theorem seq_call_spec : forall kind prefill (s : sig) (st : cst),
  let step := step key_expr cache_init kind prefill in
  let active := active cache_init kind prefill in
  match kfind (eval_key key_expr s) (active st) with
  | None => exists st' c, step (Call s) st = (st', (1, cnt st, c)) /\
              (eff_cap cache_init kind prefill <> Some 0 ->
               kfind (eval_key key_expr s) (active st') = Some (eval_key key_expr s, cnt st))
  | Some en => exists st' c, step (Call s) st = (st', (0, snd en, c)) /\
              kfind (eval_key key_expr s) (active st') = Some en
  end.
Proof. intros kind prefill. exact (seq_call_spec_lemma key_expr cache_init kind prefill). Qed.
Print Assumptions seq_call_spec.

(* After ANY history [pre] of calls and evictions, a call either computes its
   own value (tag = its own position) or receives a value that was computed by
   an earlier call with the same arguments: calls that differ in any argument
   never receive each other's results. *)
Theorem distinct_never_share : forall kind prefill (pre : list ev) (s : sig),
  match step key_expr cache_init kind prefill (Call s) (state_after key_expr cache_init kind prefill pre) with
  | (_, (ninv, r, _)) =>
      (ninv = 1 /\ r = length pre) \/
      (ninv = 0 /\ exists s', nth_error pre r = Some (Call s') /\ sig_equiv s' s)
  end.
Proof. intros kind prefill. exact (distinct_never_share_lemma key_expr key_expr_is_good cache_init kind prefill). Qed.
Print Assumptions distinct_never_share.

(* With a retaining store (unbounded, no eviction in the history) a call is
   served from the cache iff an earlier call had the same arguments. *)
Theorem same_args_share : forall kind prefill (pre : list ev) (s : sig),
  eff_cap cache_init kind prefill = None -> no_evict pre ->
  match step key_expr cache_init kind prefill (Call s) (state_after key_expr cache_init kind prefill pre) with
  | (_, (ninv, _, _)) => ninv = 0 <-> exists s', In (Call s') pre /\ sig_equiv s' s
  end.
Proof. intros kind prefill. exact (same_args_share_lemma key_expr key_expr_is_good cache_init kind prefill). Qed.
Print Assumptions same_args_share.

(* A caller-supplied mapping (any capacity >= 1), any history; if the mapping
   holds an entry for the key of s and the harness evicts it, then of the next
   two calls with s exactly the first one recomputes (and both return that
   fresh value). *)
Theorem evict_one_recompute : forall cap prefill (pre : list ev) (s : sig) en,
  cap <> Some 0 ->
  kfind (eval_key key_expr s) (user (state_after key_expr cache_init (KUser cap) prefill pre)) = Some en ->
  exists c1 c2 c3 st',
    exec key_expr cache_init (KUser cap) prefill [Evict (snd en); Call s; Call s]
         (state_after key_expr cache_init (KUser cap) prefill pre) =
    ([(0, 0, c1); (1, S (length pre), c2); (0, S (length pre), c3)], st').
Proof.
  intros cap prefill pre s en Hc.
  apply (evict_one_recompute_lemma key_expr cache_init (KUser cap) prefill pre s en);
    [reflexivity | exact Hc].
Qed.
Print Assumptions evict_one_recompute.

(* The caller-supplied mapping is the store — also when it is empty (falsy) at
   decoration time — and nothing is ever kept in a dict of the decorator. *)
Theorem only_store_is_user_mapping : forall cap prefill (evs : list ev),
  use_user cache_init (KUser cap) prefill = true /\
  priv (state_after key_expr cache_init (KUser cap) prefill evs) = [].
Proof.
  intros cap prefill evs. split; [reflexivity|].
  apply (only_user_store key_expr cache_init (KUser cap) prefill); reflexivity.
Qed.
Print Assumptions only_store_is_user_mapping.

(* The trace monitor of the correspondence (Case_C14.ok, which decides the
   property on an observed trace from the property text alone) accepts every
   trace of the model, for every mapping kind and every history.  Excluded:
   histories of more than 99 events against a pre-populated mapping (tag 99 is
   reserved for the foreign entry; the driver never generates them). *)
Theorem monitor_accepts_model : forall kind prefill (evs : list ev),
  (prefill = true -> length evs <= prefill_tag) ->
  Case_C14.ok (C14 kind prefill evs (run key_expr cache_init kind prefill evs)) = true.
Proof. intros kind prefill. exact (mon_accepts_model key_expr key_expr_is_good kind prefill). Qed.
Print Assumptions monitor_accepts_model.

(* The same for the second monitor (wrapped functions returning identity-less
   values such as None, 0, '', False, where only the number of invocations per
   call is observable): for every retaining store and every history of calls
   it accepts the model's invocation counts — i.e. in the model a call invokes
   the function iff no earlier call had the same arguments, also when the
   cached value is None or falsy. *)
Theorem monitor_n_accepts_model : forall kind (evs : list ev),
  Case_C14.ok (C14N kind evs (map ninv_of (run key_expr cache_init kind false evs))) = true.
Proof. intros kind. exact (mon_n_accepts_model key_expr key_expr_is_good kind). Qed.
Print Assumptions monitor_n_accepts_model.

(* ---- what an ACCEPTED implementation trace satisfies (no model involved) ----

   The next theorems are about an arbitrary event list [evs] and an arbitrary
   observation list [observed] — e.g. the ones recorded from the real code —
   and about the monitor [Case_C14.ok] only; neither the model nor the key
   expression of the source occurs in them.  Observation of event i =
   (number of invocations of the wrapped function, tag of the returned value,
   tags of the values in the caller's mapping afterwards); the tag of a value
   is the index of the event whose invocation produced it.  Vocabulary
   (KeysSound.v; unfolded by the Example [vocabulary] below):
     sig_equiv s' s        positional arguments equal in order, keyword
                           (name, value) pairs equal as sets
     computed_for evs i t s   t < i and event t is a call whose arguments are
                           sig_equiv to s   ("tag t belongs to an earlier call
                           with the same arguments")
     held_before k pf observed i   the tags the caller's mapping held just
                           before event i (its initial content for i = 0,
                           else the content observed after event i-1)
     same_tags a b         a and b contain the same tags and have equal length
     without v l           l minus the tag v
     invoked observed t    event t invoked the wrapped function once

   monitor_sound.  If the monitor accepts, then there is one observation per
   event and
   * every call i with arguments s invoked the function once and got its own
     value (tag i), or did not invoke it and got a value computed by an EARLIER
     call with the SAME arguments — never one computed for other arguments;
   * decorator's own dict (not observable, content reported as []): the call
     is served from the cache iff some earlier call had the same arguments, and
     the value served was really computed (by the call it names);
   * caller-supplied mapping: the call is served from the cache iff that
     mapping held, before the call, a value of an earlier call with the same
     arguments, and the value served is one the mapping held (the mapping is
     the store); a served call leaves the mapping's content as it was; a
     computing call adds nothing but its own value, and the mapping then holds
     exactly the old values plus the new one (unbounded) / at most n values,
     min(n, old+1) of them, the new one among them when n >= 1 (lru.LRU(n));
   * an eviction performs no invocation and removes exactly the evicted value. *)
Theorem monitor_sound : forall kind pf (evs : list ev) (observed : list obs),
  Case_C14.ok (C14 kind pf evs observed) = true ->
  length observed = length evs /\
  (forall i s ninv r cont,
     nth_error evs i = Some (Call s) -> nth_error observed i = Some (ninv, r, cont) ->
     ((ninv = 1 /\ r = i) \/ (ninv = 0 /\ computed_for evs i r s)) /\
     match kind with
     | KDefault =>
         cont = [] /\
         (ninv = 0 <-> exists j, computed_for evs i j s) /\
         (ninv = 0 -> invoked observed r)
     | KUser cap =>
         let B := held_before kind pf observed i in
         (ninv = 0 <-> exists t, In t B /\ computed_for evs i t s) /\
         (ninv = 0 -> In r B /\ same_tags cont B) /\
         (ninv = 1 -> incl cont (i :: B) /\
                      match cap with
                      | None => same_tags cont (i :: B)
                      | Some n => (n = 0 \/ In i cont) /\ length cont = Nat.min n (S (length B))
                      end)
     end) /\
  (forall i v ninv r cont,
     nth_error evs i = Some (Evict v) -> nth_error observed i = Some (ninv, r, cont) ->
     ninv = 0 /\
     match kind with
     | KDefault => cont = []
     | KUser _ => same_tags cont (without v (held_before kind pf observed i))
     end).
Proof. exact ok_sound. Qed.
Print Assumptions monitor_sound.

(* The converse: the monitor rejects nothing that satisfies that statement.
   [trace_spec kind pf evs observed] is, by definition, the conclusion of
   monitor_sound (the proof of monitor_sound is [exact ok_sound] with
   ok_sound : ok (...) = true -> trace_spec ..., so Coq has checked that the
   text above is what trace_spec unfolds to).  Together: ok = true <-> statement. *)
Theorem monitor_sound_converse : forall kind pf (evs : list ev) (observed : list obs),
  trace_spec kind pf evs observed -> Case_C14.ok (C14 kind pf evs observed) = true.
Proof. exact ok_complete. Qed.
Print Assumptions monitor_sound_converse.

(* Eviction => exactly one recomputation, for an accepted trace, from the
   observations alone.  Caller-supplied mapping; event i evicts the value
   tagged v, which the mapping held and which call v had computed for the
   arguments s; j is the next call with those arguments (calls in between have
   other arguments; further evictions may occur).  Then call j invokes the
   function exactly once and gets its own value, and (capacity not 0) a call
   with the same arguments right after j invokes nothing and gets j's value.
   Excluded, as in monitor_accepts_model: more than 99 events against a
   pre-populated mapping (tag 99 is the foreign entry). *)
Theorem monitor_sound_evict : forall cap pf (evs : list ev) (observed : list obs),
  Case_C14.ok (C14 (KUser cap) pf evs observed) = true ->
  (pf = true -> length evs <= prefill_tag) ->
  forall i v s0 j s,
    nth_error evs i = Some (Evict v) ->
    In v (held_before (KUser cap) pf observed i) ->
    nth_error evs v = Some (Call s0) -> sig_equiv s0 s ->
    i < j -> nth_error evs j = Some (Call s) ->
    (forall k s', i < k < j -> nth_error evs k = Some (Call s') -> ~ sig_equiv s' s) ->
    exists cont, nth_error observed j = Some (1, j, cont) /\
      (cap <> Some 0 -> forall s2, nth_error evs (S j) = Some (Call s2) -> sig_equiv s s2 ->
         exists cont2, nth_error observed (S j) = Some (0, j, cont2)).
Proof. exact ok_sound_evict. Qed.
Print Assumptions monitor_sound_evict.

(* The second monitor (identity-less results; retaining store, calls only):
   if it accepts, there is one count per call, every count is 0 or 1, and call
   i did not invoke the function exactly when an earlier call had the same
   arguments.  (For other stores / histories with evictions C14N cases are not
   judged: ok is true and nontrivial is false.) *)
Theorem monitor_n_sound : forall kind (evs : list ev) (ninvs : list nat),
  Case_C14.ok (C14N kind evs ninvs) = true ->
  retaining kind = true -> forallb is_call evs = true ->
  length ninvs = length evs /\
  forall i s n, nth_error evs i = Some (Call s) -> nth_error ninvs i = Some n ->
    (n = 0 \/ n = 1) /\ (n = 0 <-> exists j, computed_for evs i j s).
Proof. exact ok_n_sound. Qed.
Print Assumptions monitor_n_sound.

(* and it rejects nothing that satisfies that statement *)
Theorem monitor_n_sound_converse : forall kind (evs : list ev) (ninvs : list nat),
  (length ninvs = length evs /\
   forall i s n, nth_error evs i = Some (Call s) -> nth_error ninvs i = Some n ->
     (n = 0 \/ n = 1) /\ (n = 0 <-> exists j, computed_for evs i j s)) ->
  Case_C14.ok (C14N kind evs ninvs) = true.
Proof. exact ok_n_complete. Qed.
Print Assumptions monitor_n_sound_converse.

(* ---- non-vacuity --------------------------------------------------------- *)

(* f(1, x='a', y=(1,2)) and f(1.0, y=(1,2), x='a') have equal keys;
   f(1) / f(x=1) and f(1, 'a') / f('a', 1) do not *)
Example keys_example :
  key_eqb (eval_key key_expr (mksig [0] [(0, 1); (1, 2)])) (eval_key key_expr (mksig [0] [(1, 2); (0, 1)])) = true /\
  key_eqb (eval_key key_expr (mksig [0] [])) (eval_key key_expr (mksig [] [(0, 0)])) = false /\
  key_eqb (eval_key key_expr (mksig [0; 1] [])) (eval_key key_expr (mksig [1; 0] [])) = false.
Proof. vm_compute. repeat split. Qed.

(* the hypotheses of same_args_share / evict_one_recompute are satisfiable by
   non-trivial histories: LRU(2), five events, an entry present then evicted *)
Example evict_example :
  let pre := [Call (mksig [0] []); Call (mksig [1] [(0, 2)]); Call (mksig [0] [])] in
  kfind (eval_key key_expr (mksig [1] [(0, 2)])) (user (state_after key_expr cache_init (KUser (Some 2)) false pre))
    = Some (eval_key key_expr (mksig [1] [(0, 2)]), 1) /\
  run key_expr cache_init (KUser (Some 2)) false
      (pre ++ [Evict 1; Call (mksig [1] [(0, 2)]); Call (mksig [1] [(0, 2)])]) =
  [(1, 0, [0]); (1, 1, [1; 0]); (0, 0, [0; 1]); (0, 0, [0]); (1, 4, [4; 0]); (0, 4, [4; 0])].
Proof. vm_compute. split; reflexivity. Qed.

(* mon_n is not trivially true: it rejects a trace in which the third, equal call recomputes *)
Example monitor_n_rejects :
  Case_C14.ok (C14N KDefault [Call (mksig [0] []); Call (mksig [1] []); Call (mksig [0] [])] [1; 1; 1]) = false /\
  Case_C14.ok (C14N KDefault [Call (mksig [0] []); Call (mksig [1] []); Call (mksig [0] [])] [1; 1; 0]) = true.
Proof. vm_compute. split; reflexivity. Qed.

Example retaining_example :
  eff_cap cache_init (KUser None) true = None /\ eff_cap cache_init KDefault false = None /\
  no_evict [Call (mksig [0] []); Call (mksig [] [(0, 0)])].
Proof.
  repeat split. intros v [H|[H|[]]]; discriminate.
Qed.

(* the vocabulary of monitor_sound, unfolded *)
Example vocabulary : forall kind pf (evs : list ev) (observed : list obs) i t s a b v l o,
  (computed_for evs i t s <-> t < i /\ exists s', nth_error evs t = Some (Call s') /\ sig_equiv s' s) /\
  (sig_equiv s o <-> pos s = pos o /\ forall n c, In (n, c) (kw s) <-> In (n, c) (kw o)) /\
  held_before kind pf observed 0 = match kind with KDefault => [] | KUser _ => if pf then [prefill_tag] else [] end /\
  held_before kind pf observed (S i) = match nth_error observed i with Some (_, _, c) => c | None => [] end /\
  (same_tags a b <-> incl a b /\ incl b a /\ length a = length b) /\
  (In t (without v l) <-> In t l /\ t <> v) /\
  (invoked observed t <-> exists r c, nth_error observed t = Some (1, r, c)).
Proof.
  intros. split; [apply iff_refl|]. split; [apply iff_refl|].
  split; [destruct kind; [reflexivity|]; destruct pf; reflexivity|].
  split; [cbn [held_before]; destruct (nth_error observed i) as [[[? ?] ?]|]; reflexivity|].
  split; [apply iff_refl|]. split; [|apply iff_refl].
  unfold without. rewrite filter_In. split; intros [H1 H2]; (split; [assumption|]).
  - intros ->. rewrite Nat.eqb_refl in H2. discriminate.
  - destruct (Nat.eqb t v) eqn:E; [|reflexivity]. apply Nat.eqb_eq in E. contradiction.
Qed.

(* the monitor accepts the LRU(2) run of evict_example (with its eviction and
   recomputation) and rejects each of these single deviations from it:
   (a) the last call, equal to the one before, computes again;
   (b) f(1, x=2) after the eviction is served the stale value 1;
   (c) f(1, x=2) is served the value computed for f(0);
   (d) the recomputed value is not put into the caller's mapping;
   (e) a value that nobody put there appears in the caller's mapping;
   (f) the eviction removes the other entry as well. *)
Example monitor_accepts_rejects :
  let a := mksig [0] [] in let b := mksig [1] [(0, 2)] in
  let evs := [Call a; Call b; Call a; Evict 1; Call b; Call b] in
  let k := KUser (Some 2) in
  Case_C14.ok (C14 k false evs [(1, 0, [0]); (1, 1, [1; 0]); (0, 0, [0; 1]); (0, 0, [0]); (1, 4, [4; 0]); (0, 4, [4; 0])]) = true /\
  Case_C14.ok (C14 k false evs [(1, 0, [0]); (1, 1, [1; 0]); (0, 0, [0; 1]); (0, 0, [0]); (1, 4, [4; 0]); (1, 5, [5; 0])]) = false /\
  Case_C14.ok (C14 k false evs [(1, 0, [0]); (1, 1, [1; 0]); (0, 0, [0; 1]); (0, 0, [0]); (0, 1, [0]); (0, 1, [0])]) = false /\
  Case_C14.ok (C14 k false evs [(1, 0, [0]); (1, 1, [1; 0]); (0, 0, [0; 1]); (0, 0, [0]); (0, 0, [0]); (0, 0, [0])]) = false /\
  Case_C14.ok (C14 k false evs [(1, 0, [0]); (1, 1, [1; 0]); (0, 0, [0; 1]); (0, 0, [0]); (1, 4, [0]); (1, 5, [0])]) = false /\
  Case_C14.ok (C14 k false evs [(1, 0, [0]); (1, 1, [1; 0]); (0, 0, [0; 1]); (0, 0, [0]); (1, 4, [4; 7]); (0, 4, [4; 7])]) = false /\
  Case_C14.ok (C14 k false evs [(1, 0, [0]); (1, 1, [1; 0]); (0, 0, [0; 1]); (0, 0, []); (1, 4, [4]); (0, 4, [4])]) = false.
Proof. vm_compute. repeat split. Qed.

(* the hypotheses of monitor_sound_evict are satisfiable: in that accepted run
   event 3 evicts value 1, which the mapping held and which call 1 computed
   for f(1, x=2); the next call with those arguments is event 4 *)
Example monitor_sound_evict_nonvacuous :
  let a := mksig [0] [] in let b := mksig [1] [(0, 2)] in
  let evs := [Call a; Call b; Call a; Evict 1; Call b; Call b] in
  let observed := [(1, 0, [0]); (1, 1, [1; 0]); (0, 0, [0; 1]); (0, 0, [0]); (1, 4, [4; 0]); (0, 4, [4; 0])] in
  nth_error evs 3 = Some (Evict 1) /\ In 1 (held_before (KUser (Some 2)) false observed 3) /\
  nth_error evs 1 = Some (Call b) /\ sig_equiv b b /\ nth_error evs 4 = Some (Call b) /\
  (forall k s', 3 < k < 4 -> nth_error evs k = Some (Call s') -> ~ sig_equiv s' b) /\
  nth_error observed 4 = Some (1, 4, [4; 0]) /\ nth_error observed 5 = Some (0, 4, [4; 0]).
Proof.
  cbv zeta. split; [reflexivity|]. split; [simpl; auto|]. split; [reflexivity|].
  split; [apply sig_equiv_refl|]. split; [reflexivity|]. split; [intros k s' Hk; lia|].
  split; reflexivity.
Qed.

(* a trace of the decorator's own dict in which a call with different arguments
   (positional 0 vs keyword x=0) is served the other call's value is rejected,
   the correct one accepted; for mon_n see monitor_n_rejects *)
Example monitor_rejects_foreign_value :
  Case_C14.ok (C14 KDefault false [Call (mksig [0] []); Call (mksig [] [(0, 0)])] [(1, 0, []); (0, 0, [])]) = false /\
  Case_C14.ok (C14 KDefault false [Call (mksig [0] []); Call (mksig [] [(0, 0)])] [(1, 0, []); (1, 1, [])]) = true.
Proof. vm_compute. split; reflexivity. Qed.
