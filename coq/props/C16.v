(* props/C16.v — C16: the sync/async iterator bridges to_async_iter / to_sync_iter
   preserve the sequence, propagate the source's error, do not block the consuming
   loop and leave no helper thread behind.  ONLY theorem statements about the model
   Bridge.v (the very `step`/`run` the correspondence check drives), each closed by a
   lemma of BridgeInv.v / BridgeLive.v / BridgeMon.v, with Print Assumptions beneath.

   c ranges over ALL configurations: either bridge, any source (any length, any
   element identities incl. duplicates), failure at any position or none, Iterator
   or plain iterable (inline branch); sch over ALL schedules = lists of
   W (worker) / D (loop callback) / C (consumer) / T (other task of the loop);
   a choice that is not enabled is a stutter. *)
From Coq Require Import List Arith Bool.
Import ListNotations.
Require Import Aiuti.Bridge Aiuti.BridgeInv Aiuti.BridgeLive Aiuti.Case_C16 Aiuti.BridgeMon.

(* At every reachable state, what the consumer has been handed so far is a prefix
   of the source: the source's elements, in order, each exactly once (nothing
   lost, duplicated, reordered or invented; the sentinel is never yielded). *)
Theorem bridge_prefix :
  forall (c : cfg) (sch : list choice),
    consumed (run c sch) = firstn (length (consumed (run c sch))) (c_src c).
Proof. exact bridge_prefix_lemma. Qed.
Print Assumptions bridge_prefix.

(* When the consumer's iteration has finished with outcome o, it received exactly
   the first n elements, where: without failure n = |src| and o = Stop (normal end);
   with a failure after k <= |src| elements n = k and o = Raised (the source's own
   exception object); a failure position beyond the end is never reached. *)
Theorem bridge_complete :
  forall (c : cfg) (sch : list choice) (o : outcome),
    cst (run c sch) = CDone o ->
    exists n, consumed (run c sch) = firstn n (c_src c) /\
      (c_fail c = None -> n = length (c_src c) /\ o = Stop) /\
      (forall k, c_fail c = Some k -> k <= length (c_src c) -> n = k /\ o = Raised (c_exc c)) /\
      (forall k, c_fail c = Some k -> length (c_src c) < k -> n = length (c_src c) /\ o = Stop).
Proof. exact bridge_complete_lemma. Qed.
Print Assumptions bridge_complete.

(* When the iteration has finished (normally or by error) the worker thread has
   ended: no helper thread is left running. *)
Theorem worker_joined :
  forall (c : cfg) (sch : list choice) (o : outcome),
    cst (run c sch) = CDone o ->
    worker_alive (run c sch) = false /\ enW (run c sch) = false.
Proof. exact worker_joined_lemma. Qed.
Print Assumptions worker_joined.

(* to_async_iter over an Iterator: whenever the consumer has not finished and the
   worker is inside the (blocking) source, a Tick is enabled, i.e. the other tasks
   of the consuming loop can run: the loop is not blocked. *)
Theorem loop_not_blocked :
  forall (c : cfg) (sch : list choice),
    is_async c = true -> c_noniter c = false ->
    is_done (run c sch) = false -> mid_pull (run c sch) = true ->
    enabled c (run c sch) T = true.
Proof. exact loop_not_blocked_lemma. Qed.
Print Assumptions loop_not_blocked.

(* ... and in no schedule of a threaded bridge is a Tick ever refused because the
   loop thread sits inside the source (ghost flag `starved`). *)
Theorem never_starved :
  forall (c : cfg) (sch : list choice), inline c = false -> starved (run c sch) = false.
Proof. exact never_starved_lemma. Qed.
Print Assumptions never_starved.

(* No deadlock: while the consumer has not finished, some non-Tick step is enabled. *)
Theorem no_deadlock :
  forall (c : cfg) (sch : list choice),
    is_done (run c sch) = false ->
    exists ch, ch <> T /\ enabled c (run c sch) ch = true.
Proof. exact no_deadlock_lemma. Qed.
Print Assumptions no_deadlock.

(* `measure` = (elements still to pull) + (items in flight) + stage, weighted so that
   it is the exact number of non-Tick steps still to be taken: along ANY schedule,
   (enabled non-Tick steps taken) + measure(end) = measure(start); Ticks and
   disabled choices leave it unchanged; and it starts at 4n+11 (to_async_iter),
   3n+8 (to_sync_iter), n+2 (inline), n = number of elements delivered. *)
Theorem measure_exact :
  forall (c : cfg) (sch : list choice),
    effective c (init c) sch + measure c (run c sch) = measure c (init c) /\
    measure c (init c) =
      (if inline c then delivered c + 2
       else if is_async c then 4 * delivered c + 11 else 3 * delivered c + 8).
Proof. intros c sch. split; [exact (effective_measure c sch (init c) (good_init c))|exact (measure_init c)]. Qed.
Print Assumptions measure_exact.

(* Termination: every schedule made of fair rounds — each round contains W, D and C
   at least once, in any order, with any number of Ticks and repetitions — has
   finished the iteration after at most measure(init) rounds.  (There are no
   retries: the measure argument is complete.) *)
Theorem bridge_terminates :
  forall (c : cfg) (rounds : list (list choice)),
    Forall fair_round rounds -> measure c (init c) <= length rounds ->
    is_done (run c (concat rounds)) = true.
Proof. exact bridge_terminates_lemma. Qed.
Print Assumptions bridge_terminates.

(* The trace monitor used on implementation traces (Case_C16.ok) decides the
   property, independently of the model: an accepted run ended, the consumer got
   exactly the first n elements with n and the outcome as in bridge_complete, every
   worker had ended when the iteration finished and no helper thread was left, and
   (to_async_iter over an Iterator) during every pull of the source that took d
   virtual ticks the ticker ran at least d-1 times.  (cfg_of / obs_of_case / parks_of
   are the projections of a gate-level or line-level case.) *)
Theorem monitor_sound :
  forall k : case,
    ok k = true ->
    let c := cfg_of k in let o := obs_of_case k in
    o_res o = 0 /\
    (exists n, o_consumed o = firstn n (c_src c) /\
       (c_fail c = None -> n = length (c_src c) /\ o_out o = Some Stop) /\
       (forall f, c_fail c = Some f -> f <= length (c_src c) -> n = f /\ o_out o = Some (Raised (c_exc c))) /\
       (forall f, c_fail c = Some f -> length (c_src c) < f -> n = length (c_src c) /\ o_out o = Some Stop)) /\
    o_joined o = true /\ o_left o = 0 /\
    (is_async c = true -> c_noniter c = false -> forall d t, In (d, t) (parks_of k) -> d <= t + 1).
Proof. exact ok_sound_lemma. Qed.
Print Assumptions monitor_sound.

(* ... and it accepts every finished run of the model, for all configurations and
   schedules: on a case where the implementation's observation equals the model's,
   the monitor cannot raise a false alarm. *)
Theorem monitor_complete :
  forall (c : cfg) (sch : list choice),
    is_done (run c sch) = true -> ok_obs c (model_obs (run c sch)) = true.
Proof. exact ok_complete_lemma. Qed.
Print Assumptions monitor_complete.

(* If the model reproduces an implementation run (agree: step for step for gate-level
   cases, final observation under the canonical fair schedule for line-level cases), the
   monitor accepts everything it checks on that run except possibly the ticker counts
   (which the untimed model does not predict; `unstarved` blanks that field). *)
Theorem agree_implies_ok :
  forall k : case, agree k = true -> ok_obs (cfg_of k) (unstarved (obs_of_case k)) = true.
Proof. exact agree_ok_lemma. Qed.
Print Assumptions agree_implies_ok.

(* The canonical fair schedule used by agree for line-level cases finishes every
   configuration, so that comparison is never vacuous. *)
Theorem canonical_schedule_finishes : forall c : cfg, is_done (run c (canon c)) = true.
Proof. exact canon_done. Qed.
Print Assumptions canonical_schedule_finishes.

(* Two bridges alive at once are judged component-wise: the pair monitor accepts iff the
   single-bridge monitor (monitor_sound) accepts each bridge's own observation. *)
Theorem pair_monitor_componentwise :
  forall a b : case, ok_p (Two a b) = true <-> ok a = true /\ ok b = true.
Proof. intros a b. cbn. apply andb_true_iff. Qed.
Print Assumptions pair_monitor_componentwise.

(* ---- non-vacuity -------------------------------------------------------------- *)

Definition ex_async := mkCfg FAsync false [7; 0; 7] None 1.            (* duplicates, a "falsy" id *)
Definition ex_fail := mkCfg FSync false [7; 0; 7] (Some 2) 1.          (* fails after two elements *)
Definition ex_inline := mkCfg FAsync true [4; 5] None 1.

(* an interleaved run of to_async_iter: consumer reads while the worker is still producing *)
Definition ex_sch := [C; W; W; W; D; C; T; W; W; W; W; D; D; C; C; W; W; W; D; W; D; C; C; C].
Example async_run :
  let s := run ex_async ex_sch in
  consumed s = [7; 0; 7] /\ cst s = CDone Stop /\ worker_alive s = false /\ ticks s = 1 /\ measure ex_async s = 0.
Proof. vm_compute. repeat split. Qed.

(* a prefix of it: not finished, worker inside the source, consumer has one element, Tick enabled *)
Example async_mid :
  let s := run ex_async [C; W; W; W; D; C] in
  consumed s = [7] /\ is_done s = false /\ mid_pull s = true /\ enabled ex_async s T = true.
Proof. vm_compute. repeat split. Qed.

(* to_sync_iter over a source failing after 2 elements: 2 elements, then the source's exception *)
Example sync_fail_run :
  let s := run ex_fail [C; W; W; W; C; W; W; W; W; W; C; C; C; C] in
  consumed s = [7; 0] /\ cst s = CDone (Raised 1) /\ worker_alive s = false.
Proof. vm_compute. repeat split. Qed.

(* fair rounds: 23 rounds [T; W; D; C] finish ex_async (measure = 4*3+11 = 23) *)
Example fair_rounds_example :
  Forall fair_round (repeat [T; W; D; C] 23) /\ measure ex_async (init ex_async) = 23 /\
  is_done (run ex_async (concat (repeat [T; W; D; C] 23))) = true.
Proof.
  split; [|split; vm_compute; reflexivity].
  apply Forall_forall. intros r H. apply repeat_spec in H. subst r. unfold fair_round. cbn. tauto.
Qed.

(* the inline branch does block the loop: a Tick during the inline pull is refused (starved),
   which is why loop_not_blocked / never_starved carry the Iterator hypothesis *)
Example inline_blocks :
  let s := run ex_inline [C; T; C; C; C] in
  starved s = true /\ consumed s = [4; 5] /\ cst s = CDone Stop /\ worker_alive s = false.
Proof. vm_compute. repeat split. Qed.

(* the monitor accepts a correct observation and rejects: a lost element, an early end at a
   falsy element, a swallowed error, a replaced error, a worker alive at the end, a starved ticker,
   a deadlock *)
Definition mk_case c res obsd out joined nleft parks :=
  Case c false 6 [] res obsd out joined nleft 1 1 0 parks.
Example monitor_examples :
  ok (mk_case ex_async 0 [7; 0; 7] (Some Stop) true 0 [(3, 2); (0, 0)]) = true /\
  ok (mk_case ex_async 0 [7; 7] (Some Stop) true 0 []) = false /\
  ok (mk_case ex_async 0 [7] (Some Stop) true 0 []) = false /\
  ok (mk_case ex_fail 0 [7; 0] (Some Stop) true 0 []) = false /\
  ok (mk_case ex_fail 0 [7; 0] (Some (Raised 3)) true 0 []) = false /\
  ok (mk_case ex_fail 0 [7; 0] (Some (Raised 1)) true 0 []) = true /\
  ok (mk_case ex_async 0 [7; 0; 7] (Some Stop) false 0 []) = false /\
  ok (mk_case ex_async 0 [7; 0; 7] (Some Stop) true 0 [(3, 0)]) = false /\
  ok (mk_case ex_async 1 [7; 0] None false 1 []) = false /\
  (* line-level cases: a silently dropped tail / a consumer that never finishes *)
  ok (CaseL ex_fail false 40 0 [7; 0] (Some (Raised 1)) true 0 1 1 []) = true /\
  agree (CaseL ex_fail false 40 0 [7; 0] (Some (Raised 1)) true 0 1 1 [(0, 0); (0, 0); (0, 0)]) = true /\
  ok (CaseL ex_async false 40 0 [7] (Some Stop) true 0 1 1 []) = false /\
  ok (CaseL ex_async false 40 1 [7] None false 0 1 1 []) = false /\
  (* two bridges at once: the second one never got its elements (shared deadlock code) *)
  ok_p (Two (CaseL ex_fail false 30 1 [7; 0] (Some (Raised 1)) true 0 1 1 [])
            (CaseL ex_fail false 30 1 [] None false 0 1 0 [])) = false /\
  ok_p (Two (CaseL ex_fail false 30 0 [7; 0] (Some (Raised 1)) true 0 1 1 [])
            (CaseL ex_fail false 30 0 [7; 0] (Some (Raised 1)) true 0 1 1 [])) = true.
Proof. vm_compute. repeat split. Qed.
