(* props/C12.v — C12: FileLock obeys the Lock/RLock contract and leaves no residue on
   failure.  ONLY theorem statements about the executable model FLock.v, each closed by
   a lemma of FLockSeq.v (single-call analyses FLockAcq.v / FLockRel.v, invariants
   FLockInv.v / FLockTL.v / FLockFD.v), with Print Assumptions beneath.

   Reading aid.  [s0 := run (init_cfg ocfg tcfg fl) evs] with [viol s0 = false] is ANY
   state the model can reach (any objects / threads / processes, any schedule prefix
   with other threads in the middle of their own calls, any OSError script fl, whose
   unfired entries are still pending in s0).  [do_call fuel s0 t c] runs thread t's call
   c to completion with t running alone (virtual time jumps to t's own deadlines);
   results: RTrue / RFalse / RTimeout (TimeoutError of acquire_ctx / with) / ROSErr
   (a re-raised injected exception: OSError or the interrupt flavour, see below) / RNone (release) / RWouldBlock (waits for something only
   another thread can do) / ROutOfFuel.  [normalise ob blk tm] is filelock.py l.135-139
   (argument normalisation).                                                       *)
From Coq Require Import List Arith NArith Bool.
Import ListNotations.
Require Import Aiuti.FLock Aiuti.FLockInv Aiuti.FLockSpec Aiuti.FLockTL Aiuti.FLockFD Aiuti.FLockMutex
               Aiuti.FLockExec Aiuti.FLockAcq Aiuti.FLockRel Aiuti.FLockTerm Aiuti.FLockSeq Aiuti.FLockMon12 Aiuti.FLockSound.
Require Aiuti.Case_C12.

(* A failing acquire — False, TimeoutError or a re-raised injected exception — under EVERY
   fault script: any number of faults at open / lock / unlock / close, each of flavour
   OSError or "interrupt" (a BaseException that is not an Exception, e.g. KeyboardInterrupt
   out of a blocking flock; the model follows filelock.py: swallowed vs re-raised at open,
   close-and-retry vs close-and-re-raise at flock, alike at unlock / close), from every
   reachable state, for every flavour: every object is exactly as before (counter
   restored, thread lock given back, no descriptor recorded), the table of open
   descriptors is exactly as before (nothing leaked), the kernel holder is untouched,
   no other thread's state changed, the caller is idle again and not inside. *)
Theorem fail_no_residue :
  forall ocfg tcfg fl evs t o m blk tm poll skip fuel,
    let s0 := run (init_cfg ocfg tcfg fl) evs in
    viol s0 = false ->
    t_pc (thr s0 t) = PIdle -> dead s0 (t_proc (thr s0 t)) = false ->
    o_proc (objs s0 o) = t_proc (thr s0 t) ->
    let s' := fst (do_call fuel s0 t (CAcq o m blk tm poll skip)) in
    let r := snd (do_call fuel s0 t (CAcq o m blk tm poll skip)) in
    r = RFalse \/ r = RTimeout \/ r = ROSErr ->
    (forall o', objs s' o' = objs s0 o') /\
    (forall d, fdown s' d = fdown s0 d) /\ holder s' = holder s0 /\
    (forall t', t' <> t -> thr s' t' = thr s0 t') /\
    t_pc (thr s' t) = PIdle /\ t_cs (thr s' t) = t_cs (thr s0 t) /\ t_res (thr s' t) = r :: t_res (thr s0 t).
Proof. exact fail_no_residue_lemma. Qed.
Print Assumptions fail_no_residue.

(* A non-blocking acquire (blocking=False and no timeout, l.135-139) returns at once:
   no virtual time passes, and it never blocks — whatever the state and fault script. *)
Theorem nonblocking_immediate :
  forall ocfg tcfg fl evs t o m blk tm poll skip fuel,
    let s0 := run (init_cfg ocfg tcfg fl) evs in
    viol s0 = false ->
    t_pc (thr s0 t) = PIdle -> dead s0 (t_proc (thr s0 t)) = false ->
    o_proc (objs s0 o) = t_proc (thr s0 t) ->
    let s' := fst (do_call fuel s0 t (CAcq o m blk tm poll skip)) in
    let r := snd (do_call fuel s0 t (CAcq o m blk tm poll skip)) in
    fst (normalise (objs s0 o) blk tm) = false -> r <> ROutOfFuel ->
    now s' = now s0 /\ r <> RWouldBlock.
Proof. exact nonblocking_immediate_lemma. Qed.
Print Assumptions nonblocking_immediate.

(* A timed acquire (timeout T >= 0, explicit or the constructor's) ends within T for the
   in-process lock stage plus T for the OS-lock stage plus one poll interval, with any
   result, under any fault script; and it never blocks. *)
Theorem timed_bound :
  forall ocfg tcfg fl evs t o m blk tm poll skip fuel T,
    let s0 := run (init_cfg ocfg tcfg fl) evs in
    viol s0 = false ->
    t_pc (thr s0 t) = PIdle -> dead s0 (t_proc (thr s0 t)) = false ->
    o_proc (objs s0 o) = t_proc (thr s0 t) ->
    let s' := fst (do_call fuel s0 t (CAcq o m blk tm poll skip)) in
    let r := snd (do_call fuel s0 t (CAcq o m blk tm poll skip)) in
    snd (normalise (objs s0 o) blk tm) = TVal T -> r <> ROutOfFuel ->
    (now s' <= now s0 + T + T + poll)%N /\ r <> RWouldBlock.
Proof. exact timed_bound_lemma. Qed.
Print Assumptions timed_bound.

(* Sharper, for what [do_call] actually is — the call's thread running alone, nobody else moving
   (the one-call-at-a-time use of the correspondence cases): at most ONE of the two stages waits
   (a thread lock that is available is taken at once; one that is not stays unavailable until the
   timeout), so the whole call stays within its timeout plus one poll interval.  This is the bound
   the C12 monitor's time clause checks on the implementation (Case_C12.time_ok). *)
Theorem timed_bound_alone :
  forall ocfg tcfg fl evs t o m blk tm poll skip fuel T,
    let s0 := run (init_cfg ocfg tcfg fl) evs in
    viol s0 = false ->
    t_pc (thr s0 t) = PIdle -> dead s0 (t_proc (thr s0 t)) = false ->
    o_proc (objs s0 o) = t_proc (thr s0 t) ->
    let s' := fst (do_call fuel s0 t (CAcq o m blk tm poll skip)) in
    let r := snd (do_call fuel s0 t (CAcq o m blk tm poll skip)) in
    snd (normalise (objs s0 o) blk tm) = TVal T -> r <> ROutOfFuel ->
    (now s' <= now s0 + T + poll)%N /\ r <> RWouldBlock.
Proof. exact timed_bound_alone_lemma. Qed.
Print Assumptions timed_bound_alone.

(* A release that gives the OS lock up (outermost level or force) under EVERY fault
   script — unlock and/or close may raise — still ends normally with: no descriptor
   recorded, counter 0, the descriptor closed, the kernel lock not held through it,
   everything else untouched; and the thread lock is fully released when counter and
   RLock depth agreed before (the representation invariant of the sequential view). *)
Theorem release_faults :
  forall ocfg tcfg fl evs t o d force fuel,
    let s0 := run (init_cfg ocfg tcfg fl) evs in
    viol s0 = false ->
    t_pc (thr s0 t) = PIdle -> dead s0 (t_proc (thr s0 t)) = false ->
    o_fd (objs s0 o) = Some d -> o_own (objs s0 o) = Some t ->
    (o_cnt (objs s0 o) <= 1 \/ force = true) ->
    o_cnt (objs s0 o) + 4 <= fuel ->
    let s' := fst (do_call fuel s0 t (CRel o force)) in
    snd (do_call fuel s0 t (CRel o force)) = RNone /\
    o_fd (objs s' o) = None /\ o_cnt (objs s' o) = 0 /\ fdown s' d = None /\ holder s' <> Some d /\
    t_pc (thr s' t) = PIdle /\
    (forall o', o' <> o -> objs s' o' = objs s0 o') /\ (forall t', t' <> t -> thr s' t' = thr s0 t') /\
    (forall d', d' <> d -> fdown s' d' = fdown s0 d') /\
    (o_dep (objs s0 o) = o_cnt (objs s0 o) -> o_own (objs s' o) = None /\ o_dep (objs s' o) = 0).
Proof. exact release_faults_lemma. Qed.
Print Assumptions release_faults.

(* ------------------------------------------------------------------------------------------
   The sequential view: sequences of calls, each run to completion, refine the abstract
   Lock/RLock contract FLockSpec.v (state = None | Some (object, thread, depth): "at most
   one object holds the path" by construction; spec_acquire / spec_release / spec_no).
   [run_calls fuel s ops] = the model (do_call per item, stopping at a call that blocks);
   [spec_calls] = the spec; [ok_calls] = the property's contract along the sequence
   (a thread releases only a lock it holds or an unheld one); [call_fuel_ok] = a timed
   acquire has poll >= 1 and the fuel covers its polling (5*((T+poll)/poll)+16);
   [Rq reent dflt oproc tproc s st] = representation invariant + abstraction: all threads idle, no
   OSError scripted, st = None <-> no object records a descriptor, every thread lock free,
   counters 0, kernel lock free; st = Some (o,t,d) <-> o records the descriptor that holds
   the kernel lock, thread-lock owner t, counter = RLock depth = d >= 1 (d = 1 unless
   reentrant), every other object pristine; and no descriptor is open except the one
   that holds the lock (nfds = 1 while held, 0 otherwise: nothing leaks). *)

(* From the initial state of the correspondence runs (Case_C12.init_seq: any number of
   threads and objects, reentrant or not, any constructor timeouts), for every
   contract-respecting sequence of acquire (any flavour) / acquire_ctx / with / release /
   release(force) calls by any threads on any objects: the results are exactly the
   spec's, and — unless the last call blocks — the final state represents the spec's
   final state, in particular is_locked is true exactly for the held object. *)
Theorem refines_rlock_spec :
  forall nT cfg ops fuel,
    let reent := Case_C12.cfg_reent cfg in
    let dflt := Case_C12.cfg_dflt cfg in
    ok_calls reent dflt None ops = true ->
    (forall tc, In tc ops -> call_fuel_ok dflt fuel (snd tc)) ->
    length ops + 4 <= fuel ->
    let conc := run_calls fuel (Case_C12.init_seq nT cfg []) ops in
    let spec := spec_calls reent dflt None ops in
    fst conc = fst spec /\
    (no_block (fst spec) = true ->
       Rq reent dflt (fun _ => 0) (fun _ => 0) (snd conc) (snd spec) /\
       (forall o, is_locked (snd conc) o = spec_is_locked (snd spec) o) /\
       nfds (snd conc) = match snd spec with Some _ => 1 | None => 0 end).
Proof. exact refines_rlock_spec_lemma. Qed.
Print Assumptions refines_rlock_spec.

(* The same for objects and threads of SEVERAL processes on the one lock path
   (init_cfg: every object and thread has a process; [call_proc_ok]: a thread uses objects of
   its own process).  The abstract state is still ONE optional (object, thread, depth), so
   "at most one (process, object) holds the path" is true by construction, and an acquire
   through an object of another process is refused / blocks exactly like one through another
   object of the same process.  [Rq reent dflt oproc tproc]: as above, with the process of
   every object and thread fixed by the configuration. *)
Theorem refines_rlock_spec_procs :
  forall ocfg tcfg ops fuel,
    let reent := cfgo_reent ocfg in
    let dflt := cfgo_dflt ocfg in
    let oproc := cfgo_proc ocfg in
    let tproc := cfgt_proc tcfg in
    ok_calls reent dflt None ops = true ->
    (forall tc, In tc ops -> call_proc_ok oproc tproc tc) ->
    (forall tc, In tc ops -> call_fuel_ok dflt fuel (snd tc)) ->
    length ops + 4 <= fuel ->
    let conc := run_calls fuel (init_cfg ocfg tcfg []) ops in
    let spec := spec_calls reent dflt None ops in
    fst conc = fst spec /\
    (no_block (fst spec) = true ->
       Rq reent dflt oproc tproc (snd conc) (snd spec) /\
       (forall o, is_locked (snd conc) o = spec_is_locked (snd spec) o) /\
       nfds (snd conc) = match snd spec with Some _ => 1 | None => 0 end).
Proof. exact refines_rlock_spec_procs_lemma. Qed.
Print Assumptions refines_rlock_spec_procs.

(* acquire reports the truth, in every state between two calls (Rq): it returns True
   exactly when the spec grants the lock, and then the caller holds it (is_locked true,
   depth +1); False / TimeoutError leave the abstract state as it was. *)
Theorem acquire_true_iff_holds :
  forall reent dflt oproc tproc s st t o m blk tm poll skip fuel,
    Rq reent dflt oproc tproc s st -> oproc o = tproc t -> call_fuel_ok dflt fuel (CAcq o m blk tm poll skip) ->
    let res := do_call fuel s t (CAcq o m blk tm poll skip) in
    let st' := fst (spec_acquire st t o (reent o)) in
    (snd res = RTrue <-> snd (spec_acquire st t o (reent o)) = true) /\
    (snd res = RTrue -> Rq reent dflt oproc tproc (fst res) st' /\ exists d, held st' o = Some (t, d) /\ is_locked (fst res) o = true) /\
    (snd res = RFalse \/ snd res = RTimeout -> Rq reent dflt oproc tproc (fst res) st /\ st' = st).
Proof. exact acquire_true_iff_holds_lemma. Qed.
Print Assumptions acquire_true_iff_holds.

(* After the lock has been fully (depth 1) or forcibly (any depth) released, nothing is
   locked and ANY thread can acquire ANY object again at once (the statement the
   unrepaired release(force) broke, F6). *)
Theorem reacquire_after_release :
  forall reent dflt oproc tproc s o t d force fuel t2 o2 m blk tm poll skip,
    Rq reent dflt oproc tproc s (Some (o, t, d)) -> (force = true \/ d = 1) ->
    d + 4 <= fuel -> oproc o2 = tproc t2 -> call_fuel_ok dflt fuel (CAcq o2 m blk tm poll skip) ->
    let s1 := fst (do_call fuel s t (CRel o force)) in
    Rq reent dflt oproc tproc s1 None /\ (forall o', is_locked s1 o' = false) /\
    snd (do_call fuel s1 t2 (CAcq o2 m blk tm poll skip)) = RTrue.
Proof. exact reacquire_after_release_lemma. Qed.
Print Assumptions reacquire_after_release.

(* A non-reentrant lock refuses a second acquire, also by its own holder. *)
Theorem nonreentrant_refuses_second_acquire :
  forall reent dflt oproc tproc s o t d t2 m blk tm poll skip fuel,
    Rq reent dflt oproc tproc s (Some (o, t, d)) -> reent o = false -> oproc o = tproc t2 ->
    call_fuel_ok dflt fuel (CAcq o m blk tm poll skip) ->
    let res := do_call fuel s t2 (CAcq o m blk tm poll skip) in
    snd res = spec_no (dflt o) m blk tm /\ snd res <> RTrue /\
    (snd res <> RWouldBlock -> Rq reent dflt oproc tproc (fst res) (Some (o, t, d))).
Proof. exact nonreentrant_refuses_lemma. Qed.
Print Assumptions nonreentrant_refuses_second_acquire.

(* A reentrant lock is released only by the release matching its outermost acquire. *)
Theorem only_outermost_release_frees :
  forall reent dflt oproc tproc s o t d fuel,
    Rq reent dflt oproc tproc s (Some (o, t, d)) -> 2 <= d -> d + 4 <= fuel ->
    let s1 := fst (do_call fuel s t (CRel o false)) in
    Rq reent dflt oproc tproc s1 (Some (o, t, pred d)) /\ is_locked s1 o = true.
Proof. exact only_outermost_release_frees_lemma. Qed.
Print Assumptions only_outermost_release_frees.

(* The trace monitor used on implementation traces (Case_C12.ok: results, is_locked,
   descriptor count, elapsed time and the "who could acquire now" probes judged against the
   abstract spec after every call) accepts the model's own trace for EVERY contract-
   respecting sequence without scripted faults, any number of threads and objects: where the
   implementation's observations equal the model's, the monitor cannot raise a false alarm.
   (FUEL = 600 is the fuel of the correspondence runs; call_fuel_ok bounds each timed
   acquire's polling, length ops + 5 <= FUEL the nesting depth.) *)
Theorem monitor_complete :
  forall nT cfg ops,
    ok_calls (Case_C12.cfg_reent cfg) (Case_C12.cfg_dflt cfg) None ops = true ->
    (forall tc, In tc ops -> call_fuel_ok (Case_C12.cfg_dflt cfg) Case_C12.FUEL (snd tc)) ->
    length ops + 5 <= Case_C12.FUEL ->
    Case_C12.ok (Case_C12.CSeq nT cfg [] ops (Case_C12.model_trace (Case_C12.CSeq nT cfg [] ops [] 0)) 0) = true.
Proof. exact monitor_complete_C12_lemma. Qed.
Print Assumptions monitor_complete.

(* Model-free soundness: what acceptance means for an OBSERVED trace.  If the monitor accepts
   a case in which no injected fault fired ([clean]) and the observed calls respect the
   contract ([contract]: decided on the abstract spec alone), then no kernel/table mismatch
   was seen, every call was answered unless the last one blocks, and the observations
   [conforms] to the abstract Lock/RLock spec along the observed call sequence: every result is
   the spec's result; after every call is_locked of every object, the number of open
   descriptors (1 iff held) and the "who could acquire now" probes are those of the spec's
   state; a non-blocking acquire took no time, a timed one at most T + poll, a release
   none (FLockSound.v; the model FLock.v is not mentioned). *)
Theorem monitor_sound :
  forall nT cfg fl ops observed km,
    Case_C12.ok (Case_C12.CSeq nT cfg fl ops observed km) = true ->
    S12.contract cfg None ops (length observed) = true -> S12.clean observed ->
    km = 0 /\ S12.conforms nT cfg None ops observed /\
    (length observed = length ops \/
     exists x rest, rev observed = x :: rest /\ fst (fst (fst (fst (fst (fst x))))) = RWouldBlock).
Proof. exact S12.monitor_sound_C12_lemma. Qed.
Print Assumptions monitor_sound.

(* Non-vacuity of the sequential theorems: an 8-call sequence with nesting, a refused
   acquire by the other thread, a polling with-statement that times out, an inner and
   a forced release, a re-acquire by the other thread on the other object, a no-op
   release of an unheld lock. *)
Definition ex_cfg : list (bool * tmo) := [(true, TNeg); (false, TVal 4%N)].
Definition ex_ops : list (tid * call) :=
  [(0, CAcq 0 MPlain true TNone 2%N 0); (0, CAcq 0 MPlain false TNone 2%N 0);
   (1, CAcq 0 MPlain false TNone 2%N 0); (1, CAcq 1 MWith true TNone 2%N 0);
   (0, CRel 0 false); (0, CRel 0 true); (1, CAcq 1 MCtx true (TVal 3%N) 2%N 0); (1, CRel 0 false)].
Example refines_example :
  ok_calls (Case_C12.cfg_reent ex_cfg) (Case_C12.cfg_dflt ex_cfg) None ex_ops = true /\
  (length ex_ops + 4 <=? 40) = true /\
  fst (run_calls 40 (Case_C12.init_seq 2 ex_cfg []) ex_ops) = [RTrue; RTrue; RFalse; RTimeout; RNone; RNone; RTrue; RNone] /\
  no_block (fst (spec_calls (Case_C12.cfg_reent ex_cfg) (Case_C12.cfg_dflt ex_cfg) None ex_ops)) = true /\
  snd (spec_calls (Case_C12.cfg_reent ex_cfg) (Case_C12.cfg_dflt ex_cfg) None ex_ops) = Some (1, 1, 1).
Proof. vm_compute. repeat split. Qed.
(* three processes: object i and thread i belong to process i+1 *)
Definition exp_ocfg : list (pid * bool * tmo) := [(1, true, TNeg); (2, false, TVal 4%N); (3, false, TNeg)].
Definition exp_tcfg : list (pid * list call) := [(1, []); (2, []); (3, [])].
Definition exp_ops : list (tid * call) :=
  [(0, CAcq 0 MPlain true TNone 2%N 0); (1, CAcq 1 MWith true TNone 2%N 0); (2, CAcq 2 MPlain false TNone 2%N 0);
   (0, CAcq 0 MCtx true TNone 2%N 0); (0, CRel 0 true); (2, CAcq 2 MPlain true TNone 2%N 0); (1, CAcq 1 MPlain true (TVal 2%N) 2%N 0)].
Example refines_procs_example :
  ok_calls (cfgo_reent exp_ocfg) (cfgo_dflt exp_ocfg) None exp_ops = true /\
  fst (run_calls 40 (init_cfg exp_ocfg exp_tcfg []) exp_ops) = [RTrue; RTimeout; RFalse; RTrue; RNone; RTrue; RFalse] /\
  snd (spec_calls (cfgo_reent exp_ocfg) (cfgo_dflt exp_ocfg) None exp_ops) = Some (2, 2, 1).
Proof. vm_compute. repeat split. Qed.
Example refines_procs_example_hyps : forall tc, In tc exp_ops ->
  call_proc_ok (cfgo_proc exp_ocfg) (cfgt_proc exp_tcfg) tc /\ call_fuel_ok (cfgo_dflt exp_ocfg) 40 (snd tc).
Proof.
  intros tc H. cbn in H.
  repeat (destruct H as [<-|H];
    [split; [vm_compute; auto|cbn; first [exact I | split; [intros T E; vm_compute in E; try discriminate; vm_compute; discriminate|vm_compute; repeat constructor]]]|]).
  destruct H.
Qed.

Example monitor_sound_example :
  let obs := Case_C12.model_trace (Case_C12.CSeq 2 ex_cfg [] ex_ops [] 0) in
  Case_C12.ok (Case_C12.CSeq 2 ex_cfg [] ex_ops obs 0) = true /\
  S12.contract ex_cfg None ex_ops (length obs) = true /\
  forallb (fun x : Case_C12.sobs => match x with (_, _, _, _, fi, _, pf) => Nat.eqb fi 0 && Nat.eqb pf 0 end) obs = true.
Proof. vm_compute. repeat split. Qed.

Example refines_example_fuel : forall tc, In tc ex_ops -> call_fuel_ok (Case_C12.cfg_dflt ex_cfg) 40 (snd tc).
Proof.
  intros tc H. cbn in H.
  repeat (destruct H as [<-|H];
    [cbn; first [exact I | split; [intros T E; vm_compute in E; try discriminate; vm_compute; discriminate|vm_compute; repeat constructor]]|]).
  destruct H.
Qed.

(* Non-vacuity: two objects and two threads in one process; thread 1 holds object 1.
   Thread 0 on object 0: a non-blocking acquire gives False at once; a timed
   acquire_ctx polls and raises TimeoutError at tick 6 <= 5+5+2; with an OSError
   injected into the close after the failed flock the acquire re-raises it; a release
   with OSErrors in both unlock and close still gives the lock up. *)
Definition acq (o : oid) : call := CAcq o MPlain true TNone 2%N 0.
Definition ex0 (fl : list (skind * nat * bool)) : state :=
  run (init_cfg [(0, true, TNeg); (0, false, TVal 4%N)] [(0, []); (0, [acq 1])] fl) [EStep 1; EStep 1; EStep 1; EStep 1].
Example ex0_hyps :
  viol (ex0 []) = false /\ t_pc (thr (ex0 []) 0) = PIdle /\ dead (ex0 []) (t_proc (thr (ex0 []) 0)) = false /\
  o_proc (objs (ex0 []) 0) = t_proc (thr (ex0 []) 0) /\ holder (ex0 []) = Some 0 /\ inside_b (ex0 []) 1 = true.
Proof. vm_compute. repeat split. Qed.
Example fail_examples :
  snd (do_call 50 (ex0 []) 0 (CAcq 0 MPlain false TNone 2%N 0)) = RFalse /\
  fst (normalise (objs (ex0 []) 0) false TNone) = false /\
  snd (do_call 50 (ex0 []) 0 (CAcq 0 MCtx true (TVal 5%N) 2%N 0)) = RTimeout /\
  snd (normalise (objs (ex0 []) 0) true (TVal 5%N)) = TVal 5%N /\
  now (fst (do_call 50 (ex0 []) 0 (CAcq 0 MCtx true (TVal 5%N) 2%N 0))) = 6%N /\
  snd (do_call 50 (ex0 [(KClose, 0, false)]) 0 (CAcq 0 MPlain true (TVal 5%N) 2%N 0)) = ROSErr /\
  nfired (fst (do_call 50 (ex0 [(KClose, 0, false)]) 0 (CAcq 0 MPlain true (TVal 5%N) 2%N 0))) = 1.
Proof. vm_compute. repeat split. Qed.
(* the interrupt flavour (KeyboardInterrupt): out of flock -> the descriptor is closed and the call re-raises
   (fix ad374ce); out of open -> nothing was opened, clean-up, re-raise; in both cases no descriptor is left *)
Example fail_examples_interrupt :
  snd (do_call 50 (ex0 [(KLock, 1, true)]) 0 (CAcq 0 MPlain true TNone 2%N 0)) = ROSErr /\
  nfds (fst (do_call 50 (ex0 [(KLock, 1, true)]) 0 (CAcq 0 MPlain true TNone 2%N 0))) = nfds (ex0 [(KLock, 1, true)]) /\
  snd (do_call 50 (ex0 [(KOpen, 1, true)]) 0 (CAcq 0 MWith true TNone 2%N 0)) = ROSErr /\
  snd (do_call 50 (ex0 [(KLock, 1, false)]) 0 (CAcq 0 MPlain false TNone 2%N 0)) = RFalse.
Proof. vm_compute. repeat split. Qed.
Example release_faults_example :
  let s0 := ex0 [(KUnlock, 0, true); (KClose, 0, false)] in
  viol s0 = false /\ o_fd (objs s0 1) = Some 0 /\ o_own (objs s0 1) = Some 1 /\ o_cnt (objs s0 1) = 1 /\
  o_dep (objs s0 1) = o_cnt (objs s0 1) /\
  nfired (fst (do_call 5 s0 1 (CRel 1 false))) = 2 /\ holder (fst (do_call 5 s0 1 (CRel 1 false))) = None.
Proof. vm_compute. repeat split. Qed.
