(* props/C03.v — C03: buffered calls are never lost.  ONLY theorem statements
   about the executable model Buffer.v (the model the correspondence check runs
   against /repo), each closed by a lemma of BufferCore.v / BufferFlag.v /
   BufferOnce.v / BufferProgress.v, with Print Assumptions beneath, and
   non-vacuity Examples at the end.

   Vocabulary.  [trace T evs]: per external event, what the harness observes
   (FnStart callno set tick / FnEnd callno ok set / WaitRet / DaemonEnded) when
   the buffer has timeout T.  [final T evs]: the model state after the events.
   [ok_sets tr]: the arguments of the calls of [tr] that returned without error
   (the sets of the FnEnd _ true _ observations, concatenated).
   Ghost history of a state s: [off (gh s)] = every argument handed to the buffer
   so far, in order (characterised by handed_is_event_offers below);
   [g_loaded (gh s)] = every argument added to an `inputs` set so far.
   [cur_ins (dm s)] = the current round's `inputs` set — which is the running
   call's set while a call runs; [pend (prods s)] = arguments sitting in a
   producer the buffer holds (queued, being gathered, being loaded) and has not
   iterated yet.  Event lists are arbitrary (all producer kinds, producer
   failures at any position, any function outcomes, waits, shutdown, and the
   foreign-thread halves of _put). *)
From Coq Require Import List Arith NArith Bool.
Import ListNotations.
Require Import Aiuti.Buffer Aiuti.BufferCore Aiuti.BufferFlag Aiuti.BufferJoin Aiuti.BufferQuiet
               Aiuti.BufferOnce Aiuti.BufferProgress Aiuti.Case_Buffer Aiuti.Case_C03 Aiuti.BufferMon Aiuti.BufferMonSound Aiuti.BufferTrk Aiuti.BufferMon3 Aiuti.BufferMon3B.

(* The function only ever receives arguments that were submitted: every element
   of every set passed to the function in the macro step of event e was handed
   to the buffer by an event of the history up to and including e — as an
   immediate argument of a Submit / FPut (plain call, map()), or as the argument
   of a scripted yield (PYield) of an awaitable / async-iterable producer. *)
Theorem only_submitted :
  forall (T : N) (pre : list event) (e : event) c set t x,
    In (FnStart c set t) (snd (step (final T pre) e)) -> In x set ->
    exists p e', In e' (pre ++ [e]) /\ ev_hands e' p x.
Proof. exact only_submitted_lemma. Qed.
Print Assumptions only_submitted.

(* No loss (safety).  At every quiescent point of every history, as long as the
   daemon lives: every argument handed to the buffer so far — including the
   elements a producer yielded before it failed — is in a call that returned
   without error, or is held in the round's input set (= the running call's
   set), or is still pending in a producer the buffer holds. *)
Theorem no_loss_inv :
  forall (T : N) (evs : list event) (x : nat),
    let s := final T evs in
    is_dead s = false -> In x (off (gh s)) ->
    In x (ok_sets (concat (trace T evs))) \/ In x (cur_ins (dm s)) \/ In x (pend (prods s)).
Proof. exact no_loss_inv_lemma. Qed.
Print Assumptions no_loss_inv.

(* "Kept and offered again": an argument that has once been loaded into an input
   set stays in the round's input set until a call containing it returns
   without error (a failed call removes nothing; a producer failure removes
   nothing). *)
Theorem loaded_stays_held :
  forall (T : N) (evs : list event) (x : nat),
    let s := final T evs in
    is_dead s = false -> In x (g_loaded (gh s)) ->
    In x (ok_sets (concat (trace T evs))) \/ In x (cur_ins (dm s)).
Proof. exact loaded_held_lemma. Qed.
Print Assumptions loaded_stays_held.

(* The ghost list "handed to the buffer" is exactly what the events say: the
   immediate arguments of each accepted Submit / FPut (unused producer id, live
   buffer) and the argument of each PYield that reached a producer that is
   submitted and still open ([new_offers], BufferCore.v). *)
Theorem handed_is_event_offers :
  forall (T : N) (evs : list event), off (gh (final T evs)) = map snd (offers_from (init T) evs).
Proof. exact handed_is_offers. Qed.
Print Assumptions handed_is_event_offers.

(* Exactly once from the loop's own thread.  In every history in which no
   foreign event.clear() lands in the window between event.set() and the loop
   test (no FnOkThenFClear; in particular in every own-thread history), no value
   is passed to successful calls more often than it was handed over ... *)
Theorem exactly_once_own_thread :
  forall (T : N) (evs : list event),
    ~ In FnOkThenFClear evs ->
    forall x, count_occ Nat.eq_dec (ok_sets (concat (trace T evs))) x
              <= count_occ Nat.eq_dec (off (gh (final T evs))) x.
Proof. exact exactly_once_lemma. Qed.
Print Assumptions exactly_once_own_thread.

(* ... so distinct arguments are each in at most one successful call. *)
Theorem exactly_once_distinct :
  forall (T : N) (evs : list event),
    ~ In FnOkThenFClear evs -> NoDup (off (gh (final T evs))) ->
    NoDup (ok_sets (concat (trace T evs))).
Proof. exact exactly_once_nodup. Qed.
Print Assumptions exactly_once_distinct.

(* Progress ("eventually").  From ANY reachable live state in which the daemon is
   not parked on a slow producer and every queued producer has already ended or
   failed (e.g. after the script closed the open producers), the continuation
      FnOk ; Advance d (d >= timeout) ; FnOk
   — the function succeeds for the running and the next call, a full timeout
   passes, no new submission — delivers EVERY argument handed to the buffer so
   far in a successful call, and leaves the buffer idle with an empty queue. *)
Theorem no_loss_progress :
  forall (T : N) (evs : list event) (d : N),
    (T <= d)%N -> let s := final T evs in
    is_dead s = false -> parked (dm s) = true -> all_fin (q s) ->
    forall x, In x (off (gh s)) -> In x (ok_sets (concat (trace T (evs ++ tail d)))).
Proof. exact no_loss_progress_lemma. Qed.
Print Assumptions no_loss_progress.

Theorem settles_idle :
  forall (T : N) (evs : list event) (d : N),
    (T <= d)%N -> let s := final T evs in
    is_dead s = false -> parked (dm s) = true -> all_fin (q s) ->
    let s' := final T (evs ++ tail d) in
    dm s' = DIdle /\ q s' = [] /\ is_dead s' = false.
Proof. exact settle_lemma. Qed.
Print Assumptions settles_idle.

(* With foreign-thread events in the history nothing above except exactly-once
   needs a side condition: no_loss_inv, loaded_stays_held and no_loss_progress
   quantify over ALL event lists.  Restated for histories that do contain
   foreign events: at least once. *)
Theorem foreign_at_least_once :
  forall (T : N) (evs : list event) (d : N),
    own_thread evs = false -> (T <= d)%N -> let s := final T evs in
    is_dead s = false ->
    (forall x, In x (off (gh s)) ->
       In x (ok_sets (concat (trace T evs))) \/ In x (cur_ins (dm s)) \/ In x (pend (prods s))) /\
    (parked (dm s) = true -> all_fin (q s) ->
     forall x, In x (off (gh s)) -> In x (ok_sets (concat (trace T (evs ++ tail d))))).
Proof. exact foreign_at_least_once_lemma. Qed.
Print Assumptions foreign_at_least_once.

(* The trace monitor used on implementation traces is Case_C03.ok = ok_csets && ok_walk.
   Its call-set part is COMPLETE: it accepts the model's own trace of every event list ... *)
Theorem callset_monitor_complete :
  forall (T : N) (evs : list event), ok_csets (Case T evs (trace T evs)) = true.
Proof. exact csets_complete. Qed.
Print Assumptions callset_monitor_complete.

(* ... and SOUND, independently of the model: in any observed trace it accepts, every
   FnEnd c _ set is preceded by the FnStart of that very call c with that very set
   (the set was not changed under the call), with no other call start or end between. *)
Theorem callset_monitor_sound :
  forall (T : N) (evs : list event) (observed : list (list obs)),
    ok_csets (Case T evs observed) = true ->
    forall pre c ok set rest, concat observed = pre ++ FnEnd c ok set :: rest ->
      exists pre' t mid, pre = pre' ++ FnStart c set t :: mid /\ Forall no_call mid.
Proof. exact csets_sound. Qed.
Print Assumptions callset_monitor_sound.

(* The walk part of the monitor, read MODEL-FREE: whenever it accepts an (input script, observed
   trace) pair — the tracker [trk_run trk0] is a function of the script alone —
     * script and trace have one entry per event, and Hang is never observed;
     * every element of every set passed to the function had been handed over by the script up to
       that step (immediate arguments of accepted Submit / FPut, accepted scripted yields);
     * the set of a failed call is contained in the set of the next call;
     * if the script lets the buffer settle (all producers closed, then FnOk; Advance>=T; FnOk),
       everything the script handed over is in a call that ended without error;
     * own-thread scripts with distinct arguments: no argument in two successful calls. *)
Theorem walk_monitor_sound :
  forall (T : N) (evs : list event) (observed : list (list obs)),
    Case_C03.ok_walk (Case T evs observed) = true ->
    length evs = length observed /\ ~ In Hang (concat observed) /\
    (forall epre e epost opre o1 c set t o2 opost,
       evs = epre ++ e :: epost -> observed = opre ++ (o1 ++ FnStart c set t :: o2) :: opost ->
       length epre = length opre ->
       forall x, In x set -> In x (offered_args (trk_run trk0 (epre ++ [e])))) /\
    (forall pre c f mid c' set' t' rest,
       concat observed = pre ++ FnEnd c false f :: mid ++ FnStart c' set' t' :: rest -> Forall no_call mid ->
       forall y, In y f -> In y set') /\
    (settled T evs = true ->
       forall x, In x (offered_args (trk_run trk0 evs)) -> In x (ok_sets (concat observed))) /\
    (own_thread evs = true -> NoDup (offered_args (trk_run trk0 evs)) -> NoDup (ok_sets (concat observed))).
Proof. exact c03_walk_sound. Qed.
Print Assumptions walk_monitor_sound.

(* The input tracker of the monitors (a function of the script alone) agrees with the model on what
   has been handed to the buffer, after EVERY event list — this is what ties the monitors' reading
   of the input to the model. *)
Theorem tracker_agrees_on_offers :
  forall (T : N) (evs : list event), offered_args (trk_run trk0 evs) = off (gh (final T evs)).
Proof. exact offered_args_final. Qed.
Print Assumptions tracker_agrees_on_offers.

(* COMPLETENESS of the whole monitor.  For EVERY timeout and EVERY event list (all producer kinds, producer
   failures, function outcomes, waits, shutdown, foreign halves) the trace monitor
   Case_C03.ok = ok_csets && ok_offered && ok_once && ok_walk accepts the model's own trace — including the walk
   part with "failed set offered again" and "settled tail => everything handed over is delivered".  So on any
   case where the implementation's trace equals the model's trace the monitor cannot raise an alarm. *)
Theorem monitor_complete :
  forall (T : N) (evs : list event), Case_C03.ok (Case T evs (trace T evs)) = true.
Proof. exact c03_monitor_complete. Qed.
Print Assumptions monitor_complete.

(* (the three tracker-free / tracker-based sub-monitors separately) *)
Theorem monitor_complete_partial :
  forall (T : N) (evs : list event),
    ok_csets (Case T evs (trace T evs)) = true /\
    ok_offered (Case T evs (trace T evs)) = true /\
    ok_once (Case T evs (trace T evs)) = true.
Proof. exact c03_complete_partial. Qed.
Print Assumptions monitor_complete_partial.

Theorem monitor_implies_callset_part : forall c, Case_C03.ok c = true -> ok_csets c = true.
Proof. exact ok_implies_csets. Qed.
Print Assumptions monitor_implies_callset_part.

(* ---- non-vacuity ------------------------------------------------------------------ *)

(* ... and exactly-once is NOT claimed with foreign threads: a foreign clear inside
   the set/test window makes the round go on with the same inputs, argument 1 is
   passed to two successful calls (the legal duplicate) *)
Example dup_foreign_example :
  let evs := [Submit 0 (Plain 1); Advance 8; FnOkThenFClear; FPut 1 (Plain 2); Advance 8; FnOk] in
  own_thread evs = false /\
  concat (trace 8 evs) = [FnStart 0 [1] 8%N; FnEnd 0 true [1]; FnStart 1 [1; 2] 16%N; FnEnd 1 true [1; 2]] /\
  ok_sets (concat (trace 8 evs)) = [1; 1; 2] /\ off (gh (final 8 evs)) = [1; 2].
Proof. vm_compute. repeat split; reflexivity. Qed.

(* a history with a failing call, a failing async producer whose prefix survives,
   a submission under the running call: hypotheses of no_loss_inv hold with all
   three disjuncts inhabited, and the progress continuation delivers everything *)
Example no_loss_example :
  let evs := [Submit 0 Async; PYield 0 1; Submit 1 (Plain 2); PYield 0 3; PFail 0; Advance 9;
              Submit 2 (Plain 4); FnFail; Submit 3 Async; PYield 3 5] in
  let s := final 8 evs in
  is_dead s = false /\ off (gh s) = [1; 2; 3; 4; 5] /\
  concat (trace 8 evs) = [FnStart 0 [1; 2; 3] 8%N; FnEnd 0 false [1; 2; 3]] /\
  cur_ins (dm s) = [1; 2; 3; 4; 5] /\ parked (dm s) = false /\
  let evs2 := evs ++ [PEnd 3] in
  parked (dm (final 8 evs2)) = true /\ q (final 8 evs2) = [] /\
  ok_sets (concat (trace 8 (evs2 ++ tail 8))) = [1; 2; 3; 4; 5].
Proof. vm_compute. repeat split; reflexivity. Qed.

(* pending disjunct: an argument yielded by a queued producer while a call runs *)
Example pending_example :
  let evs := [Submit 0 (Plain 1); Advance 8; Submit 1 Async; PYield 1 7] in
  let s := final 8 evs in
  off (gh s) = [1; 7] /\ cur_ins (dm s) = [1] /\ pend (prods s) = [7] /\ ok_sets (concat (trace 8 evs)) = [].
Proof. vm_compute. repeat split; reflexivity. Qed.

(* only_submitted: the offers of a concrete history *)
Example offers_example :
  offers_from (init 8) [Submit 0 (SyncIter [4; 5; 6] (Some 2)); Submit 1 Aw; PYield 1 9; PYield 1 10; PYield 7 11;
                        Submit 0 (Plain 12)]
  = [(0, 4); (0, 5); (1, 9)].
Proof. vm_compute. reflexivity. Qed.

(* exactly once: own-thread history with a retry *)
Example once_example :
  let evs := [Submit 0 (Plain 1); Advance 8; Submit 1 (Plain 2); FnFail; Advance 8; FnOk; Submit 2 (Plain 3); Advance 8; FnOk] in
  ~ In FnOkThenFClear evs /\ NoDup (off (gh (final 8 evs))) /\ ok_sets (concat (trace 8 evs)) = [1; 2; 3].
Proof.
  vm_compute. split; [intros H; repeat (destruct H as [H|H]; [discriminate|]); exact H|].
  split; [repeat constructor; simpl; intuition discriminate|reflexivity].
Qed.

(* the call-set sub-monitor rejects a set changed under the call and overlapping calls *)
Example callset_monitor_rejects :
  csets None [FnStart 0 [1] 8%N; FnEnd 0 true [1; 2]] = None /\
  csets None [FnStart 0 [1] 8%N; FnStart 1 [2] 9%N] = None /\
  csets None [FnStart 0 [1] 8%N; WaitRet 0 8%N 0; FnEnd 0 false [1]; FnStart 1 [1] 16%N] = Some (Some (1, [1])).
Proof. vm_compute. repeat split; reflexivity. Qed.
