(* props/C09.v — C09: cancelling one batcher caller never disturbs the others.
   ONLY theorem statements about the executable macro-step model
   coq/theories/Batcher.v, each closed by a lemma of BatcherProps.v (invariants in
   BatcherInv.v), with Print Assumptions beneath, and non-vacuity Examples.

   The statements are those of props/C04.v for ALL event lists, now WITH arbitrary
   [Cancel i] events at any position (caller queued, batch running before or after
   the result, caller already answered, unknown caller), any number of them, mixed
   with calls sharing the cancelled caller's key, chained calls, SetMax, time.
   Vocabulary: see props/C04.v ([produced], [outcome_from_batch], [located]).

   The model describes the repaired code (fix F4: callers await shield(fut), the key
   is released by the future's done-callback).  On the unrepaired code the check
   finds the scenario of DESIGN §6/F4 again (seeded/revert-F4). *)
From Coq Require Import List Arith NArith Bool.
Import ListNotations.
Require Import Aiuti.Case_Batcher Aiuti.BatcherSim Aiuti.Case_Batcher_C04 Aiuti.Case_Batcher_Full Aiuti.Case_C09 Aiuti.Batcher Aiuti.BatcherLimits Aiuti.BatcherTime Aiuti.BatcherInv Aiuti.BatcherProps.

(* Every completion in the trace is either the Cancelled of a caller that a Cancel
   event of the list names, or exactly the outcome the batch function produced for
   that caller's key in the batch that carried its future — whoever else was
   cancelled, before, during or after that batch, in the same batch or sharing the
   same key (a sharer's outcome is the outcome of the future it joined). *)
Theorem own_outcome_under_cancel :
  forall c evs, cfg_ok c -> Forall ev_ok evs ->
  forall i o t, In (CallerDone i o t) (concat (fst (run c evs))) ->
  let s := snd (run c evs) in
  exists cl, nth_error (callers s) i = Some cl /\ cl_st cl = Some o /\
             cl_key cl = key_of (cl_arg cl) (cl_ko cl) /\
             ((o = Cancelled /\ In (Cancel i) evs) \/ outcome_from_batch s cl o).
Proof. exact own_outcome_lemma. Qed.
Print Assumptions own_outcome_under_cancel.

(* Cancelled is reported only for a caller that a Cancel event names. *)
Theorem cancelled_only_by_cancel :
  forall c evs i t, In (CallerDone i Cancelled t) (concat (fst (run c evs))) -> In (Cancel i) evs.
Proof. exact cancelled_only_by_cancel_lemma. Qed.
Print Assumptions cancelled_only_by_cancel.

(* After any event list with cancellations: a caller still waiting (in particular:
   not cancelled) waits for a pending future whose item the batcher still holds
   (open batch, queued batch, or futs of a running batch). *)
Theorem always_answered_under_cancel :
  forall c evs, cfg_ok c -> Forall ev_ok evs ->
  let s := snd (run c evs) in
  forall cl, In cl (callers s) -> cl_st cl = None ->
    is_done s (cl_fid cl) = false /\
    exists it, In it (g_items s) /\ it_key it = cl_key cl /\ it_fid it = cl_fid cl /\ located s it.
Proof. exact always_answered_inv_lemma. Qed.
Print Assumptions always_answered_under_cancel.

(* ... and the end of a batch answers all its items, cancelled callers or not. *)
Theorem batch_end_answers_under_cancel :
  forall c evs b e, cfg_ok c -> Forall ev_ok evs -> (e = BFinish b \/ exists x, e = BRaise b x) ->
  let s := snd (run c evs) in
  forall B, find_batch s b = Some B ->
  let s' := snd (run c (evs ++ [e])) in
  (forall it, In it (b_items B) -> is_done s' (it_fid it) = true) /\
  (forall cl it, In cl (callers s') -> In it (b_items B) -> cl_fid cl = it_fid it -> cl_st cl <> None).
Proof. exact batch_end_answers_lemma. Qed.
Print Assumptions batch_end_answers_under_cancel.

(* No background task dies, whatever is cancelled (on the unrepaired code the
   fan-out over two cancelled futures killed the batch task). *)
Theorem no_task_died_under_cancel :
  forall c evs, cfg_ok c -> Forall ev_ok evs -> ~ In TaskDied (concat (fst (run c evs))).
Proof. exact no_task_died_lemma. Qed.
Print Assumptions no_task_died_under_cancel.

(* The batcher keeps serving: after ANY event list (any cancellations), a call whose
   key is not remembered, followed by batch_timeout ticks, has by then been handed to
   the batch function (a BatchStart containing it is in the trace) — unless all
   max_concurrent_batches slots are taken, in which case it is queued for the next
   free slot (props/C10.v says it starts the moment one frees). *)
Theorem keeps_serving :
  forall c evs a ko, cfg_ok c -> Forall ev_ok evs -> (0 < c_bt c)%N ->
  let s := snd (run c evs) in
  lookup (ret s) (key_of a ko) = None ->
  let evs2 := evs ++ [Call a ko; Advance (c_bt c)] in
  let s2 := snd (run c evs2) in
  let it := mkitem (key_of a ko) a (nfut s) (now s) (maxb s) in
  In it (g_items s2) /\
  ((exists b its t, In (BatchStart b (map ka its) t) (concat (fst (run c evs2))) /\ In it its) \/
   (length (running s2) = c_conc c /\ exists w, In w (waiting s2) /\ In it w)).
Proof. exact keeps_serving_lemma. Qed.
Print Assumptions keeps_serving.

(* COMPLETENESS of the monitor of the C09 check (Case_C09.ok = ok_C04 && ok_C11, evaluated on
   scripts with Cancel events) on event lists without Chain events, batch_timeout > 0: it
   accepts the canonical trace of the model for every configuration and every such event list
   — in particular with arbitrary cancellations.  So a rejection by the C09 check is always a
   real difference between the implementation's trace and the model's. *)
Theorem monitor_complete_nochain :
  forall c evs, cfg_ok c -> (0 < c_bt c)%N -> Forall ev_ok evs ->
  forallb (fun e => negb (is_chain e)) evs = true ->
  Case_C09.ok (BCase c evs (map canon (fst (run c evs))) (waiting_callers (snd (run c evs)))) = true.
Proof. exact ok_C09_complete. Qed.
Print Assumptions monitor_complete_nochain.

(* The same on ALL event lists, Chain events included (batch_timeout > 0): the monitor of the
   C09 check accepts the canonical trace of the model for every configuration and every
   event list — arbitrary cancellations, tasks that call again in the continuation of their
   answer, cancellations of such tasks.  Proof: Case_Batcher_Full.v. *)
Theorem monitor_complete :
  forall c evs, cfg_ok c -> (0 < c_bt c)%N -> Forall ev_ok evs ->
  Case_C09.ok (BCase c evs (map canon (fst (run c evs))) (waiting_callers (snd (run c evs)))) = true.
Proof. exact ok_C09_complete_all. Qed.
Print Assumptions monitor_complete.

(* ---- non-vacuity --------------------------------------------------------------------- *)

Definition ex_cfg := mkcfg 3 1 10%N 0%N.
(* callers 0,1,2 (keys 1,2,1): 2 shares 0's future.  Caller 0 — the creator — is cancelled
   while queued, caller 1 while the batch runs; the sharer 2 still gets key 1's value, and
   a fresh call for key 1 afterwards is served by a new batch. *)
Definition ex_evs :=
  [Call 1 None; Call 2 None; Call 1 None; Cancel 0; Advance 10; Cancel 1;
   BYield 0 2 (Val 8); BYield 0 1 (Val 7); BFinish 0; Call 1 None; Advance 10; BRaise 1 4].

Example ex_hyps : cfg_ok ex_cfg /\ Forall ev_ok ex_evs.
Proof. split; [split; simpl; auto | repeat constructor]. Qed.

Example ex_trace :
  map (filter is_done_obs) (fst (run ex_cfg ex_evs)) =
  [[]; []; []; [CallerDone 0 Cancelled 0%N]; []; [CallerDone 1 Cancelled 10%N]; [];
   [CallerDone 2 (Ret 7) 10%N]; []; []; []; [CallerDone 3 (RaisedExc 4) 20%N]].
Proof. vm_compute. reflexivity. Qed.

Example ex_no_death : ~ In TaskDied (concat (fst (run ex_cfg ex_evs))).
Proof. vm_compute. intuition discriminate. Qed.

(* keeps_serving's hypothesis holds after the cancellations: key 5 is not remembered *)
Example ex_keeps : lookup (ret (snd (run ex_cfg (firstn 9 ex_evs)))) (key_of 5 None) = None /\ (0 < c_bt ex_cfg)%N.
Proof. vm_compute. split; reflexivity. Qed.
