(* props/C13.v — C13: a crashed holder never leaves the FileLock stuck.
   ONLY theorem statements about the executable model FLock.v, each closed by a
   lemma of FLockCrash.v (invariants: FLockInv.v, FLockTL.v, FLockFD.v, FLockMutex.v), of
   FLockMon13.v (monitor completeness) or of FLockSound.v (monitor soundness).

   What is assumed and what is proved.  [ECrash p] / [crash s p] is the KERNEL
   ASSUMPTION: when process p dies every open file description of p is closed, and a
   closed description no longer carries a flock (validated on the real OS by the
   SIGKILL crash-point enumeration of the correspondence check, never proved).
   Proved, for every reachable state — i.e. whatever point of acquire()/release(),
   blocking, timed, polling, reentrant-nested, mid-release, the threads of p and of
   everybody else have reached, under any OSError script: the FileLock code keeps no
   ownership information anywhere else, so the lock is free or held by a live
   survivor, survivors keep excluding each other, a newcomer gets it at once. *)
From Coq Require Import List Arith NArith Bool.
Import ListNotations.
Require Import Aiuti.FLock Aiuti.FLockInv Aiuti.FLockTL Aiuti.FLockFD Aiuti.FLockMutex Aiuti.FLockExec Aiuti.FLockCrash Aiuti.FLockSound Aiuti.FLockContract Aiuti.FLockMon13.
Require Aiuti.Case_C13.

(* After the crash of p, at ANY point of ANY run: (1) no descriptor of p is open any
   more; (2) if the lock was held through a descriptor of p it is now free; (3) if it
   is still held, then by the same descriptor as before, which is open and belongs to
   a live process other than p. *)
Theorem crash_releases :
  forall ocfg tcfg fl evs p,
    let s := run (init_cfg ocfg tcfg fl) evs in
    let s' := crash s p in
    viol s = false ->
    (forall d, fdown s' d <> Some p) /\
    (forall d, holder s = Some d -> fdown s d = Some p -> holder s' = None) /\
    (forall d, holder s' = Some d ->
       holder s = Some d /\ exists q, fdown s' d = Some q /\ q <> p /\ dead s' q = false).
Proof. exact crash_releases_lemma. Qed.
Print Assumptions crash_releases.

(* Mutual exclusion among the survivors continues to hold: the C02 theorem for event
   lists that contain a crash anywhere (inside_b counts live threads only). *)
Theorem mutex_after_crash :
  forall ocfg tcfg fl evs1 p evs2 t1 t2,
    let s := run (init_cfg ocfg tcfg fl) (evs1 ++ ECrash p :: evs2) in
    viol s = false -> inside_b s t1 = true -> inside_b s t2 = true -> t1 = t2.
Proof. exact mutex_after_crash_lemma. Qed.
Print Assumptions mutex_after_crash.

(* Not stuck: after the crash, if no survivor holds the lock or is in the middle of
   giving it up (no live object records a descriptor, no live thread has a descriptor
   in flight), then an idle contender of a live process obtains the lock with its
   first attempt — for every flavour of acquire (m, blk, tm), in 4 primitive steps,
   without waiting.  No clean-up of the lock file by anyone is involved. *)
Theorem acquirable_after_crash :
  forall ocfg tcfg fl evs p tF oF m blk tm poll skip fuel,
    let s := run (init_cfg ocfg tcfg fl) evs in
    let s' := crash s p in
    viol s = false ->
    (forall o, dead s' (o_proc (objs s' o)) = false -> o_fd (objs s' o) = None) ->
    (forall t, dead s' (t_proc (thr s' t)) = false -> pc_fd (t_pc (thr s' t)) = None) ->
    dead s' (t_proc (thr s' tF)) = false -> t_pc (thr s' tF) = PIdle ->
    o_proc (objs s' oF) = t_proc (thr s' tF) -> o_own (objs s' oF) = None ->
    faulty s' KOpen = false -> faulty s' KLock = false ->
    4 <= fuel ->
    snd (do_call fuel s' tF (CAcq oF m blk tm poll skip)) = RTrue.
Proof. exact acquirable_after_crash_lemma. Qed.
Print Assumptions acquirable_after_crash.

(* No soft state: the content of the lock file (the only thing a crashed process
   could leave behind on disk) never influences any step — two runs that differ only
   in the file's content stay equal in every other component. *)
Theorem no_soft_state :
  forall evs s c,
    let s1 := run (set_file s c) evs in
    let s2 := run s evs in
    objs s1 = objs s2 /\ thr s1 = thr s2 /\ holder s1 = holder s2 /\ fdown s1 = fdown s2 /\
    dead s1 = dead s2 /\ now s1 = now s2 /\ viol s1 = viol s2 /\
    (forall t, inside_b s1 t = inside_b s2 t) /\ (forall o, is_locked s1 o = is_locked s2 o).
Proof. exact no_soft_state_obs_lemma. Qed.
Print Assumptions no_soft_state.

(* Model-free soundness of the monitor used on the crash runs (Case_C13.ok): if it accepts an
   observed case then, after the kill, a fresh non-blocking acquire succeeded at once (and
   again later) when nobody else was around; while a survivor held the lock the fresh acquire
   was refused (no overlap with the survivor) and succeeded after the survivor released; a
   survivor that was waiting obtained the lock. *)
Theorem monitor_sound :
  forall reent dflt prog scen wb vops vres died w_held probe1 probe2,
    Case_C13.ok (Case_C13.CCrash reent dflt prog scen wb vops vres died w_held probe1 probe2) = true ->
    (scen = 0 -> probe1 = true /\ probe2 = true) /\
    (scen = 1 -> probe1 = false /\ probe2 = true) /\
    (2 <= scen -> w_held = true /\ probe1 = false /\ probe2 = true).
Proof. exact S13.monitor_sound_C13_lemma. Qed.
Print Assumptions monitor_sound.

(* Completeness of the same monitor w.r.t. the model (it never rejects what the model predicts):
   for EVERY victim program on its own object (any flavour of acquire / release, any length),
   killed after ANY number of primitive steps — i.e. at every pc of acquire / release the
   enumeration can reach — in each of the three scenarios (alone / a survivor holds / a survivor
   starts waiting after the death), provided the victim respected the usage contract up to its
   death (viol = false), the waiter/probe observations the model predicts are accepted by
   Case_C13.ok.  Together with the agreement clause of the verdict this says: an alarm of the
   C13 check on the real library is a disagreement with the model, never a monitor artefact.
   This statement is for w_before = false, died = true; monitor_complete_all below covers the
   waiter started while the victim runs and the victim that exited before the kill. *)
Theorem monitor_complete :
  forall reent dflt prog scen vops vres a b c ops rs wh p1 p2,
    scen <= 2 -> (forall cl, In cl prog -> call_obj cl = 0) ->
    viol (victim_end Case_C13.FUEL reent dflt prog scen (length vops)) = false ->
    Case_C13.model_trace (Case_C13.CCrash reent dflt prog scen false vops vres true a b c) = (ops, rs, wh, p1, p2) ->
    Case_C13.ok (Case_C13.CCrash reent dflt prog scen false vops vres true wh p1 p2) = true.
Proof. exact monitor_complete_C13_lemma. Qed.
Print Assumptions monitor_complete.

(* The same with the contract in its static, decidable form (FLockContract.prog_okb: the program
   releases only what it holds on both outcomes of every acquire): no hypothesis on the run. *)
Theorem monitor_complete_static :
  forall reent dflt prog scen vops vres a b c ops rs wh p1 p2,
    scen <= 2 -> (forall cl, In cl prog -> call_obj cl = 0) -> prog_okb (S (length prog)) [] prog = true ->
    Case_C13.model_trace (Case_C13.CCrash reent dflt prog scen false vops vres true a b c) = (ops, rs, wh, p1, p2) ->
    Case_C13.ok (Case_C13.CCrash reent dflt prog scen false vops vres true wh p1 p2) = true.
Proof. exact monitor_complete_static_C13_lemma. Qed.
Print Assumptions monitor_complete_static.

(* ALL kinds of cases the driver produces.  [wb]: the waiter was started while the victim was still
   running (at the victim's first success; the model interleaves: victim up to there, the waiter's
   blocking acquire — which parks in flock behind the victim, or gets a free path at once —, the
   victim's remaining steps, the death, the parked waiter resumed); [died = false]: the victim was
   not killed but had finished (vquiet: idle, its object released).  For every victim program on
   its own object, every number of steps, every scenario (wb only in scenario 2, as generated),
   inside the contract: the model's (waiter, probe1, probe2) is accepted by Case_C13.ok.  Key facts
   behind it (FLockMon13.v): while the waiter is parked its descriptor never becomes the kernel
   holder (step_holder + FD), after the victim is gone nobody live references the holder, so the
   parked flock goes through in one step. *)
Theorem monitor_complete_all :
  forall reent dflt prog scen wb vops vres died a b c ops rs wh p1 p2,
    scen <= 2 -> (wb = true -> scen = 2) -> (forall cl, In cl prog -> call_obj cl = 0) ->
    viol (victim_end_all Case_C13.FUEL reent dflt prog scen wb (length vops)) = false ->
    vquiet died (victim_end_all Case_C13.FUEL reent dflt prog scen wb (length vops)) ->
    Case_C13.model_trace (Case_C13.CCrash reent dflt prog scen wb vops vres died a b c) = (ops, rs, wh, p1, p2) ->
    Case_C13.ok (Case_C13.CCrash reent dflt prog scen wb vops vres died wh p1 p2) = true.
Proof. exact monitor_complete_all_C13_lemma. Qed.
Print Assumptions monitor_complete_all.

(* ... and with the contract in its static form. *)
Theorem monitor_complete_all_static :
  forall reent dflt prog scen wb vops vres died a b c ops rs wh p1 p2,
    scen <= 2 -> (wb = true -> scen = 2) -> (forall cl, In cl prog -> call_obj cl = 0) ->
    prog_okb (S (length prog)) [] prog = true ->
    vquiet died (victim_end_all Case_C13.FUEL reent dflt prog scen wb (length vops)) ->
    Case_C13.model_trace (Case_C13.CCrash reent dflt prog scen wb vops vres died a b c) = (ops, rs, wh, p1, p2) ->
    Case_C13.ok (Case_C13.CCrash reent dflt prog scen wb vops vres died wh p1 p2) = true.
Proof. exact monitor_complete_all_static_C13_lemma. Qed.
Print Assumptions monitor_complete_all_static.

(* the hypotheses hold on concrete cases: waiter started before the crash, victim killed in the middle
   of its release (after unlock, before close); and a victim that finished without being killed *)
Example monitor_complete_all_examples :
  let prog := [Case_C13.acq_blk 0; CRel 0 false] in
  (viol (victim_end_all Case_C13.FUEL false TNeg prog 2 true 6) = false /\
   Case_C13.model_trace (Case_C13.CCrash false TNeg prog 2 true [1;2;3;4;1;8] [] true false false false)
   = ([1; 2; 3; 4; 1; 8], [RTrue], true, false, true)) /\
  (let s := victim_end_all Case_C13.FUEL false TNeg prog 2 true 8 in
   viol s = false /\ t_pc (thr s 0) = PIdle /\ o_fd (objs s 0) = None) /\
  Case_C13.model_trace (Case_C13.CCrash false TNeg prog 2 true [1;2;3;4;1;8;5;7] [] false false false false)
  = ([1; 2; 3; 4; 1; 8; 5; 7], [RTrue; RNone], true, false, true).
Proof. vm_compute. repeat split. Qed.

(* the hypotheses of monitor_complete hold on a concrete case: reentrant victim killed in the
   middle of its release (after unlock, before close), survivor waiting afterwards *)
Example monitor_complete_example :
  let prog := [Case_C13.acq_blk 0; Case_C13.acq_blk 0; CRel 0 true] in
  viol (victim_end Case_C13.FUEL true TNeg prog 2 7) = false /\
  (Case_C13.model_trace (Case_C13.CCrash true TNeg prog 2 false [1;2;3;4;1;2;1] [] true false false false)
   = ([1; 2; 3; 4; 1; 2; 1], [RTrue; RTrue], true, false, true)).
Proof. vm_compute. split; reflexivity. Qed.

(* Non-vacuity.  Process 1 (thread 0, object 0) holds the lock; process 2 (thread 1,
   object 1) is idle.  Crash of process 1: the holder was a descriptor of process 1 and
   is released; all hypotheses of acquirable_after_crash hold; the newcomer gets True. *)
Definition acq (o : oid) : call := CAcq o MPlain true TNone 2%N 1.
Definition ex_pre := run (init_cfg [(1, false, TNeg); (2, false, TNeg)] [(1, [acq 0; CRel 0 false]); (2, [])] [])
                         [EStep 0; EStep 0; EStep 0; EStep 0].
Example crash_example_held_then_free :
  viol ex_pre = false /\ inside_b ex_pre 0 = true /\ holder ex_pre = Some 0 /\ fdown ex_pre 0 = Some 1 /\
  holder (crash ex_pre 1) = None /\ inside_b (crash ex_pre 1) 0 = false.
Proof. vm_compute. repeat split. Qed.
Example acquirable_example_hyps :
  let s' := crash ex_pre 1 in
  (forall o, dead s' (o_proc (objs s' o)) = false -> o_fd (objs s' o) = None) /\
  (forall t, dead s' (t_proc (thr s' t)) = false -> pc_fd (t_pc (thr s' t)) = None) /\
  dead s' (t_proc (thr s' 1)) = false /\ t_pc (thr s' 1) = PIdle /\
  o_proc (objs s' 1) = t_proc (thr s' 1) /\ o_own (objs s' 1) = None /\
  faulty s' KOpen = false /\ faulty s' KLock = false /\
  snd (do_call 4 s' 1 (CAcq 1 MPlain false TNone 2%N 0)) = RTrue.
Proof.
  cbv zeta. split; [|split].
  - intros [|[|o]]; vm_compute; auto; discriminate.
  - intros [|[|t]]; vm_compute; auto.
  - vm_compute. repeat split.
Qed.
(* a victim killed in the middle of release (after unlock, before close) with a survivor waiting *)
Example crash_example_mid_release :
  let s := run (init_cfg [(1, true, TNeg); (2, false, TNeg)]
                  [(1, [acq 0; acq 0; CRel 0 true]); (2, [acq 1])] [])
               [EStep 0; EStep 0; EStep 0; EStep 0; EStep 0; EStep 0; EStep 1; EStep 1; EStep 1; EStep 0; EStep 0] in
  viol s = false /\ opcode s 0 = 5 /\ opcode s 1 = 4 /\ enabled s 1 = true /\
  inside_b (run (crash s 1) [EStep 1]) 1 = true.
Proof. vm_compute. repeat split. Qed.
