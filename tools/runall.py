#!/venv/bin/python
"""Run every claimed check on the unchanged tree:  tools/runall.py [--tier quick] [--seed N] [--jobs J] [ids...]"""
import json, os, subprocess, sys, time
from concurrent.futures import ThreadPoolExecutor
V = os.path.dirname(os.path.dirname(os.path.abspath(__file__)))
args = sys.argv[1:]
tier = args[args.index('--tier') + 1] if '--tier' in args else 'quick'
seed = args[args.index('--seed') + 1] if '--seed' in args else '0'
jobs = int(args[args.index('--jobs') + 1]) if '--jobs' in args else 1
ids = [a for a in args if a.startswith('C')]
m = json.load(open(os.path.join(V, 'MANIFEST.json')))
checks = [c for c in m['checks'] if not ids or c['property_id'] in ids]
def one(c):
    t = time.time()
    env = dict(os.environ, VERIF_SEED=seed, VERIF_TIER=tier)
    cmd = c['quick_cmd'] if tier == 'quick' else c['thorough_cmd']
    p = subprocess.run(cmd, shell=True, env=env, stdout=subprocess.PIPE, stderr=subprocess.STDOUT, text=True)
    lines = [l for l in p.stdout.splitlines() if l.startswith(('VIOLATION', 'KNOWN-FINDING'))]
    last = p.stdout.strip().splitlines()[-1] if p.stdout.strip() else ''
    return c['property_id'], p.returncode, round(time.time() - t, 1), lines, last
bad = 0
with ThreadPoolExecutor(jobs) as ex:
    for pid, rc, wall, lines, last in ex.map(one, checks):
        print(f'{pid} exit={rc} {wall}s {" | ".join(lines)[:200]}  :: {last[:160]}', flush=True)
        bad += rc != 0
print('ALL GREEN' if not bad else f'{bad} checks not green')
sys.exit(1 if bad else 0)
