#!/venv/bin/python
"""Confirm a seeded change produced by a sub-agent, in a scratch worktree:
   tools/confirm.py <worktree> <mutdir> <seeded-name> [--skip-suite]
 - clean tree: demo exits 0 ; patch applies ; suite still 42 passed ; demo exits 1 ; revert.
On success copies patch.diff, demo.py, meta.json (+ 'confirmed') to /verif/seeded/<name>/."""
import json, os, re, shutil, subprocess, sys, time

def run(cmd, cwd=None, env=None, timeout=1200):
    try:
        p = subprocess.run(cmd, cwd=cwd, env=env, stdout=subprocess.PIPE, stderr=subprocess.STDOUT, text=True, timeout=timeout)
        return p.returncode, p.stdout
    except subprocess.TimeoutExpired as e:
        return 124, (e.stdout or '') if isinstance(e.stdout, str) else 'TIMEOUT'

def main():
    wt, mut, name = sys.argv[1:4]
    skip = '--skip-suite' in sys.argv
    env = dict(os.environ, PYTHONPATH=wt, PYTHONHASHSEED='0')
    env.pop('AIUTI_VERIF', None)
    run(['git', '-C', wt, 'checkout', '--', '.'])
    res = {}
    rc0 = [run(['/venv/bin/python', os.path.join(mut, 'demo.py')], cwd=mut, env=env, timeout=120)[0] for _ in range(2)]
    res['demo_clean'] = rc0
    rc, out = run(['git', '-C', wt, 'apply', os.path.join(mut, 'patch.diff')])
    res['apply'] = rc
    if rc != 0:
        print(name, 'patch does not apply', out); return 1
    try:
        if not skip:
            rc, out = run(['/venv/bin/python', '-m', 'pytest', '-q', '-p', 'no:cacheprovider', '--timeout=900'], cwd=wt, env=env)
            m = re.search(r'(\d+) failed, (\d+) passed', out) or re.search(r'(\d+) passed', out)
            res['suite'] = m.group(0) if m else out[-300:]
            failed = re.findall(r'^FAILED (\S+)', out, re.M)
            res['suite_failed'] = failed
        rc1 = [run(['/venv/bin/python', os.path.join(mut, 'demo.py')], cwd=mut, env=env, timeout=120)[0] for _ in range(2)]
        res['demo_patched'] = rc1
    finally:
        run(['git', '-C', wt, 'checkout', '--', '.'])
        run(['git', '-C', wt, 'clean', '-fdq'])
    ok = (rc0 == [0, 0] and res['demo_patched'] == [1, 1] and
          (skip or (res['suite'].startswith('2 failed, 42 passed') and
                    sorted(res['suite_failed']) == ['aiuti/asyncio.py::aiuti.asyncio.to_async_iter', 'aiuti/asyncio.py::aiuti.asyncio.to_sync_iter'])))
    res['confirmed'] = ok
    print(name, json.dumps(res))
    if ok:
        dst = os.path.join('/verif/seeded', name)
        os.makedirs(dst, exist_ok=True)
        shutil.copy(os.path.join(mut, 'patch.diff'), dst)
        shutil.copy(os.path.join(mut, 'demo.py'), dst)
        meta = json.load(open(os.path.join(mut, 'meta.json')))
        meta['confirmed_by_lead'] = dict(res, at=time.strftime('%Y-%m-%dT%H:%M:%SZ', time.gmtime()),
            how='tools/confirm.py in a scratch worktree: demo exit 0 on clean tree (x2), patch applies, pinned suite 42 passed / 2 network doctests failed, demo exit 1 with patch (x2), reverted')
        json.dump(meta, open(os.path.join(dst, 'meta.json'), 'w'), indent=1)
    return 0 if ok else 1

if __name__ == '__main__':
    sys.exit(main())
