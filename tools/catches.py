#!/venv/bin/python
"""Prints the DESIGN.md §11 table from seeded/*/meta.json + result.json."""
import json, os, sys
V = os.path.dirname(os.path.dirname(os.path.abspath(__file__)))
S = os.path.join(V, 'seeded')
rows = []
for name in sorted(os.listdir(S)):
    d = os.path.join(S, name)
    if not os.path.exists(os.path.join(d, 'meta.json')):
        continue
    m = json.load(open(os.path.join(d, 'meta.json')))
    r = json.load(open(os.path.join(d, 'result.json'))) if os.path.exists(os.path.join(d, 'result.json')) else {}
    res = r.get('results', {})
    cells = []
    for p, v in res.items():
        st = v.get('status', '?')
        if st == 'caught':
            st += ' (no-failing-input-found)' if 'no-failing-input-found' in v.get('line', '') else ' (concrete replay)'
        cells.append(f'{p}: {st}')
    summ = (m.get('summary') or '').replace('|', '/').replace('\n', ' ')
    rows.append(f"| {name} | {m.get('property', '')} | {summ[:150]}… | {'; '.join(cells) or 'not run yet'} |")
print('| seeded change | property | what it does | result of `tools/seeded.py` (quick tier) |')
print('|---|---|---|---|')
print('\n'.join(rows))
