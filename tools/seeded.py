#!/venv/bin/python
"""Run the registered checks against the seeded regressions in /verif/seeded/.

    tools/seeded.py [--inplace] [--tier quick] [name ...]

Default: each patch is applied to a scratch copy of /repo (outside /repo and
/verif, removed afterwards) and the checks run with AIUTI_REPO=<copy>.
--inplace: git -C /repo apply / checkout -- . (only when nothing else uses /repo).
Writes seeded/<name>/result.json and prints a table.  The evidence file of each
check is saved before and restored after the run (evidence describes the unchanged tree).
"""
import json, os, shutil, subprocess, sys, tempfile, time

VERIF = os.path.dirname(os.path.dirname(os.path.abspath(__file__)))
SEEDED = os.path.join(VERIF, 'seeded')


def run(cmd, **kw):
    return subprocess.run(cmd, stdout=subprocess.PIPE, stderr=subprocess.STDOUT, text=True, **kw)


def main():
    args = sys.argv[1:]
    inplace = '--inplace' in args
    tier = 'quick'
    if '--tier' in args:
        tier = args[args.index('--tier') + 1]
    names = [a for a in args if not a.startswith('--') and a != tier]
    if not names:
        names = sorted(d for d in os.listdir(SEEDED) if os.path.exists(os.path.join(SEEDED, d, 'patch.diff')))
    rows = []
    for name in names:
        d = os.path.join(SEEDED, name)
        meta = json.load(open(os.path.join(d, 'meta.json')))
        props = meta.get('checks') or [meta['property']]
        patch = os.path.join(d, 'patch.diff')
        if inplace:
            tree = '/repo'
            r = run(['git', '-C', tree, 'apply', patch])
        else:
            tree = tempfile.mkdtemp(prefix='seeded_tree_')
            shutil.rmtree(tree)
            shutil.copytree('/repo', tree, ignore=shutil.ignore_patterns('.git', '__pycache__', '.benchmarks'))
            r = run(['git', 'apply', '--directory', tree.lstrip('/'), '--unsafe-paths', patch], cwd='/') \
                if False else run(['patch', '-p1', '-s', '-i', patch], cwd=tree)
        if r.returncode != 0:
            print(name, 'PATCH DOES NOT APPLY', r.stdout[-300:])
            rows.append((name, props, 'no-apply', ''))
            if not inplace:
                shutil.rmtree(tree, ignore_errors=True)
            continue
        res = {}
        try:
            for p in props:
                if not os.path.exists(os.path.join(VERIF, 'harness', 'props', p + '.py')):
                    res[p] = dict(status='no-check')
                    continue
                env = dict(os.environ, AIUTI_REPO=tree)
                env.pop('_AIUTI_VERIF_ENV', None)
                t0 = time.time()
                evf = os.path.join(VERIF, 'evidence', p + '.json')
                saved = open(evf).read() if os.path.exists(evf) else None
                r = run([os.path.join(VERIF, 'check'), p, '--tier', tier], env=env, cwd=VERIF)
                if saved is not None:       # evidence must describe the unchanged tree
                    open(evf, 'w').write(saved)
                viol = [l for l in r.stdout.splitlines() if l.startswith('VIOLATION')]
                if meta.get('harmless'):
                    st = 'quiet' if (r.returncode == 0 and not viol) else \
                        ('broke-obligation(no-failing-input-found)' if viol and viol[0].rstrip().endswith('no-failing-input-found')
                         else f'FALSE-ALARM(exit={r.returncode})')
                else:
                    st = 'caught' if (r.returncode == 1 and viol) else f'MISSED(exit={r.returncode})'
                res[p] = dict(status=st,
                              line=viol[0] if viol else '', wall_s=round(time.time() - t0, 1),
                              tail=r.stdout[-400:] if not viol else '')
        finally:
            if inplace:
                run(['git', '-C', '/repo', 'checkout', '--', '.'])
            else:
                shutil.rmtree(tree, ignore_errors=True)
        json.dump(dict(tier=tier, results=res, at=time.strftime('%Y-%m-%dT%H:%M:%SZ', time.gmtime())),
                  open(os.path.join(d, 'result.json'), 'w'), indent=1)
        for p, v in res.items():
            print(f"{name:28s} {p} {v['status']:18s} {v.get('wall_s', '')}s {v.get('line', '')[:110]}")
            rows.append((name, p, v['status'], v.get('line', '')))
    by = {}
    for name, p, st, line in rows:
        if str(st).startswith(('quiet', 'broke-obligation', 'FALSE-ALARM')):
            continue
        by.setdefault(name, []).append(str(st).startswith('caught'))
    caught = [n for n, v in by.items() if any(v)]
    print(f'\n{len(caught)}/{len(by)} seeded changes caught by at least one of their checks; missed: '
          f'{sorted(n for n in by if n not in caught)}')
    return 0


if __name__ == '__main__':
    sys.exit(main())
