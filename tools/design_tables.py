#!/venv/bin/python
"""Regenerates the machine-written tables of DESIGN.md (between the AUTO markers):
   as-built summary per property (from harness/props/*.py, coq/props/*.v, evidence/*.json)
   and the seeded-regression table (tools/catches.py).   Usage: tools/design_tables.py [--write]"""
import importlib, json, os, re, subprocess, sys
V = os.path.dirname(os.path.dirname(os.path.abspath(__file__)))
sys.path.insert(0, V)
os.environ.setdefault('PYTHONPATH', '/repo:' + V)
sys.path.insert(0, '/repo')
from harness import common as C

def asbuilt():
    rows = ['| id | claimed | model / proof files (closure of props file) | theorems in props/Cxx.v | last evidence (tier: cases, non-trivial) |',
            '|---|---|---|---|---|']
    for i in range(1, 21):
        pid = f'C{i:02d}'
        mp = os.path.join(V, 'harness', 'props', pid + '.py')
        if not os.path.exists(mp):
            rows.append(f'| {pid} | no | — | — | — |'); continue
        mod = importlib.import_module('harness.props.' + pid)
        pf = os.path.join(C.COQ, 'props', mod.PROPS_MODULE + '.v')
        ths = C.theorems_of(pf) if os.path.exists(pf) else []
        files = [os.path.basename(f)[:-2] for f in C.closure([f'props/{mod.PROPS_MODULE}.v'] + [t[:-1] for t in mod.MODEL_TARGETS])
                 if f.startswith('theories/') and os.path.basename(f) != 'CaseLib.v']
        gens = [os.path.basename(f)[:-2] for f in C.closure([f'props/{mod.PROPS_MODULE}.v']) if f.startswith('gen/')]
        ev = ''
        ef = os.path.join(V, 'evidence', pid + '.json')
        if os.path.exists(ef):
            e = json.load(open(ef)); c = e['coverage']
            ev = f"{e['tier']}: {c.get('evaluations')} cases, {c.get('distinct_nontrivial')} non-trivial, {c.get('discharged')}/{c.get('obligations')} obligations"
        rows.append(f"| {pid} | {'yes' if getattr(mod, 'READY', False) else 'no'} | {', '.join(files)}{(' + generated ' + ', '.join(gens)) if gens else ''} | "
                    f"{len(ths)}: {', '.join('`' + t + '`' for t in ths)} | {ev} |")
    return '\n'.join(rows)

def catches():
    return subprocess.run([os.path.join(V, 'tools', 'catches.py')], capture_output=True, text=True).stdout.strip()

def main():
    parts = {'asbuilt': asbuilt(), 'catches': catches()}
    if '--write' not in sys.argv:
        for k, v in parts.items():
            print(f'== {k}\n{v}\n')
        return
    p = os.path.join(V, 'DESIGN.md'); s = open(p).read()
    for k, v in parts.items():
        b, e = f'<!-- BEGIN AUTO:{k} -->', f'<!-- END AUTO:{k} -->'
        if b in s and e in s:
            s = s[:s.index(b) + len(b)] + '\n' + v + '\n' + s[s.index(e):]
        else:
            print('marker missing for', k)
    open(p, 'w').write(s)
main()
