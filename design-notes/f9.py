"""F9 (C12): a non-OSError raised by the platform lock call (e.g. KeyboardInterrupt while waiting in a
blocking flock) leaves the just-opened descriptor open: a failed acquire leaks a file descriptor.
Exit 1 if a descriptor on the lock file is still open after the failed attempt."""
import os, sys, tempfile, fcntl
from aiuti.filelock import FileLock
d = tempfile.mkdtemp(); p = os.path.join(d, 'l.lock')
lock = FileLock(p)
real = fcntl.flock
calls = []
def flock(fd, op):
    calls.append(op)
    if len(calls) == 1:
        raise KeyboardInterrupt()
    return real(fd, op)
import aiuti.filelock as F
F.fcntl.flock = flock
try:
    try:
        lock.acquire()
    except KeyboardInterrupt:
        pass
finally:
    F.fcntl.flock = real
def fds_on(path):
    n = 0
    for f in os.listdir('/proc/self/fd'):
        try:
            if os.readlink(f'/proc/self/fd/{f}') == path:
                n += 1
        except OSError:
            pass
    return n
leaked = fds_on(p)
print('is_locked', lock.is_locked, 'counter', lock._lock_counter, 'descriptors still open on the lock file:', leaked)
ok2 = lock.acquire(blocking=False); lock.release()
print('re-acquire afterwards:', ok2)
sys.exit(1 if leaked else 0)
