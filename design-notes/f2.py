import threading, tempfile, os
from aiuti.filelock import FileLock
p = os.path.join(tempfile.mkdtemp(), 'l.lock')
holder = FileLock(p); holder.acquire()
fl = FileLock(p, timeout=0.1)
try:
    with fl:
        print("entered with-block; fl.is_locked =", fl.is_locked, " holder.is_locked =", holder.is_locked)
except BaseException as e:
    print("raised", repr(e))
# same object, other thread holds
fl3 = FileLock(p + '2', timeout=0.1); fl3.acquire()
def other():
    with fl3:
        print("T2 entered with-block on object held by T1")
    print("after T2 exit: fl3.is_locked =", fl3.is_locked, "(T1 never released)")
t = threading.Thread(target=other); t.start(); t.join()
