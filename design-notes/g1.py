import asyncio as aio, selectors, threading, random, sys
import aiuti.asyncio as A
class Ctl:
    def __init__(self, seed):
        self.rng = random.Random(seed); self.cv = threading.Condition(); self.turn = None
        self.threads = {}; self.vt = 0.0; self.trace = []
    def spawn(self, name, fn):
        t = threading.Thread(target=self._run, args=(name, fn), daemon=True)
        self.threads[name] = dict(t=t, state='ready', enabled=lambda: True, op='start')
        t.start()
    def _run(self, name, fn):
        self._wait_turn(name)
        try: fn()
        finally:
            with self.cv:
                self.threads[name]['state'] = 'done'; self.turn = None; self.cv.notify_all()
    def _wait_turn(self, name):
        with self.cv:
            while self.turn != name: self.cv.wait()
    def yield_point(self, op, enabled=lambda: True):
        name = threading.current_thread().name_
        with self.cv:
            th = self.threads[name]; th['op'] = op; th['enabled'] = enabled
            self.turn = None; self.cv.notify_all()
            while self.turn != name: self.cv.wait()
    def run(self, maxsteps=100000):
        for step in range(maxsteps):
            with self.cv:
                while self.turn is not None: self.cv.wait()
                live = [n for n, th in self.threads.items() if th['state'] != 'done']
                if not live: return 'ok'
                en = [n for n in live if self.threads[n]['enabled']()]
                if not en:
                    # all blocked: advance virtual time to the earliest timer
                    whens = [th['when']() for n, th in self.threads.items() if th['state'] != 'done' and th.get('when') and th['when']() is not None]
                    if not whens: return 'deadlock'
                    self.vt = min(whens); self.trace.append(('adv', self.vt)); continue
                n = self.rng.choice(en); self.trace.append((n, self.threads[n]['op']))
                self.turn = n; self.cv.notify_all()
        return 'steps'
ctl = None
class GLock:
    def __init__(self): self.owner = None
    def acquire(self, blocking=True, timeout=-1):
        ctl.yield_point('lock.acquire', lambda: self.owner is None); self.owner = threading.current_thread(); return True
    def release(self):
        ctl.yield_point('lock.release'); self.owner = None
    __enter__ = acquire
    def __exit__(self, *a): self.release()
class GCache(dict):
    def __getitem__(self, k):
        ctl.yield_point('cache.get'); return dict.__getitem__(self, k)
    def __setitem__(self, k, v):
        ctl.yield_point('cache.set'); dict.__setitem__(self, k, v)
class VSel(selectors.DefaultSelector):
    loop = None
    def select(self, timeout=None):
        L = self.loop
        while True:
            ev = super().select(0)
            if ev or timeout == 0: return ev
            if timeout is not None and L._when() is not None and L._when() <= ctl.vt + 1e-9: return []
            ctl.yield_point('idle', lambda: bool(selectors.DefaultSelector.select(self, 0)) or (L._when() is not None and L._when() <= ctl.vt + 1e-9))
            timeout = -1 if timeout is None else timeout
            if L._when() is not None and L._when() <= ctl.vt + 1e-9: return super().select(0)
class VLoop(aio.SelectorEventLoop):
    def __init__(self):
        s = VSel(); super().__init__(s); s.loop = self
    def time(self): return ctl.vt
    def _when(self): return self._scheduled[0]._when if self._scheduled else None
def main(seed):
    global ctl
    ctl = Ctl(seed); A.Lock = GLock
    inflight = [0]; maxin = [0]; calls = [0]
    @A.threadsafe_async_cache(cache=GCache())
    async def f(x):
        inflight[0] += 1; calls[0] += 1; maxin[0] = max(maxin[0], inflight[0])
        await aio.sleep(1.0); inflight[0] -= 1; return x * x
    res = {}
    def worker(name):
        def w():
            threading.current_thread().name_ = name
            loop = VLoop(); aio.set_event_loop(loop); ctl.threads[name]['when'] = loop._when
            async def m(): return await aio.gather(f(2), f(2))
            res[name] = loop.run_until_complete(m()); loop.close()
        return w
    for n in ['T1', 'T2', 'T3']:
        ctl.spawn(n, worker(n))
    for n in ctl.threads: pass
    # name_ must be set before first yield: set via thread obj
    for n, th in ctl.threads.items(): th['t'].name_ = n
    r = ctl.run()
    return r, res, calls[0], maxin[0], len(ctl.trace), ctl.vt
for seed in range(int(sys.argv[1])):
    out = main(seed)
    if seed < 3 or out[0] != 'ok' or out[2] != 1: print(seed, out)
print("done")
