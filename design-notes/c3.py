# probe (unpatched tree): proxy task cancelled before its first step at shutdown of computing loop
import asyncio as aio, threading, os, sys, logging, warnings
import aiuti.asyncio as lib
warnings.simplefilter('ignore'); logging.disable(logging.CRITICAL)
computing=threading.Event(); registered=threading.Event(); out={}
orig=lib.run_coro_ts
def spy(coro, loop):
    f=orig(coro, loop); registered.set(); return f
lib.run_coro_ts=spy
calls=[]
@lib.threadsafe_async_cache
async def fetch(x):
    calls.append(threading.current_thread().name)
    if len(calls)==1:
        computing.set()
        registered.wait(5)   # block loop 1 until T2 has queued its proxy callback
        raise ValueError('boom')  # computation fails; main returns in the same iteration window
    return x+1
def t1():
    async def main():
        try: await fetch(1)
        except ValueError: pass
    aio.run(main())
def t2():
    async def main(): return await aio.wait_for(fetch(1), 5)
    computing.wait(5)
    try: out['v']=aio.run(main())
    except BaseException as e: out['e']=repr(e)
a=threading.Thread(target=t1,name='T1',daemon=True); b=threading.Thread(target=t2,name='T2',daemon=True)
a.start(); b.start(); b.join(10); a.join(5)
print(calls, out); sys.stdout.flush(); os._exit(0)
