import asyncio as aio, threading, time
from aiuti.asyncio import ensure_aw
L = aio.new_event_loop()
res = {}
def caller(name, delay, dur):
    time.sleep(delay)
    async def aw():
        await aio.sleep(dur); return name
    async def m():
        try:
            res[name] = await aio.wait_for(ensure_aw(aw(), L), 3)
        except BaseException as e:
            res[name] = repr(e)
    aio.run(m())
ts = [threading.Thread(target=caller, args=a) for a in [('c1', 0, 0.2), ('c2', 0.1, 0.4)]]
[t.start() for t in ts]; [t.join() for t in ts]
print(res)
