import asyncio as aio, threading, time
from asyncio import runners
from aiuti.asyncio import threadsafe_async_cache
inflight = 0; log = []
@threadsafe_async_cache
async def f(x):
    global inflight
    inflight += 1; log.append(('start', threading.current_thread().name, inflight))
    try:
        await aio.sleep(0.5)
        return x * x
    finally:
        inflight -= 1; log.append(('end', threading.current_thread().name))
# Loop A: start computing, then stop running with computation pending
A = aio.new_event_loop()
async def a_main():
    aio.create_task(f(2)); await aio.sleep(0.05)
A.run_until_complete(a_main())      # A no longer running; f(2) pending on A
res = {}
def b_thread(name, delay):
    time.sleep(delay)
    async def m():
        try:
            res[name] = await f(2)
        except BaseException as e:
            res[name] = repr(e)
    aio.run(m())
tb = threading.Thread(target=b_thread, args=('B', 0), name='B'); tb.start()
time.sleep(0.1)
# Now shut A down the way aio.run does
runners._cancel_all_tasks(A); A.close()
tc = threading.Thread(target=b_thread, args=('C', 0), name='C'); tc.start()
tb.join(); tc.join()
print(res); print(log)
