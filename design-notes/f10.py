"""F10 (C16): to_async_iter over an Iterator whose source raises an exception whose class is exactly the
builtin TimeoutError (= concurrent.futures.TimeoutError since Python 3.11): asyncio.wrap_future re-creates
the exception (`type(exc)(*exc.args)`), so the consumer receives an equal but DIFFERENT object: not "that
same exception" (traceback, __cause__, attributes are lost).  Exit 1 if identity is lost."""
import asyncio, sys
from aiuti.asyncio import to_async_iter

err = TimeoutError('source timed out')
err.detail = 'kept?'

def src():
    yield 1
    raise err

async def main():
    got = []
    try:
        async for x in to_async_iter(src()):
            got.append(x)
    except BaseException as e:
        return got, e
    return got, None

got, e = asyncio.run(main())
print('elements', got, 'same object:', e is err, 'attribute kept:', getattr(e, 'detail', None))
sys.exit(0 if (got == [1] and e is err) else 1)
