import asyncio as aio, threading, time
from asyncio import runners
from aiuti.asyncio import threadsafe_async_cache
@threadsafe_async_cache
async def f(x):
    await aio.sleep(0.5)
    return x * x
res = {}
def b_thread():
    async def m():
        try:
            res['B'] = await f(2)
        except BaseException as e:
            res['B'] = repr(e)
    aio.run(m())
def a_thread():
    async def a_main():
        t = aio.create_task(f(2)); await aio.sleep(0.2)   # main ends early -> aio.run cancels leftovers incl. proxy wait
    try:
        aio.run(a_main())
    except BaseException as e:
        res['A'] = repr(e)
ta = threading.Thread(target=a_thread); ta.start()
time.sleep(0.05)
tb = threading.Thread(target=b_thread); tb.start()
ta.join(); tb.join()
print(res)
