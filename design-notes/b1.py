import asyncio as aio, logging
from aiuti.asyncio import AsyncBackgroundBatcher
logging.basicConfig(level=logging.ERROR)
async def bf(batch):
    print("batch", batch)
    for k, v in batch:
        await aio.sleep(0.05)
        yield k, v + 1
async def main():
    b = AsyncBackgroundBatcher(bf, max_batch_size=4, batch_timeout=0.05)
    async def call(x, to=None):
        try:
            r = await (aio.wait_for(b(x), to) if to else b(x))
            print("caller", x, "->", r)
        except BaseException as e:
            print("caller", x, "raised", type(e).__name__, e)
    await aio.wait_for(aio.gather(call(1, 0.01), call(2), call(3), call(1), return_exceptions=True), 2)
    print("later:", await aio.wait_for(b(7), 2))
try:
    aio.run(main())
except BaseException as e:
    print("main raised", type(e).__name__, e)
