import threading, tempfile, os
from aiuti.filelock import FileLock
p = os.path.join(tempfile.mkdtemp(), 'l.lock')
fl = FileLock(p, reentrant=True)
fl.acquire(); fl.acquire()
fl.release(force=True)
print("is_locked after force:", fl.is_locked, "counter", fl._lock_counter)
fl.release()  # matching outer
r = {}
t = threading.Thread(target=lambda: r.setdefault('other', fl.acquire(timeout=0.3)))
t.start(); t.join()
print("other thread acquire after forced release:", r)
fl2 = FileLock(p)
print("other object acquire:", fl2.acquire(timeout=0.3)); fl2.release()
