import asyncio as aio, selectors
from aiuti.asyncio import AsyncBackgroundBatcher
TICK = 1/1024
class VSel(selectors.DefaultSelector):
    loop = None
    def select(self, timeout=None):
        ev = super().select(0)
        if ev: return ev
        L = self.loop
        if timeout is None or timeout > 0:
            # quiescent: nothing ready now
            if L.on_quiescent():   # injected something -> loop again
                return []
            if timeout is None:
                raise RuntimeError("idle forever")
            L._vt += timeout
        return []
class VLoop(aio.SelectorEventLoop):
    def __init__(self):
        s = VSel(); super().__init__(s); s.loop = self; self._vt = 0.0; self.script = []
        self._clock_resolution = TICK/4
    def time(self): return self._vt
    def on_quiescent(self):
        if not self.script: return False
        t, fn = self.script[0]
        if t * TICK <= self._vt:
            self.script.pop(0); fn(); return True
        # advance only up to next script time if earlier than timers
        nxt = self._scheduled[0]._when if self._scheduled else None
        if nxt is None or t * TICK < nxt:
            self._vt = t * TICK; return True
        return False
log = []
async def bf(batch):
    L = aio.get_running_loop()
    log.append(('start', round(L.time()/TICK), list(batch)))
    for k, v in batch:
        await aio.sleep(50*TICK)
        yield k, v + 1
    log.append(('end', round(L.time()/TICK)))
loop = VLoop(); aio.set_event_loop(loop)
async def main():
    b = AsyncBackgroundBatcher(bf, max_batch_size=2, batch_timeout=51*TICK)
    done = aio.Event(); n = [0]
    async def call(x):
        r = await b(x); log.append(('ret', round(loop.time()/TICK), x, r)); n[0] += 1
        if n[0] == 4: done.set()
    for t, x in [(0, 1), (10, 2), (20, 3), (100, 4)]:
        loop.script.append((t, lambda x=x: loop.create_task(call(x))))
    await done.wait()
loop.run_until_complete(main())
for l in log: print(l)
