import asyncio as aio, logging, sys
from aiuti.asyncio import buffer_until_timeout
mode = sys.argv[1]
async def main():
    calls = []
    @buffer_until_timeout(timeout=0.2)
    async def buf(args):
        print("func called", args)
        await aio.sleep(0.3)
        print("func done")
    if mode == 'idle':
        await aio.sleep(0.05)
    elif mode == 'armed':
        buf(1); await aio.sleep(0.05)
    elif mode == 'running':
        buf(1); await aio.sleep(0.3)
    print("main exits")
import threading
def watchdog():
    import time, os
    time.sleep(3); print("HANG: shutdown did not terminate"); os._exit(2)
threading.Thread(target=watchdog, daemon=True).start()
loop = aio.new_event_loop(); aio.set_event_loop(loop)
# buffer_until_timeout uses get_event_loop at decoration -> run via loop
try:
    loop.run_until_complete(main())
finally:
    from asyncio import runners
    runners._cancel_all_tasks(loop)
    loop.close()
print("shutdown ok")
